(* M6 — model of internal/api/v2/bulk.go (ProcessBulk) and controllers_bulk.go (bulkHandler).
   Definitions only; proofs are in Bulk/Proofs.v, property theorems in Properties/C18.v.

   The loop of ProcessBulk is modelled over an arbitrary backend: each element carries the outcome the
   backend will give to the call it causes (every element causes at most one call, so "an arbitrary backend
   oracle" and "an arbitrary outcome per element" are the same thing). *)
From Coq Require Export List Bool Arith NArith.
Export ListNotations.

(* element.Action after the switch of bulk.go *)
Inductive action := ACreate | AAddMeta | ARevert | ADelMeta | AUnknown.

(* does element.Data decode for that action (json.Unmarshal of the request struct, then of targetId) *)
Inductive datak := DOk | DBad.

(* what the backend answers to the call; the classes are those bulk.go maps to error codes *)
(* OSame: a failure whose error text does not identify the element (two such failures look identical) *)
Inductive outcome := OSucc | OInsufficient | OCommand | ONotFound | OOther | OSame.

Inductive ecode := ENone | EInsufficientFund | EValidation | ENotFound | EInternal.

Inductive rtype := RAction (a : action) | RError.

Record element := { e_act : action; e_ik : N; e_data : datak; e_out : outcome }.

(* a backend call: which element caused it (position in the bulk), the write it is, the idempotency key *)
Record call := { c_idx : nat; c_act : action; c_ik : N }.

(* one entry of the returned []Result; r_tag identifies the element the entry is about when the entry
   carries something that identifies it (transaction id on success, backend error text on failure) *)
Record result := { r_type : rtype; r_code : ecode; r_tag : option nat }.

Definition action_eqb (a b : action) : bool :=
  match a, b with
  | ACreate, ACreate | AAddMeta, AAddMeta | ARevert, ARevert | ADelMeta, ADelMeta | AUnknown, AUnknown => true
  | _, _ => false
  end.

(* error-code mapping of bulk.go, per action *)
Definition code_of (a : action) (o : outcome) : ecode :=
  match a, o with
  | _, OSucc => ENone
  | ACreate, OInsufficient => EInsufficientFund
  | ACreate, OCommand => EValidation
  | ACreate, _ => EInternal
  | ARevert, OCommand => EValidation
  | ARevert, _ => EInternal
  | AAddMeta, ONotFound => ENotFound
  | AAddMeta, _ => EInternal
  | ADelMeta, ONotFound => ENotFound
  | ADelMeta, _ => EInternal
  | AUnknown, _ => EInternal
  end.

Definition succeeded (o : outcome) : bool := match o with OSucc => true | _ => false end.

(* an element that cannot be turned into a backend call: unknown action, or data that does not decode *)
Definition invalid (e : element) : bool :=
  match e_act e, e_data e with
  | AUnknown, _ => true
  | _, DBad => true
  | _, DOk => false
  end.

(* does the element fail (no call possible, or the backend refuses) *)
Definition fails (e : element) : bool := invalid e || negb (succeeded (e_out e)).

Definition ok_result (i : nat) (e : element) : result :=
  {| r_type := RAction (e_act e); r_code := ENone;
     r_tag := match e_act e with ACreate | ARevert => Some i | _ => None end |}.
Definition err_result (i : nat) (e : element) : result :=
  {| r_type := RError; r_code := code_of (e_act e) (e_out e);
     r_tag := match e_out e with OSame => None | _ => Some i end |}.
Definition invalid_result : result := {| r_type := RError; r_code := EValidation; r_tag := None |}.

Definition mkcall (i : nat) (e : element) : call := {| c_idx := i; c_act := e_act e; c_ik := e_ik e |}.

Record out := { calls : list call; results : list result; flag : bool }.

Definition cons_out (c : list call) (r : result) (f : bool) (o : out) : out :=
  {| calls := c ++ calls o; results := r :: results o; flag := f || flag o |}.

(* ProcessBulk (current tree): [i] is the position of the head of [els] in the request *)
Fixpoint process (cont : bool) (i : nat) (els : list element) : out :=
  match els with
  | [] => {| calls := []; results := []; flag := false |}
  | e :: rest =>
      if invalid e then
        if cont then cons_out [] invalid_result true (process cont (S i) rest)
        else {| calls := []; results := [invalid_result]; flag := true |}
      else if succeeded (e_out e) then
        cons_out [mkcall i e] (ok_result i e) false (process cont (S i) rest)
      else if cont then
        cons_out [mkcall i e] (err_result i e) true (process cont (S i) rest)
      else {| calls := [mkcall i e]; results := [err_result i e]; flag := true |}
  end.

(* bulkHandler: HTTP status *)
Definition http_status (o : out) : nat := if flag o then 400 else 200.

(* ---- the tree before "fix: bulk" (kept for the refutation theorem only) ------------------------------ *)
(* unknown action: the switch has no default, the element is skipped silently;
   undecodable data: `return nil, errorsInBulk, err` — results dropped, error returned *)
Record out_legacy := { l_out : out; l_err : bool }.
Fixpoint process_legacy (cont : bool) (i : nat) (els : list element) (acc : out) : out_legacy :=
  match els with
  | [] => {| l_out := acc; l_err := false |}
  | e :: rest =>
      match e_act e, e_data e with
      | AUnknown, _ => process_legacy cont (S i) rest acc
      | _, DBad => {| l_out := {| calls := calls acc; results := []; flag := flag acc |}; l_err := true |}
      | _, DOk =>
          if succeeded (e_out e) then
            process_legacy cont (S i) rest
              {| calls := calls acc ++ [mkcall i e]; results := results acc ++ [ok_result i e]; flag := flag acc |}
          else
            let acc' := {| calls := calls acc ++ [mkcall i e]; results := results acc ++ [err_result i e];
                           flag := true |} in
            if cont then process_legacy cont (S i) rest acc' else {| l_out := acc'; l_err := false |}
      end
  end.

(* ---- correspondence: observation of one run of the real code ----------------------------------------- *)
Record obs := { ob_calls : list (nat * action * N); ob_results : list (rtype * ecode * option nat);
                ob_flag : bool; ob_err : bool; ob_status : nat }.

Definition rtype_eqb (a b : rtype) : bool :=
  match a, b with
  | RAction x, RAction y => action_eqb x y
  | RError, RError => true
  | _, _ => false
  end.
Definition ecode_eqb (a b : ecode) : bool :=
  match a, b with
  | ENone, ENone | EInsufficientFund, EInsufficientFund | EValidation, EValidation
  | ENotFound, ENotFound | EInternal, EInternal => true
  | _, _ => false
  end.
Definition onat_eqb (a b : option nat) : bool :=
  match a, b with Some x, Some y => Nat.eqb x y | None, None => true | _, _ => false end.

Fixpoint list_eqb {A} (eqb : A -> A -> bool) (l1 l2 : list A) : bool :=
  match l1, l2 with
  | [], [] => true
  | x :: r1, y :: r2 => eqb x y && list_eqb eqb r1 r2
  | _, _ => false
  end.

Definition call_obs (c : call) := (c_idx c, c_act c, c_ik c).
Definition result_obs (r : result) := (r_type r, r_code r, r_tag r).

Definition check_case (c : bool * list element * obs) : bool :=
  let '(cont, els, ob) := c in
  let o := process cont 0 els in
  list_eqb (fun a b => let '(i, x, k) := a in let '(j, y, l) := b in Nat.eqb i j && action_eqb x y && N.eqb k l)
           (map call_obs (calls o)) (ob_calls ob)
  && list_eqb (fun a b => let '(t, c, g) := a in let '(u, d, h) := b in rtype_eqb t u && ecode_eqb c d && onat_eqb g h)
           (map result_obs (results o)) (ob_results ob)
  && Bool.eqb (flag o) (ob_flag ob) && negb (ob_err ob) && Nat.eqb (http_status o) (ob_status ob).

Fixpoint bad_cases {A} (chk : A -> bool) (n : nat) (l : list A) : list nat :=
  match l with
  | [] => []
  | c :: r => if chk c then bad_cases chk (S n) r else n :: bad_cases chk (S n) r
  end.
