(* Proofs about M6 (Bulk/Model.v). *)
From FL Require Import Bulk.Model.
From Coq Require Import Lia.

(* number of elements ProcessBulk processes: all of them, or up to and including the first failing one *)
Fixpoint nproc (cont : bool) (els : list element) : nat :=
  match els with
  | [] => 0
  | e :: r => if fails e && negb cont then 1 else S (nproc cont r)
  end.

(* what the element at position i contributes *)
Definition result_for (i : nat) (e : element) : result :=
  if invalid e then invalid_result
  else if succeeded (e_out e) then ok_result i e else err_result i e.
Definition calls_for (i : nat) (e : element) : list call :=
  if invalid e then [] else [mkcall i e].

Fixpoint results_spec (i : nat) (els : list element) : list result :=
  match els with [] => [] | e :: r => result_for i e :: results_spec (S i) r end.
Fixpoint calls_spec (i : nat) (els : list element) : list call :=
  match els with [] => [] | e :: r => calls_for i e ++ calls_spec (S i) r end.

Lemma nproc_le cont els : nproc cont els <= length els.
Proof.
  induction els as [|e r IH]; cbn [nproc length]; [lia|].
  destruct (fails e && negb cont); lia.
Qed.

Lemma nproc_cont els : nproc true els = length els.
Proof.
  induction els as [|e r IH]; cbn [nproc length]; [reflexivity|].
  rewrite Bool.andb_false_r. now rewrite IH.
Qed.

Lemma process_spec cont els : forall i,
  let n := nproc cont els in
  let o := process cont i els in
  calls o = calls_spec i (firstn n els) /\
  results o = results_spec i (firstn n els) /\
  flag o = existsb fails (firstn n els).
Proof.
  induction els as [|e r IH]; intro i; cbn zeta.
  - cbn. auto.
  - specialize (IH (S i)). cbn zeta in IH. destruct IH as (IHc & IHr & IHf).
    cbn [process nproc]. unfold fails, result_for, calls_for.
    destruct (invalid e) eqn:Hi; [|destruct (succeeded (e_out e)) eqn:Hs]; destruct cont;
      cbn [orb andb negb firstn calls_spec results_spec existsb cons_out calls results flag app];
      unfold fails, calls_for, result_for; rewrite ?Hi, ?Hs;
      cbn [orb andb negb app calls_spec results_spec existsb];
      rewrite <- ?IHc, <- ?IHr, <- ?IHf; auto.
Qed.

Lemma results_spec_length i els : length (results_spec i els) = length els.
Proof. revert i; induction els as [|e r IH]; intro i; cbn; [reflexivity|now rewrite IH]. Qed.

Lemma results_spec_nth els : forall i k e,
  nth_error els k = Some e -> nth_error (results_spec i els) k = Some (result_for (i + k) e).
Proof.
  induction els as [|e0 r IH]; intros i k e H; destruct k; cbn in *; try discriminate.
  - inversion H; subst. now rewrite Nat.add_0_r.
  - rewrite (IH (S i) k e H). now rewrite Nat.add_succ_r.
Qed.

Lemma calls_spec_idx els : forall i c, In c (calls_spec i els) ->
  exists k e, nth_error els k = Some e /\ invalid e = false /\ c = mkcall (i + k) e.
Proof.
  induction els as [|e0 r IH]; intros i c H; cbn in H; [contradiction|].
  apply in_app_or in H. destruct H as [H|H].
  - unfold calls_for in H. destruct (invalid e0) eqn:Hi; cbn in H; [contradiction|].
    destruct H as [H|[]]. exists 0, e0. rewrite Nat.add_0_r. cbn. auto.
  - destruct (IH _ _ H) as (k & e & Hk & Hi & Hc). exists (S k), e. rewrite Nat.add_succ_r. cbn. auto.
Qed.

(* calls are sorted by position: the order of execution is the order of the request *)
Fixpoint increasing (l : list nat) : Prop :=
  match l with
  | [] => True
  | x :: r => (forall y, In y r -> x < y) /\ increasing r
  end.

Lemma calls_spec_lower els : forall i c, In c (calls_spec i els) -> i <= c_idx c.
Proof.
  intros i c H. destruct (calls_spec_idx _ _ _ H) as (k & e & _ & _ & ->). cbn. lia.
Qed.

Lemma calls_spec_increasing els : forall i, increasing (map c_idx (calls_spec i els)).
Proof.
  induction els as [|e r IH]; intro i; cbn; [exact I|].
  unfold calls_for. destruct (invalid e); cbn [app map increasing]; [apply IH|].
  split; [|apply IH]. intros y Hy. apply in_map_iff in Hy. destruct Hy as (c & <- & Hc).
  apply calls_spec_lower in Hc. cbn. lia.
Qed.

(* stop: with continue-on-failure off, every processed element before the last one succeeded *)
Lemma nproc_stop els : forall k e,
  nth_error els k = Some e -> S k < nproc false els -> fails e = false.
Proof.
  induction els as [|e0 r IH]; intros k e Hk Hlt; cbn in *; [lia|].
  destruct (fails e0) eqn:Hf; cbn in Hlt; [lia|].
  destruct k; cbn in Hk.
  - now inversion Hk; subst.
  - apply (IH k e Hk). lia.
Qed.

Lemma nproc_first_failure els : forall k e,
  nth_error els k = Some e -> fails e = true -> nproc false els <= S k.
Proof.
  induction els as [|e0 r IH]; intros k e Hk Hf; cbn in *; [lia|].
  destruct (fails e0) eqn:Hf0; cbn; [lia|].
  destruct k; cbn in Hk.
  - inversion Hk; subst. congruence.
  - specialize (IH k e Hk Hf). lia.
Qed.

Lemma nth_error_firstn {A} (l : list A) n k : k < n -> nth_error (firstn n l) k = nth_error l k.
Proof.
  revert n k; induction l as [|x r IH]; intros n k H; destruct n, k; cbn; try lia; auto.
  apply IH. lia.
Qed.

Lemma nth_error_firstn_some {A} (l : list A) n k x : nth_error (firstn n l) k = Some x -> k < n /\ nth_error l k = Some x.
Proof.
  revert n k; induction l as [|y r IH]; intros n k H; destruct n, k; cbn in *; try discriminate.
  - split; [lia|assumption].
  - destruct (IH _ _ H). split; [lia|assumption].
Qed.

(* ---- the four clauses -------------------------------------------------------------------------------- *)

Lemma bulk_order cont els :
  let o := process cont 0 els in
  calls o = calls_spec 0 (firstn (nproc cont els) els) /\ increasing (map c_idx (calls o)).
Proof.
  cbn zeta. destruct (process_spec cont els 0) as (Hc & _ & _). cbn zeta in Hc.
  rewrite Hc. split; [reflexivity|apply calls_spec_increasing].
Qed.

Lemma bulk_positions cont els :
  let o := process cont 0 els in
  length (results o) = nproc cont els /\
  forall k e, k < nproc cont els -> nth_error els k = Some e ->
              nth_error (results o) k = Some (result_for k e).
Proof.
  cbn zeta. destruct (process_spec cont els 0) as (_ & Hr & _). cbn zeta in Hr. rewrite Hr. split.
  - rewrite results_spec_length, firstn_length. pose proof (nproc_le cont els). lia.
  - intros k e Hk He. apply (results_spec_nth _ 0 k e). now rewrite nth_error_firstn.
Qed.

Lemma bulk_stop els :
  let o := process false 0 els in
  forall j ej, nth_error els j = Some ej -> fails ej = true ->
  forall c, In c (calls o) -> c_idx c <= j.
Proof.
  cbn zeta. intros j ej Hj Hf c Hc.
  destruct (process_spec false els 0) as (Hcs & _ & _). cbn zeta in Hcs. rewrite Hcs in Hc.
  destruct (calls_spec_idx _ _ _ Hc) as (k & e & Hk & _ & ->). cbn.
  apply nth_error_firstn_some in Hk. destruct Hk as [Hk _].
  pose proof (nproc_first_failure els j ej Hj Hf). lia.
Qed.

Lemma bulk_flag cont els :
  let o := process cont 0 els in
  (http_status o = 400 <-> exists k e, k < nproc cont els /\ nth_error els k = Some e /\ fails e = true) /\
  (http_status o = 200 \/ http_status o = 400).
Proof.
  cbn zeta. destruct (process_spec cont els 0) as (_ & _ & Hf). cbn zeta in Hf.
  unfold http_status. rewrite Hf. split.
  - destruct (existsb fails (firstn (nproc cont els) els)) eqn:Hex.
    + split; [intros _|reflexivity]. apply existsb_exists in Hex. destruct Hex as (e & Hin & Hfe).
      apply In_nth_error in Hin. destruct Hin as (k & Hk). apply nth_error_firstn_some in Hk.
      destruct Hk as [Hlt Hk]. exists k, e. auto.
    + split; [discriminate|]. intros (k & e & Hlt & Hk & Hfe). exfalso.
      assert (existsb fails (firstn (nproc cont els) els) = true); [|congruence].
      apply existsb_exists. exists e. split; [|assumption].
      apply nth_error_In with k. now rewrite nth_error_firstn.
  - destruct (existsb _ _); auto.
Qed.

(* every element is processed when continue-on-failure is on *)
Lemma bulk_continue els : nproc true els = length els.
Proof. apply nproc_cont. Qed.

(* with continue-on-failure off everything before the stop succeeded *)
Lemma bulk_prefix_ok els k e :
  nth_error els k = Some e -> S k < nproc false els -> fails e = false.
Proof. apply nproc_stop. Qed.
