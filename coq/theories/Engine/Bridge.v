(* Bridge between the engine model (M2, Engine/Model.v) and the Numscript source semantics (M1, Numscript/Sem.v)
   through the posting-mode development (M9, Posting/Model.v + Posting/Proofs.v).

   The engine model decides a create / revert request with its own function [covers view unb ps] on a list of
   single-asset postings [(source, destination, amount)]; the real code runs the script TxToScriptData makes of the
   postings on the machine. Posting/Proofs.v proves what that script does under [sem]: it succeeds iff
   [replay_ok unb (view b) ps] and then emits exactly [ps]. Here the two are connected:

     [covers_replay]        replay_ok unb f (lift cur ps) = nonneg_b ps && covers v unb ps     (the heart; no hypothesis
                            on the amounts: the only difference is that the script also rejects a negative amount)
     [bridge_covers_exact]  sem succeeds with exactly the postings  <->  amounts non-negative /\ covers ... = true
     [bridge_covers]        under [nonneg_ps] (what the API validates): sem succeeds ... <-> covers ... = true
     [bridge_serial_at], [bridge_serial_iff]   [serially_valid] (Engine/Spec.v) read with the script semantics
     [bridge_swap_rev]      engine [swap_rev] = Posting [reverse_postings], lifted

   Both models use account 0 for @world ([bridge_world]). Engine/Model.v, Engine/Spec.v, Posting/Model.v are frozen and
   only used, never changed. The two libraries define clashing names ([posting], [world], [delta], [account]); the
   posting-mode development is imported, the engine is referred to through the aliases [EM] / [ES]. *)
From FL Require Import Numscript.Sem Posting.Model Posting.Proofs.
From FL Require Engine.Model Engine.Spec Engine.E4Resume.
From Coq Require Import Lia ZArith List Bool.
Import ListNotations.
Open Scope Z_scope.

Module EM := FL.Engine.Model.
Module ES := FL.Engine.Spec.

(* ================================================================================================================ *)
(* 1. reading an engine request as a posting-mode request over one asset                                              *)
(* ================================================================================================================ *)

Definition lift1 (cur : asset) (p : EM.posting) : posting := mkp (fst (fst p)) (snd (fst p)) cur (snd p).
Definition lift (cur : asset) (ps : list EM.posting) : list posting := map (lift1 cur) ps.
(* the postings of a result, same reading *)
Definition lift_posts (cur : asset) (ps : list EM.posting) : list posting := lift cur ps.

(* the balances the engine's [PLocked -> PBalances] step reads: one pair per non-world account of the postings
   (sources and destinations, [reads_of], repetitions kept as the model keeps them), here out of a machine table *)
Definition engine_view (b : balances) (cur : asset) (ps : list EM.posting) : list (EM.account * Z) :=
  map (fun a => (a, view b a cur)) (EM.reads_of ps).

(* amounts are not negative (Postings.Validate / SetVarsFromJSON reject the request otherwise) *)
Definition nonneg_ps (ps : list EM.posting) : Prop := forall p, In p ps -> 0 <= snd p.
Definition nonneg_b (ps : list EM.posting) : bool := forallb (fun p => 0 <=? snd p) ps.

Lemma nonneg_b_spec : forall ps, nonneg_b ps = true <-> nonneg_ps ps.
Proof.
  intros ps. unfold nonneg_b, nonneg_ps. rewrite forallb_forall. split; intros H p Hp.
  - apply Z.leb_le. apply H. exact Hp.
  - apply Z.leb_le. apply H. exact Hp.
Qed.

Lemma bridge_world : EM.world = world.
Proof. reflexivity. Qed.

Lemma lift_amounts : forall cur ps, nonneg_ps ps -> forall p, In p (lift cur ps) -> 0 <= p_amount p.
Proof.
  intros cur ps H p Hp. unfold lift in Hp. apply in_map_iff in Hp. destruct Hp as [q [E Hq]]. subst p.
  cbn [lift1 mkp p_amount]. apply H. exact Hq.
Qed.

(* ================================================================================================================ *)
(* 2. the two running-balance representations                                                                          *)
(* ================================================================================================================ *)

Lemma br_view_get_add : forall v s d a,
  EM.view_get (EM.view_add v s d) a = if N.eqb a s then EM.view_get v s + d else EM.view_get v a.
Proof. intros v s d a. unfold EM.view_add. cbn [EM.view_get]. destruct (N.eqb a s); reflexivity. Qed.

(* one posting on the engine's association list: every account moves by the posting's delta *)
Lemma br_step : forall v s d amt a,
  EM.view_get (EM.view_add (EM.view_add v s (- amt)) d amt) a
  = EM.view_get v a + ((if N.eqb a d then amt else 0) - (if N.eqb a s then amt else 0)).
Proof.
  intros v s d amt a. rewrite !br_view_get_add.
  destruct (N.eqb_spec a d) as [E1|E1], (N.eqb_spec a s) as [E2|E2], (N.eqb_spec d s) as [E3|E3];
    subst; try congruence; lia.
Qed.

Lemma br_apply1 : forall cur s d amt (f : bmap) a,
  apply1 (mkp s d cur amt) f a cur = f a cur + ((if N.eqb a d then amt else 0) - (if N.eqb a s then amt else 0)).
Proof.
  intros cur s d amt f a. unfold apply1, delta. cbn [mkp p_src p_dst p_asset p_amount].
  rewrite N.eqb_refl, !andb_true_r. reflexivity.
Qed.

Lemma br_view_get_map : forall (g : N -> Z) l a,
  In a l -> EM.view_get (map (fun x => (x, g x)) l) a = g a.
Proof.
  intros g l a. induction l as [|x r IH]; intros H; [destruct H|].
  cbn [map EM.view_get]. destruct (N.eqb_spec a x) as [E|E]; [subst; reflexivity|].
  apply IH. destruct H as [H|H]; [congruence|exact H].
Qed.

(* the association list and the balance map coincide on the ordinary sources of the postings (the only entries
   either decision ever looks at) *)
Definition src_agree (cur : asset) (v : list (EM.account * Z)) (f : bmap) (ps : list EM.posting) : Prop :=
  forall p, In p ps -> fst (fst p) <> world -> EM.view_get v (fst (fst p)) = f (fst (fst p)) cur.

Lemma src_in_reads : forall ps p, In p ps -> fst (fst p) <> world -> In (fst (fst p)) (EM.reads_of ps).
Proof.
  intros ps p Hp Hw. unfold EM.reads_of, EM.non_world. apply filter_In. split.
  - apply in_flat_map. exists p. split; [exact Hp|]. left. reflexivity.
  - destruct (N.eqb_spec (fst (fst p)) EM.world) as [E|E]; [|reflexivity]. exfalso. apply Hw. exact E.
Qed.

(* ================================================================================================================ *)
(* 3. the heart: the engine's decision is the replay of the posting-mode development, up to the sign check        *)
(* ================================================================================================================ *)

Lemma covers_replay : forall cur unb ps v f,
  src_agree cur v f ps ->
  replay_ok unb f (lift cur ps) = nonneg_b ps && EM.covers v unb ps.
Proof.
  intros cur unb. induction ps as [|[[s d] amt] r IH]; intros v f H; [reflexivity|].
  cbn [lift map lift1 fst snd replay_ok nonneg_b forallb EM.covers].
  fold (lift cur r). fold (nonneg_b r).
  change (lift1 cur (s, d, amt)) with (mkp s d cur amt).
  rewrite (IH(EM.view_add (EM.view_add v s (- amt)) d amt) (apply1 (mkp s d cur amt) f)).
  - unfold covered. cbn [mkp p_src p_asset p_amount].
    assert (Hok : (N.eqb s world || unb || (amt <=? Z.max 0 (f s cur)))
                  = (N.eqb s EM.world || unb || (amt <=? Z.max 0 (EM.view_get v s)))).
    { change EM.world with world. destruct (N.eqb_spec s world) as [E|E]; [reflexivity|].
      pose proof (H (s, d, amt) (or_introl eq_refl) E) as Hs. cbn [fst] in Hs. rewrite Hs. reflexivity. }
    rewrite Hok.
    destruct (0 <=? amt), (nonneg_b r), (N.eqb s EM.world || unb || (amt <=? Z.max 0 (EM.view_get v s))),
             (EM.covers (EM.view_add (EM.view_add v s (- amt)) d amt) unb r); reflexivity.
  - intros q Hq Hw. rewrite br_step, br_apply1. rewrite (H q (or_intror Hq) Hw). reflexivity.
Qed.

Lemma engine_view_agree : forall cur b ps, src_agree cur (engine_view b cur ps) (view b) ps.
Proof.
  intros cur b ps p Hp Hw. unfold engine_view.
  apply (br_view_get_map (fun a => view b a cur)). apply src_in_reads; assumption.
Qed.

(* the general form: any association list that shows the table's balances on the ordinary sources *)
Theorem bridge_covers_view : forall cur ps unb b extra v,
  tracks b (lift cur ps) -> src_agree cur v (view b) ps ->
  ((exists r, run_postings (lift cur ps) unb b extra = SOk r /\ res_posts r = lift_posts cur ps)
   <-> nonneg_b ps = true /\ EM.covers v unb ps = true).
Proof.
  intros cur ps unb b extra v Ht Hv. unfold lift_posts.
  pose proof (success_iff (lift cur ps) unb b extra Ht) as Hiff. fold (run_postings (lift cur ps) unb b extra) in Hiff.
  rewrite (covers_replay cur unb ps v (view b) Hv), andb_true_iff in Hiff.
  split.
  - intros [r [Hr _]]. apply Hiff. exists r. exact Hr.
  - intros H. apply Hiff in H. destruct H as [r Hr]. exists r. split; [exact Hr|].
    apply (exact_postings _ _ _ _ _ Hr).
Qed.

(* exact, no hypothesis on the amounts: the script semantics accepts the request (and then emits exactly its
   postings) iff no amount is negative and the engine model's [covers] accepts it on the balances it reads *)
Theorem bridge_covers_exact : forall cur ps unb b extra,
  tracks b (lift cur ps) ->
  ((exists r, run_postings (lift cur ps) unb b extra = SOk r /\ res_posts r = lift_posts cur ps)
   <-> nonneg_b ps = true /\ EM.covers (engine_view b cur ps) unb ps = true).
Proof. intros cur ps unb b extra Ht. apply bridge_covers_view; [exact Ht|apply engine_view_agree]. Qed.

(* the intended statement: for the requests the API lets through (no negative amount) the engine's decision IS the
   decision of the Numscript semantics on the script TxToScriptData makes of them *)
Theorem bridge_covers : forall cur ps unb b extra,
  tracks b (lift cur ps) -> nonneg_ps ps ->
  ((exists r, run_postings (lift cur ps) unb b extra = SOk r /\ res_posts r = lift_posts cur ps)
   <-> EM.covers (engine_view b cur ps) unb ps = true).
Proof.
  intros cur ps unb b extra Ht Hn. rewrite (bridge_covers_exact cur ps unb b extra Ht).
  apply nonneg_b_spec in Hn. rewrite Hn. tauto.
Qed.

(* and the refusal side: [covers = false] is exactly an error of the script, which is insufficient funds *)
Theorem bridge_rejects : forall cur ps unb b extra,
  tracks b (lift cur ps) -> nonneg_ps ps ->
  (EM.covers (engine_view b cur ps) unb ps = false
   <-> run_postings (lift cur ps) unb b extra = SErr EInsufficient).
Proof.
  intros cur ps unb b extra Ht Hn. pose proof (bridge_covers cur ps unb b extra Ht Hn) as Hiff.
  destruct (run_postings (lift cur ps) unb b extra) as [r|e] eqn:Hr.
  - destruct Hiff as [Hiff _]. rewrite Hiff; [split; discriminate|].
    exists r. split; [reflexivity|]. apply (exact_postings _ _ _ _ _ Hr).
  - destruct (failure_class _ _ _ _ _ Ht (lift_amounts cur ps Hn) Hr) as [He _]. subst e.
    destruct (EM.covers (engine_view b cur ps) unb ps); [|split; reflexivity].
    destruct Hiff as [_ Hiff]. destruct (Hiff eq_refl) as [r [Hr' _]]. discriminate.
Qed.

(* a negative amount is where the two differ: the engine model's [covers] does not look at the sign *)
Example bridge_covers_without_nonneg_refuted :
  let ps := [(world, 1%N, -5)] in
  let b := [(world, 0%N, 0)] in
  tracks b (lift 0%N ps) /\ EM.covers (engine_view b 0%N ps) false ps = true /\
  exists e, run_postings (lift 0%N ps) false b [] = SErr e.
Proof.
  cbv zeta. split; [|split; [vm_compute; reflexivity|eexists; vm_compute; reflexivity]].
  intros p [E|[]]. subst p. vm_compute. discriminate.
Qed.

(* ================================================================================================================ *)
(* 4. the store as a balance map; a canonical machine table                                                        *)
(* ================================================================================================================ *)

Definition zero_bal : bmap := fun _ _ => 0.
(* the balances a log produces, in the posting-mode development's terms: its postings applied in log order *)
Definition ledger (cur : asset) (log : list EM.entry) : bmap :=
  apply (lift cur (flat_map EM.e_postings log)) zero_bal.

Lemma br_delta : forall cur a p, EM.delta a p = delta (lift1 cur p) a cur.
Proof.
  intros cur a [[s d] amt]. unfold EM.delta, delta. cbn [lift1 mkp fst snd p_src p_dst p_asset p_amount].
  rewrite N.eqb_refl, !andb_true_r. rewrite (N.eqb_sym d a), (N.eqb_sym s a). reflexivity.
Qed.

Lemma br_fold_postings : forall cur a ps z,
  fold_left (fun acc p => acc + EM.delta a p) ps z = z + sum_delta (lift cur ps) a cur.
Proof.
  intros cur a. induction ps as [|p r IH]; intros z; cbn [fold_left lift map sum_delta]; [lia|].
  fold (lift cur r). rewrite IH, (br_delta cur). lia.
Qed.

Lemma lift_app : forall cur l1 l2, lift cur (l1 ++ l2) = lift cur l1 ++ lift cur l2.
Proof. intros. unfold lift. apply map_app. Qed.

Lemma br_fold_log : forall cur a log z,
  fold_left (fun acc e => fold_left (fun acc p => acc + EM.delta a p) (EM.e_postings e) acc) log z
  = z + sum_delta (lift cur (flat_map EM.e_postings log)) a cur.
Proof.
  intros cur a. induction log as [|e r IH]; intros z; cbn [fold_left flat_map]; [cbn; lia|].
  rewrite IH, (br_fold_postings cur), lift_app, sum_delta_app. lia.
Qed.

(* the engine store's [balance_of] is the posting-mode [apply] of the log's postings from the empty ledger *)
Theorem balance_of_ledger : forall cur log a, EM.balance_of log a = ledger cur log a cur.
Proof.
  intros cur log a. unfold EM.balance_of, ledger. rewrite (br_fold_log cur), apply_sum. reflexivity.
Qed.

Lemma ledger_snoc : forall cur log e a s,
  ledger cur (log ++ [e]) a s = apply (lift cur (EM.e_postings e)) (ledger cur log) a s.
Proof.
  intros cur log e a s. unfold ledger. rewrite flat_map_app. cbn [flat_map]. rewrite app_nil_r, lift_app.
  apply apply_app.
Qed.

(* a machine table shows a balance map on the accounts the engine reads for [ps] *)
Definition reads_agree (cur : asset) (b : balances) (f : bmap) (ps : list EM.posting) : Prop :=
  forall a, In a (EM.reads_of ps) -> view b a cur = f a cur.

(* the table ResolveBalances would build from a store holding [f]: @world and every account of the postings *)
Definition table_of (cur : asset) (f : bmap) (ps : list EM.posting) : balances :=
  (world, cur, 0) :: map (fun a => (a, cur, f a cur)) (EM.reads_of ps).

Lemma br_bal_get_map : forall cur (g : N -> Z) l a,
  In a l -> bal_get (map (fun x => (x, cur, g x)) l) a cur = Some (g a).
Proof.
  intros cur g l a. induction l as [|x r IH]; intros H; [destruct H|].
  cbn [map bal_get]. rewrite N.eqb_refl, andb_true_r.
  destruct (N.eqb_spec a x) as [E|E]; [subst; reflexivity|].
  apply IH. destruct H as [H|H]; [congruence|exact H].
Qed.

Lemma reads_not_world : forall ps a, In a (EM.reads_of ps) -> a <> world.
Proof.
  intros ps a H. unfold EM.reads_of, EM.non_world in H. apply filter_In in H. destruct H as [_ H].
  intros E. subst a. discriminate.
Qed.

Lemma table_of_get : forall cur f ps a,
  In a (EM.reads_of ps) -> bal_get (table_of cur f ps) a cur = Some (f a cur).
Proof.
  intros cur f ps a H. unfold table_of. cbn [bal_get].
  destruct (N.eqb_spec a world) as [E|E]; [exfalso; exact (reads_not_world ps a H E)|]. cbn [andb].
  apply (br_bal_get_map cur (fun x => f x cur)). exact H.
Qed.

Lemma table_of_tracks : forall cur f ps, tracks (table_of cur f ps) (lift cur ps).
Proof.
  intros cur f ps p Hp. unfold lift in Hp. apply in_map_iff in Hp. destruct Hp as [q [E Hq]]. subst p.
  cbn [lift1 mkp p_src p_asset].
  destruct (N.eq_dec (fst (fst q)) world) as [Ew|Ew].
  - rewrite Ew. unfold table_of. cbn [bal_get]. rewrite !N.eqb_refl. cbn [andb]. discriminate.
  - pose proof (table_of_get cur f ps _ (src_in_reads ps q Hq Ew)) as X. intros Hx.
    pose proof (eq_trans (eq_sym X) Hx) as Y. discriminate Y.
Qed.

Lemma table_of_agree : forall cur f ps, reads_agree cur (table_of cur f ps) f ps.
Proof. intros cur f ps a H. unfold view. rewrite (table_of_get cur f ps a H). reflexivity. Qed.

Lemma reads_src_agree : forall cur b f g v ps,
  reads_agree cur b f ps -> (forall a, In a (EM.reads_of ps) -> EM.view_get v a = g a) ->
  (forall a, f a cur = g a) -> src_agree cur v (view b) ps.
Proof.
  intros cur b f g v ps Hb Hv Hfg p Hp Hw. pose proof (src_in_reads ps p Hp Hw) as Hin.
  exact (eq_trans (Hv _ Hin) (eq_trans (eq_sym (Hfg _)) (eq_sym (Hb _ Hin)))).
Qed.

Lemma view_of_get : forall log ps a, In a (EM.reads_of ps) -> EM.view_get (ES.view_of log ps) a = EM.balance_of log a.
Proof. intros log ps a H. unfold ES.view_of. apply (br_view_get_map (EM.balance_of log)). exact H. Qed.

(* ================================================================================================================ *)
(* 5. [serially_valid] read with the script semantics                                                              *)
(* ================================================================================================================ *)

Lemma sv_from_app : forall l1 l2 bf,
  ES.serially_valid_from bf (l1 ++ l2) <-> ES.serially_valid_from bf l1 /\ ES.serially_valid_from (bf ++ l1) l2.
Proof.
  induction l1 as [|e r IH]; intros l2 bf; cbn [app ES.serially_valid_from].
  - rewrite app_nil_r. tauto.
  - rewrite IH, <- app_assoc. cbn [app]. tauto.
Qed.

Lemma sv_at : forall before e after, ES.serially_valid (before ++ e :: after) ->
  EM.covers (ES.view_of before (EM.e_postings e)) (EM.e_unb e) (EM.e_postings e) = true.
Proof.
  intros before e after H. unfold ES.serially_valid in H. apply sv_from_app in H. destruct H as [_ H].
  cbn [app ES.serially_valid_from] in H. tauto.
Qed.

(* one entry of the log, run as its script on a table that shows the store's balances for the accounts the engine
   reads (the balances produced by the entries before it) *)
Definition entry_runs (cur : asset) (f : bmap) (e : EM.entry) : Prop :=
  forall b extra,
    tracks b (lift cur (EM.e_postings e)) -> reads_agree cur b f (EM.e_postings e) ->
    exists r, run_postings (lift cur (EM.e_postings e)) (EM.e_unb e) b extra = SOk r /\
              res_posts r = lift_posts cur (EM.e_postings e).

Lemma entry_runs_iff : forall cur f e before,
  (forall a, f a cur = EM.balance_of before a) ->
  (entry_runs cur f e <->
   nonneg_ps (EM.e_postings e) /\
   EM.covers (ES.view_of before (EM.e_postings e)) (EM.e_unb e) (EM.e_postings e) = true).
Proof.
  intros cur f e before Hf. rewrite <- nonneg_b_spec. split.
  - intros H.
    apply (bridge_covers_view cur (EM.e_postings e) (EM.e_unb e) (table_of cur f (EM.e_postings e)) []).
    + apply table_of_tracks.
    + apply (reads_src_agree cur _ f (EM.balance_of before)); [apply table_of_agree| |exact Hf].
      intros a Ha. apply view_of_get. exact Ha.
    + apply H; [apply table_of_tracks|apply table_of_agree].
  - intros Hc b extra Ht Hb.
    apply (bridge_covers_view cur (EM.e_postings e) (EM.e_unb e) b extra (ES.view_of before (EM.e_postings e)) Ht);
      [|exact Hc].
    apply (reads_src_agree cur b f (EM.balance_of before)); [exact Hb| |exact Hf].
    intros a Ha. apply view_of_get. exact Ha.
Qed.

(* the corollary for C02: in a serially valid log every entry (with non-negative amounts), read as the posting-mode
   Numscript transaction the real code runs for it and run by [sem] on a table that shows, for the accounts the engine
   reads, the balances produced by the entries before it, SUCCEEDS and emits exactly its postings *)
Theorem bridge_serial_at : forall cur log before e after b extra,
  ES.serially_valid log -> log = before ++ e :: after ->
  nonneg_ps (EM.e_postings e) ->
  tracks b (lift cur (EM.e_postings e)) ->
  (forall a, In a (EM.reads_of (EM.e_postings e)) -> view b a cur = EM.balance_of before a) ->
  exists r, run_postings (lift cur (EM.e_postings e)) (EM.e_unb e) b extra = SOk r /\
            res_posts r = lift_posts cur (EM.e_postings e).
Proof.
  intros cur log before e after b extra Hsv Hlog Hn Ht Hb. subst log.
  apply (proj2 (entry_runs_iff cur (fun a _ => EM.balance_of before a) e before (fun a => eq_refl))).
  - split; [exact Hn|]. apply (sv_at before e after Hsv).
  - exact Ht.
  - exact Hb.
Qed.

(* the whole history: running the entries one at a time, in log order, with the script semantics; the balance map
   is threaded by applying the postings the run emitted ([res_posts r] = the entry's postings) *)
Fixpoint sem_serial_from (cur : asset) (f : bmap) (rest : list EM.entry) : Prop :=
  match rest with
  | [] => True
  | e :: r => entry_runs cur f e /\ sem_serial_from cur (apply (lift cur (EM.e_postings e)) f) r
  end.
Definition sem_serial (cur : asset) (log : list EM.entry) : Prop := sem_serial_from cur zero_bal log.

Definition log_nonneg (log : list EM.entry) : Prop := Forall (fun e => nonneg_ps (EM.e_postings e)) log.

Lemma sem_serial_from_iff : forall cur rest before f,
  (forall a, f a cur = EM.balance_of before a) ->
  (sem_serial_from cur f rest <-> ES.serially_valid_from before rest /\ log_nonneg rest).
Proof.
  intros cur. induction rest as [|e r IH]; intros before f Hf; cbn [sem_serial_from ES.serially_valid_from].
  - split; [intros _; split; [exact I|constructor]|tauto].
  - assert (Hf' : forall a, apply (lift cur (EM.e_postings e)) f a cur = EM.balance_of (before ++ [e]) a).
    { intros a. rewrite (balance_of_ledger cur (before ++ [e])), ledger_snoc, !apply_sum.
      rewrite Hf, (balance_of_ledger cur before). unfold ledger. rewrite apply_sum. reflexivity. }
    rewrite (IH (before ++ [e]) _ Hf'), (entry_runs_iff cur f e before Hf). unfold log_nonneg.
    split.
    + intros [[Hn Hc] [Hs Hl]]. split; [split; assumption|]. constructor; assumption.
    + intros [[Hc Hs] Hl]. inversion Hl; subst. tauto.
Qed.

(* the committed history is serially valid (in the engine model's sense) and free of negative amounts EXACTLY when
   running its entries one at a time in log order with the real script semantics succeeds at every entry with
   exactly that entry's postings *)
Theorem bridge_serial_iff : forall cur log,
  sem_serial cur log <-> ES.serially_valid log /\ log_nonneg log.
Proof.
  intros cur log. unfold sem_serial, ES.serially_valid.
  apply (sem_serial_from_iff cur log [] zero_bal). intros a. reflexivity.
Qed.

Theorem bridge_serial : forall cur log, ES.serially_valid log -> log_nonneg log -> sem_serial cur log.
Proof. intros cur log Hs Hn. apply bridge_serial_iff. split; assumption. Qed.

(* ================================================================================================================ *)
(* 6. reverts                                                                                                        *)
(* ================================================================================================================ *)

(* the effective postings of a revert in the engine model are Postings.Reverse of the original's *)
Theorem bridge_swap_rev : forall cur ps, lift cur (EM.swap_rev ps) = reverse_postings (lift cur ps).
Proof.
  intros cur ps. rewrite reverse_shape. unfold EM.swap_rev, lift. rewrite <- map_rev, !map_map.
  apply map_ext. intros [[s d] amt]. reflexivity.
Qed.

Lemma swap_rev_nonneg : forall ps, nonneg_ps ps -> nonneg_ps (EM.swap_rev ps).
Proof.
  intros ps H p Hp. unfold EM.swap_rev in Hp. apply in_map_iff in Hp. destruct Hp as [q [E Hq]]. subst p.
  cbn [snd]. apply H. apply in_rev. exact Hq.
Qed.

(* so the engine's decision on a revert is the decision of the script the real code builds from the reversed
   postings ([unb] = force = `allowing unbounded overdraft`) *)
Theorem bridge_revert : forall cur ps unb b extra,
  tracks b (reverse_postings (lift cur ps)) -> nonneg_ps ps ->
  ((exists r, run_postings (reverse_postings (lift cur ps)) unb b extra = SOk r /\
              res_posts r = reverse_postings (lift cur ps))
   <-> EM.covers (engine_view b cur (EM.swap_rev ps)) unb (EM.swap_rev ps) = true).
Proof.
  intros cur ps unb b extra Ht Hn. rewrite <- bridge_swap_rev in *.
  apply (bridge_covers cur (EM.swap_rev ps) unb b extra Ht (swap_rev_nonneg ps Hn)).
Qed.

(* ================================================================================================================ *)
(* 7. with C02_serial: every reachable state of the engine LTS                                                     *)
(* ================================================================================================================ *)
Definition log_nonneg_b (log : list EM.entry) : bool := forallb (fun e => nonneg_b (EM.e_postings e)) log.
Lemma log_nonneg_b_spec : forall log, log_nonneg_b log = true <-> log_nonneg log.
Proof.
  intros log. unfold log_nonneg_b, log_nonneg. rewrite forallb_forall, Forall_forall.
  split; intros H e He; apply nonneg_b_spec; apply H; exact He.
Qed.

(* the persisted log of every reachable state, run one entry at a time in log order with the script semantics *)
Theorem bridge_reachable : forall cur s,
  ES.reachable s -> log_nonneg (EM.persisted s) -> sem_serial cur (EM.persisted s).
Proof.
  intros cur s Hr Hn. apply bridge_serial; [|exact Hn]. apply FL.Engine.E4Resume.e4_serial. exact Hr.
Qed.

Theorem bridge_reachable_at : forall cur s before e after b extra,
  ES.reachable s -> EM.persisted s = before ++ e :: after ->
  nonneg_ps (EM.e_postings e) ->
  tracks b (lift cur (EM.e_postings e)) ->
  (forall a, In a (EM.reads_of (EM.e_postings e)) -> view b a cur = EM.balance_of before a) ->
  exists r, run_postings (lift cur (EM.e_postings e)) (EM.e_unb e) b extra = SOk r /\
            res_posts r = lift_posts cur (EM.e_postings e).
Proof.
  intros cur s before e after b extra Hr Hlog. apply (bridge_serial_at cur (EM.persisted s) before e after b extra).
  - apply FL.Engine.E4Resume.e4_serial. exact Hr.
  - exact Hlog.
Qed.
