(* C02, general scripts vs the engine model's posting-mode requests.
   Engine/Model.v decides a request with [covers view unb ps] on single-asset postings [(source, destination, amount)]
   and locks [reads_of ps] / [writes_of ps]. Here: for an ACCEPTED run of ANY script that grants no overdraft, and for
   every asset x, the postings of asset x, in order, are such a request: [covers] holds on the store balances
   ([scripts_accepted_covered]), its write set is inside the script's write-lock set and its read set inside the
   read-lock set ([scripts_writes_locked], [scripts_reads_locked]).
   Engine.Model is only used (qualified as [EM]: both libraries define [posting], [account], [world]). *)
From Coq Require Import Lia ZArith List Bool.
Import ListNotations.
From FL Require Import Numscript.C01Spec Numscript.C01Proofs Numscript.C01Final Numscript.LockFrame.
From FL Require Engine.Model.
Open Scope Z_scope.

Module EM := FL.Engine.Model.

(* ---- the postings of one asset, as engine postings ------------------------------------------------------------------ *)
Definition proj1x (x : asset) (q : posting) : list EM.posting :=
  if N.eqb (p_asset q) x then [(p_src q, p_dst q, p_amount q)] else [].
Definition proj (x : asset) (ps : list posting) : list EM.posting := flat_map (proj1x x) ps.

(* the balances the engine would read for that request (one pair per non-world account, [reads_of]), out of the store *)
Definition script_view (s : store) (x : asset) (eps : list EM.posting) : list (EM.account * Z) :=
  map (fun a => (a, store_balance s a x)) (EM.reads_of eps).

Lemma proj_in : forall x ps e, In e (proj x ps) <-> exists q, In q ps /\ p_asset q = x /\ e = (p_src q, p_dst q, p_amount q).
Proof.
  intros x ps e. unfold proj. rewrite in_flat_map. split.
  - intros (q & Hq & He). unfold proj1x in He. destruct (N.eqb_spec (p_asset q) x) as [E|E]; [|destruct He].
    destruct He as [<-|[]]. exists q. auto.
  - intros (q & Hq & E & ->). exists q. split; [exact Hq|]. unfold proj1x. rewrite E, N.eqb_refl. left; reflexivity.
Qed.

(* ---- scripts that grant no overdraft (syntactic) ---------------------------------------------------------------------- *)
Fixpoint src_plain (s : source) : bool :=
  match s with
  | SAccount _ OvNone => true
  | SAccount _ _ => false
  | SMaxed _ s' => src_plain s'
  | SInOrder l => forallb src_plain l
  end.
Definition vasrc_plain (v : vasource) : bool :=
  match v with VSrc s => src_plain s | VSrcAllot l => forallb (fun p => src_plain (snd p)) l end.
Definition stmt_plain (st : stmt) : bool := match st with StSend _ src _ => vasrc_plain src | _ => true end.
Definition no_overdraft (sc : script) : bool := forallb stmt_plain (s_stmts sc).

Lemma src_plain_grants : forall ve s, src_plain s = true -> src_grants ve s = [].
Proof.
  intros ve. apply (source_ind2 (fun s => src_plain s = true -> src_grants ve s = [])).
  - intros acc ov H. cbn [src_grants]. destruct (eval_account ve acc); [|reflexivity]. destruct ov; [reflexivity|discriminate|discriminate].
  - intros m s IH H. cbn [src_grants src_plain] in *. auto.
  - intros l F H. cbn [src_grants src_plain] in *. induction F as [|s l Hs _ IH]; [reflexivity|].
    cbn [forallb flat_map] in *. apply andb_prop in H as [H1 H2]. rewrite (Hs H1), (IH H2). reflexivity.
Qed.
Lemma no_overdraft_grants : forall ve sc, no_overdraft sc = true -> script_grants ve sc = [].
Proof.
  intros ve sc H. unfold no_overdraft in H. unfold script_grants. induction (s_stmts sc) as [|st l IH]; [reflexivity|].
  cbn [forallb flat_map] in *. apply andb_prop in H as [H1 H2]. rewrite (IH H2), app_nil_r.
  destruct st as [e|m acc|key v|acc key v| |m src d]; try reflexivity. cbn [stmt_grants stmt_plain] in *.
  destruct src as [s|al]; cbn [vasrc_grants vasrc_plain] in *; [apply src_plain_grants; exact H1|].
  induction al as [|[ap s] al IHa]; [reflexivity|]. cbn [forallb flat_map snd] in *. apply andb_prop in H1 as [Ha Hb].
  rewrite (src_plain_grants _ _ Ha), (IHa Hb). reflexivity.
Qed.
Lemma no_overdraft_grant : forall sc ve a x, no_overdraft sc = true -> grant sc ve a x = Some 0.
Proof. intros sc ve a x H. unfold grant. rewrite (no_overdraft_grants ve sc H). reflexivity. Qed.

(* ---- the engine's running view vs the running balance of [floor_ok] ---------------------------------------------------- *)
Lemma bs_view_get_add : forall v s d a,
  EM.view_get (EM.view_add v s d) a = if N.eqb a s then EM.view_get v s + d else EM.view_get v a.
Proof. intros v s d a. unfold EM.view_add. cbn [EM.view_get]. destruct (N.eqb a s); reflexivity. Qed.
Lemma bs_step : forall v s d amt a,
  EM.view_get (EM.view_add (EM.view_add v s (- amt)) d amt) a
  = EM.view_get v a + ((if N.eqb a d then amt else 0) - (if N.eqb a s then amt else 0)).
Proof.
  intros v s d amt a. rewrite !bs_view_get_add.
  destruct (N.eqb_spec a d) as [E1|E1], (N.eqb_spec a s) as [E2|E2], (N.eqb_spec d s) as [E3|E3];
    subst; try congruence; lia.
Qed.
Lemma bs_view_get_map : forall (g : N -> Z) l a, In a l -> EM.view_get (map (fun x => (x, g x)) l) a = g a.
Proof.
  intros g l a. induction l as [|x r IH]; intros H; [destruct H|].
  cbn [map EM.view_get]. destruct (N.eqb_spec a x) as [E|E]; [subst; reflexivity|].
  apply IH. destruct H as [H|H]; [congruence|exact H].
Qed.

Lemma floor_ok_tail : forall g b0 q ps, C01Spec.floor_ok g b0 (q :: ps) ->
  C01Spec.floor_ok g (fun a s => b0 a s + p_delta q a s) ps.
Proof.
  intros g b0 q ps F l1 p l2 E W. specialize (F (q :: l1) p l2). cbn [app] in F. rewrite E in F. specialize (F eq_refl W).
  unfold running in *. cbn [delta] in F. rewrite Z.add_assoc in F. exact F.
Qed.

(* THE HEART: a zero-grant floor on the store balances, read asset by asset, is the engine's [covers] *)
Lemma floor_covers : forall g x ps b0 v, (forall a s, g a s = Some 0) -> C01Spec.floor_ok g b0 ps ->
  (forall q, In q ps -> p_asset q = x -> p_src q <> world -> EM.view_get v (p_src q) = b0 (p_src q) x) ->
  EM.covers v false (proj x ps) = true.
Proof.
  intros g x ps. induction ps as [|q ps IH]; intros b0 v Hg F A; [reflexivity|].
  pose proof (floor_ok_tail _ _ _ _ F) as Ft.
  unfold proj. cbn [flat_map]. fold (proj x ps). unfold proj1x at 1. destruct (N.eqb_spec (p_asset q) x) as [E|E].
  - cbn [app EM.covers]. apply andb_true_intro. split.
    + destruct (N.eqb_spec (p_src q) EM.world) as [W|W]; [reflexivity|]. cbn [orb].
      specialize (F [] q ps eq_refl W). rewrite Hg in F. unfold within, running in F. cbn [delta] in F.
      rewrite (A q (or_introl eq_refl) E W). rewrite E in F. apply Z.leb_le. lia.
    + apply (IH (fun a s => b0 a s + p_delta q a s)); [exact Hg|exact Ft|].
      intros q' Hq' E' W'. rewrite bs_step. rewrite (A q' (or_intror Hq') E' W').
      unfold p_delta. rewrite E, N.eqb_refl, !andb_true_r. rewrite (N.eqb_sym (p_dst q)), (N.eqb_sym (p_src q)). reflexivity.
  - cbn [app]. apply (IH (fun a s => b0 a s + p_delta q a s)); [exact Hg|exact Ft|].
    intros q' Hq' E' W'. rewrite (A q' (or_intror Hq') E' W'). unfold p_delta.
    destruct (N.eqb_spec (p_asset q) x) as [K|_]; [contradiction|]. rewrite !andb_false_r. lia.
Qed.

Lemma src_in_reads : forall x ps q, In q ps -> p_asset q = x -> p_src q <> world -> In (p_src q) (EM.reads_of (proj x ps)).
Proof.
  intros x ps q Hq E W. unfold EM.reads_of, EM.non_world. apply filter_In. split.
  - apply in_flat_map. exists (p_src q, p_dst q, p_amount q). split; [apply proj_in; exists q; auto|left; reflexivity].
  - cbn [fst]. destruct (N.eqb_spec (p_src q) EM.world) as [K|K]; [exfalso; apply W; exact K|reflexivity].
Qed.

(* ---- (4) accepted => covered -------------------------------------------------------------------------------------------- *)
(* over the source-semantics pipeline of Corr.v: no hypothesis besides "no overdraft clause" *)
Theorem scripts_accepted_covered_sem : forall sc p vars s extra r x, no_overdraft sc = true ->
  sem_pipeline sc p vars s extra = Done r ->
  EM.covers (script_view s x (proj x (res_posts r))) false (proj x (res_posts r)) = true.
Proof.
  intros sc p vars s extra r x NO H.
  destruct (sem_pipeline_floor _ _ _ _ _ _ H) as (vs & rr & vals & b & _ & _ & _ & _ & _ & _ & F & _ & _).
  eapply floor_covers; [intros a y; apply no_overdraft_grant; exact NO|exact F|].
  intros q Hq E W. unfold script_view. apply (bs_view_get_map (fun a => store_balance s a x)).
  apply src_in_reads; assumption.
Qed.

(* over the machine pipeline, with the hypotheses of the compiler-correctness theorem *)
Theorem scripts_accepted_covered : forall sc p vars s extra o r x,
  compile sc = Some p -> in_fragment sc = true -> (forall vs, vars = Some vs -> vars_typed (p_res p) vs) -> parse_typed s ->
  no_overdraft sc = true ->
  run_program p vars s extra = Done o -> ro_result o = Done r ->
  EM.covers (script_view s x (proj x (res_posts r))) false (proj x (res_posts r)) = true.
Proof.
  intros sc p vars s extra o r x C Fr VT PT NO H Hr. eapply scripts_accepted_covered_sem; [exact NO|].
  rewrite <- (pipeline_correct_frag _ _ _ _ _ C Fr VT PT). unfold result_of. rewrite H. cbn [bind]. exact Hr.
Qed.

(* ---- the engine's lock sets for those requests are inside the script's lock sets ------------------------------------- *)
Theorem scripts_writes_locked : forall sc p vs s extra o r x, compile sc = Some p -> inputs_clean (p_res p) vs s ->
  run_program p (Some vs) s extra = Done o -> ro_result o = Done r ->
  forall a, In a (EM.writes_of (proj x (res_posts r))) -> In (Some a) (ro_sources o).
Proof.
  intros sc p vs s extra o r x C IC H Hr a Ha. unfold EM.writes_of, EM.non_world in Ha. apply filter_In in Ha as [Ha _].
  apply in_map_iff in Ha as (e & <- & He). apply proj_in in He as (q & Hq & _ & ->). cbn [fst].
  eapply locks_sources_cover_debits; eassumption.
Qed.
Theorem scripts_reads_locked : forall sc p vs s extra o r x, compile sc = Some p -> inputs_clean (p_res p) vs s ->
  run_program p (Some vs) s extra = Done o -> ro_result o = Done r ->
  forall a, In a (EM.reads_of (proj x (res_posts r))) -> In a (ro_involved o).
Proof.
  intros sc p vs s extra o r x C IC H Hr a Ha. unfold EM.reads_of, EM.non_world in Ha. apply filter_In in Ha as [Ha _].
  apply in_flat_map in Ha as (e & He & Hae). apply proj_in in He as (q & Hq & _ & ->). cbn [fst snd] in Hae.
  destruct (locks_involved_cover_postings _ _ _ _ _ _ _ C IC H Hr q Hq) as [Is Id].
  destruct Hae as [<-|[<-|[]]]; assumption.
Qed.

(* everything together: an accepted run of a script without overdraft clause is, asset by asset, a posting-mode
   request of the engine model that [covers] accepts on the store balances and whose locks the script's locks include *)
Theorem scripts_reduce_to_posting_mode : forall sc p vs s extra o r x,
  compile sc = Some p -> in_fragment sc = true -> vars_typed (p_res p) vs -> parse_typed s -> no_overdraft sc = true ->
  run_program p (Some vs) s extra = Done o -> ro_result o = Done r ->
  let eps := proj x (res_posts r) in
  EM.covers (script_view s x eps) false eps = true /\
  (forall a, In a (EM.writes_of eps) -> In (Some a) (ro_sources o)) /\
  (forall a, In a (EM.reads_of eps) -> In a (ro_involved o)).
Proof.
  intros sc p vs s extra o r x C Fr VT PT NO H Hr eps.
  pose proof (inputs_typed_clean _ _ _ VT PT) as IC. split; [|split].
  - eapply scripts_accepted_covered; try eassumption. intros vs' E. injection E as <-. exact VT.
  - eapply scripts_writes_locked; eassumption.
  - eapply scripts_reads_locked; eassumption.
Qed.

(* ---- [in_fragment] weakened to [norm_script]: a script without statements never ends in [Done] ----------------------- *)
Lemma compile_nostmts_code : forall sc p, compile sc = Some p -> norm_script sc = true -> s_stmts sc = [] -> p_code p = [].
Proof.
  intros sc p H Nm E. unfold compile in H. destruct (N.ltb max_vars (N.of_nat (length (s_vars sc)))); [discriminate|].
  rewrite E in H. cbn [visit_all] in H.
  destruct ((visit_all visit_var (s_vars sc);; cret tt) empty_cstate) as [[u c]|] eqn:K; [|discriminate].
  injection H as <-. cbn [p_code]. cb K u1 csV Hv. apply cret_inv in K as [_ ->].
  unfold norm_script in Nm. apply andb_prop in Nm as [Nv _].
  exact (vs_code _ _ _ (visit_vars_ok _ _ _ _ Hv wf_empty Nv)).
Qed.

Theorem scripts_accepted_covered_norm : forall sc p vars s extra o r x,
  compile sc = Some p -> norm_script sc = true -> (forall vs, vars = Some vs -> vars_typed (p_res p) vs) -> parse_typed s ->
  no_overdraft sc = true ->
  run_program p vars s extra = Done o -> ro_result o = Done r ->
  EM.covers (script_view s x (proj x (res_posts r))) false (proj x (res_posts r)) = true.
Proof.
  intros sc p vars s extra o r x C Nm VT PT NO H Hr. destruct (s_stmts sc) as [|st l] eqn:E.
  - exfalso. destruct (run_program_inv _ _ _ _ _ _ H Hr) as (vs & rr & vals & b & _ & _ & _ & _ & X & _).
    rewrite (compile_nostmts_code _ _ C Nm E) in X. discriminate.
  - eapply scripts_accepted_covered; try eassumption. unfold in_fragment. rewrite Nm, E. reflexivity.
Qed.
