(* M2 — correspondence: a schedule executed on the real Commander (harness/engx), replayed on the model. *)
From FL Require Export Engine.Model.
Open Scope Z_scope.

Record obs_entry := { oe_id : nat; oe_kind : kind; oe_txid : option nat; oe_postings : list posting;
                      oe_ref : N; oe_ik : N; oe_reverts : option nat;
                      oe_meta : N (* metadata entry: interned (target, content), as [rq_meta] *) }.

Record ecase := {
  ec_setup : list action;            (* the sequential setup history (its own commander generation) *)
  ec_reqs : list (tid * request);    (* the concurrent requests *)
  ec_allow_fail : bool; ec_allow_crash : bool; ec_max_crashes : nat;
  ec_allow_cancel : bool; ec_max_cancels : nat;   (* the scheduler may cancel a request's context, at most so often *)
  ec_allow_close : bool;            (* the scheduler may shut the commander down gracefully (Close), once *)
  ec_allow_read_fail : bool; ec_max_read_fails : nat;   (* ... may make the next store read of a request fail *)
  ec_meta_readers : list tid;        (* the requests whose script reads account metadata (ResolveResources reads the store) *)
  ec_steps : list (action * nat);    (* each choice with the number of choices the harness had *)
  ec_final_choices : nat;            (* the number of choices it had when it stopped (0: nothing left to do; requests
                                        may remain, e.g. waiting for a lock nobody will release) *)
  ec_disk : list obs_entry;          (* what is on disk at the end *)
  ec_resps : list (tid * option response);   (* None: answered in a way the model has no class for (a panic, an
                                                unknown error): never agrees with the model *)
  ec_events : list (tid * kind * option nat * option nat)   (* published: tid, kind, txid, reverted *)
}.

Definition onat_eqb (a b : option nat) : bool :=
  match a, b with Some x, Some y => Nat.eqb x y | None, None => true | _, _ => false end.
Definition kind_eqb (a b : kind) : bool :=
  match a, b with KCreate, KCreate | KRevert, KRevert | KSaveMeta, KSaveMeta | KDelMeta, KDelMeta => true | _, _ => false end.
Definition posting_eqb (p q : posting) : bool :=
  N.eqb (fst (fst p)) (fst (fst q)) && N.eqb (snd (fst p)) (snd (fst q)) && Z.eqb (snd p) (snd q).
Fixpoint list_eqb {A B} (eqb : A -> B -> bool) (l1 : list A) (l2 : list B) : bool :=
  match l1, l2 with
  | [], [] => true
  | x :: r1, y :: r2 => eqb x y && list_eqb eqb r1 r2
  | _, _ => false
  end.
Definition entry_obs_eqb (e : entry) (o : obs_entry) : bool :=
  Nat.eqb (e_id e) (oe_id o) && kind_eqb (e_kind e) (oe_kind o) && onat_eqb (e_txid e) (oe_txid o) &&
  list_eqb posting_eqb (e_postings e) (oe_postings o) && N.eqb (e_ref e) (oe_ref o) && N.eqb (e_ik e) (oe_ik o) &&
  onat_eqb (e_reverts e) (oe_reverts o) && N.eqb (e_meta e) (oe_meta o).
Definition eclass_eqb (a b : eclass) : bool :=
  match a, b with
  | EIkBusy, EIkBusy | EConflict, EConflict | ENotFound, ENotFound | EAlreadyReverted, EAlreadyReverted
  | ERevertOccurring, ERevertOccurring | EInsufficient, EInsufficient | ENoPostings, ENoPostings
  | EKeyReused, EKeyReused | ELockCancelled, ELockCancelled | EStoreRead, EStoreRead
  | ECompilationFailed, ECompilationFailed => true
  | _, _ => false
  end.
Definition response_eqb (a b : response) : bool :=
  match a, b with
  | ROk x, ROk y => onat_eqb x y
  | RErr x, RErr y => eclass_eqb x y
  | RCrashed, RCrashed => true
  | _, _ => false
  end.

(* the number of choices the scheduler has in a state (harness/engx Sched.Enabled) *)
Definition live (s : state) (p : tid * thread) : bool :=
  Nat.eqb (t_gen (snd p)) (gen s) && match t_pc (snd p) with PFinished => false | _ => true end.
(* a parked request offers ONE resume choice, also when both branches of the lock select are ready (which of
   [AResume] / [AResumeCancelled] the Go runtime took is read off the execution) *)
Definition can_resume (s : state) (t : tid) : bool :=
  match resume s t with Some _ => true | None => match resume_cancelled s t with Some _ => true | None => false end end.
(* read_fail(t) is offered for a request parked before a region that reads the store; the compile-time read of
   account metadata only concerns the requests whose script has one *)
Definition reads_metadata_next (th : thread) : bool :=
  match rq_kind (t_req th), t_pc th with
  | KCreate, PIkLookup None | KCreate, PRefLookup false => true
  | _, _ => false
  end.
Definition can_read_fail (c : ecase) (s : state) (p : tid * thread) : bool :=
  match resume_read_fail s (fst p) with
  | Some _ => if reads_metadata_next (snd p) then existsb (Nat.eqb (fst p)) (ec_meta_readers c) else true
  | None => false
  end.
Definition count_choices (c : ecase) (crashes cancels rfails closes : nat) (s : state) : nat :=
  let unstarted := length (filter (fun r => match get_thread (threads s) (fst r) with None => true | Some _ => false end) (ec_reqs c)) in
  let resumable := length (filter (fun p => live s p && can_resume s (fst p)) (threads s)) in
  (* one cancel choice per running request whose context is not cancelled yet *)
  let cancellable := if ec_allow_cancel c && Nat.ltb cancels (ec_max_cancels c)
                     then length (filter (fun p => live s p && negb (t_cancelled (snd p))) (threads s)) else O in
  let read_failable := if ec_allow_read_fail c && Nat.ltb rfails (ec_max_read_fails c)
                       then length (filter (fun p => live s p && can_read_fail c s p) (threads s)) else O in
  let can_crash := Nat.ltb crashes (ec_max_crashes c) in
  let worker := match v_batch s with Some _ => (1 + (if ec_allow_fail c && can_crash then 1 else 0))%nat | None => O end in
  let alive := existsb (live s) (threads s) || match v_batch s with Some _ => true | None => false end in
  (* close: with a batch inside the store call the choice includes the outcome of that write (close_ok / close_fail) *)
  let closable := if ec_allow_close c && Nat.eqb closes 0 && alive
                  then match v_batch s with Some _ => 2%nat | None => 1%nat end else O in
  (unstarted + resumable + cancellable + read_failable + worker + (if ec_allow_crash c && can_crash && alive then 1 else 0) + closable)%nat.

Fixpoint replay (c : ecase) (crashes cancels rfails closes : nat) (s : state) (steps : list (action * nat)) : option state :=
  match steps with
  | [] => if Nat.eqb (count_choices c crashes cancels rfails closes s) (ec_final_choices c) then Some s else None
  | (a, n) :: r =>
      if negb (Nat.eqb (count_choices c crashes cancels rfails closes s) n) then None
      else match step s a with
           | None => None
           | Some s' => replay c (match a with ACrash | APersistFail => S crashes | _ => crashes end)
                                 (match a with ACancel _ => S cancels | _ => cancels end)
                                 (match a with AResumeReadFail _ => S rfails | _ => rfails end)
                                 (match a with AClose | ACloseOk => S closes | _ => closes end) s' r
           end
  end.

Definition final_state (c : ecase) : option state :=
  match run init (ec_setup c) with
  | None => None
  | Some s0 => replay c 0 0 0 0 (crash s0) (ec_steps c)
  end.

Definition check_case (c : ecase) : bool :=
  match final_state c with
  | None => false
  | Some s =>
      list_eqb entry_obs_eqb (persisted s) (ec_disk c) &&
      forallb (fun r => match get_thread (threads s) (fst r) with
                        | Some th => match t_resp th, snd r with Some x, Some y => response_eqb x y | _, _ => false end
                        | None => false end) (ec_resps c) &&
      list_eqb (fun e o => let '(t, k, x, rv) := o in
                  Nat.eqb (ev_tid e) t && kind_eqb (ev_kind e) k && onat_eqb (ev_txid e) x && onat_eqb (ev_reverted e) rv)
               (filter (fun e => Nat.leb 100 (ev_tid e)) (published s)) (ec_events c)
  end.

(* where a replay stops: index of the first step the model refuses (or whose choice count differs) *)
Fixpoint first_refused (c : ecase) (crashes cancels rfails closes : nat) (s : state) (steps : list (action * nat)) (i : nat) : nat :=
  match steps with
  | [] => if Nat.eqb (count_choices c crashes cancels rfails closes s) (ec_final_choices c) then 999 else 998
  | (a, n) :: r =>
      if negb (Nat.eqb (count_choices c crashes cancels rfails closes s) n) then (500 + i)%nat
      else match step s a with
           | None => i
           | Some s' => first_refused c (match a with ACrash | APersistFail => S crashes | _ => crashes end)
                                        (match a with ACancel _ => S cancels | _ => cancels end)
                                        (match a with AResumeReadFail _ => S rfails | _ => rfails end)
                                 (match a with AClose | ACloseOk => S closes | _ => closes end) s' r (S i)
           end
  end.

Fixpoint bad_cases {A} (chk : A -> bool) (n : nat) (l : list A) : list nat :=
  match l with
  | [] => []
  | c :: r => if chk c then bad_cases chk (S n) r else n :: bad_cases chk (S n) r
  end.
