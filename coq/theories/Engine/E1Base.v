(* E1 (C05 / C06) -- basic lemmas: lists and log predicates, the thread table, frame lemmas of the model's helpers.
   Own prefix-free names live in this file only; other provers have their own copies. *)
From FL Require Import Engine.Model Engine.Spec.
From Coq Require Import Lia.
Local Open Scope nat_scope.

(* ---- lists ------------------------------------------------------------------------------------------------ *)
Lemma nodup_map_inj {A B} (f : A -> B) (l : list A) x y :
  NoDup (map f l) -> In x l -> In y l -> f x = f y -> x = y.
Proof.
  induction l as [|a r IH]; simpl; intros Hnd Hx Hy Hf; [contradiction|].
  inversion Hnd as [|? ? Hni Hnd']; subst.
  destruct Hx as [Hx|Hx], Hy as [Hy|Hy]; subst; auto.
  - exfalso; apply Hni; rewrite Hf; apply in_map; auto.
  - exfalso; apply Hni; rewrite <- Hf; apply in_map; auto.
Qed.

Lemma nodup_map_prefix {A B} (f : A -> B) (l1 l2 : list A) : NoDup (map f (l1 ++ l2)) -> NoDup (map f l1).
Proof.
  induction l1 as [|a r IH]; simpl; intros H; [constructor|].
  inversion H as [|? ? Hni Hnd]; subst. constructor; auto.
  intro Hin; apply Hni. rewrite map_app; apply in_or_app; auto.
Qed.

Lemma nodup_map_snoc {A B} (f : A -> B) (l : list A) (e : A) :
  NoDup (map f l) -> ~ In (f e) (map f l) -> NoDup (map f (l ++ [e])).
Proof.
  induction l as [|a r IH]; simpl; intros Hnd Hni.
  - constructor; [intros []|constructor].
  - inversion Hnd as [|? ? Hna Hnd']; subst. constructor.
    + rewrite map_app, in_app_iff; simpl. intros [H|[H|[]]]; auto.
    + apply IH; auto.
Qed.

(* a second key that is injective on the list is duplicate-free as well *)
Lemma nodup_map_other {A B C} (f : A -> B) (g : A -> C) (l : list A) :
  NoDup (map f l) -> (forall x y, In x l -> In y l -> g x = g y -> x = y) -> NoDup (map g l).
Proof.
  induction l as [|a r IH]; simpl; intros Hnd Hinj; [constructor|].
  inversion Hnd as [|? ? Hna Hnd']; subst. constructor.
  - intro Hin. apply in_map_iff in Hin. destruct Hin as (y & Hg & Hy).
    assert (y = a) by (apply Hinj; auto). subst y. apply Hna. apply in_map; auto.
  - apply IH; auto.
Qed.

(* ---- the log predicates --------------------------------------------------------------------------------------- *)
Lemma txids_of_app l1 l2 : txids_of (l1 ++ l2) = txids_of l1 ++ txids_of l2.
Proof. induction l1 as [|e r IH]; simpl; auto. destruct (e_txid e); simpl; rewrite IH; auto. Qed.

Lemma last_entry_snoc l e : last_entry (l ++ [e]) = Some (e_id e, e_uid e).
Proof. unfold last_entry. rewrite rev_app_distr. reflexivity. Qed.

Lemma last_entry_nil : last_entry [] = None.
Proof. reflexivity. Qed.

(* what an entry appended behind [log] must look like *)
Definition ext_ok (log : list entry) (e : entry) : Prop :=
  e_id e = length log /\
  e_prev e = option_map snd (last_entry log) /\
  match e_txid e with Some x => x = length (txids_of log) | None => True end.

Lemma app_eq_len {A} (a b c d : list A) : a ++ b = c ++ d -> length a = length c -> a = c /\ b = d.
Proof.
  revert c. induction a as [|x a IH]; intros [|y c]; simpl; intros H Hl; try discriminate; auto.
  inversion H; subst. destruct (IH c) as [-> ->]; auto.
Qed.

Lemma chain_ok_prefix l1 l2 : chain_ok (l1 ++ l2) -> chain_ok l1.
Proof.
  intros (Hid & Hch & Htx). split; [|split].
  - intros i e Hn. apply Hid. rewrite nth_error_app1; auto. apply nth_error_Some. congruence.
  - intros i e Hn.
    assert (Hi : i < length l1) by (apply nth_error_Some; congruence).
    rewrite (Hch i e) by (rewrite nth_error_app1; auto).
    destruct i; auto. rewrite nth_error_app1 by lia. reflexivity.
  - unfold txids_contiguous in *. rewrite txids_of_app, app_length in Htx.
    rewrite seq_app in Htx. apply app_eq_len in Htx; [tauto|]. rewrite seq_length; auto.
Qed.

Lemma chain_ok_snoc l e : chain_ok l -> ext_ok l e -> chain_ok (l ++ [e]).
Proof.
  intros (Hid & Hch & Htx) (Eid & Eprev & Etx). split; [|split].
  - intros i x Hn. destruct (Nat.lt_ge_cases i (length l)) as [Hlt|Hge].
    + rewrite nth_error_app1 in Hn; auto.
    + rewrite nth_error_app2 in Hn; auto.
      destruct (i - length l) as [|k] eqn:Hk; simpl in Hn.
      * inversion Hn; subst. lia.
      * destruct k; discriminate.
  - intros i x Hn. destruct (Nat.lt_ge_cases i (length l)) as [Hlt|Hge].
    + rewrite nth_error_app1 in Hn; auto. rewrite (Hch i x Hn).
      destruct i; auto. rewrite nth_error_app1 by lia. reflexivity.
    + rewrite nth_error_app2 in Hn; auto.
      destruct (i - length l) as [|k] eqn:Hk; simpl in Hn; [|destruct k; discriminate].
      inversion Hn; subst x. assert (i = length l) by lia. subst i. rewrite Eprev.
      destruct l as [|a r] using rev_ind; [reflexivity|].
      rewrite last_entry_snoc. rewrite app_length; simpl. replace (length r + 1) with (S (length r)) by lia.
      rewrite nth_error_app1 by (rewrite app_length; simpl; lia).
      rewrite nth_error_app2 by lia. rewrite Nat.sub_diag. reflexivity.
  - unfold txids_contiguous in *. rewrite txids_of_app. simpl.
    destruct (e_txid e) as [x|]; [|rewrite app_nil_r; auto].
    subst x. rewrite app_length. simpl. rewrite seq_app. simpl. rewrite <- Htx. reflexivity.
Qed.

Lemma ids_last l : ids_contiguous l ->
  match last_entry l with Some (i, _) => S i | None => O end = length l.
Proof.
  intros Hid. destruct l as [|a r] using rev_ind; [reflexivity|].
  rewrite last_entry_snoc, app_length; simpl.
  rewrite (Hid (length r) a); [lia|]. rewrite nth_error_app2 by lia. rewrite Nat.sub_diag. reflexivity.
Qed.

Lemma last_txid_fold l acc :
  fold_left (fun acc e => match e_txid e with Some t => Some t | None => acc end) l acc =
  match rev (txids_of l) with x :: _ => Some x | [] => acc end.
Proof.
  revert acc. induction l as [|e r IH]; simpl; intros acc; auto.
  rewrite IH. destruct (e_txid e) as [t|]; auto. simpl.
  destruct (rev (txids_of r)); reflexivity.
Qed.

Lemma last_txid_len l : txids_contiguous l -> next_nat (last_txid l) = length (txids_of l).
Proof.
  unfold txids_contiguous, last_txid. intros H. rewrite last_txid_fold. rewrite H at 1.
  destruct (length (txids_of l)) as [|n]; [reflexivity|].
  rewrite seq_S, rev_app_distr. reflexivity.
Qed.

Lemma same_kind_refl k : same_kind k k = true.
Proof. destruct k; reflexivity. Qed.

(* ---- the thread table -------------------------------------------------------------------------------------- *)
Lemma get_set l t th t' :
  get_thread (set_thread l t th) t' = if Nat.eqb t t' then Some th else get_thread l t'.
Proof.
  induction l as [|[u x] r IH]; simpl.
  - rewrite (Nat.eqb_sym t' t). reflexivity.
  - destruct (Nat.eqb t u) eqn:E; simpl.
    + apply Nat.eqb_eq in E; subst u. rewrite (Nat.eqb_sym t' t). destruct (Nat.eqb t t'); reflexivity.
    + rewrite IH. destruct (Nat.eqb t' u) eqn:E2; auto.
      apply Nat.eqb_eq in E2; subst u. rewrite E. reflexivity.
Qed.

(* [t_granted] is the only field the lock manager writes in somebody else's thread: everything below looks at
   threads with that field erased. [t_cancelled] (the request's context is done) is erased as well: nothing the
   invariant says depends on it, so [ACancel] is invisible through [look]. *)
Definition erase (th : thread) : thread :=
  {| t_req := t_req th; t_pc := t_pc th; t_postings := t_postings th; t_unb := t_unb th; t_view := t_view th;
     t_entry := t_entry th; t_txid := t_txid th; t_granted := false; t_resp := t_resp th; t_gen := t_gen th;
     t_cancelled := false |}.
Definition lookt (l : list (tid * thread)) (t : tid) : option thread := option_map erase (get_thread l t).
Definition look (s : state) (t : tid) : option thread := lookt (threads s) t.

Lemma lookt_set l t th t' : lookt (set_thread l t th) t' = if Nat.eqb t t' then Some (erase th) else lookt l t'.
Proof. unfold lookt. rewrite get_set. destruct (Nat.eqb t t'); reflexivity. Qed.

Lemma look_get s t th : get_thread (threads s) t = Some th -> look s t = Some (erase th).
Proof. unfold look, lookt. intros ->. reflexivity. Qed.

Lemma look_inv s t th' : look s t = Some th' -> exists th, get_thread (threads s) t = Some th /\ th' = erase th.
Proof. unfold look, lookt. destruct (get_thread (threads s) t) as [th|]; simpl; intros H; inversion H; eauto. Qed.

Lemma look_none s t : get_thread (threads s) t = None -> look s t = None.
Proof. unfold look, lookt. intros ->. reflexivity. Qed.

Lemma recheck_look q : forall ths locks q' ths' locks',
  recheck q ths locks = (q', ths', locks') -> forall t', lookt ths' t' = lookt ths t'.
Proof.
  induction q as [|w rest IH]; simpl; intros ths locks q' ths' locks' H t'.
  - inversion H; subst; auto.
  - destruct (get_thread ths w) as [th|] eqn:Hw; [|eapply IH; eauto].
    destruct (compatible _ _ locks).
    + rewrite (IH _ _ _ _ _ H t'). rewrite lookt_set.
      destruct (Nat.eqb w t') eqn:E; auto. apply Nat.eqb_eq in E; subst t'.
      unfold lookt. rewrite Hw. reflexivity.
    + destruct (recheck rest ths locks) as [[q1 ths1] l1] eqn:Hr. inversion H; subst. eapply IH; eauto.
Qed.

(* the fields this development looks at *)
Definition glob (u : upd) :=
  (u_persisted u, u_last u, u_lasttx u, u_pending u, u_batch u, u_cs u, u_uid u).

Lemma unlock_glob t u : glob (unlock t u) = glob u.
Proof. unfold unlock. destruct (recheck _ _ _) as [[q ths] l]. reflexivity. Qed.
Lemma unlock_look t u t' : lookt (u_threads (unlock t u)) t' = lookt (u_threads u) t'.
Proof. unfold unlock. destruct (recheck _ _ _) as [[q ths] l] eqn:Hr. simpl. eapply recheck_look; eauto. Qed.

(* ---- cancellation: [with_cancelled] is invisible through [look]; [dequeue] touches the lock queue only --------- *)
Lemma erase_with_cancelled th : erase (with_cancelled th) = erase th.
Proof. reflexivity. Qed.

Lemma lookt_set_same l t th th' : get_thread l t = Some th -> erase th' = erase th ->
  forall t', lookt (set_thread l t th') t' = lookt l t'.
Proof.
  intros Hg He t'. rewrite lookt_set. destruct (Nat.eqb t t') eqn:E; auto.
  apply Nat.eqb_eq in E; subst t'. unfold lookt. rewrite Hg. simpl. congruence.
Qed.

Lemma dequeue_glob t u : glob (dequeue t u) = glob u.
Proof. reflexivity. Qed.
Lemma dequeue_look t u t' : lookt (u_threads (dequeue t u)) t' = lookt (u_threads u) t'.
Proof. reflexivity. Qed.

(* what [unlock] leaves alone besides [glob] *)
Lemma unlock_rest t u :
  u_iks (unlock t u) = u_iks u /\ u_refs (unlock t u) = u_refs u /\ u_revs (unlock t u) = u_revs u /\ u_published (unlock t u) = u_published u.
Proof. unfold unlock. destruct (recheck _ _ _) as [[q ths] l]. repeat split; reflexivity. Qed.

Lemma remove_N_not_in x l : ~ In x (remove_N x l).
Proof. unfold remove_N. intros H. apply filter_In in H. destruct H as [_ H]. rewrite N.eqb_refl in H. discriminate. Qed.
Lemma remove_nat_not_in x l : ~ In x (remove_nat x l).
Proof. unfold remove_nat. intros H. apply filter_In in H. destruct H as [_ H]. rewrite Nat.eqb_refl in H. discriminate. Qed.
