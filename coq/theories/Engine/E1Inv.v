(* E1 (C05 / C06) -- the invariant of the append path and its preservation by every action. *)
From FL Require Import Engine.Model Engine.Spec Engine.E1Base.
From Coq Require Import Lia.
Local Open Scope nat_scope.

(* ---- the log as the commander sees it: disk, then the batch being written, then the batcher queue, then the
   entry that the thread inside the append critical section has chained but not yet handed over ------------- *)
Definition batch_l (s : state) : list entry := match v_batch s with Some b => b | None => [] end.
Definition cs_entry (s : state) : list entry :=
  match v_cs s with
  | Some t => match look s t with
              | Some th => match t_pc th, t_entry th with PChained, Some e => [e] | _, _ => [] end
              | None => []
              end
  | None => []
  end.
Definition all_log (s : state) : list entry := persisted s ++ batch_l s ++ v_pending s ++ cs_entry s.
(* a transaction id handed out inside the critical section whose entry is not built yet *)
Definition tx_pending (s : state) : nat :=
  match v_cs s with
  | Some t => match look s t with
              | Some th => match t_pc th with PTxid => 1 | _ => 0 end
              | None => 0
              end
  | None => 0
  end.

Definition covers_th (th : thread) : bool := covers (t_view th) (t_unb th) (t_postings th).
Definition tx_th (th : thread) : bool := is_tx_kind (rq_kind (t_req th)).
Definition dry_th (th : thread) : bool := rq_dry (t_req th).
Definition run_ok (th : thread) : Prop := tx_th th = true -> covers_th th = true /\ t_postings th <> [].

Definition meta_pc (p : pc) : bool :=
  match p with
  | PStart | PIkBusy | PIkTaken | PIkLookup _ | PAppendEnter | PChained | PAppended | PWait | PDone | PFinished => true
  | _ => false
  end.
(* inside the append critical section *)
Definition in_cs (th : thread) : bool :=
  match t_pc th with PTxid => negb (dry_th th) | PChained | PAppended => true | _ => false end.

Definition pc_ok (disk : list entry) (th : thread) : Prop :=
  match t_pc th with
  | PIkBusy | PIkTaken => t_entry th = None /\ rq_ik (t_req th) <> 0%N
  | PIkLookup hit => t_entry th = None /\ rq_ik (t_req th) <> 0%N /\
        match hit with Some e => In e disk /\ e_ik e = rq_ik (t_req th) | None => True end
  | PRan b => t_entry th = None /\ covers_th th = b
  | PAppendEnter => t_entry th = None /\ dry_th th = false /\ run_ok th
  | PTxid => t_entry th = None /\ covers_th th = true /\ t_postings th <> []
  | PChained | PAppended => (exists e, t_entry th = Some e) /\ run_ok th
  | PWait => (if dry_th th then t_entry th = None else exists e, t_entry th = Some e) /\ run_ok th
  | PDone => (if dry_th th then t_entry th = None else exists e, t_entry th = Some e /\ In e disk) /\ run_ok th
  | PUnlocked => (t_entry th = None /\ (covers_th th = false \/ t_postings th = [] \/ dry_th th = true)) \/
                 (exists e, t_entry th = Some e /\ In e disk /\ covers_th th = true /\ t_postings th <> [])
  | PFinished => True
  | _ => t_entry th = None
  end.

(* [is_outcome_of rq e] (the test of executionContext.run before it answers a stored log again) implies that the
   stored entry has the kind of the request *)
Lemma is_outcome_same_kind rq e : is_outcome_of rq e = true -> same_kind (e_kind e) (rq_kind rq) = true.
Proof. unfold is_outcome_of. destruct (rq_kind rq), (e_kind e); simpl; intros H; auto; discriminate. Qed.

(* what holds of one thread, given the disk, the generation and the uid counter *)
Record tinv (disk : list entry) (g uid : nat) (t : tid) (th : thread) : Prop := {
  ti_gen : t_gen th <= g;
  ti_old : t_gen th < g -> t_pc th = PFinished;
  ti_resp : t_pc th <> PFinished -> t_resp th = None;
  ti_meta : tx_th th = false -> t_txid th = None /\ meta_pc (t_pc th) = true;
  ti_pc : pc_ok disk th;
  ti_entry : forall e, t_entry th = Some e ->
      e_owner e = t /\ e_txid e = t_txid th /\ e_kind e = rq_kind (t_req th) /\ dry_th th = false /\ e_uid e < uid;
  ti_ok : forall x, t_resp th = Some (ROk x) -> dry_th th = false ->
      exists e, In e disk /\ answers t th x e;
  ti_err : forall err, t_resp th = Some (RErr err) -> t_entry th = None
}.

Record Inv (s : state) : Prop := {
  i_thr : forall t th, look s t = Some th -> tinv (persisted s) (gen s) (v_uid s) t th;
  i_bp : v_batch s = None -> v_pending s = [];
  i_chain : chain_ok (all_log s);
  i_last : v_last s = last_entry (all_log s);
  i_lasttx : next_nat (v_lasttx s) = length (txids_of (all_log s)) + tx_pending s;
  i_cs : forall t, v_cs s = Some t ->
      exists th, look s t = Some th /\ t_gen th = gen s /\ in_cs th = true /\
                 (t_pc th = PTxid -> t_txid th = v_lasttx s);
  i_incs : forall t th, look s t = Some th -> t_gen th = gen s -> in_cs th = true -> v_cs s = Some t;
  i_own : forall e, In e (all_log s) -> exists th, look s (e_owner e) = Some th /\ t_entry th = Some e;
  i_uid : NoDup (map e_uid (all_log s));
  i_live : forall t th e, look s t = Some th -> t_gen th = gen s -> t_entry th = Some e -> In e (all_log s);
  i_fin : forall t th e, look s t = Some th -> t_pc th = PFinished -> t_entry th = Some e ->
      In e (all_log s) -> In e (persisted s)
}.

Lemma tinv_mono disk disk' g uid uid' t th :
  tinv disk g uid t th -> incl disk disk' -> uid <= uid' -> tinv disk' g uid' t th.
Proof.
  intros [H1 H2 H3 H4 H5 H6 H7 H8] Hi Hu. constructor; auto.
  - unfold pc_ok in *. destruct (t_pc th); auto.
    + destruct H5 as (A & B & C). repeat split; auto. destruct hit; auto. destruct C; split; auto.
    + destruct H5 as [A B]; split; auto. destruct (dry_th th); auto. destruct A as (e & A1 & A2); eauto.
    + destruct H5 as [A|(e & A1 & A2 & A3)]; [left; auto|right; exists e; auto].
  - intros e He. destruct (H6 e He) as (A & B & C & D & E). repeat split; auto. lia.
  - intros x Hx Hd. destruct (H7 x Hx Hd) as (e & A & B). exists e; split; auto.
Qed.

Lemma Inv_init : Inv init.
Proof.
  constructor; simpl; try (intros; discriminate); auto.
  - repeat split; intros i e H; destruct i; discriminate.
  - intros e [].
  - constructor.
Qed.

(* ---- frames --------------------------------------------------------------------------------------------- *)
Lemma cs_frame s s' :
  v_cs s' = v_cs s -> (forall t0, v_cs s = Some t0 -> look s' t0 = look s t0) ->
  cs_entry s' = cs_entry s /\ tx_pending s' = tx_pending s.
Proof.
  intros Hc Hl. unfold cs_entry, tx_pending. rewrite Hc. destruct (v_cs s) as [t0|]; auto.
  rewrite (Hl t0 eq_refl). auto.
Qed.

(* a step that leaves the append path alone: disk, head of the chain, batcher, critical section unchanged,
   one thread [t] (not the one inside the critical section) replaced by [th'] *)
Definition silent (s : state) (t : tid) (s' : state) : Prop :=
  gen s' = gen s /\ (forall th, look s t = Some th -> t_gen th = gen s) /\
  (persisted s', v_last s', v_lasttx s', v_pending s', v_batch s', v_cs s', v_uid s') =
  (persisted s, v_last s, v_lasttx s, v_pending s, v_batch s, v_cs s, v_uid s) /\
  exists th', (forall t', look s' t' = if Nat.eqb t t' then Some th' else look s t') /\
    tinv (persisted s) (gen s) (v_uid s) t th' /\ in_cs th' = false /\ t_gen th' = gen s /\
    t_entry th' = match look s t with Some th => t_entry th | None => None end /\
    (t_pc th' = PFinished -> forall e, t_entry th' = Some e -> In e (persisted s)).

Lemma silent_inv s t s' : Inv s -> v_cs s <> Some t -> silent s t s' -> Inv s'.
Proof.
  intros I Hncs (Hg & Hold & Hgl & th' & Hlook & Hti & Hnin & Hgen & Hent & Hfin).
  inversion Hgl as [[Hp Hl Hlt Hpe Hb Hc Hu]]. clear Hgl.
  assert (Hother : forall t', t' <> t -> look s' t' = look s t').
  { intros t' Hne. rewrite Hlook. destruct (Nat.eqb t t') eqn:E; auto. apply Nat.eqb_eq in E; congruence. }
  assert (Hself : look s' t = Some th') by (rewrite Hlook, Nat.eqb_refl; auto).
  destruct (cs_frame s s' Hc) as [Hcse Htxp].
  { intros t0 H0. apply Hother. congruence. }
  assert (Hall : all_log s' = all_log s).
  { unfold all_log, batch_l. rewrite Hp, Hb, Hpe, Hcse. reflexivity. }
  destruct I as [I1 I2 I3 I4 I5 I6 I7 I8 I9 I10 I11].
  constructor; rewrite ?Hall, ?Hp, ?Hg, ?Hu, ?Hl, ?Hlt, ?Hb, ?Hpe, ?Hc, ?Htxp; auto.
  - intros t' th Hl'. destruct (Nat.eq_dec t' t) as [->|Hne].
    + rewrite Hself in Hl'. inversion Hl'; subst; auto.
    + rewrite Hother in Hl'; auto.
  - intros t0 H0. assert (t0 <> t) by congruence. rewrite Hother; auto.
  - intros t' th Hl' Hg' Hin. destruct (Nat.eq_dec t' t) as [->|Hne].
    + rewrite Hself in Hl'. inversion Hl'; subst. congruence.
    + rewrite Hother in Hl'; eauto.
  - intros e He. destruct (I8 e He) as (th & A & B).
    destruct (Nat.eq_dec (e_owner e) t) as [Ho|Hne].
    + rewrite Ho in *. rewrite Hself. exists th'. split; auto. rewrite Hent, A. auto.
    + rewrite Hother; eauto.
  - intros t' th e Hl' Hg' He. destruct (Nat.eq_dec t' t) as [->|Hne].
    + rewrite Hself in Hl'. inversion Hl'; subst th. rewrite Hent in He.
      destruct (look s t) as [th0|] eqn:E0; [|discriminate].
      eapply I10; eauto.
    + rewrite Hother in Hl'; eauto.
  - intros t' th e Hl' Hpc He Hin. destruct (Nat.eq_dec t' t) as [->|Hne].
    + rewrite Hself in Hl'. inversion Hl'; subst th. eauto.
    + rewrite Hother in Hl'; eauto.
Qed.

(* ---- store success and crash ------------------------------------------------------------------------------- *)
Lemma persist_inv s s' : Inv s -> persist_ok s = Some s' -> Inv s'.
Proof.
  intros I H. unfold persist_ok in H. destruct (v_batch s) as [b|] eqn:Hb; [|discriminate].
  injection H as H. rewrite <- H. clear H s'.
  set (s' := to_state _ _).
  assert (Hlook : forall t, look s' t = look s t) by reflexivity.
  assert (Hcs : cs_entry s' = cs_entry s /\ tx_pending s' = tx_pending s) by (apply cs_frame; auto).
  destruct Hcs as [Hcse Htxp].
  assert (Hall : all_log s' = all_log s).
  { unfold all_log, batch_l. rewrite Hcse, Hb. subst s'; simpl.
    rewrite <- !app_assoc. f_equal. f_equal. destruct (v_pending s); simpl; rewrite ?app_nil_r; auto. }
  assert (Hincl : incl (persisted s) (persisted s')) by (subst s'; simpl; apply incl_appl, incl_refl).
  destruct I as [I1 I2 I3 I4 I5 I6 I7 I8 I9 I10 I11].
  constructor; rewrite ?Hall, ?Htxp; auto.
  - intros t th Hl. rewrite Hlook in Hl. eapply tinv_mono; eauto.
  - intros t th e Hl Hpc He Hin. apply Hincl. eapply I11; eauto.
Qed.

Definition kill (th : thread) : thread :=
  match t_pc th with
  | PFinished => th
  | _ => {| t_req := t_req th; t_pc := PFinished; t_postings := t_postings th; t_unb := t_unb th;
            t_view := t_view th; t_entry := t_entry th; t_txid := t_txid th; t_granted := t_granted th;
            t_resp := Some RCrashed; t_gen := t_gen th; t_cancelled := t_cancelled th |}
  end.

Lemma look_crash s t : look (crash s) t = option_map kill (look s t).
Proof.
  unfold look, lookt. simpl. induction (threads s) as [|[u th] r IH]; simpl; auto.
  destruct (Nat.eqb t u); auto. simpl. unfold kill. simpl.
  destruct (t_pc th) eqn:E; reflexivity.
Qed.

Lemma kill_entry th : t_entry (kill th) = t_entry th.
Proof. unfold kill. destruct (t_pc th); reflexivity. Qed.
Lemma kill_gen th : t_gen (kill th) = t_gen th.
Proof. unfold kill. destruct (t_pc th); reflexivity. Qed.
Lemma kill_pc th : t_pc (kill th) = PFinished.
Proof. unfold kill. destruct (t_pc th) eqn:E; auto. Qed.

Lemma kill_tinv disk g uid t th : tinv disk g uid t th -> tinv disk (S g) uid t (kill th).
Proof.
  intros [H1 H2 H3 H4 H5 H6 H7 H8].
  assert (Hk : t_pc th = PFinished /\ kill th = th \/
               kill th = {| t_req := t_req th; t_pc := PFinished; t_postings := t_postings th; t_unb := t_unb th;
                            t_view := t_view th; t_entry := t_entry th; t_txid := t_txid th;
                            t_granted := t_granted th; t_resp := Some RCrashed; t_gen := t_gen th;
                            t_cancelled := t_cancelled th |}).
  { unfold kill. destruct (t_pc th); auto. }
  destruct Hk as [[Hpc Hk]|Hk]; rewrite Hk.
  - constructor; auto.
  - constructor; simpl; auto; try (intros; discriminate).
    + congruence.
    + intros Hm; destruct (H4 Hm); auto.
    + exact I.
Qed.

Lemma crash_inv s : Inv s -> Inv (crash s).
Proof.
  intros I.
  assert (Hall : all_log (crash s) = persisted s).
  { unfold all_log, batch_l, cs_entry. simpl. rewrite !app_nil_r. auto. }
  assert (Hpre : exists rest, all_log s = persisted s ++ rest) by (unfold all_log; eauto).
  destruct Hpre as [rest Hpre].
  destruct I as [I1 I2 I3 I4 I5 I6 I7 I8 I9 I10 I11].
  assert (Hch : chain_ok (persisted s)) by (rewrite Hpre in I3; eapply chain_ok_prefix; eauto).
  constructor; rewrite ?Hall; auto.
  - intros t th' Hl. rewrite look_crash in Hl. destruct (look s t) as [th|] eqn:E; [|discriminate].
    inversion Hl; subst th'. simpl. apply kill_tinv; auto.
  - unfold tx_pending; simpl. rewrite Nat.add_0_r. apply last_txid_len. apply Hch.
  - simpl; intros; discriminate.
  - intros t th' Hl Hg. rewrite look_crash in Hl. destruct (look s t) as [th|] eqn:E; [|discriminate].
    inversion Hl; subst th'. rewrite kill_gen in Hg. simpl in Hg. destruct (I1 _ _ E). lia.
  - intros e He. destruct (I8 e) as (th & A & B). { rewrite Hpre. apply in_or_app; auto. }
    rewrite look_crash, A. simpl. eexists; split; eauto. rewrite kill_entry; auto.
  - rewrite Hpre in I9. eapply nodup_map_prefix; eauto.
  - intros t th' e Hl Hg. rewrite look_crash in Hl. destruct (look s t) as [th|] eqn:E; [|discriminate].
    inversion Hl; subst th'. rewrite kill_gen in Hg. simpl in Hg. destruct (I1 _ _ E). lia.
Qed.

(* ---- silent steps -------------------------------------------------------------------------------------------- *)
Lemma silent_intro s t U th' :
  glob U = glob (of_state s) ->
  (forall t', lookt (u_threads U) t' = if Nat.eqb t t' then Some th' else look s t') ->
  (forall th, look s t = Some th -> t_gen th = gen s) ->
  t_gen th' = gen s ->
  t_entry th' = match look s t with Some th => t_entry th | None => None end ->
  in_cs th' = false ->
  (t_pc th' = PFinished -> forall e, t_entry th' = Some e -> In e (persisted s)) ->
  tinv (persisted s) (gen s) (v_uid s) t th' ->
  silent s t (to_state (gen s) U).
Proof.
  intros Hgl Hl Hold Hg He Hin Hf Hti. unfold silent. split; [reflexivity|]. split; [exact Hold|].
  split; [exact Hgl|]. exists th'.
  split; [exact Hl|]. split; [exact Hti|]. split; [exact Hin|]. split; [exact Hg|]. split; [exact He|exact Hf].
Qed.

Arguments covers : simpl never.
Arguments find_by_ik : simpl never.
Arguments find_tx : simpl never.
Arguments is_reverted : simpl never.
Arguments has_ref : simpl never.
Arguments balance_of : simpl never.
Arguments entry_persisted : simpl never.
Arguments compatible : simpl never.
Arguments reads_of : simpl never.
Arguments writes_of : simpl never.
Arguments mem_N : simpl never.
Arguments mem_nat : simpl never.
Arguments remove_N : simpl never.
Arguments remove_nat : simpl never.
Arguments unlock : simpl never.
Arguments swap_rev : simpl never.

Lemma tinv_erase disk g uid t th : tinv disk g uid t th <-> tinv disk g uid t (erase th).
Proof. split; intros [H1 H2 H3 H4 H5 H6 H7 H8]; constructor; auto. Qed.
Lemma tinv_erase_1 disk g uid t th : tinv disk g uid t th -> tinv disk g uid t (erase th).
Proof. apply tinv_erase. Qed.
Lemma tinv_erase_2 disk g uid t th : tinv disk g uid t (erase th) -> tinv disk g uid t th.
Proof. apply tinv_erase. Qed.

(* how one step of a thread outside the critical section may change it *)
Lemma tinv_step disk g uid t th th' :
  tinv disk g uid t th -> t_gen th = g -> t_req th' = t_req th -> t_gen th' = t_gen th ->
  t_entry th' = t_entry th ->
  (t_txid th' = t_txid th \/ (tx_th th = true /\ t_entry th = None)) ->
  (t_pc th' <> PFinished -> t_resp th' = None) ->
  (tx_th th = false -> meta_pc (t_pc th') = true) ->
  pc_ok disk th' ->
  (forall x, t_resp th' = Some (ROk x) -> dry_th th = false ->
      exists e, In e disk /\ answers t th x e) ->
  (forall err, t_resp th' = Some (RErr err) -> t_entry th = None) ->
  tinv disk g uid t th'.
Proof.
  intros [H1 H2 H3 H4 H5 H6 H7 H8] Hg Hrq Hgen Hent Htx Hresp Hmeta Hpc Hok Herr.
  constructor; auto.
  - congruence.
  - rewrite Hgen. intros Hlt. exfalso; lia.
  - unfold tx_th. rewrite Hrq. intros Hm. destruct (H4 Hm) as [A B]. split; auto.
    destruct Htx as [Htx|[Htx _]]; [congruence|]. unfold tx_th in Htx. congruence.
  - intros e He. rewrite Hent in He. unfold dry_th. rewrite Hrq.
    destruct (H6 e He) as (A & B & C & D & E). repeat split; auto.
    destruct Htx as [Htx|[_ Htx]]; congruence.
  - intros x Hx. unfold dry_th. rewrite Hrq. intros Hd.
    destruct (Hok x Hx Hd) as (e & A & B).
    exists e. split; auto. unfold answers in *. rewrite Hrq. auto.
  - intros err He. rewrite Hent. eauto.
Qed.

Ltac step_tac Hti :=
  eapply tinv_step; [exact Hti | auto | reflexivity | reflexivity | try reflexivity | auto
                    | cbn; try congruence; try exact (ti_resp _ _ _ _ _ Hti) | unfold tx_th; cbn; try reflexivity
                    | unfold pc_ok, run_ok, covers_th, tx_th, dry_th; cbn; try exact I
                    | cbn; try (intros; discriminate); try exact (ti_ok _ _ _ _ _ Hti)
                    | cbn; try (intros; discriminate); try exact (ti_err _ _ _ _ _ Hti) ].

Lemma enter_exec_spec t th u disk g uid :
  tinv disk g uid t th -> t_gen th = g -> t_entry th = None -> t_resp th = None ->
  glob (enter_exec t th u) = glob u /\
  exists th', (forall t', lookt (u_threads (enter_exec t th u)) t' =
                          if Nat.eqb t t' then Some (erase th') else lookt (u_threads u) t') /\
     tinv disk g uid t th' /\ in_cs th' = false /\ t_gen th' = g /\ t_entry th' = None.
Proof.
  intros Hti Hg He Hr. unfold enter_exec.
  destruct (is_tx_kind (rq_kind (t_req th))) eqn:Hk.
  - destruct (N.eqb (rq_ref (t_req th)) 0); [|destruct (mem_N _ _)];
      (split; [reflexivity|]); eexists; (split; [intros t'; cbn; rewrite lookt_set; reflexivity|]);
      (split; [|repeat split; auto]); step_tac Hti; auto; unfold tx_th; congruence.
  - assert (Hx : forall p, p = PWait \/ p = PAppendEnter -> (p = PWait -> dry_th th = true) ->
                  (p = PAppendEnter -> dry_th th = false) ->
       glob (set_th t (with_pc th p) u) = glob u /\
       exists th', (forall t', lookt (u_threads (set_th t (with_pc th p) u)) t' =
                          if Nat.eqb t t' then Some (erase th') else lookt (u_threads u) t') /\
         tinv disk g uid t th' /\ in_cs th' = false /\ t_gen th' = g /\ t_entry th' = None).
    { intros p Hp Hd1 Hd2. split; [reflexivity|]. eexists; (split; [intros t'; cbn; rewrite lookt_set; reflexivity|]).
      unfold run_ok, tx_th, dry_th in *.
      destruct Hp; subst p; (split; [|repeat split; auto]); step_tac Hti; auto.
      - rewrite Hd1 by auto. split; auto. congruence.
      - split; auto. split; auto. congruence. }
    assert (Hy : glob (if rq_dry (t_req th) then set_th t (with_pc th PWait) u else set_th t (with_pc th PAppendEnter) u) = glob u /\
       exists th', (forall t', lookt (u_threads (if rq_dry (t_req th) then set_th t (with_pc th PWait) u else set_th t (with_pc th PAppendEnter) u)) t' =
                          if Nat.eqb t t' then Some (erase th') else lookt (u_threads u) t') /\
         tinv disk g uid t th' /\ in_cs th' = false /\ t_gen th' = g /\ t_entry th' = None).
    { unfold dry_th in Hx. destruct (rq_dry (t_req th)) eqn:Hd; apply Hx; auto; intros; discriminate. }
    assert (Hz : forall b : bool, set_th t (with_pc th (if b then PWait else PAppendEnter)) u =
                   if b then set_th t (with_pc th PWait) u else set_th t (with_pc th PAppendEnter) u)
      by (intros []; reflexivity).
    destruct (rq_target_tx (t_req th)) as [id|]; [destruct (find_tx _ _)|]; rewrite ?Hz; auto.
    split; [reflexivity|]. eexists; (split; [intros t'; cbn; rewrite lookt_set; reflexivity|]).
    split; [|repeat split; auto]. step_tac Hti; auto.
Qed.

Lemma enter_run_spec t th u disk g uid :
  tinv disk g uid t th -> t_gen th = g -> t_entry th = None -> t_resp th = None ->
  glob (enter_run t th u) = glob u /\
  exists th', (forall t', lookt (u_threads (enter_run t th u)) t' =
                          if Nat.eqb t t' then Some (erase th') else lookt (u_threads u) t') /\
     tinv disk g uid t th' /\ in_cs th' = false /\ t_gen th' = g /\ t_entry th' = None.
Proof.
  intros Hti Hg He Hr. unfold enter_run.
  destruct (N.eqb (rq_ik (t_req th)) 0) eqn:Hik; [apply enter_exec_spec; auto|].
  apply N.eqb_neq in Hik.
  destruct (mem_N _ _);
    (split; [reflexivity|]); eexists; (split; [intros t'; cbn; rewrite lookt_set; reflexivity|]);
    (split; [|repeat split; auto]); step_tac Hti; auto.
Qed.

Lemma silent_enter s t U :
  (forall th, look s t = Some th -> t_gen th = gen s) ->
  match look s t with Some th => t_entry th | None => None end = None ->
  (glob U = glob (of_state s) /\
   exists th', (forall t', lookt (u_threads U) t' =
                          if Nat.eqb t t' then Some (erase th') else lookt (u_threads (of_state s)) t') /\
     tinv (persisted s) (gen s) (v_uid s) t th' /\ in_cs th' = false /\ t_gen th' = gen s /\ t_entry th' = None) ->
  silent s t (to_state (gen s) U).
Proof.
  intros Hold Hent (Hgl & th' & Hl & Hti & Hin & Hg & He).
  eapply silent_intro with (th' := erase th'); auto.
  - rewrite Hent. exact He.
  - cbn. intros _ e H. congruence.
  - apply tinv_erase_1; auto.
Qed.

Ltac silent_case Hlook Hg :=
  eapply silent_intro;
  [ rewrite ?unlock_glob; reflexivity
  | intros t'; rewrite ?unlock_look; cbn; rewrite lookt_set; reflexivity
  | let th0 := fresh "th0" in let Hl0 := fresh "Hl0" in
    intros th0 Hl0; rewrite Hlook in Hl0; inversion Hl0; subst; exact Hg
  | cbn; exact Hg
  | rewrite Hlook; cbn; try reflexivity
  | unfold in_cs, dry_th; cbn; try reflexivity;
    try (match goal with H : rq_dry _ = _ |- _ => rewrite H; reflexivity end)
  | cbn; try congruence
  | apply tinv_erase_1 ].

Lemma find_by_ik_some log k e : find_by_ik log k = Some e -> In e log /\ e_ik e = k.
Proof. unfold find_by_ik. intros H. apply find_some in H. destruct H as [A B]. apply N.eqb_eq in B. auto. Qed.

Ltac tfin :=
  try solve [ auto | congruence | intros; discriminate | exact I
   | intros _; match goal with H : _ <> PFinished -> t_resp _ = None |- _ => apply H; discriminate end
   | let Hm := fresh in intros Hm;
     match goal with H : is_tx_kind _ = false -> _ /\ _ |- _ => destruct (H Hm) as [? ?]; try discriminate; auto end
   | intuition (try congruence; try discriminate) ].

Lemma resume_silent s t th s' :
  Inv s -> get_thread (threads s) t = Some th -> resume s t = Some s' ->
  in_cs th = false -> t_pc th <> PAppendEnter -> silent s t s'.
Proof.
  intros I Hget Hres Hnin Hnae.
  pose proof (look_get _ _ _ Hget) as Hlook.
  pose proof (i_thr _ I _ _ Hlook) as Hti. apply tinv_erase_2 in Hti.
  unfold resume in Hres. rewrite Hget in Hres.
  destruct (Nat.eqb (t_gen th) (gen s)) eqn:Hg; simpl in Hres; [|discriminate]. apply Nat.eqb_eq in Hg.
  pose proof Hti as [T1 T2 T3 T4 T5 T6 T7 T8].
  unfold in_cs, pc_ok, run_ok, covers_th, tx_th, dry_th in *.
  destruct (t_pc th) eqn:Hpc; try discriminate; try congruence;
    repeat match goal with H : _ /\ _ |- _ => destruct H end.
  - (* PRevBusy *) injection Hres as <-. silent_case Hlook Hg. step_tac Hti; tfin.
  - (* PRevTaken *) injection Hres as <-. silent_case Hlook Hg. step_tac Hti; tfin.
  - (* PRevRead *)
    destruct found; simpl in Hres; [destruct reverted|].
    + injection Hres as <-. silent_case Hlook Hg. step_tac Hti; tfin.
    + injection Hres as <-.
      match goal with |- silent _ _ (to_state _ (enter_run _ ?X _)) => set (th1 := X) end.
      apply silent_enter.
      * intros th0 Hl0; rewrite Hlook in Hl0; inversion Hl0; subst; exact Hg.
      * rewrite Hlook. exact T5.
      * apply enter_run_spec; [|exact Hg|exact T5|reflexivity].
        subst th1. step_tac Hti; tfin.
    + injection Hres as <-. silent_case Hlook Hg. step_tac Hti; tfin.
  - (* PIkBusy *) injection Hres as <-. silent_case Hlook Hg. step_tac Hti; tfin.
  - (* PIkTaken *) injection Hres as <-. silent_case Hlook Hg. step_tac Hti; tfin.
    split; auto. split; auto. destruct (find_by_ik _ _) eqn:Hf; auto. apply find_by_ik_some in Hf. auto.
  - (* PIkLookup *)
    destruct hit as [e|]; repeat match goal with H : _ /\ _ |- _ => destruct H end.
    + (* the stored entry is answered again only when it is the outcome of this request; otherwise refused *)
      destruct (is_outcome_of (t_req th) e) eqn:Hk; injection Hres as <-;
        silent_case Hlook Hg; step_tac Hti; tfin.
      intros x Hx Hd. inversion Hx; subst x. exists e. split; [assumption|]. unfold answers.
      split; [reflexivity|]. split; [apply is_outcome_same_kind; exact Hk|]. right; split; assumption.
    + injection Hres as <-. apply silent_enter.
      * intros th0 Hl0; rewrite Hlook in Hl0; inversion Hl0; subst; exact Hg.
      * rewrite Hlook. assumption.
      * apply enter_exec_spec; auto. apply T3. discriminate.
  - (* PRefBusy *) injection Hres as <-. silent_case Hlook Hg. step_tac Hti; tfin.
  - (* PRefTaken *) injection Hres as <-. silent_case Hlook Hg. step_tac Hti; tfin.
  - (* PRefLookup *) destruct hit; injection Hres as <-; silent_case Hlook Hg; step_tac Hti; tfin.
  - (* PResolved *) destruct (compatible _ _ _); injection Hres as <-; silent_case Hlook Hg; step_tac Hti; tfin.
  - (* PEnqueued *) destruct (t_granted th); [|discriminate]. injection Hres as <-; silent_case Hlook Hg; step_tac Hti; tfin.
  - (* PLocked *) injection Hres as <-. silent_case Hlook Hg. step_tac Hti; tfin.
  - (* PBalances *) injection Hres as <-. silent_case Hlook Hg. step_tac Hti; tfin.
  - (* PRan *)
    assert (Htx : is_tx_kind (rq_kind (t_req th)) = true).
    { destruct (is_tx_kind (rq_kind (t_req th))) eqn:Hk; auto. destruct (T4 eq_refl); discriminate. }
    destruct ok.
    + destruct (t_postings th) eqn:Hps.
      * injection Hres as <-. silent_case Hlook Hg. step_tac Hti; tfin.
      * destruct (rq_dry (t_req th)) eqn:Hd; injection Hres as <-; silent_case Hlook Hg; step_tac Hti; tfin.
    + injection Hres as <-. silent_case Hlook Hg. step_tac Hti; tfin.
  - (* PTxid: a preview *)
    destruct (rq_dry (t_req th)) eqn:Hd; [|simpl in Hnin; discriminate Hnin].
    injection Hres as <-. silent_case Hlook Hg. step_tac Hti; tfin.
    rewrite Hd; auto.
  - (* PWait: leaves only when the entry is on disk *)
    destruct (rq_dry (t_req th)) eqn:Hd.
    + injection Hres as <-. silent_case Hlook Hg. step_tac Hti; tfin. rewrite Hd; auto.
    + destruct (t_entry th) as [e|] eqn:He; [|discriminate].
      destruct (entry_persisted (persisted s) e) eqn:Hep; [|discriminate].
      assert (Hin : In e (persisted s)).
      { unfold entry_persisted in Hep. apply existsb_exists in Hep. destruct Hep as (x & Hx & Hux).
        apply Nat.eqb_eq in Hux.
        assert (A : In e (all_log s)) by (eapply (i_live _ I); eauto).
        assert (B : In x (all_log s)) by (unfold all_log; apply in_or_app; auto).
        rewrite (nodup_map_inj e_uid (all_log s) e x (i_uid _ I) A B); auto. }
      injection Hres as <-. silent_case Hlook Hg. step_tac Hti; tfin. rewrite Hd. split; eauto.
  - (* PDone *)
    destruct (is_tx_kind (rq_kind (t_req th))) eqn:Hk; injection Hres as <-; silent_case Hlook Hg.
    + step_tac Hti; tfin. destruct (H0 eq_refl) as [Hc Hne].
      destruct (rq_dry (t_req th)) eqn:Hd; [left; auto|].
      destruct H as (e & He & Hin). right. exists e. auto.
    + intros _ e He. destruct (rq_dry (t_req th)) eqn:Hd; [congruence|].
      destruct H as (e0 & He0 & Hin). congruence.
    + step_tac Hti; tfin.
      intros x Hx Hd. unfold dry_th in Hd. inversion Hx; subst x. rewrite Hd in H. destruct H as (e & He & Hin).
      exists e. split; auto. destruct (T6 e He) as (A & B & C & _). destruct (T4 eq_refl) as [Htx _].
      unfold answers. split; [congruence|]. split; [rewrite C; apply same_kind_refl|]. left; auto.
  - (* PUnlocked *)
    assert (Hfin : forall e, t_entry th = Some e -> In e (persisted s)).
    { intros e He. destruct T5 as [[A _]|(e0 & A & B & _)]; congruence. }
    destruct (covers (t_view th) (t_unb th) (t_postings th)) eqn:Hc; [destruct (t_postings th) eqn:Hps|];
      injection Hres as <-; silent_case Hlook Hg; auto; step_tac Hti; tfin.
    + intros _ _. destruct T5 as [[A _]|(e0 & _ & _ & _ & B)]; auto. congruence.
    + intros x Hx Hd. unfold dry_th in Hd. inversion Hx; subst x.
      destruct T5 as [[_ [A|[A|A]]]|(e & He & Hin & _)]; try congruence.
      exists e. split; auto. destruct (T6 e He) as (A & B & C & _).
      unfold answers. split; [congruence|]. split; [rewrite C; apply same_kind_refl|]. left; auto.
    + intros _ _. destruct T5 as [[A _]|(e0 & _ & _ & B & _)]; auto. congruence.
Qed.

Lemma start_silent s t rq s' : Inv s -> start s t rq = Some s' -> silent s t s'.
Proof.
  intros I H. unfold start in H. destruct (get_thread (threads s) t) eqn:Hget; [discriminate|].
  pose proof (look_none _ _ Hget) as Hlook.
  match type of H with context [with_pc ?X PRevBusy] => set (th0 := X) in * end.
  assert (Hti : tinv (persisted s) (gen s) (v_uid s) t th0).
  { constructor; subst th0; cbn; auto; try (intros; discriminate). intros; lia. }
  assert (Hold : forall th, look s t = Some th -> t_gen th = gen s) by (intros th Hl; congruence).
  assert (Hother : rq_kind rq <> KRevert -> Some (to_state (gen s) (enter_run t th0 (of_state s))) = Some s' ->
                   silent s t s').
  { intros _ H1. injection H1 as <-. apply silent_enter; auto.
    - rewrite Hlook; auto.
    - apply enter_run_spec; auto. }
  destruct (rq_kind rq) eqn:Hk; try (apply Hother; [discriminate|exact H]).
  destruct (mem_nat _ _); injection H as <-.
  - eapply silent_intro; [reflexivity | intros t'; cbn; rewrite lookt_set; reflexivity | exact Hold | reflexivity
                          | rewrite Hlook; reflexivity | reflexivity | cbn; congruence | apply tinv_erase_1 ].
    step_tac Hti; tfin. unfold tx_th; subst th0; cbn. rewrite Hk. discriminate.
  - eapply silent_intro; [reflexivity | intros t'; cbn; rewrite lookt_set; reflexivity | exact Hold | reflexivity
                          | rewrite Hlook; reflexivity | reflexivity | cbn; congruence | apply tinv_erase_1 ].
    step_tac Hti; tfin. unfold tx_th; subst th0; cbn. rewrite Hk. discriminate.
Qed.

(* ---- steps inside the append critical section ------------------------------------------------------------ *)
Lemma cs_step_inv s t th th' s' added :
  Inv s -> look s t = Some th -> t_gen th = gen s ->
  gen s' = gen s -> persisted s' = persisted s -> v_uid s <= v_uid s' ->
  (forall t', look s' t' = if Nat.eqb t t' then Some th' else look s t') ->
  all_log s' = all_log s ++ added ->
  tinv (persisted s) (gen s) (v_uid s') t th' -> t_gen th' = gen s -> t_pc th' <> PFinished ->
  (forall e0, t_entry th = Some e0 -> t_entry th' = Some e0) ->
  (forall e0, t_entry th' = Some e0 -> In e0 (all_log s')) ->
  ((added = [] /\ v_last s' = v_last s) \/
   (exists e, added = [e] /\ ext_ok (all_log s) e /\ v_last s' = Some (e_id e, e_uid e) /\ e_uid e = v_uid s /\
              e_owner e = t /\ t_entry th' = Some e)) ->
  (v_batch s' = None -> v_pending s' = []) ->
  next_nat (v_lasttx s') = length (txids_of (all_log s')) + tx_pending s' ->
  (forall t0, v_cs s' = Some t0 ->
      exists th0, look s' t0 = Some th0 /\ t_gen th0 = gen s' /\ in_cs th0 = true /\
                 (t_pc th0 = PTxid -> t_txid th0 = v_lasttx s')) ->
  (forall t0 th0, look s' t0 = Some th0 -> t_gen th0 = gen s' -> in_cs th0 = true -> v_cs s' = Some t0) ->
  Inv s'.
Proof.
  intros I Hlook Hgen Hg Hp Hu Hl Hall Hti Hgen' Hnf Hkeep Hlive Hadd Hbp Hltx Hcs Hincs.
  assert (Hother : forall t', t' <> t -> look s' t' = look s t').
  { intros t' Hne. rewrite Hl. destruct (Nat.eqb t t') eqn:E; auto. apply Nat.eqb_eq in E; congruence. }
  assert (Hself : look s' t = Some th') by (rewrite Hl, Nat.eqb_refl; auto).
  destruct I as [I1 I2 I3 I4 I5 I6 I7 I8 I9 I10 I11].
  assert (Hsub : forall e0, In e0 (all_log s) -> In e0 (all_log s')).
  { intros e0 H0. rewrite Hall. apply in_or_app; auto. }
  assert (Huid : forall e0, In e0 (all_log s) -> e_uid e0 < v_uid s).
  { intros e0 H0. destruct (I8 e0 H0) as (th0 & A & B). destruct (I1 _ _ A) as [_ _ _ _ _ T6 _ _].
    apply (T6 e0 B). }
  constructor; auto.
  - intros t' th0 Hl'. rewrite Hp, Hg. destruct (Nat.eq_dec t' t) as [->|Hne].
    + rewrite Hself in Hl'. inversion Hl'; subst; auto.
    + rewrite Hother in Hl'; auto. eapply tinv_mono; eauto. apply incl_refl.
  - rewrite Hall. destruct Hadd as [[-> _]|(e & -> & Hext & _)]; [rewrite app_nil_r; auto|].
    apply chain_ok_snoc; auto.
  - rewrite Hall. destruct Hadd as [[-> Hv]|(e & -> & _ & Hv & _)]; [rewrite app_nil_r; congruence|].
    rewrite last_entry_snoc; auto.
  - intros e0 H0. rewrite Hall in H0. apply in_app_or in H0. destruct H0 as [H0|H0].
    + destruct (I8 e0 H0) as (th0 & A & B). destruct (Nat.eq_dec (e_owner e0) t) as [Ho|Hne].
      * rewrite Ho in *. rewrite Hself. exists th'. split; auto. apply Hkeep. congruence.
      * rewrite Hother; eauto.
    + destruct Hadd as [[-> _]|(e & -> & _ & _ & _ & Ho & He)]; [destruct H0|].
      destruct H0 as [<-|[]]. rewrite Ho, Hself. eauto.
  - rewrite Hall. destruct Hadd as [[-> _]|(e & -> & _ & _ & Hue & _)]; [rewrite app_nil_r; auto|].
    apply nodup_map_snoc; auto. intros Hin. apply in_map_iff in Hin. destruct Hin as (x & Hx & Hin).
    apply Huid in Hin. lia.
  - intros t' th0 e0 Hl' Hg' He. destruct (Nat.eq_dec t' t) as [->|Hne].
    + rewrite Hself in Hl'. inversion Hl'; subst; auto.
    + rewrite Hother in Hl'; auto. apply Hsub. rewrite Hg in Hg'. eapply I10; eauto.
  - intros t' th0 e0 Hl' Hpc He Hin. rewrite Hp. destruct (Nat.eq_dec t' t) as [->|Hne].
    + rewrite Hself in Hl'. inversion Hl'; subst. contradiction.
    + rewrite Hother in Hl'; auto. rewrite Hall in Hin. apply in_app_or in Hin. destruct Hin as [Hin|Hin].
      * eapply I11; eauto.
      * destruct Hadd as [[-> _]|(e & -> & _ & _ & _ & Ho & _)]; [destruct Hin|].
        destruct Hin as [<-|[]]. destruct (I1 _ _ Hl') as [_ _ _ _ _ T6 _ _].
        destruct (T6 _ He) as (A & _). congruence.
Qed.

Lemma build_ext s t th :
  Inv s -> match t_txid th with Some x => x = length (txids_of (all_log s)) | None => True end ->
  ext_ok (all_log s) (build_entry t th (of_state s)).
Proof.
  intros I Htx. unfold ext_ok, build_entry; cbn. rewrite (i_last _ I). split; [|split; auto].
  - apply ids_last. apply (i_chain _ I).
  - destruct (last_entry (all_log s)) as [[i x]|]; reflexivity.
Qed.

Lemma all_log_snoc s s' e :
  persisted s' = persisted s -> batch_l s' = batch_l s -> v_pending s' = v_pending s ->
  cs_entry s = [] -> cs_entry s' = [e] -> all_log s' = all_log s ++ [e].
Proof.
  intros Hp Hb Hpe Hc Hc'. unfold all_log. rewrite Hp, Hb, Hpe, Hc, Hc', app_nil_r, <- !app_assoc. reflexivity.
Qed.

Lemma tinv_build disk g uid t th th' e :
  tinv disk g uid t th -> t_gen th = g -> t_pc th <> PFinished -> dry_th th = false -> run_ok th ->
  t_req th' = t_req th -> t_gen th' = t_gen th -> t_pc th' = PChained -> t_entry th' = Some e ->
  t_txid th' = t_txid th -> t_resp th' = None ->
  t_postings th' = t_postings th -> t_view th' = t_view th -> t_unb th' = t_unb th ->
  e_owner e = t -> e_txid e = t_txid th -> e_kind e = rq_kind (t_req th) -> e_uid e = uid ->
  tinv disk g (S uid) t th'.
Proof.
  intros [H1 H2 H3 H4 H5 H6 H7 H8] Hg Hnf Hd Hrun Hrq Hgen Hpc He Htx Hr Hps Hv Hu Ho Hetx Hek Heu.
  constructor.
  - congruence.
  - intros; lia.
  - auto.
  - unfold tx_th. rewrite Hrq, Hpc, Htx. intros Hm. destruct (H4 Hm); auto.
  - unfold pc_ok. rewrite Hpc. split; eauto. unfold run_ok, tx_th, covers_th in *. rewrite Hrq, Hps, Hv, Hu. auto.
  - intros e0 He0. rewrite He in He0. inversion He0; subst e0. unfold dry_th in *. rewrite Hrq, Htx.
    repeat split; auto. lia.
  - rewrite Hr. intros; discriminate.
  - rewrite Hr. intros; discriminate.
Qed.

Ltac cs_setup I Hget Hres Hlook Hti Hg :=
  pose proof (look_get _ _ _ Hget) as Hlook;
  pose proof (i_thr _ I _ _ Hlook) as Hti; apply tinv_erase_2 in Hti;
  unfold resume in Hres; rewrite Hget in Hres;
  destruct (Nat.eqb (t_gen _) (gen _)) eqn:Hg; simpl in Hres; [|discriminate]; apply Nat.eqb_eq in Hg.

Lemma resume_enter s t th s' :
  Inv s -> get_thread (threads s) t = Some th -> resume s t = Some s' -> t_pc th = PAppendEnter -> Inv s'.
Proof.
  intros I Hget Hres Hpc. cs_setup I Hget Hres Hlook Hti Hg.
  rewrite Hpc in Hres.
  destruct (v_cs s) eqn:Hcs; [discriminate|].
  pose proof Hti as [T1 T2 T3 T4 T5 T6 T7 T8]. unfold pc_ok in T5. rewrite Hpc in T5. destruct T5 as (He & Hd & Hrun).
  assert (Hcse : cs_entry s = [] /\ tx_pending s = 0) by (unfold cs_entry, tx_pending; rewrite Hcs; auto).
  destruct Hcse as [Hcse Htxp].
  destruct (is_tx_kind (rq_kind (t_req th))) eqn:Hk; injection Hres as <-.
  - (* a transaction takes the next id *)
    match goal with |- context [set_thread (threads s) t ?X] => set (th1 := X) end.
    match goal with |- Inv ?X => set (s1 := X) end.
    assert (Hl1 : forall t', look s1 t' = if Nat.eqb t t' then Some (erase th1) else look s t').
    { intros t'. unfold look. subst s1. cbn. rewrite lookt_set. reflexivity. }
    assert (Hself : look s1 t = Some (erase th1)) by (rewrite Hl1, Nat.eqb_refl; auto).
    assert (Hcse1 : cs_entry s1 = [] /\ tx_pending s1 = 1).
    { unfold cs_entry, tx_pending. replace (v_cs s1) with (Some t) by reflexivity. rewrite Hself. auto. }
    destruct Hcse1 as [Hcse1 Htxp1].
    assert (Hall1 : all_log s1 = all_log s) by (unfold all_log; rewrite Hcse1, Hcse; reflexivity).
    eapply cs_step_inv with (t := t) (th := erase th) (th' := erase th1) (added := []); eauto.
    + rewrite app_nil_r; auto.
    + apply tinv_erase_1. subst th1. step_tac Hti; tfin.
    + cbn; discriminate.
    + cbn. congruence.
    + exact (i_bp _ I).
    + rewrite Hall1, Htxp1. pose proof (i_lasttx _ I) as H5. rewrite Htxp in H5. cbn. lia.
    + intros t0 H0. injection H0 as <-. exists (erase th1). split; auto. split; [exact Hg|].
      unfold in_cs, dry_th in *. cbn. rewrite Hd. auto.
    + intros t0 th0 Hl0 Hg0 Hin0. destruct (Nat.eq_dec t0 t) as [->|Hne]; [reflexivity|].
      rewrite Hl1 in Hl0. destruct (Nat.eqb t t0) eqn:E; [apply Nat.eqb_eq in E; congruence|].
      pose proof (i_incs _ I _ _ Hl0 Hg0 Hin0). congruence.
  - (* a metadata write chains at once *)
    match goal with |- context [set_thread (threads s) t ?X] => set (th1 := X) end.
    match goal with |- Inv ?X => set (s1 := X) end.
    set (e := build_entry t th (of_state s)) in *.
    assert (Hl1 : forall t', look s1 t' = if Nat.eqb t t' then Some (erase th1) else look s t').
    { intros t'. unfold look. subst s1. cbn. rewrite lookt_set. reflexivity. }
    assert (Hself : look s1 t = Some (erase th1)) by (rewrite Hl1, Nat.eqb_refl; auto).
    assert (Hcse1 : cs_entry s1 = [e] /\ tx_pending s1 = 0).
    { unfold cs_entry, tx_pending. replace (v_cs s1) with (Some t) by reflexivity. rewrite Hself. auto. }
    destruct Hcse1 as [Hcse1 Htxp1].
    assert (Hall1 : all_log s1 = all_log s ++ [e]) by (apply all_log_snoc; auto).
    destruct (T4 Hk) as [Htxid _].
    eapply cs_step_inv with (t := t) (th := erase th) (th' := erase th1) (added := [e]); eauto.
    + cbn; lia.
    + apply tinv_erase_1. eapply tinv_build with (th := th) (e := e); eauto; try reflexivity; congruence.
    + cbn; discriminate.
    + cbn. congruence.
    + intros e0 H0. rewrite Hall1. cbn in H0. inversion H0; subst e0. apply in_or_app; right; left; auto.
    + right. exists e. split; auto. split; [apply build_ext; auto; rewrite Htxid; auto|].
      repeat split; auto.
    + exact (i_bp _ I).
    + rewrite Hall1, Htxp1, txids_of_app. cbn. rewrite Htxid. cbn. rewrite app_nil_r.
      pose proof (i_lasttx _ I) as H5. rewrite Htxp in H5. lia.
    + intros t0 H0. injection H0 as <-. exists (erase th1). split; auto. split; [exact Hg|].
      split; auto. cbn. discriminate.
    + intros t0 th0 Hl0 Hg0 Hin0. destruct (Nat.eq_dec t0 t) as [->|Hne]; [reflexivity|].
      rewrite Hl1 in Hl0. destruct (Nat.eqb t t0) eqn:E; [apply Nat.eqb_eq in E; congruence|].
      pose proof (i_incs _ I _ _ Hl0 Hg0 Hin0). congruence.
Qed.

Lemma resume_txid s t th s' :
  Inv s -> get_thread (threads s) t = Some th -> resume s t = Some s' -> t_pc th = PTxid ->
  dry_th th = false -> Inv s'.
Proof.
  intros I Hget Hres Hpc Hd. cs_setup I Hget Hres Hlook Hti Hg.
  rewrite Hpc in Hres. unfold dry_th in Hd. rewrite Hd in Hres. injection Hres as <-.
  assert (Hcs : v_cs s = Some t).
  { eapply (i_incs _ I); eauto. unfold in_cs, dry_th; cbn. rewrite Hpc, Hd. auto. }
  destruct (i_cs _ I _ Hcs) as (th0 & Hl0 & _ & _ & Htx0). rewrite Hlook in Hl0. inversion Hl0; subst th0. clear Hl0.
  cbn in Htx0. specialize (Htx0 Hpc).
  pose proof Hti as [T1 T2 T3 T4 T5 T6 T7 T8]. unfold pc_ok in T5. rewrite Hpc in T5. destruct T5 as (He & Hcov & Hne).
  assert (Hcse : cs_entry s = [] /\ tx_pending s = 1).
  { unfold cs_entry, tx_pending; rewrite Hcs, Hlook. cbn. rewrite Hpc. auto. }
  destruct Hcse as [Hcse Htxp].
  match goal with |- context [set_thread (threads s) t ?X] => set (th1 := X) end.
  match goal with |- Inv ?X => set (s1 := X) end.
  set (e := build_entry t th (of_state s)) in *.
  assert (Hl1 : forall t', look s1 t' = if Nat.eqb t t' then Some (erase th1) else look s t').
  { intros t'. unfold look. subst s1. cbn. rewrite lookt_set. reflexivity. }
  assert (Hself : look s1 t = Some (erase th1)) by (rewrite Hl1, Nat.eqb_refl; auto).
  assert (Hcse1 : cs_entry s1 = [e] /\ tx_pending s1 = 0).
  { unfold cs_entry, tx_pending. replace (v_cs s1) with (Some t) by (symmetry; exact Hcs). rewrite Hself. auto. }
  destruct Hcse1 as [Hcse1 Htxp1].
  assert (Hall1 : all_log s1 = all_log s ++ [e]) by (apply all_log_snoc; auto).
  pose proof (i_lasttx _ I) as H5. rewrite Htxp in H5.
  eapply cs_step_inv with (t := t) (th := erase th) (th' := erase th1) (added := [e]); eauto.
  + cbn; lia.
  + apply tinv_erase_1. eapply tinv_build with (th := th) (e := e); eauto; try reflexivity; try congruence.
    intros _; auto.
  + cbn; discriminate.
  + cbn. congruence.
  + intros e0 H0. rewrite Hall1. cbn in H0. inversion H0; subst e0. apply in_or_app; right; left; auto.
  + right. exists e. split; auto. split; [apply build_ext; auto|repeat split; auto].
    rewrite Htx0. destruct (v_lasttx s); auto. cbn in H5. lia.
  + exact (i_bp _ I).
  + rewrite Hall1, Htxp1, txids_of_app. cbn. rewrite Htx0.
    destruct (v_lasttx s); cbn in *; rewrite app_length; cbn; lia.
  + intros t0 H0. cbn in H0. rewrite Hcs in H0. injection H0 as <-. exists (erase th1).
    split; [exact Hself|]. split; [exact Hg|]. split; [reflexivity|]. cbn. discriminate.
  + intros t0 th0 Hl0 Hg0 Hin0. destruct (Nat.eq_dec t0 t) as [->|Hne']; [exact Hcs|].
    rewrite Hl1 in Hl0. destruct (Nat.eqb t t0) eqn:E; [apply Nat.eqb_eq in E; congruence|].
    exact (i_incs _ I _ _ Hl0 Hg0 Hin0).
Qed.

Lemma resume_chained s t th s' :
  Inv s -> get_thread (threads s) t = Some th -> resume s t = Some s' -> t_pc th = PChained -> Inv s'.
Proof.
  intros I Hget Hres Hpc. cs_setup I Hget Hres Hlook Hti Hg.
  rewrite Hpc in Hres. destruct (t_entry th) as [e|] eqn:He; [|discriminate]. injection Hres as <-.
  assert (Hcs : v_cs s = Some t).
  { eapply (i_incs _ I); eauto. unfold in_cs; cbn. rewrite Hpc. auto. }
  pose proof Hti as [T1 T2 T3 T4 T5 T6 T7 T8]. unfold pc_ok in T5. rewrite Hpc in T5. destruct T5 as (_ & Hrun).
  assert (Hcse : cs_entry s = [e] /\ tx_pending s = 0).
  { unfold cs_entry, tx_pending; rewrite Hcs, Hlook. cbn. rewrite Hpc, He. auto. }
  destruct Hcse as [Hcse Htxp].
  match goal with |- context [set_thread (threads s) t ?X] => set (th1 := X) end.
  match goal with |- Inv ?X => set (s1 := X) end.
  assert (Hl1 : forall t', look s1 t' = if Nat.eqb t t' then Some (erase th1) else look s t').
  { intros t'. unfold look. subst s1. cbn. rewrite lookt_set. reflexivity. }
  assert (Hself : look s1 t = Some (erase th1)) by (rewrite Hl1, Nat.eqb_refl; auto).
  assert (Hcse1 : cs_entry s1 = [] /\ tx_pending s1 = 0).
  { unfold cs_entry, tx_pending. replace (v_cs s1) with (Some t) by (symmetry; exact Hcs). rewrite Hself. auto. }
  destruct Hcse1 as [Hcse1 Htxp1].
  assert (Hall1 : all_log s1 = all_log s).
  { unfold all_log. rewrite Hcse1, Hcse. unfold batch_l. subst s1; cbn.
    destruct (v_batch s) as [b|] eqn:Hb; cbn.
    - rewrite app_nil_r. reflexivity.
    - rewrite (i_bp _ I Hb). reflexivity. }
  eapply cs_step_inv with (t := t) (th := erase th) (th' := erase th1) (added := []); eauto.
  + rewrite app_nil_r; auto.
  + apply tinv_erase_1. subst th1. step_tac Hti; tfin. split; [eauto|exact Hrun].
  + cbn; discriminate.
  + intros e0 H0. rewrite Hall1. cbn in H0. eapply (i_live _ I); eauto.
  + subst s1; cbn. destruct (v_batch s); intros; discriminate.
  + rewrite Hall1, Htxp1. rewrite <- Htxp. exact (i_lasttx _ I).
  + intros t0 H0. cbn in H0. rewrite Hcs in H0. injection H0 as <-. exists (erase th1).
    split; [exact Hself|]. split; [exact Hg|]. split; [reflexivity|]. cbn. discriminate.
  + intros t0 th0 Hl0 Hg0 Hin0. destruct (Nat.eq_dec t0 t) as [->|Hne']; [exact Hcs|].
    rewrite Hl1 in Hl0. destruct (Nat.eqb t t0) eqn:E; [apply Nat.eqb_eq in E; congruence|].
    exact (i_incs _ I _ _ Hl0 Hg0 Hin0).
Qed.

Lemma resume_appended s t th s' :
  Inv s -> get_thread (threads s) t = Some th -> resume s t = Some s' -> t_pc th = PAppended -> Inv s'.
Proof.
  intros I Hget Hres Hpc. cs_setup I Hget Hres Hlook Hti Hg.
  rewrite Hpc in Hres. injection Hres as <-.
  assert (Hcs : v_cs s = Some t).
  { eapply (i_incs _ I); eauto. unfold in_cs; cbn. rewrite Hpc. auto. }
  pose proof Hti as [T1 T2 T3 T4 T5 T6 T7 T8]. unfold pc_ok in T5. rewrite Hpc in T5. destruct T5 as ((e & He) & Hrun).
  destruct (T6 e He) as (_ & _ & _ & Hd & _).
  assert (Hcse : cs_entry s = [] /\ tx_pending s = 0).
  { unfold cs_entry, tx_pending; rewrite Hcs, Hlook. cbn. rewrite Hpc. auto. }
  destruct Hcse as [Hcse Htxp].
  match goal with |- context [set_thread (threads s) t ?X] => set (th1 := X) end.
  match goal with |- Inv ?X => set (s1 := X) end.
  assert (Hl1 : forall t', look s1 t' = if Nat.eqb t t' then Some (erase th1) else look s t').
  { intros t'. unfold look. subst s1. cbn. rewrite lookt_set. reflexivity. }
  assert (Hself : look s1 t = Some (erase th1)) by (rewrite Hl1, Nat.eqb_refl; auto).
  assert (Hcse1 : cs_entry s1 = [] /\ tx_pending s1 = 0) by (split; reflexivity).
  destruct Hcse1 as [Hcse1 Htxp1].
  assert (Hall1 : all_log s1 = all_log s) by (unfold all_log; rewrite Hcse1, Hcse; reflexivity).
  eapply cs_step_inv with (t := t) (th := erase th) (th' := erase th1) (added := []); eauto.
  + rewrite app_nil_r; auto.
  + apply tinv_erase_1. subst th1. step_tac Hti; tfin. unfold dry_th in Hd. rewrite Hd. split; [eauto|exact Hrun].
  + cbn; discriminate.
  + intros e0 H0. rewrite Hall1. cbn in H0. eapply (i_live _ I); eauto.
  + exact (i_bp _ I).
  + rewrite Hall1, Htxp1. rewrite <- Htxp. exact (i_lasttx _ I).
  + intros t0 H0. discriminate H0.
  + intros t0 th0 Hl0 Hg0 Hin0. exfalso. destruct (Nat.eq_dec t0 t) as [->|Hne'].
    * rewrite Hself in Hl0. inversion Hl0; subst th0. discriminate Hin0.
    * rewrite Hl1 in Hl0. destruct (Nat.eqb t t0) eqn:E; [apply Nat.eqb_eq in E; congruence|].
      pose proof (i_incs _ I _ _ Hl0 Hg0 Hin0). congruence.
Qed.

(* ---- every action preserves the invariant -------------------------------------------------------------------- *)
Lemma resume_inv s t s' : Inv s -> resume s t = Some s' -> Inv s'.
Proof.
  intros I Hres.
  destruct (get_thread (threads s) t) as [th|] eqn:Hget; [|unfold resume in Hres; rewrite Hget in Hres; discriminate].
  destruct (in_cs th) eqn:Hin.
  - unfold in_cs in Hin. destruct (t_pc th) eqn:Hpc; try discriminate.
    + eapply resume_txid; eauto. destruct (dry_th th); auto; discriminate.
    + eapply resume_chained; eauto.
    + eapply resume_appended; eauto.
  - destruct (t_pc th) eqn:Hpc;
      try (eapply silent_inv; [exact I| |eapply resume_silent; eauto; rewrite Hpc; discriminate];
           intros Hc; destruct (i_cs _ I _ Hc) as (th0 & Hl0 & _ & Hin0 & _);
           rewrite (look_get _ _ _ Hget) in Hl0; inversion Hl0; subst th0;
           change (in_cs th = true) in Hin0; congruence).
    eapply resume_enter; eauto.
Qed.

Lemma start_inv s t rq s' : Inv s -> start s t rq = Some s' -> Inv s'.
Proof.
  intros I H. eapply silent_inv; [exact I| |eapply start_silent; eauto].
  intros Hc. destruct (i_cs _ I _ Hc) as (th0 & Hl0 & _).
  unfold start in H. destruct (get_thread (threads s) t) eqn:Hget; [discriminate|].
  rewrite (look_none _ _ Hget) in Hl0. discriminate.
Qed.

(* ---- cancellation ---------------------------------------------------------------------------------------------- *)
(* the invariant reads the state through [look] (threads with [t_granted] and [t_cancelled] erased) and the fields
   of [glob] only *)
Lemma look_ext_inv s s' :
  Inv s -> gen s' = gen s ->
  (persisted s', v_last s', v_lasttx s', v_pending s', v_batch s', v_cs s', v_uid s') =
  (persisted s, v_last s, v_lasttx s, v_pending s, v_batch s, v_cs s, v_uid s) ->
  (forall t, look s' t = look s t) -> Inv s'.
Proof.
  intros I Hg Hgl Hlook. inversion Hgl as [[Hp Hl Hlt Hpe Hb Hc Hu]]. clear Hgl.
  destruct (cs_frame s s' Hc) as [Hcse Htxp]. { intros; apply Hlook. }
  assert (Hall : all_log s' = all_log s).
  { unfold all_log, batch_l. rewrite Hp, Hb, Hpe, Hcse. reflexivity. }
  destruct I as [I1 I2 I3 I4 I5 I6 I7 I8 I9 I10 I11].
  constructor; rewrite ?Hall, ?Hp, ?Hg, ?Hu, ?Hl, ?Hlt, ?Hb, ?Hpe, ?Hc, ?Htxp; auto.
  - intros t th H. rewrite Hlook in H. auto.
  - intros t H. rewrite Hlook. auto.
  - intros t th H. rewrite Hlook in H. eauto.
  - intros e He. rewrite Hlook. auto.
  - intros t th e H. rewrite Hlook in H. eauto.
  - intros t th e H. rewrite Hlook in H. eauto.
Qed.

(* [ACancel]: only the erased flag of one thread changes *)
Lemma cancel_frame s t s' : cancel s t = Some s' ->
  exists th, get_thread (threads s) t = Some th /\
             s' = to_state (gen s) (set_th t (with_cancelled th) (of_state s)).
Proof.
  intros H. unfold cancel in H. destruct (get_thread (threads s) t) as [th|] eqn:Hget; [|discriminate].
  destruct (negb _); [discriminate|]. destruct (pc_finished _); [discriminate|]. injection H as <-. eauto.
Qed.

Lemma cancel_look s t s' : cancel s t = Some s' -> forall t', look s' t' = look s t'.
Proof.
  intros H t'. destruct (cancel_frame _ _ _ H) as (th & Hget & ->).
  unfold look. cbn. apply lookt_set_same with (th := th); auto.
Qed.

Lemma cancel_inv s t s' : Inv s -> cancel s t = Some s' -> Inv s'.
Proof.
  intros I H. pose proof (cancel_look _ _ _ H) as Hl. destruct (cancel_frame _ _ _ H) as (th & Hget & ->).
  eapply look_ext_inv; [exact I|reflexivity|reflexivity|exact Hl].
Qed.

(* [AResumeCancelled]: a silent step of a thread outside the critical section, exactly like the refusals of
   [resume]: the thread finishes with an error and no entry *)
Lemma resume_cancelled_silent s t th s' :
  Inv s -> get_thread (threads s) t = Some th -> resume_cancelled s t = Some s' ->
  silent s t s' /\ t_pc th = PEnqueued.
Proof.
  intros I Hget Hres.
  pose proof (look_get _ _ _ Hget) as Hlook.
  pose proof (i_thr _ I _ _ Hlook) as Hti. apply tinv_erase_2 in Hti.
  unfold resume_cancelled in Hres. rewrite Hget in Hres.
  destruct (Nat.eqb (t_gen th) (gen s)) eqn:Hg; simpl in Hres; [|discriminate]. apply Nat.eqb_eq in Hg.
  pose proof Hti as [T1 T2 T3 T4 T5 T6 T7 T8].
  unfold in_cs, pc_ok, run_ok, covers_th, tx_th, dry_th in *.
  destruct (t_pc th) eqn:Hpc; try discriminate.
  destruct (t_cancelled th); [|discriminate]. injection Hres as <-.
  split; [|reflexivity].
  match goal with |- silent _ _ (to_state _ (finish _ _ _ _ _ _ _ ?X)) => set (u1 := X) end.
  assert (Hgl1 : glob u1 = glob (of_state s)).
  { subst u1. destruct (t_granted th); [apply unlock_glob|apply dequeue_glob]. }
  assert (Hl1 : forall t', lookt (u_threads u1) t' = look s t').
  { intros t'. subst u1. destruct (t_granted th); [apply unlock_look|apply dequeue_look]. }
  clearbody u1.
  eapply silent_intro;
  [ exact Hgl1
  | intros t'; cbn; rewrite lookt_set, Hl1; reflexivity
  | intros th0 Hl0; rewrite Hlook in Hl0; inversion Hl0; subst; exact Hg
  | cbn; exact Hg
  | rewrite Hlook; cbn; reflexivity
  | reflexivity
  | cbn; congruence
  | apply tinv_erase_1 ].
  step_tac Hti; tfin.
Qed.

Lemma resume_cancelled_inv s t s' : Inv s -> resume_cancelled s t = Some s' -> Inv s'.
Proof.
  intros I Hres.
  destruct (get_thread (threads s) t) as [th|] eqn:Hget;
    [|unfold resume_cancelled in Hres; rewrite Hget in Hres; discriminate].
  destruct (resume_cancelled_silent _ _ _ _ I Hget Hres) as [Hs Hpc].
  eapply silent_inv; [exact I| |exact Hs].
  intros Hc. destruct (i_cs _ I _ Hc) as (th0 & Hl0 & _ & Hin0 & _).
  rewrite (look_get _ _ _ Hget) in Hl0. inversion Hl0; subst th0.
  unfold in_cs in Hin0. cbn in Hin0. rewrite Hpc in Hin0. discriminate.
Qed.

(* ---- transient failures of the store reads of the write path ([AResumeReadFail]) ----------------------------- *)
(* the one case that does not fail: SaveMeta ignores the read error of GetTransaction and goes on, exactly as
   [enter_exec] does when the transaction is found *)
Lemma meta_go_spec t th u disk g uid :
  tinv disk g uid t th -> t_gen th = g -> t_entry th = None -> t_resp th = None -> tx_th th = false ->
  glob (set_th t (with_pc th (if rq_dry (t_req th) then PWait else PAppendEnter)) u) = glob u /\
  exists th', (forall t', lookt (u_threads (set_th t (with_pc th (if rq_dry (t_req th) then PWait else PAppendEnter)) u)) t' =
                          if Nat.eqb t t' then Some (erase th') else lookt (u_threads u) t') /\
     tinv disk g uid t th' /\ in_cs th' = false /\ t_gen th' = g /\ t_entry th' = None.
Proof.
  intros Hti Hg He Hr Hk. unfold tx_th in Hk.
  assert (Hx : forall p, p = PWait \/ p = PAppendEnter -> (p = PWait -> dry_th th = true) ->
                  (p = PAppendEnter -> dry_th th = false) ->
       glob (set_th t (with_pc th p) u) = glob u /\
       exists th', (forall t', lookt (u_threads (set_th t (with_pc th p) u)) t' =
                          if Nat.eqb t t' then Some (erase th') else lookt (u_threads u) t') /\
         tinv disk g uid t th' /\ in_cs th' = false /\ t_gen th' = g /\ t_entry th' = None).
  { intros p Hp Hd1 Hd2. split; [reflexivity|]. eexists; (split; [intros t'; cbn; rewrite lookt_set; reflexivity|]).
    unfold run_ok, tx_th, dry_th in *.
    destruct Hp; subst p; (split; [|repeat split; auto]); step_tac Hti; auto.
    - rewrite Hd1 by auto. split; auto. congruence.
    - split; auto. split; auto. congruence. }
  unfold dry_th in Hx. destruct (rq_dry (t_req th)) eqn:Hd; apply Hx; auto; intros; discriminate.
Qed.

(* every failing case is a silent step of a thread outside the critical section, exactly like the refusals of
   [resume]: the thread finishes with an error and no entry (at all these pcs no entry has been built) *)
Lemma resume_read_fail_silent s t th s' :
  Inv s -> get_thread (threads s) t = Some th -> resume_read_fail s t = Some s' ->
  silent s t s' /\ in_cs th = false /\ t_pc th <> PFinished.
Proof.
  intros I Hget Hres.
  pose proof (look_get _ _ _ Hget) as Hlook.
  pose proof (i_thr _ I _ _ Hlook) as Hti. apply tinv_erase_2 in Hti.
  unfold resume_read_fail in Hres. rewrite Hget in Hres.
  destruct (Nat.eqb (t_gen th) (gen s)) eqn:Hg; simpl in Hres; [|discriminate]. apply Nat.eqb_eq in Hg.
  pose proof Hti as [T1 T2 T3 T4 T5 T6 T7 T8].
  unfold in_cs, pc_ok, run_ok, covers_th, tx_th, dry_th in *.
  destruct (t_pc th) eqn:Hpc; try discriminate;
    repeat match goal with H : _ /\ _ |- _ => destruct H end;
    (split; [|split; [reflexivity|discriminate]]).
  - (* PRevTaken: GetTransaction fails *) injection Hres as <-. silent_case Hlook Hg. step_tac Hti; tfin.
  - (* PIkTaken: the key lookup fails *) injection Hres as <-. silent_case Hlook Hg. step_tac Hti; tfin.
  - (* PIkLookup None *)
    destruct hit as [e|]; [discriminate|].
    destruct (rq_kind (t_req th)) eqn:Hk; try discriminate.
    + (* create without reference: ResolveResources fails *)
      destruct (N.eqb (rq_ref (t_req th)) 0); [|discriminate].
      injection Hres as <-. silent_case Hlook Hg. step_tac Hti; tfin.
    + (* SaveMeta ignores the error *)
      destruct (rq_target_tx (t_req th)); [|discriminate]. injection Hres as <-. apply silent_enter.
      * intros th0 Hl0; rewrite Hlook in Hl0; inversion Hl0; subst; exact Hg.
      * rewrite Hlook. assumption.
      * apply meta_go_spec; auto; [apply T3; discriminate|unfold tx_th; rewrite Hk; reflexivity].
    + (* DeleteMetadata answers not-found *)
      destruct (rq_target_tx (t_req th)); [|discriminate].
      injection Hres as <-. silent_case Hlook Hg. step_tac Hti; tfin.
  - (* PRefTaken: the reference lookup fails *) injection Hres as <-. silent_case Hlook Hg. step_tac Hti; tfin.
  - (* PRefLookup false: ResolveResources fails *)
    destruct hit; [discriminate|]. destruct (rq_kind (t_req th)) eqn:Hk; try discriminate.
    injection Hres as <-. silent_case Hlook Hg. step_tac Hti; tfin.
  - (* PLocked: ResolveBalances fails; the locks are released first *)
    destruct (needs_balance th); [|discriminate]. injection Hres as <-.
    match goal with |- silent _ _ (to_state _ (finish _ _ _ _ _ _ _ ?X)) => set (u1 := X) end.
    assert (Hgl1 : glob u1 = glob (of_state s)) by (subst u1; apply unlock_glob).
    assert (Hl1 : forall t', lookt (u_threads u1) t' = look s t') by (intros t'; subst u1; apply unlock_look).
    clearbody u1.
    eapply silent_intro;
    [ exact Hgl1
    | intros t'; cbn; rewrite lookt_set, Hl1; reflexivity
    | intros th0 Hl0; rewrite Hlook in Hl0; inversion Hl0; subst; exact Hg
    | cbn; exact Hg
    | rewrite Hlook; cbn; reflexivity
    | reflexivity
    | cbn; congruence
    | apply tinv_erase_1 ].
    step_tac Hti; tfin.
Qed.

Lemma resume_read_fail_inv s t s' : Inv s -> resume_read_fail s t = Some s' -> Inv s'.
Proof.
  intros I Hres.
  destruct (get_thread (threads s) t) as [th|] eqn:Hget;
    [|unfold resume_read_fail in Hres; rewrite Hget in Hres; discriminate].
  destruct (resume_read_fail_silent _ _ _ _ I Hget Hres) as (Hs & Hin & _).
  eapply silent_inv; [exact I| |exact Hs].
  intros Hc. destruct (i_cs _ I _ Hc) as (th0 & Hl0 & _ & Hin0 & _).
  rewrite (look_get _ _ _ Hget) in Hl0. inversion Hl0; subst th0.
  change (in_cs th = true) in Hin0. congruence.
Qed.

Lemma step_inv s a s' : Inv s -> step s a = Some s' -> Inv s'.
Proof.
  intros I H. destruct a; simpl in H.
  - eapply start_inv; eauto.
  - eapply resume_inv; eauto.
  - eapply persist_inv; eauto.
  - destruct (v_batch s); [|discriminate]. injection H as <-. apply crash_inv; auto.
  - injection H as <-. apply crash_inv; auto.
  - eapply cancel_inv; eauto.
  - eapply resume_cancelled_inv; eauto.
  - eapply resume_read_fail_inv; eauto.
  - (* AClose = crash *) injection H as <-. unfold close. apply crash_inv; auto.
  - (* ACloseOk = persist_ok ; crash *)
    unfold close_ok in H. destruct (persist_ok s) as [s1|] eqn:P; [|discriminate]. injection H as <-.
    apply crash_inv. eapply persist_inv; eauto.
Qed.

Lemma run_inv acts : forall s s', Inv s -> run s acts = Some s' -> Inv s'.
Proof.
  induction acts as [|a r IH]; simpl; intros s s' I H.
  - injection H as <-; auto.
  - destruct (step s a) as [s1|] eqn:Hs; [|discriminate]. eapply IH; [|exact H]. eapply step_inv; eauto.
Qed.

Theorem reachable_inv s : reachable s -> Inv s.
Proof. intros [acts H]. eapply run_inv; [apply Inv_init|exact H]. Qed.
