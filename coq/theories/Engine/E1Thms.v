(* E1 -- the C05 / C06 statements, from the invariant of E1Inv.v *)
From FL Require Import Engine.Model Engine.Spec Engine.E1Base Engine.E1Inv.
From Coq Require Import Lia.
Local Open Scope nat_scope.

Lemma persisted_all s e : In e (persisted s) -> In e (all_log s).
Proof. intros H. unfold all_log. apply in_or_app; auto. Qed.

(* ---- C05 -------------------------------------------------------------------------------------------------- *)
Theorem e1_chain s : reachable s -> chain_ok (persisted s).
Proof.
  intros R. apply reachable_inv in R. pose proof (i_chain _ R) as H. unfold all_log in H.
  eapply chain_ok_prefix; eauto.
Qed.

Lemma e1_ids s : reachable s -> forall i e, nth_error (persisted s) i = Some e -> e_id e = i.
Proof. intros R. exact (proj1 (e1_chain s R)). Qed.
Lemma e1_linked s : reachable s -> chain_linked (persisted s).
Proof. intros R. exact (proj1 (proj2 (e1_chain s R))). Qed.
Lemma e1_txids s : reachable s -> txids_contiguous (persisted s).
Proof. intros R. exact (proj2 (proj2 (e1_chain s R))). Qed.
Lemma e1_inflight s : reachable s -> chain_ok (all_log s) /\ v_last s = last_entry (all_log s).
Proof. intros R. split; [exact (i_chain _ (reachable_inv s R)) | exact (i_last _ (reachable_inv s R))]. Qed.

(* ---- C06 -------------------------------------------------------------------------------------------------- *)
(* acknowledged means persisted, unconditionally: a success answer to a non-preview write has its entry on disk --
   built by the request itself, or (replay) stored under the request's idempotency key and accepted by
   [is_outcome_of] (a key that stored the outcome of another request is refused with [EKeyReused]) *)
Theorem e1_ack s : reachable s -> ack_persisted s.
Proof.
  intros R t th x Hget Hr Hd. apply reachable_inv in R.
  pose proof (i_thr _ R _ _ (look_get _ _ _ Hget)) as Hti. apply tinv_erase_2 in Hti.
  exact (ti_ok _ _ _ _ _ Hti x Hr Hd).
Qed.

Lemma owner_entry s : Inv s -> forall e, In e (persisted s) ->
  exists th, get_thread (threads s) (e_owner e) = Some th /\ t_entry th = Some e /\
             tinv (persisted s) (gen s) (v_uid s) (e_owner e) th.
Proof.
  intros I e He. destruct (i_own _ I e (persisted_all _ _ He)) as (th' & Hl & Hent).
  destruct (look_inv _ _ _ Hl) as (th & Hget & ->). exists th. split; auto. split; auto.
  apply tinv_erase_2. apply (i_thr _ I); auto.
Qed.

Theorem e1_error_no_trace s : reachable s -> error_no_trace s.
Proof.
  intros R t th err Hget Hr e He Ho. apply reachable_inv in R.
  destruct (owner_entry _ R e He) as (th0 & Hg0 & He0 & Hti). rewrite Ho, Hget in Hg0. inversion Hg0; subst th0.
  rewrite (ti_err _ _ _ _ _ Hti err Hr) in He0. discriminate.
Qed.

Theorem e1_preview_no_trace s : reachable s -> preview_no_trace s.
Proof.
  intros R t th Hget Hd e He Ho. apply reachable_inv in R.
  destruct (owner_entry _ R e He) as (th0 & Hg0 & He0 & Hti). rewrite Ho, Hget in Hg0. inversion Hg0; subst th0.
  destruct (ti_entry _ _ _ _ _ Hti e He0) as (_ & _ & _ & Hd' & _). unfold dry_th in Hd'. congruence.
Qed.

Theorem e1_no_orphan s : reachable s -> no_orphan s.
Proof.
  intros R e He. apply reachable_inv in R.
  destruct (owner_entry _ R e He) as (th & Hg & Hent & Hti). exists th. split; auto. split; auto.
  destruct (ti_entry _ _ _ _ _ Hti e Hent) as (_ & _ & Hk & Hd & _). split; auto.
  rewrite Hk. apply same_kind_refl.
Qed.

Theorem e1_one_entry s : reachable s -> one_entry_per_request s.
Proof.
  intros R. apply reachable_inv in R.
  assert (Hu : NoDup (map e_uid (persisted s))).
  { pose proof (i_uid _ R) as H. unfold all_log in H. eapply nodup_map_prefix; eauto. }
  split; auto. eapply nodup_map_other; eauto.
  intros x y Hx Hy Ho.
  destruct (owner_entry _ R x Hx) as (thx & Hgx & Hex & _).
  destruct (owner_entry _ R y Hy) as (thy & Hgy & Hey & _).
  rewrite Ho in Hgx. congruence.
Qed.

(* the entry a request built carries the transaction id the request was given and the request's kind; and a
   request owns at most one entry, so the entry an acknowledgement stands for is unique *)
Theorem e1_entry_content s : reachable s -> forall e, In e (persisted s) ->
  exists th, get_thread (threads s) (e_owner e) = Some th /\ t_entry th = Some e /\
             e_txid e = t_txid th /\ e_kind e = rq_kind (t_req th).
Proof.
  intros R e He. apply reachable_inv in R.
  destruct (owner_entry _ R e He) as (th & Hg & Hent & Hti). exists th.
  destruct (ti_entry _ _ _ _ _ Hti e Hent) as (_ & Htx & Hk & _). auto.
Qed.

Theorem e1_owner_unique s : reachable s -> forall e1 e2, In e1 (persisted s) -> In e2 (persisted s) ->
  e_owner e1 = e_owner e2 -> e1 = e2.
Proof.
  intros R e1 e2 H1 H2 Ho. apply reachable_inv in R.
  destruct (owner_entry _ R e1 H1) as (th1 & Hg1 & Hent1 & _).
  destruct (owner_entry _ R e2 H2) as (th2 & Hg2 & Hent2 & _).
  rewrite Ho in Hg1. congruence.
Qed.

(* ---- a finished request never gets an entry later ------------------------------------------------------------ *)
Lemma unlock_persisted t u : u_persisted (unlock t u) = u_persisted u.
Proof. unfold unlock. destruct (recheck _ _ _) as [[q ths] l]. reflexivity. Qed.

Lemma enter_exec_frame t th u :
  u_persisted (enter_exec t th u) = u_persisted u /\
  forall t', t' <> t -> lookt (u_threads (enter_exec t th u)) t' = lookt (u_threads u) t'.
Proof.
  assert (E : forall t', t' <> t -> Nat.eqb t t' = false) by (intros t' H; apply Nat.eqb_neq; congruence).
  unfold enter_exec.
  repeat match goal with |- context [match ?x with _ => _ end] => destruct x end;
    (split; [reflexivity|]); intros t' Hne; cbn; rewrite lookt_set, (E t' Hne); reflexivity.
Qed.

Lemma enter_run_frame t th u :
  u_persisted (enter_run t th u) = u_persisted u /\
  forall t', t' <> t -> lookt (u_threads (enter_run t th u)) t' = lookt (u_threads u) t'.
Proof.
  assert (E : forall t', t' <> t -> Nat.eqb t t' = false) by (intros t' H; apply Nat.eqb_neq; congruence).
  unfold enter_run.
  destruct (N.eqb (rq_ik (t_req th)) 0); [apply enter_exec_frame|].
  destruct (mem_N _ _); (split; [reflexivity|]); intros t' Hne; cbn; rewrite lookt_set, (E t' Hne); reflexivity.
Qed.

Lemma resume_frame s t s' : resume s t = Some s' ->
  persisted s' = persisted s /\ forall t', t' <> t -> look s' t' = look s t'.
Proof.
  assert (E : forall t', t' <> t -> Nat.eqb t t' = false) by (intros t' H; apply Nat.eqb_neq; congruence).
  intros H. unfold resume in H.
  destruct (get_thread (threads s) t) as [th|]; [|discriminate].
  destruct (negb _); [discriminate|]. cbv beta zeta in H.
  destruct (t_pc th);
  repeat match type of H with
         | context [match ?x with _ => _ end] => destruct x
         end; try discriminate H; injection H as <-.
  all: first
    [ split; [exact (proj1 (enter_run_frame _ _ _)) | intros t' Hne; exact (proj2 (enter_run_frame _ _ _) t' Hne)]
    | split; [exact (proj1 (enter_exec_frame _ _ _)) | intros t' Hne; exact (proj2 (enter_exec_frame _ _ _) t' Hne)]
    | split; [cbn; rewrite unlock_persisted; reflexivity
             | intros t' Hne; unfold look; cbn; rewrite unlock_look; cbn; rewrite lookt_set, (E t' Hne); reflexivity]
    | split; [reflexivity | intros t' Hne; unfold look; cbn; rewrite lookt_set, (E t' Hne); reflexivity] ].
Qed.

Lemma start_frame s t rq s' : start s t rq = Some s' ->
  get_thread (threads s) t = None /\ persisted s' = persisted s /\ forall t', t' <> t -> look s' t' = look s t'.
Proof.
  assert (E : forall t', t' <> t -> Nat.eqb t t' = false) by (intros t' H; apply Nat.eqb_neq; congruence).
  intros H. unfold start in H. destruct (get_thread (threads s) t); [discriminate|]. split; auto.
  cbv beta zeta in H.
  repeat match type of H with context [match ?x with _ => _ end] => destruct x end; injection H as <-.
  all: first
    [ split; [exact (proj1 (enter_run_frame _ _ _)) | intros t' Hne; exact (proj2 (enter_run_frame _ _ _) t' Hne)]
    | split; [reflexivity | intros t' Hne; unfold look; cbn; rewrite lookt_set, (E t' Hne); reflexivity] ].
Qed.

(* the shape of [AResumeCancelled]: [finish] over a state that differs from [s] in the lock table / queue and the
   [t_granted] flags only *)
Lemma resume_cancelled_shape s t s' : resume_cancelled s t = Some s' ->
  exists th u1, get_thread (threads s) t = Some th /\ t_gen th = gen s /\ t_pc th = PEnqueued /\
     t_cancelled th = true /\
     glob u1 = glob (of_state s) /\ (forall t', lookt (u_threads u1) t' = look s t') /\
     u_iks u1 = v_iks s /\ u_refs u1 = v_refs s /\ u_revs u1 = v_revs s /\ u_published u1 = published s /\
     s' = to_state (gen s) (finish t th (RErr ELockCancelled) false true true true u1).
Proof.
  intros H. unfold resume_cancelled in H.
  destruct (get_thread (threads s) t) as [th|] eqn:Hget; [|discriminate].
  destruct (Nat.eqb (t_gen th) (gen s)) eqn:Hg; simpl in H; [|discriminate]. apply Nat.eqb_eq in Hg.
  destruct (t_pc th) eqn:Hpc; try discriminate.
  destruct (t_cancelled th) eqn:Hc; [|discriminate]. injection H as <-.
  exists th. exists (if t_granted th then unlock t (of_state s) else dequeue t (of_state s)).
  split; [reflexivity|]. split; [exact Hg|]. split; [exact Hpc|]. split; [exact Hc|].
  destruct (t_granted th).
  - destruct (unlock_rest t (of_state s)) as (A & B & C & D).
    split; [apply unlock_glob|]. split; [intros t'; apply unlock_look|]. repeat split; auto.
  - repeat split; reflexivity.
Qed.

Lemma resume_cancelled_frame s t s' : resume_cancelled s t = Some s' ->
  persisted s' = persisted s /\ forall t', t' <> t -> look s' t' = look s t'.
Proof.
  intros H. destruct (resume_cancelled_shape _ _ _ H) as (th & u1 & _ & _ & _ & _ & Hgl & Hl & _ & _ & _ & _ & ->).
  split.
  - cbn. inversion Hgl. auto.
  - intros t' Hne. unfold look. cbn. rewrite lookt_set, Hl.
    destruct (Nat.eqb t t') eqn:E; auto. apply Nat.eqb_eq in E. congruence.
Qed.

Lemma cancel_persisted s t s' : cancel s t = Some s' -> persisted s' = persisted s.
Proof. intros H. destruct (cancel_frame _ _ _ H) as (th & _ & ->). reflexivity. Qed.

(* ---- [AResumeReadFail]: the flags of the [finish] each failing case performs ------------------------------------
   (error class, key released, reference released, revert reservation released); [None]: not a failing case *)
Definition rf_flags (th : thread) : option (eclass * bool * bool * bool) :=
  match t_pc th with
  | PRevTaken => Some (EStoreRead, false, false, true)
  | PIkTaken => Some (EStoreRead, true, false, true)
  | PRefTaken => Some (EStoreRead, true, true, true)
  | PIkLookup None =>
      match rq_kind (t_req th) with
      | KCreate => Some (ECompilationFailed, true, false, true)
      | KDelMeta => Some (ENotFound, true, false, false)
      | _ => None
      end
  | PRefLookup false => Some (ECompilationFailed, true, true, true)
  | PLocked => Some (EStoreRead, true, true, true)
  | _ => None
  end.

(* the shape of [AResumeReadFail]: [finish] with those flags over a state that differs from [s] in the lock table /
   queue and the [t_granted] flags only (the [unlock] of the [PLocked] case) -- or the SaveMeta that goes on *)
Lemma resume_read_fail_shape s t s' : resume_read_fail s t = Some s' ->
  exists th, get_thread (threads s) t = Some th /\ t_gen th = gen s /\
   ((exists err ri rf rv u1, rf_flags th = Some (err, ri, rf, rv) /\
       glob u1 = glob (of_state s) /\ (forall t', lookt (u_threads u1) t' = look s t') /\
       u_iks u1 = v_iks s /\ u_refs u1 = v_refs s /\ u_revs u1 = v_revs s /\ u_published u1 = published s /\
       (t_pc th <> PLocked -> u1 = of_state s) /\
       s' = to_state (gen s) (finish t th (RErr err) false ri rf rv u1))
    \/ (t_pc th = PIkLookup None /\ rq_kind (t_req th) = KSaveMeta /\
        s' = to_state (gen s) (set_th t (with_pc th (if rq_dry (t_req th) then PWait else PAppendEnter)) (of_state s)))).
Proof.
  intros H. unfold resume_read_fail in H.
  destruct (get_thread (threads s) t) as [th|] eqn:Hget; [|discriminate].
  destruct (Nat.eqb (t_gen th) (gen s)) eqn:Hg; simpl in H; [|discriminate]. apply Nat.eqb_eq in Hg.
  exists th. split; [reflexivity|]. split; [exact Hg|].
  assert (Hplain : forall err ri rf rv, rf_flags th = Some (err, ri, rf, rv) ->
            Some (to_state (gen s) (finish t th (RErr err) false ri rf rv (of_state s))) = Some s' ->
            (exists err ri rf rv u1, rf_flags th = Some (err, ri, rf, rv) /\
       glob u1 = glob (of_state s) /\ (forall t', lookt (u_threads u1) t' = look s t') /\
       u_iks u1 = v_iks s /\ u_refs u1 = v_refs s /\ u_revs u1 = v_revs s /\ u_published u1 = published s /\
       (t_pc th <> PLocked -> u1 = of_state s) /\
       s' = to_state (gen s) (finish t th (RErr err) false ri rf rv u1))).
  { intros err ri rf rv Hf H1. injection H1 as <-. exists err, ri, rf, rv, (of_state s). repeat split; auto. }
  unfold rf_flags in *.
  destruct (t_pc th) eqn:Hpc; try discriminate.
  - left. eapply Hplain; [reflexivity|exact H].
  - left. eapply Hplain; [reflexivity|exact H].
  - destruct hit; [discriminate|]. destruct (rq_kind (t_req th)) eqn:Hk; try discriminate.
    + destruct (N.eqb _ 0); [|discriminate]. left. eapply Hplain; [reflexivity|exact H].
    + destruct (rq_target_tx _); [|discriminate]. injection H as <-. right. auto.
    + destruct (rq_target_tx _); [|discriminate]. left. eapply Hplain; [reflexivity|exact H].
  - left. eapply Hplain; [reflexivity|exact H].
  - destruct hit; [discriminate|]. destruct (rq_kind (t_req th)) eqn:Hk; try discriminate.
    left. eapply Hplain; [reflexivity|exact H].
  - destruct (needs_balance th); [|discriminate]. injection H as <-. left.
    destruct (unlock_rest t (of_state s)) as (A & B & C & D).
    exists EStoreRead, true, true, true, (unlock t (of_state s)).
    split; [reflexivity|]. split; [apply unlock_glob|]. split; [intros t'; apply unlock_look|].
    repeat split; auto. intros Hc; congruence.
Qed.

Lemma resume_read_fail_frame s t s' : resume_read_fail s t = Some s' ->
  persisted s' = persisted s /\ forall t', t' <> t -> look s' t' = look s t'.
Proof.
  intros H. destruct (resume_read_fail_shape _ _ _ H) as (th & _ & _ & [Hf|(_ & _ & ->)]).
  - destruct Hf as (err & ri & rf & rv & u1 & _ & Hgl & Hl & _ & _ & _ & _ & _ & ->). split.
    + cbn. inversion Hgl. auto.
    + intros t' Hne. unfold look. cbn. rewrite lookt_set, Hl.
      destruct (Nat.eqb t t') eqn:E; auto. apply Nat.eqb_eq in E. congruence.
  - split; [reflexivity|]. intros t' Hne. unfold look. cbn. rewrite lookt_set.
    destruct (Nat.eqb t t') eqn:E; auto. apply Nat.eqb_eq in E. congruence.
Qed.

(* the thread that suffers the read failure is not finished *)
Lemma resume_read_fail_unfinished s t s' th : resume_read_fail s t = Some s' ->
  get_thread (threads s) t = Some th -> t_pc th <> PFinished.
Proof.
  intros H Hget Hpc. destruct (resume_read_fail_shape _ _ _ H) as (th1 & Hg1 & _ & Hc).
  rewrite Hget in Hg1. inversion Hg1; subst th1.
  destruct Hc as [(err & ri & rf & rv & u1 & Hf & _)|(Hp & _)]; [|congruence].
  unfold rf_flags in Hf. rewrite Hpc in Hf. discriminate.
Qed.

Lemma step_persisted s a s' : step s a = Some s' -> forall e, In e (persisted s') -> In e (all_log s).
Proof.
  intros H e He. destruct a; simpl in H.
  - apply start_frame in H. destruct H as (_ & Hp & _). rewrite Hp in He. apply persisted_all; auto.
  - apply resume_frame in H. destruct H as (Hp & _). rewrite Hp in He. apply persisted_all; auto.
  - unfold persist_ok in H. destruct (v_batch s) as [b|] eqn:Hb; [|discriminate]. injection H as <-.
    simpl in He. unfold all_log, batch_l. rewrite Hb. apply in_app_or in He.
    apply in_or_app. destruct He; auto. right. apply in_or_app; auto.
  - destruct (v_batch s); [|discriminate]. injection H as <-. apply persisted_all; auto.
  - injection H as <-. apply persisted_all; auto.
  - rewrite (cancel_persisted _ _ _ H) in He. apply persisted_all; auto.
  - apply resume_cancelled_frame in H. destruct H as (Hp & _). rewrite Hp in He. apply persisted_all; auto.
  - apply resume_read_fail_frame in H. destruct H as (Hp & _). rewrite Hp in He. apply persisted_all; auto.
  - (* AClose *) injection H as <-. apply persisted_all; auto.
  - (* ACloseOk: the disk of [crash s1] is the disk of [s1] *)
    unfold close_ok in H. destruct (persist_ok s) as [s1|] eqn:P; [|discriminate]. injection H as <-.
    change (In e (persisted s1)) in He.
    unfold persist_ok in P. destruct (v_batch s) as [b|] eqn:Hb; [|discriminate]. injection P as <-.
    simpl in He. unfold all_log, batch_l. rewrite Hb. apply in_app_or in He.
    apply in_or_app. destruct He; auto. right. apply in_or_app; auto.
Qed.

Lemma step_finished s a s' t th : look s t = Some th -> t_pc th = PFinished -> step s a = Some s' ->
  look s' t = Some th.
Proof.
  intros Hl Hpc H.
  assert (Hk : option_map kill (look s t) = Some th) by (rewrite Hl; simpl; unfold kill; rewrite Hpc; auto).
  destruct a as [t' rq|t'| | | |t'|t'|t'| |]; simpl in H.
  - apply start_frame in H. destruct H as (Hn & _ & Ho). rewrite Ho; auto.
    intros ->. rewrite (look_none _ _ Hn) in Hl. discriminate.
  - destruct (Nat.eq_dec t t') as [<-|Hne].
    + exfalso. destruct (look_inv _ _ _ Hl) as (th0 & Hg & ->). unfold resume in H. rewrite Hg in H.
      cbn in Hpc. rewrite Hpc in H. destruct (negb _); discriminate.
    + apply resume_frame in H. destruct H as (_ & Ho). rewrite Ho; auto.
  - unfold persist_ok in H. destruct (v_batch s); [|discriminate]. injection H as <-. exact Hl.
  - destruct (v_batch s); [|discriminate]. injection H as <-. rewrite look_crash. exact Hk.
  - injection H as <-. rewrite look_crash. exact Hk.
  - rewrite (cancel_look _ _ _ H). exact Hl.
  - destruct (Nat.eq_dec t t') as [<-|Hne].
    + exfalso. destruct (look_inv _ _ _ Hl) as (th0 & Hg & ->).
      destruct (resume_cancelled_shape _ _ _ H) as (th1 & _ & Hg1 & _ & Hpc1 & _).
      rewrite Hg in Hg1. inversion Hg1; subst th1. cbn in Hpc. congruence.
    + apply resume_cancelled_frame in H. destruct H as (_ & Ho). rewrite Ho; auto.
  - destruct (Nat.eq_dec t t') as [<-|Hne].
    + exfalso. destruct (look_inv _ _ _ Hl) as (th0 & Hg & ->).
      exact (resume_read_fail_unfinished _ _ _ _ H Hg Hpc).
    + apply resume_read_fail_frame in H. destruct H as (_ & Ho). rewrite Ho; auto.
  - (* AClose *) injection H as <-. unfold close. rewrite look_crash. exact Hk.
  - (* ACloseOk *)
    unfold close_ok in H. destruct (persist_ok s) as [s1|] eqn:P; [|discriminate]. injection H as <-.
    rewrite look_crash.
    unfold persist_ok in P. destruct (v_batch s); [|discriminate]. injection P as <-. exact Hk.
Qed.

Definition quiet (t : tid) (th : thread) (s : state) : Prop :=
  Inv s /\ look s t = Some th /\ t_pc th = PFinished /\ forall e, In e (all_log s) -> e_owner e <> t.

Lemma quiet_step t th s a s' : quiet t th s -> step s a = Some s' -> quiet t th s'.
Proof.
  intros (I & Hl & Hpc & Hno) H.
  pose proof (step_inv _ _ _ I H) as I'. pose proof (step_finished _ _ _ _ _ Hl Hpc H) as Hl'.
  split; auto. split; auto. split; auto.
  intros e He Ho. destruct (i_own _ I' e He) as (th1 & A & B). rewrite Ho, Hl' in A. inversion A; subst th1.
  pose proof (i_fin _ I' _ _ _ Hl' Hpc B He) as Hp. apply (Hno e); auto. eapply step_persisted; eauto.
Qed.

Lemma quiet_run t th acts : forall s s', quiet t th s -> run s acts = Some s' -> quiet t th s'.
Proof.
  induction acts as [|a r IH]; simpl; intros s s' Q H.
  - injection H as <-; auto.
  - destruct (step s a) as [s1|] eqn:Hs; [|discriminate]. eapply IH; [|exact H]. eapply quiet_step; eauto.
Qed.

(* a request that has finished (answered, or died in a crash) without an entry on disk never gets one:
   what was in flight is dropped by the crash, and a finished request builds nothing *)
Theorem e1_finished_no_trace s : reachable s ->
  forall t th, get_thread (threads s) t = Some th -> t_pc th = PFinished ->
  (forall e, In e (persisted s) -> e_owner e <> t) ->
  forall acts s', run s acts = Some s' -> forall e, In e (persisted s') -> e_owner e <> t.
Proof.
  intros R t th Hget Hpc Hno acts s' Hrun e He. apply reachable_inv in R.
  assert (Q : quiet t (erase th) s).
  { split; auto. split; [apply look_get; auto|]. split; [exact Hpc|].
    intros e0 H0 Ho. destruct (i_own _ R e0 H0) as (th1 & A & B). rewrite Ho, (look_get _ _ _ Hget) in A.
    inversion A; subst th1. apply (Hno e0); auto.
    eapply (i_fin _ R t (erase th)); eauto. apply look_get; auto. }
  destruct (quiet_run _ _ _ _ _ Q Hrun) as (_ & _ & _ & Hno'). apply Hno'. apply persisted_all; auto.
Qed.

Lemma answered_finished s : reachable s -> forall t th r, get_thread (threads s) t = Some th ->
  t_resp th = Some r -> t_pc th = PFinished.
Proof.
  intros R t th r Hget Hr. apply reachable_inv in R.
  pose proof (i_thr _ R _ _ (look_get _ _ _ Hget)) as Hti. apply tinv_erase_2 in Hti.
  destruct (t_pc th) eqn:E; try reflexivity; exfalso;
    rewrite (ti_resp _ _ _ _ _ Hti) in Hr by (rewrite E; discriminate); discriminate.
Qed.

Theorem e1_crash_no_trace s : reachable s ->
  forall t th, get_thread (threads s) t = Some th -> t_resp th = Some RCrashed ->
  (forall e, In e (persisted s) -> e_owner e <> t) ->
  forall acts s', run s acts = Some s' -> forall e, In e (persisted s') -> e_owner e <> t.
Proof.
  intros R t th Hget Hr. eapply e1_finished_no_trace; eauto. eapply answered_finished; eauto.
Qed.

(* the [done] signalling: a write that is past the wait has its entry on disk *)
Theorem e1_done_persisted s : reachable s -> forall t th, get_thread (threads s) t = Some th ->
  rq_dry (t_req th) = false -> t_pc th = PDone -> exists e, t_entry th = Some e /\ In e (persisted s).
Proof.
  intros R t th Hget Hd Hpc. apply reachable_inv in R.
  pose proof (i_thr _ R _ _ (look_get _ _ _ Hget)) as Hti. apply tinv_erase_2 in Hti.
  pose proof (ti_pc _ _ _ _ _ Hti) as H. unfold pc_ok, dry_th in H. rewrite Hpc, Hd in H. tauto.
Qed.

(* ---- cancellation of a request that waits for its account locks ------------------------------------------------ *)
(* a request that gave up waiting for its locks has finished, built no entry, owns no entry anywhere (disk, batcher
   queue, batch being written) and is not inside the append critical section *)
Theorem e1_cancelled_no_trace s t th : reachable s -> get_thread (threads s) t = Some th ->
  t_resp th = Some (RErr ELockCancelled) ->
  t_entry th = None /\ t_pc th = PFinished /\
  (forall e, In e (persisted s) -> e_owner e <> t) /\
  (forall e, In e (v_pending s) -> e_owner e <> t) /\
  (forall b e, v_batch s = Some b -> In e b -> e_owner e <> t) /\
  v_cs s <> Some t.
Proof.
  intros R Hget Hr. pose proof (answered_finished s R t th _ Hget Hr) as Hpc. apply reachable_inv in R.
  pose proof (look_get _ _ _ Hget) as Hlook.
  pose proof (i_thr _ R _ _ Hlook) as Hti. apply tinv_erase_2 in Hti.
  pose proof (ti_err _ _ _ _ _ Hti _ Hr) as Hent.
  assert (Hno : forall e, In e (all_log s) -> e_owner e <> t).
  { intros e He Ho. destruct (i_own _ R e He) as (th1 & A & B). rewrite Ho, Hlook in A.
    inversion A; subst th1. cbn in B. congruence. }
  split; [exact Hent|]. split; [exact Hpc|]. split; [|split; [|split]].
  - intros e He. apply Hno. apply persisted_all; auto.
  - intros e He. apply Hno. unfold all_log. apply in_or_app; right. apply in_or_app; right. apply in_or_app; auto.
  - intros b e Hb He. apply Hno. unfold all_log, batch_l. rewrite Hb. apply in_or_app; right. apply in_or_app; auto.
  - intros Hc. destruct (i_cs _ R _ Hc) as (th0 & Hl0 & _ & Hin0 & _). rewrite Hlook in Hl0. inversion Hl0; subst th0.
    unfold in_cs in Hin0. cbn in Hin0. rewrite Hpc in Hin0. discriminate.
Qed.

(* giving up writes nothing, publishes nothing, and releases the request's idempotency key, reference and revert
   reservation ([reachable] is not needed: the facts follow from the definition of the step) *)
Theorem e1_cancelled_step s t s' : reachable s -> step s (AResumeCancelled t) = Some s' ->
  persisted s' = persisted s /\ v_pending s' = v_pending s /\ v_batch s' = v_batch s /\
  published s' = published s /\ v_last s' = v_last s /\ v_lasttx s' = v_lasttx s /\
  exists th th', get_thread (threads s) t = Some th /\ get_thread (threads s') t = Some th' /\
    t_resp th' = Some (RErr ELockCancelled) /\
    (rq_ik (t_req th) <> 0%N -> ~ In (rq_ik (t_req th)) (v_iks s')) /\
    (rq_ref (t_req th) <> 0%N -> ~ In (rq_ref (t_req th)) (v_refs s')) /\
    (rq_kind (t_req th) = KRevert -> ~ In (rq_revert (t_req th)) (v_revs s')).
Proof.
  intros _ H. simpl in H.
  destruct (resume_cancelled_shape _ _ _ H) as (th & u1 & Hget & _ & _ & _ & Hgl & _ & Hik & Hrf & Hrv & Hpub & ->).
  inversion Hgl as [[Hp Hl Hlt Hpe Hb Hc Hu]].
  cbn. do 6 (split; [first [assumption|reflexivity]|]).
  exists th. eexists. split; [exact Hget|]. split; [rewrite get_set, Nat.eqb_refl; reflexivity|].
  split; [reflexivity|]. split; [|split].
  - intros Hne. apply N.eqb_neq in Hne. rewrite Hne. cbn. apply remove_N_not_in.
  - intros Hne. apply N.eqb_neq in Hne. rewrite Hne. cbn. apply remove_N_not_in.
  - intros Hk. rewrite Hk. apply remove_nat_not_in.
Qed.

(* cancelling by itself changes nothing observable: the disk, the events and every other request are untouched *)
Theorem e1_cancel_only_flag s t s' : step s (ACancel t) = Some s' ->
  persisted s' = persisted s /\ published s' = published s /\
  forall u, u <> t -> get_thread (threads s') u = get_thread (threads s) u.
Proof.
  intros H. simpl in H. destruct (cancel_frame _ _ _ H) as (th & Hget & ->).
  split; [reflexivity|]. split; [reflexivity|].
  intros u Hne. cbn. rewrite get_set. destruct (Nat.eqb t u) eqn:E; auto. apply Nat.eqb_eq in E. congruence.
Qed.

(* the cancelled request itself keeps everything but the flag *)
Lemma e1_cancel_self s t s' : step s (ACancel t) = Some s' ->
  exists th, get_thread (threads s) t = Some th /\ get_thread (threads s') t = Some (with_cancelled th).
Proof.
  intros H. simpl in H. destruct (cancel_frame _ _ _ H) as (th & Hget & ->).
  exists th. split; auto. cbn. rewrite get_set, Nat.eqb_refl. reflexivity.
Qed.

(* ---- transient store read failures ([AResumeReadFail]) ----------------------------------------------------------- *)
(* a request answered an error -- whatever the class -- has finished, built no entry, owns no entry anywhere (disk,
   batcher queue, batch being written) and is not inside the append critical section *)
Theorem e1_error_no_trace_anywhere s t th err : reachable s -> get_thread (threads s) t = Some th ->
  t_resp th = Some (RErr err) ->
  t_entry th = None /\ t_pc th = PFinished /\
  (forall e, In e (persisted s) -> e_owner e <> t) /\
  (forall e, In e (v_pending s) -> e_owner e <> t) /\
  (forall b e, v_batch s = Some b -> In e b -> e_owner e <> t) /\
  v_cs s <> Some t.
Proof.
  intros R Hget Hr. pose proof (answered_finished s R t th _ Hget Hr) as Hpc. apply reachable_inv in R.
  pose proof (look_get _ _ _ Hget) as Hlook.
  pose proof (i_thr _ R _ _ Hlook) as Hti. apply tinv_erase_2 in Hti.
  pose proof (ti_err _ _ _ _ _ Hti _ Hr) as Hent.
  assert (Hno : forall e, In e (all_log s) -> e_owner e <> t).
  { intros e He Ho. destruct (i_own _ R e He) as (th1 & A & B). rewrite Ho, Hlook in A.
    inversion A; subst th1. cbn in B. congruence. }
  split; [exact Hent|]. split; [exact Hpc|]. split; [|split; [|split]].
  - intros e He. apply Hno. apply persisted_all; auto.
  - intros e He. apply Hno. unfold all_log. apply in_or_app; right. apply in_or_app; right. apply in_or_app; auto.
  - intros b e Hb He. apply Hno. unfold all_log, batch_l. rewrite Hb. apply in_or_app; right. apply in_or_app; auto.
  - intros Hc. destruct (i_cs _ R _ Hc) as (th0 & Hl0 & _ & Hin0 & _). rewrite Hlook in Hl0. inversion Hl0; subst th0.
    unfold in_cs in Hin0. cbn in Hin0. rewrite Hpc in Hin0. discriminate.
Qed.

Theorem e1_read_failed_no_trace s t th : reachable s -> get_thread (threads s) t = Some th ->
  (t_resp th = Some (RErr EStoreRead) \/ t_resp th = Some (RErr ECompilationFailed)) ->
  t_entry th = None /\ t_pc th = PFinished /\
  (forall e, In e (persisted s) -> e_owner e <> t) /\
  (forall e, In e (v_pending s) -> e_owner e <> t) /\
  (forall b e, v_batch s = Some b -> In e b -> e_owner e <> t) /\
  v_cs s <> Some t.
Proof. intros R Hget [Hr|Hr]; eapply e1_error_no_trace_anywhere; eauto. Qed.

(* the step itself, case by case: nothing is written, handed over or published; the head of the chain, the transaction
   counter, the critical section are left alone; either the request is answered the error of [rf_flags] with no entry
   and exactly the reservations named by the flags are released (the others are untouched), or it is the SaveMeta
   whose read error the code ignores: only its pc moves *)
Theorem e1_read_failed_step_fine s t s' : reachable s -> step s (AResumeReadFail t) = Some s' ->
  persisted s' = persisted s /\ v_pending s' = v_pending s /\ v_batch s' = v_batch s /\
  published s' = published s /\ v_last s' = v_last s /\ v_lasttx s' = v_lasttx s /\ v_cs s' = v_cs s /\
  exists th th', get_thread (threads s) t = Some th /\ get_thread (threads s') t = Some th' /\
   ((exists err ri rf rv, rf_flags th = Some (err, ri, rf, rv) /\
       t_resp th' = Some (RErr err) /\ t_pc th' = PFinished /\ t_entry th' = None /\
       (if ri then rq_ik (t_req th) <> 0%N -> ~ In (rq_ik (t_req th)) (v_iks s') else v_iks s' = v_iks s) /\
       (if rf then rq_ref (t_req th) <> 0%N -> ~ In (rq_ref (t_req th)) (v_refs s') else v_refs s' = v_refs s) /\
       (if rv then rq_kind (t_req th) = KRevert -> ~ In (rq_revert (t_req th)) (v_revs s') else v_revs s' = v_revs s) /\
       (t_pc th <> PLocked -> v_locks s' = v_locks s /\ v_queue s' = v_queue s))
    \/ (rq_kind (t_req th) = KSaveMeta /\ t_pc th = PIkLookup None /\ t_resp th' = None /\ t_entry th' = None /\
        t_pc th' = (if rq_dry (t_req th) then PWait else PAppendEnter) /\
        v_iks s' = v_iks s /\ v_refs s' = v_refs s /\ v_revs s' = v_revs s /\
        v_locks s' = v_locks s /\ v_queue s' = v_queue s)).
Proof.
  intros R H. simpl in H. apply reachable_inv in R.
  destruct (resume_read_fail_shape _ _ _ H) as (th & Hget & Hgen & Hc).
  pose proof (i_thr _ R _ _ (look_get _ _ _ Hget)) as Hti. apply tinv_erase_2 in Hti.
  assert (Hent : t_entry th = None).
  { pose proof (ti_pc _ _ _ _ _ Hti) as Hp. unfold pc_ok in Hp.
    destruct Hc as [(err & ri & rf & rv & u1 & Hf & _)|(Hp1 & _)].
    - unfold rf_flags in Hf. destruct (t_pc th); try discriminate; try tauto.
    - rewrite Hp1 in Hp. tauto. }
  destruct Hc as [(err & ri & rf & rv & u1 & Hf & Hgl & _ & Hik & Hrf & Hrv & Hpub & Hu1 & ->)|(Hpc & Hk & ->)].
  - inversion Hgl as [[Hp Hl Hlt Hpe Hb Hcs Hu]].
    cbn. do 7 (split; [first [assumption|reflexivity]|]).
    exists th. eexists. split; [exact Hget|]. split; [rewrite get_set, Nat.eqb_refl; reflexivity|].
    left. exists err, ri, rf, rv. split; [exact Hf|]. split; [reflexivity|]. split; [reflexivity|].
    split; [exact Hent|]. split; [|split; [|split]].
    + destruct ri; cbn; [|exact Hik]. intros Hne. apply N.eqb_neq in Hne. rewrite Hne. cbn. apply remove_N_not_in.
    + destruct rf; cbn; [|exact Hrf]. intros Hne. apply N.eqb_neq in Hne. rewrite Hne. cbn. apply remove_N_not_in.
    + destruct rv; [|exact Hrv]. intros Hk. rewrite Hk. apply remove_nat_not_in.
    + intros Hnl. rewrite (Hu1 Hnl). split; reflexivity.
  - cbn. do 7 (split; [reflexivity|]).
    exists th. eexists. split; [exact Hget|]. split; [rewrite get_set, Nat.eqb_refl; reflexivity|].
    right. split; [exact Hk|]. split; [exact Hpc|]. cbn.
    split; [apply (ti_resp _ _ _ _ _ Hti); rewrite Hpc; discriminate|]. split; [exact Hent|].
    split; [destruct (rq_dry (t_req th)); reflexivity|]. repeat split; reflexivity.
Qed.

(* the summary: either the request failed -- answered an error, finished, no entry, and its idempotency key is free
   afterwards unless the failure came before the key was taken ([PRevTaken]: the key table is untouched) -- or it is
   exactly the SaveMeta case *)
Theorem e1_read_failed_step s t s' : reachable s -> step s (AResumeReadFail t) = Some s' ->
  persisted s' = persisted s /\ v_pending s' = v_pending s /\ v_batch s' = v_batch s /\
  published s' = published s /\ v_last s' = v_last s /\ v_lasttx s' = v_lasttx s /\
  exists th th', get_thread (threads s) t = Some th /\ get_thread (threads s') t = Some th' /\
   ((exists err, t_resp th' = Some (RErr err) /\ t_pc th' = PFinished /\ t_entry th' = None /\
       (t_pc th <> PRevTaken -> rq_ik (t_req th) <> 0%N -> ~ In (rq_ik (t_req th)) (v_iks s')) /\
       (t_pc th = PRevTaken -> v_iks s' = v_iks s))
    \/ (rq_kind (t_req th) = KSaveMeta /\ t_pc th = PIkLookup None /\ t_resp th' = None)).
Proof.
  intros R H. destruct (e1_read_failed_step_fine s t s' R H) as (A1 & A2 & A3 & A4 & A5 & A6 & _ & th & th' & Hg & Hg' & Hc).
  do 6 (split; [assumption|]). exists th, th'. split; [exact Hg|]. split; [exact Hg'|].
  destruct Hc as [(err & ri & rf & rv & Hf & Hr & Hpc & He & Hik & _)|(Hk & Hpc & Hr & _)]; [left|right; auto].
  exists err. split; [exact Hr|]. split; [exact Hpc|]. split; [exact He|].
  unfold rf_flags in Hf. split.
  - intros Hne. destruct (t_pc th); try discriminate; try congruence;
      repeat match type of Hf with context [match ?x with _ => _ end] => destruct x end;
      try discriminate; inversion Hf; subst; exact Hik.
  - intros Hp. rewrite Hp in Hf. inversion Hf; subst. exact Hik.
Qed.

(* ---- graceful shutdown ([AClose] / [ACloseOk]) ------------------------------------------------------------------ *)
(* a close step is the crash of [s] itself, or of [s] after the batch in flight was written *)
Lemma close_step_shape s a s' : a = AClose \/ a = ACloseOk -> step s a = Some s' ->
  (a = AClose /\ s' = crash s) \/
  (a = ACloseOk /\ exists b s1, v_batch s = Some b /\ persist_ok s = Some s1 /\ s' = crash s1 /\
                   persisted s1 = persisted s ++ b /\ threads s1 = threads s).
Proof.
  intros [->| ->] H; simpl in H.
  - left. injection H as <-. auto.
  - right. split; auto. unfold close_ok in H. destruct (persist_ok s) as [s1|] eqn:P; [|discriminate].
    injection H as <-. unfold persist_ok in P. destruct (v_batch s) as [b|] eqn:Hb; [|discriminate].
    exists b. eexists. split; [reflexivity|]. split; [rewrite <- P; reflexivity|]. injection P as <-.
    split; [reflexivity|]. split; reflexivity.
Qed.

Lemma crash_get ths t th' :
  get_thread (threads (crash ths)) t = Some th' ->
  exists th, get_thread (threads ths) t = Some th /\
    ((t_pc th = PFinished /\ th' = th) \/ (t_pc th <> PFinished /\ t_resp th' = Some RCrashed)).
Proof.
  simpl. induction (threads ths) as [|[u x] r IH]; simpl; [discriminate|].
  destruct (Nat.eqb t u); auto.
  intros H. injection H as <-. exists x. split; auto.
  destruct (t_pc x) eqn:Hpc; try (right; split; [discriminate|reflexivity]). left; auto.
Qed.

Lemma close_answers_nobody s a s' : a = AClose \/ a = ACloseOk -> reachable s -> step s a = Some s' ->
  forall t th', get_thread (threads s') t = Some th' ->
    exists th, get_thread (threads s) t = Some th /\
      (t_resp th' = t_resp th \/ (t_resp th = None /\ t_resp th' = Some RCrashed)).
Proof.
  intros Ha R H t th' Hg. pose proof (reachable_inv _ R) as I.
  assert (Hx : exists s1, s' = crash s1 /\ threads s1 = threads s).
  { destruct (close_step_shape _ _ _ Ha H) as [(_ & ->)|(_ & b & s1 & _ & _ & -> & _ & Ht)]; eauto. }
  destruct Hx as (s1 & -> & Ht).
  destruct (crash_get _ _ _ Hg) as (th & Hget & Hc). rewrite Ht in Hget.
  exists th. split; auto.
  destruct Hc as [(_ & ->)|(Hpc & Hr)]; [left; reflexivity|right]. split; auto.
  pose proof (i_thr _ I _ _ (look_get _ _ _ Hget)) as Hti.
  apply (ti_resp _ _ _ _ _ Hti). exact Hpc.
Qed.

Lemma nodup_map_app_disjoint {A B} (f : A -> B) (l1 l2 : list A) x :
  NoDup (map f (l1 ++ l2)) -> In x l1 -> In x l2 -> False.
Proof.
  induction l1 as [|a r IH]; simpl; intros Hnd H1 H2; [contradiction|].
  inversion Hnd as [|? ? Hni Hnd']; subst. destruct H1 as [->|H1]; [|eauto].
  apply Hni. apply in_map. apply in_or_app; auto.
Qed.

Lemma close_drops s a s' : a = AClose \/ a = ACloseOk -> reachable s -> step s a = Some s' ->
  v_pending s' = [] /\ v_batch s' = None /\
  (a = AClose -> persisted s' = persisted s) /\
  (a = ACloseOk -> exists b, v_batch s = Some b /\ persisted s' = persisted s ++ b) /\
  (forall e, In e (v_pending s) -> ~ In e (persisted s')) /\
  (a = AClose -> forall b e, v_batch s = Some b -> In e b -> ~ In e (persisted s')).
Proof.
  intros Ha R H. pose proof (reachable_inv _ R) as I. pose proof (i_uid _ I) as Hnd.
  unfold all_log in Hnd.
  destruct (close_step_shape _ _ _ Ha H) as [(-> & ->)|(-> & b & s1 & Hb & _ & -> & Hp & _)].
  - split; [reflexivity|]. split; [reflexivity|]. split; [reflexivity|]. split; [discriminate|]. split.
    + intros e He Hd. change (In e (persisted s)) in Hd.
      eapply (nodup_map_app_disjoint e_uid _ _ e Hnd); auto.
      apply in_or_app; right. apply in_or_app; auto.
    + intros _ b e Hb He Hd. change (In e (persisted s)) in Hd.
      eapply (nodup_map_app_disjoint e_uid _ _ e Hnd); auto.
      apply in_or_app; left. unfold batch_l. rewrite Hb. exact He.
  - split; [reflexivity|]. split; [reflexivity|]. split; [discriminate|].
    split; [intros _; exists b; split; [exact Hb|exact Hp]|]. split; [|discriminate].
    intros e He Hd. change (In e (persisted s1)) in Hd. rewrite Hp in Hd.
    unfold batch_l in Hnd. rewrite Hb in Hnd. rewrite app_assoc in Hnd.
    eapply (nodup_map_app_disjoint e_uid _ _ e Hnd); [exact Hd|]. apply in_or_app; auto.
Qed.

Lemma close_restarts_from_disk s a s' : a = AClose \/ a = ACloseOk -> reachable s -> step s a = Some s' ->
  v_last s' = last_entry (persisted s') /\ v_lasttx s' = last_txid (persisted s') /\ chain_ok (persisted s').
Proof.
  intros Ha R H. pose proof (step_inv _ _ _ (reachable_inv _ R) H) as I'.
  assert (Hx : exists s1, s' = crash s1).
  { destruct (close_step_shape _ _ _ Ha H) as [(_ & ->)|(_ & b & s1 & _ & _ & -> & _)]; eauto. }
  destruct Hx as (s1 & ->). split; [reflexivity|]. split; [reflexivity|].
  pose proof (i_chain _ I') as Hc. unfold all_log in Hc. eapply chain_ok_prefix; exact Hc.
Qed.
