(* E1 -- the C05 / C06 statements, from the invariant of E1Inv.v *)
From FL Require Import Engine.Model Engine.Spec Engine.E1Base Engine.E1Inv.
From Coq Require Import Lia.
Local Open Scope nat_scope.

Lemma persisted_all s e : In e (persisted s) -> In e (all_log s).
Proof. intros H. unfold all_log. apply in_or_app; auto. Qed.

(* ---- C05 -------------------------------------------------------------------------------------------------- *)
Theorem e1_chain s : reachable s -> chain_ok (persisted s).
Proof.
  intros R. apply reachable_inv in R. pose proof (i_chain _ R) as H. unfold all_log in H.
  eapply chain_ok_prefix; eauto.
Qed.

Lemma e1_ids s : reachable s -> forall i e, nth_error (persisted s) i = Some e -> e_id e = i.
Proof. intros R. exact (proj1 (e1_chain s R)). Qed.
Lemma e1_linked s : reachable s -> chain_linked (persisted s).
Proof. intros R. exact (proj1 (proj2 (e1_chain s R))). Qed.
Lemma e1_txids s : reachable s -> txids_contiguous (persisted s).
Proof. intros R. exact (proj2 (proj2 (e1_chain s R))). Qed.
Lemma e1_inflight s : reachable s -> chain_ok (all_log s) /\ v_last s = last_entry (all_log s).
Proof. intros R. split; [exact (i_chain _ (reachable_inv s R)) | exact (i_last _ (reachable_inv s R))]. Qed.

(* ---- C06 -------------------------------------------------------------------------------------------------- *)
(* [ack_persisted] is FALSE of the model since the branch "a metadata write replays a key stored by another kind of
   write" answers success without an entry (see Properties/C06.v, C06_ack_refuted). What holds unconditionally: *)
Theorem e1_ack_weak s : reachable s ->
  forall t th x, get_thread (threads s) t = Some th -> t_resp th = Some (ROk x) -> rq_dry (t_req th) = false ->
    (exists e, In e (persisted s) /\ answers t th x e) \/ replay_mismatch (persisted s) th x.
Proof.
  intros R t th x Hget Hr Hd. apply reachable_inv in R.
  pose proof (i_thr _ R _ _ (look_get _ _ _ Hget)) as Hti. apply tinv_erase_2 in Hti.
  exact (ti_ok _ _ _ _ _ Hti x Hr Hd).
Qed.

(* every request carrying a key that is on disk has the kind of that entry *)
Definition ik_kind_consistent_b (s : state) : bool :=
  forallb (fun p => let rq := t_req (snd p) in
                    N.eqb (rq_ik rq) 0 ||
                    forallb (fun e => negb (N.eqb (e_ik e) (rq_ik rq)) || same_kind (e_kind e) (rq_kind rq)) (persisted s))
          (threads s).

Lemma get_in l t th : get_thread l t = Some th -> In (t, th) l.
Proof.
  induction l as [|[u x] r IH]; simpl; [discriminate|].
  destruct (Nat.eqb t u) eqn:E; intros H.
  - apply Nat.eqb_eq in E. inversion H; subst. auto.
  - auto.
Qed.

(* the hypothesis is about the FINAL state only: the disk only grows, so the offending entry is still there *)
Theorem e1_ack_partial s : reachable s -> ik_kind_consistent_b s = true -> ack_persisted s.
Proof.
  intros R Hc t th x Hget Hr Hd.
  destruct (e1_ack_weak s R t th x Hget Hr Hd) as [H|(_ & _ & Hik & _ & e & Hin & Hek & Hsk)]; auto.
  exfalso. unfold ik_kind_consistent_b in Hc. rewrite forallb_forall in Hc.
  specialize (Hc (t, th) (get_in _ _ _ Hget)). cbn in Hc.
  apply orb_true_iff in Hc. destruct Hc as [Hc|Hc]; [apply N.eqb_eq in Hc; contradiction|].
  rewrite forallb_forall in Hc. specialize (Hc e Hin). rewrite Hek, N.eqb_refl, Hsk in Hc. discriminate.
Qed.

(* transactions are not affected: a create / revert that answers success has its entry *)
Theorem e1_ack_tx s : reachable s ->
  forall t th x, get_thread (threads s) t = Some th -> t_resp th = Some (ROk x) -> rq_dry (t_req th) = false ->
    is_tx_kind (rq_kind (t_req th)) = true -> exists e, In e (persisted s) /\ answers t th x e.
Proof.
  intros R t th x Hget Hr Hd Hk.
  destruct (e1_ack_weak s R t th x Hget Hr Hd) as [H|(Hm & _)]; auto. unfold tx_th in Hm. congruence.
Qed.

Lemma owner_entry s : Inv s -> forall e, In e (persisted s) ->
  exists th, get_thread (threads s) (e_owner e) = Some th /\ t_entry th = Some e /\
             tinv (persisted s) (gen s) (v_uid s) (e_owner e) th.
Proof.
  intros I e He. destruct (i_own _ I e (persisted_all _ _ He)) as (th' & Hl & Hent).
  destruct (look_inv _ _ _ Hl) as (th & Hget & ->). exists th. split; auto. split; auto.
  apply tinv_erase_2. apply (i_thr _ I); auto.
Qed.

Theorem e1_error_no_trace s : reachable s -> error_no_trace s.
Proof.
  intros R t th err Hget Hr e He Ho. apply reachable_inv in R.
  destruct (owner_entry _ R e He) as (th0 & Hg0 & He0 & Hti). rewrite Ho, Hget in Hg0. inversion Hg0; subst th0.
  rewrite (ti_err _ _ _ _ _ Hti err Hr) in He0. discriminate.
Qed.

Theorem e1_preview_no_trace s : reachable s -> preview_no_trace s.
Proof.
  intros R t th Hget Hd e He Ho. apply reachable_inv in R.
  destruct (owner_entry _ R e He) as (th0 & Hg0 & He0 & Hti). rewrite Ho, Hget in Hg0. inversion Hg0; subst th0.
  destruct (ti_entry _ _ _ _ _ Hti e He0) as (_ & _ & _ & Hd' & _). unfold dry_th in Hd'. congruence.
Qed.

Theorem e1_no_orphan s : reachable s -> no_orphan s.
Proof.
  intros R e He. apply reachable_inv in R.
  destruct (owner_entry _ R e He) as (th & Hg & Hent & Hti). exists th. split; auto. split; auto.
  destruct (ti_entry _ _ _ _ _ Hti e Hent) as (_ & _ & Hk & Hd & _). split; auto.
  rewrite Hk. apply same_kind_refl.
Qed.

Theorem e1_one_entry s : reachable s -> one_entry_per_request s.
Proof.
  intros R. apply reachable_inv in R.
  assert (Hu : NoDup (map e_uid (persisted s))).
  { pose proof (i_uid _ R) as H. unfold all_log in H. eapply nodup_map_prefix; eauto. }
  split; auto. eapply nodup_map_other; eauto.
  intros x y Hx Hy Ho.
  destruct (owner_entry _ R x Hx) as (thx & Hgx & Hex & _).
  destruct (owner_entry _ R y Hy) as (thy & Hgy & Hey & _).
  rewrite Ho in Hgx. congruence.
Qed.

(* the entry a request built carries the transaction id the request was given and the request's kind; and a
   request owns at most one entry, so the entry an acknowledgement stands for is unique *)
Theorem e1_entry_content s : reachable s -> forall e, In e (persisted s) ->
  exists th, get_thread (threads s) (e_owner e) = Some th /\ t_entry th = Some e /\
             e_txid e = t_txid th /\ e_kind e = rq_kind (t_req th).
Proof.
  intros R e He. apply reachable_inv in R.
  destruct (owner_entry _ R e He) as (th & Hg & Hent & Hti). exists th.
  destruct (ti_entry _ _ _ _ _ Hti e Hent) as (_ & Htx & Hk & _). auto.
Qed.

Theorem e1_owner_unique s : reachable s -> forall e1 e2, In e1 (persisted s) -> In e2 (persisted s) ->
  e_owner e1 = e_owner e2 -> e1 = e2.
Proof.
  intros R e1 e2 H1 H2 Ho. apply reachable_inv in R.
  destruct (owner_entry _ R e1 H1) as (th1 & Hg1 & Hent1 & _).
  destruct (owner_entry _ R e2 H2) as (th2 & Hg2 & Hent2 & _).
  rewrite Ho in Hg1. congruence.
Qed.

(* ---- a finished request never gets an entry later ------------------------------------------------------------ *)
Lemma unlock_persisted t u : u_persisted (unlock t u) = u_persisted u.
Proof. unfold unlock. destruct (recheck _ _ _) as [[q ths] l]. reflexivity. Qed.

Lemma enter_exec_frame t th u :
  u_persisted (enter_exec t th u) = u_persisted u /\
  forall t', t' <> t -> lookt (u_threads (enter_exec t th u)) t' = lookt (u_threads u) t'.
Proof.
  assert (E : forall t', t' <> t -> Nat.eqb t t' = false) by (intros t' H; apply Nat.eqb_neq; congruence).
  unfold enter_exec.
  repeat match goal with |- context [match ?x with _ => _ end] => destruct x end;
    (split; [reflexivity|]); intros t' Hne; cbn; rewrite lookt_set, (E t' Hne); reflexivity.
Qed.

Lemma enter_run_frame t th u :
  u_persisted (enter_run t th u) = u_persisted u /\
  forall t', t' <> t -> lookt (u_threads (enter_run t th u)) t' = lookt (u_threads u) t'.
Proof.
  assert (E : forall t', t' <> t -> Nat.eqb t t' = false) by (intros t' H; apply Nat.eqb_neq; congruence).
  unfold enter_run.
  destruct (N.eqb (rq_ik (t_req th)) 0); [apply enter_exec_frame|].
  destruct (mem_N _ _); (split; [reflexivity|]); intros t' Hne; cbn; rewrite lookt_set, (E t' Hne); reflexivity.
Qed.

Lemma resume_frame s t s' : resume s t = Some s' ->
  persisted s' = persisted s /\ forall t', t' <> t -> look s' t' = look s t'.
Proof.
  assert (E : forall t', t' <> t -> Nat.eqb t t' = false) by (intros t' H; apply Nat.eqb_neq; congruence).
  intros H. unfold resume in H.
  destruct (get_thread (threads s) t) as [th|]; [|discriminate].
  destruct (negb _); [discriminate|]. cbv beta zeta in H.
  destruct (t_pc th);
  repeat match type of H with
         | context [match ?x with _ => _ end] => destruct x
         end; try discriminate H; injection H as <-.
  all: first
    [ split; [exact (proj1 (enter_run_frame _ _ _)) | intros t' Hne; exact (proj2 (enter_run_frame _ _ _) t' Hne)]
    | split; [exact (proj1 (enter_exec_frame _ _ _)) | intros t' Hne; exact (proj2 (enter_exec_frame _ _ _) t' Hne)]
    | split; [cbn; rewrite unlock_persisted; reflexivity
             | intros t' Hne; unfold look; cbn; rewrite unlock_look; cbn; rewrite lookt_set, (E t' Hne); reflexivity]
    | split; [reflexivity | intros t' Hne; unfold look; cbn; rewrite lookt_set, (E t' Hne); reflexivity] ].
Qed.

Lemma start_frame s t rq s' : start s t rq = Some s' ->
  get_thread (threads s) t = None /\ persisted s' = persisted s /\ forall t', t' <> t -> look s' t' = look s t'.
Proof.
  assert (E : forall t', t' <> t -> Nat.eqb t t' = false) by (intros t' H; apply Nat.eqb_neq; congruence).
  intros H. unfold start in H. destruct (get_thread (threads s) t); [discriminate|]. split; auto.
  cbv beta zeta in H.
  repeat match type of H with context [match ?x with _ => _ end] => destruct x end; injection H as <-.
  all: first
    [ split; [exact (proj1 (enter_run_frame _ _ _)) | intros t' Hne; exact (proj2 (enter_run_frame _ _ _) t' Hne)]
    | split; [reflexivity | intros t' Hne; unfold look; cbn; rewrite lookt_set, (E t' Hne); reflexivity] ].
Qed.

Lemma step_persisted s a s' : step s a = Some s' -> forall e, In e (persisted s') -> In e (all_log s).
Proof.
  intros H e He. destruct a; simpl in H.
  - apply start_frame in H. destruct H as (_ & Hp & _). rewrite Hp in He. apply persisted_all; auto.
  - apply resume_frame in H. destruct H as (Hp & _). rewrite Hp in He. apply persisted_all; auto.
  - unfold persist_ok in H. destruct (v_batch s) as [b|] eqn:Hb; [|discriminate]. injection H as <-.
    simpl in He. unfold all_log, batch_l. rewrite Hb. apply in_app_or in He.
    apply in_or_app. destruct He; auto. right. apply in_or_app; auto.
  - destruct (v_batch s); [|discriminate]. injection H as <-. apply persisted_all; auto.
  - injection H as <-. apply persisted_all; auto.
Qed.

Lemma step_finished s a s' t th : look s t = Some th -> t_pc th = PFinished -> step s a = Some s' ->
  look s' t = Some th.
Proof.
  intros Hl Hpc H.
  assert (Hk : option_map kill (look s t) = Some th) by (rewrite Hl; simpl; unfold kill; rewrite Hpc; auto).
  destruct a as [t' rq|t'| | |]; simpl in H.
  - apply start_frame in H. destruct H as (Hn & _ & Ho). rewrite Ho; auto.
    intros ->. rewrite (look_none _ _ Hn) in Hl. discriminate.
  - destruct (Nat.eq_dec t t') as [<-|Hne].
    + exfalso. destruct (look_inv _ _ _ Hl) as (th0 & Hg & ->). unfold resume in H. rewrite Hg in H.
      cbn in Hpc. rewrite Hpc in H. destruct (negb _); discriminate.
    + apply resume_frame in H. destruct H as (_ & Ho). rewrite Ho; auto.
  - unfold persist_ok in H. destruct (v_batch s); [|discriminate]. injection H as <-. exact Hl.
  - destruct (v_batch s); [|discriminate]. injection H as <-. rewrite look_crash. exact Hk.
  - injection H as <-. rewrite look_crash. exact Hk.
Qed.

Definition quiet (t : tid) (th : thread) (s : state) : Prop :=
  Inv s /\ look s t = Some th /\ t_pc th = PFinished /\ forall e, In e (all_log s) -> e_owner e <> t.

Lemma quiet_step t th s a s' : quiet t th s -> step s a = Some s' -> quiet t th s'.
Proof.
  intros (I & Hl & Hpc & Hno) H.
  pose proof (step_inv _ _ _ I H) as I'. pose proof (step_finished _ _ _ _ _ Hl Hpc H) as Hl'.
  split; auto. split; auto. split; auto.
  intros e He Ho. destruct (i_own _ I' e He) as (th1 & A & B). rewrite Ho, Hl' in A. inversion A; subst th1.
  pose proof (i_fin _ I' _ _ _ Hl' Hpc B He) as Hp. apply (Hno e); auto. eapply step_persisted; eauto.
Qed.

Lemma quiet_run t th acts : forall s s', quiet t th s -> run s acts = Some s' -> quiet t th s'.
Proof.
  induction acts as [|a r IH]; simpl; intros s s' Q H.
  - injection H as <-; auto.
  - destruct (step s a) as [s1|] eqn:Hs; [|discriminate]. eapply IH; [|exact H]. eapply quiet_step; eauto.
Qed.

(* a request that has finished (answered, or died in a crash) without an entry on disk never gets one:
   what was in flight is dropped by the crash, and a finished request builds nothing *)
Theorem e1_finished_no_trace s : reachable s ->
  forall t th, get_thread (threads s) t = Some th -> t_pc th = PFinished ->
  (forall e, In e (persisted s) -> e_owner e <> t) ->
  forall acts s', run s acts = Some s' -> forall e, In e (persisted s') -> e_owner e <> t.
Proof.
  intros R t th Hget Hpc Hno acts s' Hrun e He. apply reachable_inv in R.
  assert (Q : quiet t (erase th) s).
  { split; auto. split; [apply look_get; auto|]. split; [exact Hpc|].
    intros e0 H0 Ho. destruct (i_own _ R e0 H0) as (th1 & A & B). rewrite Ho, (look_get _ _ _ Hget) in A.
    inversion A; subst th1. apply (Hno e0); auto.
    eapply (i_fin _ R t (erase th)); eauto. apply look_get; auto. }
  destruct (quiet_run _ _ _ _ _ Q Hrun) as (_ & _ & _ & Hno'). apply Hno'. apply persisted_all; auto.
Qed.

Lemma answered_finished s : reachable s -> forall t th r, get_thread (threads s) t = Some th ->
  t_resp th = Some r -> t_pc th = PFinished.
Proof.
  intros R t th r Hget Hr. apply reachable_inv in R.
  pose proof (i_thr _ R _ _ (look_get _ _ _ Hget)) as Hti. apply tinv_erase_2 in Hti.
  destruct (t_pc th) eqn:E; try reflexivity; exfalso;
    rewrite (ti_resp _ _ _ _ _ Hti) in Hr by (rewrite E; discriminate); discriminate.
Qed.

Theorem e1_crash_no_trace s : reachable s ->
  forall t th, get_thread (threads s) t = Some th -> t_resp th = Some RCrashed ->
  (forall e, In e (persisted s) -> e_owner e <> t) ->
  forall acts s', run s acts = Some s' -> forall e, In e (persisted s') -> e_owner e <> t.
Proof.
  intros R t th Hget Hr. eapply e1_finished_no_trace; eauto. eapply answered_finished; eauto.
Qed.

(* the [done] signalling: a write that is past the wait has its entry on disk *)
Theorem e1_done_persisted s : reachable s -> forall t th, get_thread (threads s) t = Some th ->
  rq_dry (t_req th) = false -> t_pc th = PDone -> exists e, t_entry th = Some e /\ In e (persisted s).
Proof.
  intros R t th Hget Hd Hpc. apply reachable_inv in R.
  pose proof (i_thr _ R _ _ (look_get _ _ _ Hget)) as Hti. apply tinv_erase_2 in Hti.
  pose proof (ti_pc _ _ _ _ _ Hti) as H. unfold pc_ok, dry_th in H. rewrite Hpc, Hd in H. tauto.
Qed.
