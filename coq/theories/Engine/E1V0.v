(* E1 -- the append path BEFORE the repair (commit 22f84e5 "atomic append"): transaction-id allocation, chaining
   and the hand-off to the batcher were three separate critical sections. In the model that is [resume] with
   the append critical section never taken: [v_cs] is cleared before every step, so a thread at [PAppendEnter]
   is always enabled and threads interleave between [PAppendEnter], [PTxid], [PChained] and [PAppended].
   Nothing else differs. Definitions only. *)
From FL Require Import Engine.Model.
Local Open Scope nat_scope.

Definition clear_cs (s : state) : state :=
  {| persisted := persisted s; v_last := v_last s; v_lasttx := v_lasttx s; v_pending := v_pending s;
     v_batch := v_batch s; v_iks := v_iks s; v_refs := v_refs s; v_revs := v_revs s; v_locks := v_locks s;
     v_queue := v_queue s; v_cs := None; v_uid := v_uid s; gen := gen s; threads := threads s;
     published := published s |}.
Definition step_v0 (s : state) (a : action) : option state := step (clear_cs s) a.
Fixpoint run_v0 (s : state) (acts : list action) : option state :=
  match acts with
  | [] => Some s
  | a :: r => match step_v0 s a with Some s' => run_v0 s' r | None => None end
  end.

(* two plain transactions world -> account 1 *)
Definition rq_pay : request :=
  {| rq_kind := KCreate; rq_ik := 0%N; rq_ref := 0%N; rq_dry := false; rq_postings := [(world, 1%N, 10%Z)];
     rq_unb := false; rq_revert := 0; rq_target_tx := None; rq_meta := 0%N |}.
(* both writers run up to the append: resolved -> locked -> balances -> ran -> append.enter *)
Definition to_append : list action :=
  [AStart 0 rq_pay; AStart 1 rq_pay;
   AResume 0; AResume 0; AResume 0; AResume 0; AResume 1; AResume 1; AResume 1; AResume 1].
(* (i) chainLog and Batcher.Append not atomic: 0 chains (id 0), 1 chains (id 1), 1 is appended first and is
   alone in the batch that gets written: the disk starts with id 1 *)
Definition sched_ids : list action :=
  to_append ++ [AResume 0; AResume 0; AResume 1; AResume 1; AResume 1; AResume 0; APersistOk].
(* (ii) nextTXID and chainLog not atomic: 0 takes tx 0, 1 takes tx 1, 1 chains first (log 0 carries tx 1),
   then 0 (log 1 carries tx 0); both are written in log order *)
Definition sched_txids : list action :=
  to_append ++ [AResume 0; AResume 1; AResume 1; AResume 0; AResume 1; AResume 0; APersistOk; APersistOk].

Definition disk_ids (o : option state) : list (nat * option nat) :=
  match o with Some s => map (fun e => (e_id e, e_txid e)) (persisted s) | None => [] end.

(* ---- a schedule of the repaired model used as non-vacuity witness (Properties/C05.v, C06.v) ---------------- *)
(* writers 0 and 1 reach the append; 0 goes through the critical section, then 1; the worker writes the batch [e0]
   and takes [e1]; the process dies before the second write and before anybody was acknowledged; after the restart
   writer 2 runs to completion. Disk: e0 (id 0, tx 0), e2 (id 1, tx 1). 0 crashed with its entry on disk, 1 crashed
   without trace, 2 acknowledged tx 1; a preview 3 then reads tx 2 and leaves nothing; a metadata write 4 on a
   missing transaction is refused. *)
Definition rq_preview : request :=
  {| rq_kind := KCreate; rq_ik := 0%N; rq_ref := 0%N; rq_dry := true; rq_postings := [(world, 1%N, 10%Z)];
     rq_unb := false; rq_revert := 0; rq_target_tx := None; rq_meta := 0%N |}.
Definition rq_meta_missing : request :=
  {| rq_kind := KSaveMeta; rq_ik := 0%N; rq_ref := 0%N; rq_dry := false; rq_postings := [];
     rq_unb := false; rq_revert := 0; rq_target_tx := Some 7; rq_meta := 0%N |}.
Definition sched_ok : list action :=
  to_append ++
  [AResume 0; AResume 0; AResume 0; AResume 0; AResume 1; AResume 1; AResume 1; AResume 1; APersistOk; ACrash;
   AStart 2 rq_pay; AResume 2; AResume 2; AResume 2; AResume 2; AResume 2; AResume 2; AResume 2; AResume 2;
   APersistOk; AResume 2; AResume 2; AResume 2;
   AStart 3 rq_preview; AResume 3; AResume 3; AResume 3; AResume 3; AResume 3; AResume 3; AResume 3; AResume 3;
   AStart 4 rq_meta_missing].
Definition resps (o : option state) : list (tid * option response) :=
  match o with Some s => map (fun p => (fst p, t_resp (snd p))) (threads s) | None => [] end.
Definition owners (o : option state) : list tid :=
  match o with Some s => map e_owner (persisted s) | None => [] end.

(* ---- an idempotency key reused with a different request is refused (Properties/C06.v, C06_key_reuse_refused and following) ------ *)
(* a transaction with key 5 is written and acknowledged; then SaveMeta with the same key: the key is found, the
   stored entry is a transaction, not the outcome of this SaveMeta ([is_outcome_of] is false): the request is refused
   with [EKeyReused], nothing is written or published. (Before the repair of executionContext.run SaveMeta answered
   success and published an event although nothing was written: the former finding "idempotency key stored by another
   kind of write".) *)
Definition rq_pay_k : request :=
  {| rq_kind := KCreate; rq_ik := 5%N; rq_ref := 0%N; rq_dry := false; rq_postings := [(world, 1%N, 10%Z)];
     rq_unb := false; rq_revert := 0; rq_target_tx := None; rq_meta := 0%N |}.
Definition rq_meta_k : request :=
  {| rq_kind := KSaveMeta; rq_ik := 5%N; rq_ref := 0%N; rq_dry := false; rq_postings := [];
     rq_unb := false; rq_revert := 0; rq_target_tx := None; rq_meta := 0%N |}.
Definition sched_ik_kinds : list action :=
  [AStart 0 rq_pay_k; AResume 0; AResume 0; AResume 0; AResume 0; AResume 0; AResume 0; AResume 0; AResume 0;
   AResume 0; AResume 0; APersistOk; AResume 0; AResume 0; AResume 0;
   AStart 1 rq_meta_k; AResume 1; AResume 1].

(* the same key, the same KIND of write, another request *)
Definition rq_sm (ik m : N) : request :=
  {| rq_kind := KSaveMeta; rq_ik := ik; rq_ref := 0%N; rq_dry := false; rq_postings := [];
     rq_unb := false; rq_revert := 0; rq_target_tx := None; rq_meta := m |}.
Definition rq_rv (ik : N) (x : nat) : request :=
  {| rq_kind := KRevert; rq_ik := ik; rq_ref := 0%N; rq_dry := false; rq_postings := [];
     rq_unb := false; rq_revert := x; rq_target_tx := None; rq_meta := 0%N |}.
(* SaveMeta (key 6, target and content 1) is written and acknowledged; SaveMeta with key 6 and ANOTHER target /
   content (2) is refused; SaveMeta with key 6 and the same target and content is a replay *)
Definition sched_sm_stored : list action :=
  [AStart 1 (rq_sm 6 1)] ++ repeat (AResume 1) 5 ++ [APersistOk] ++ repeat (AResume 1) 2.
Definition sched_sm_other_target : list action := sched_sm_stored ++ [AStart 2 (rq_sm 6 2); AResume 2; AResume 2].
Definition sched_sm_same_target : list action := sched_sm_other_target ++ [AStart 3 (rq_sm 6 1); AResume 3; AResume 3].
(* three transactions world -> account 1 (tx 0, 1, 2); request 3 reverts tx 1 with key 8 and is acknowledged tx 3;
   request 4 carries key 8 for a revert of tx 2: refused, tx 2 is not reverted *)
Definition pay_ack (t : tid) : list action :=
  [AStart t rq_pay] ++ repeat (AResume t) 8 ++ [APersistOk] ++ repeat (AResume t) 3.
Definition sched_rv_stored : list action :=
  pay_ack 0 ++ pay_ack 1 ++ pay_ack 2 ++
  [AStart 3 (rq_rv 8 1)] ++ repeat (AResume 3) 12 ++ [APersistOk] ++ repeat (AResume 3) 3.
Definition sched_rv_other_revert : list action := sched_rv_stored ++ [AStart 4 (rq_rv 8 2)] ++ repeat (AResume 4) 4.

(* ---- cancellation of a request that waits for its account locks (Properties/C06.v, C06_cancel_example) ------- *)
(* request 0 funds account 1 with 100 and is acknowledged; request 1 (1 -> 2, 100) takes the locks of accounts 1, 2;
   request 2 (1 -> 3, 100, idempotency key 7, reference 9) reserves its key and reference and queues behind it *)
Definition rq_c (ik ref : N) (ps : list posting) : request :=
  {| rq_kind := KCreate; rq_ik := ik; rq_ref := ref; rq_dry := false; rq_postings := ps;
     rq_unb := false; rq_revert := 0; rq_target_tx := None; rq_meta := 0%N |}.
Definition sched_queued : list action :=
  [AStart 0 (rq_c 0 0 [(world, 1%N, 100%Z)])] ++ repeat (AResume 0) 8 ++ [APersistOk] ++ repeat (AResume 0) 3 ++
  [AStart 1 (rq_c 0 0 [(1%N, 2%N, 100%Z)]); AStart 2 (rq_c 7 9 [(1%N, 3%N, 100%Z)]); AResume 1] ++
  repeat (AResume 2) 5.
(* (i) 2 is cancelled and gives up while 1 still holds the locks (it leaves the queue); 1 then completes *)
Definition sched_cancel : list action :=
  sched_queued ++ [ACancel 2; AResumeCancelled 2] ++ repeat (AResume 1) 6 ++ [APersistOk] ++ repeat (AResume 1) 4.
(* (ii) 2 is cancelled, 1 completes its write and releases the locks, which GRANTS them to 2; 2 then takes the
   ctx.Done() branch all the same: it gives the grant back. Request 3 (world -> 3) then uses key 7 and reference 9
   again and is acknowledged: the reservations of 2 were released *)
Definition sched_cancel_granted : list action :=
  sched_queued ++ [ACancel 2] ++ repeat (AResume 1) 6 ++ [APersistOk] ++ repeat (AResume 1) 3.
Definition sched_cancel_reuse : list action :=
  sched_cancel_granted ++ [AResumeCancelled 2; AResume 1; AStart 3 (rq_c 7 9 [(world, 3%N, 5%Z)])] ++
  repeat (AResume 3) 12 ++ [APersistOk] ++ repeat (AResume 3) 3.

(* ---- transient store read failures (Properties/C06.v, C06_read_failure_example and the SaveMeta witness) ------- *)
(* [sched_queued]: request 1 holds the locks of accounts 1, 2 and is parked at "locked", request 2 (key 7, reference
   9) is queued behind it. The balance read of 1 fails: 1 answers [RErr EStoreRead], its locks are released and the
   re-check grants 2, which then runs to completion (tx 1: account 1 still holds the 100 that 1 did not spend) *)
Definition sched_readfail_locked : list action := sched_queued ++ [AResumeReadFail 1].
Definition sched_readfail_done : list action :=
  sched_readfail_locked ++ repeat (AResume 2) 7 ++ [APersistOk] ++ repeat (AResume 2) 4.
(* request 0 funds account 1 and is acknowledged tx 0: the only transaction of the ledger *)
Definition sched_fund : list action :=
  [AStart 0 (rq_c 0 0 [(world, 1%N, 100%Z)])] ++ repeat (AResume 0) 8 ++ [APersistOk] ++ repeat (AResume 0) 3.
(* SaveMeta / DeleteMetadata (with idempotency keys 5 / 6) on the MISSING transaction 7 *)
Definition rq_sm_missing : request :=
  {| rq_kind := KSaveMeta; rq_ik := 5%N; rq_ref := 0%N; rq_dry := false; rq_postings := [];
     rq_unb := false; rq_revert := 0; rq_target_tx := Some 7; rq_meta := 0%N |}.
Definition rq_dm_missing : request :=
  {| rq_kind := KDelMeta; rq_ik := 6%N; rq_ref := 0%N; rq_dry := false; rq_postings := [];
     rq_unb := false; rq_revert := 0; rq_target_tx := Some 7; rq_meta := 0%N |}.
(* GetTransaction answers "not found": refused *)
Definition sched_sm_notfound : list action := sched_fund ++ [AStart 3 rq_sm_missing; AResume 3; AResume 3].
(* the same read FAILS: SaveMeta ignores the error, goes through the append critical section, is written and
   acknowledged *)
Definition sched_sm_readfail : list action :=
  sched_fund ++ [AStart 3 rq_sm_missing; AResume 3; AResumeReadFail 3] ++ repeat (AResume 3) 3 ++ [APersistOk] ++
  repeat (AResume 3) 2.
Definition sched_dm_readfail : list action := sched_fund ++ [AStart 3 rq_dm_missing; AResume 3; AResumeReadFail 3].
(* a revert carrying key 8 whose GetTransaction fails at "revert.taken", BEFORE it took its key, while request 1
   holds key 8 (parked at "ik.taken"): the revert answers [RErr EStoreRead] and key 8 stays reserved -- by 1 *)
Definition rq_rv_k8 : request :=
  {| rq_kind := KRevert; rq_ik := 8%N; rq_ref := 0%N; rq_dry := false; rq_postings := [];
     rq_unb := false; rq_revert := 0; rq_target_tx := None; rq_meta := 0%N |}.
Definition sched_rev_readfail : list action :=
  sched_fund ++ [AStart 1 (rq_c 8 0 [(world, 1%N, 10%Z)]); AStart 4 rq_rv_k8; AResumeReadFail 4].

(* ---- graceful shutdown (Properties/C06.v, C06_close_example) ------------------------------------------------------ *)
(* request 0 funds account 1 and is acknowledged (tx 0). Request 1 (create, world -> 2) runs up to "wait": the worker
   was free, its entry IS the batch inside the store call. Request 2 (create, world -> 3) and request 3 (SaveMeta) run
   up to "wait" as well: their entries are queued in the batcher behind that batch. Then the commander is closed. *)
Definition sched_close : list action :=
  sched_fund ++
  [AStart 1 (rq_c 0 0 [(world, 2%N, 10%Z)])] ++ repeat (AResume 1) 8 ++
  [AStart 2 (rq_c 0 0 [(world, 3%N, 10%Z)])] ++ repeat (AResume 2) 8 ++
  [AStart 3 (rq_sm 0 1)] ++ repeat (AResume 3) 3.
