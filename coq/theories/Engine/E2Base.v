(* M2, prover E2 — basic frame lemmas for the reservation invariants (C07 / C11 / C10-once).
   Threads are read through [gth], which forgets [t_granted] (the only field [recheck] touches) and
   [t_cancelled] (the only field [cancel] touches). *)
From FL Require Import Engine.Model Engine.Spec.
From Coq Require Import Lia Permutation.
Open Scope nat_scope.

(* ---- thread table ---------------------------------------------------------------------------------- *)
Lemma e2_get_set : forall l t th t', get_thread (set_thread l t th) t' = if Nat.eqb t' t then Some th else get_thread l t'.
Proof.
  induction l as [|[u x] r IH]; intros t th t'; cbn.
  - destruct (Nat.eqb t' t); reflexivity.
  - destruct (Nat.eqb t u) eqn:Htu; cbn.
    + apply Nat.eqb_eq in Htu. subst u. destruct (Nat.eqb t' t); reflexivity.
    + rewrite IH. destruct (Nat.eqb t' u) eqn:Ht'u; [|reflexivity].
      apply Nat.eqb_eq in Ht'u. subst u. destruct (Nat.eqb t' t) eqn:E; [|reflexivity].
      apply Nat.eqb_eq in E. subst. rewrite Nat.eqb_refl in Htu. discriminate.
Qed.

Definition ug (th : thread) : thread :=
  {| t_req := t_req th; t_pc := t_pc th; t_postings := t_postings th; t_unb := t_unb th; t_view := t_view th;
     t_entry := t_entry th; t_txid := t_txid th; t_granted := false; t_resp := t_resp th; t_gen := t_gen th;
     t_cancelled := false |}.
Definition gtl (l : list (tid * thread)) (t : tid) : option thread := option_map ug (get_thread l t).
Definition gth (s : state) (t : tid) : option thread := gtl (threads s) t.

Lemma e2_gtl_set : forall l t th t', gtl (set_thread l t th) t' = if Nat.eqb t' t then Some (ug th) else gtl l t'.
Proof. intros. unfold gtl. rewrite e2_get_set. destruct (Nat.eqb t' t); reflexivity. Qed.

Lemma e2_gth_of_get : forall s t th, get_thread (threads s) t = Some th -> gth s t = Some (ug th).
Proof. intros s t th H. unfold gth, gtl. rewrite H. reflexivity. Qed.
Lemma e2_get_of_gth : forall s t th, gth s t = Some th -> exists th0, get_thread (threads s) t = Some th0 /\ th = ug th0.
Proof. intros s t th H. unfold gth, gtl in H. destruct (get_thread (threads s) t); inversion H. eauto. Qed.

(* ---- recheck / unlock touch only locks, queue and [t_granted] --------------------------------------- *)
Lemma e2_recheck_gtl : forall q ths locks t',
  gtl (snd (fst (recheck q ths locks))) t' = gtl ths t'.
Proof.
  induction q as [|w rest IH]; intros ths locks t'; cbn; [reflexivity|].
  destruct (get_thread ths w) as [th|] eqn:Hw; [|apply IH].
  destruct (compatible _ _ locks).
  - rewrite IH, e2_gtl_set. destruct (Nat.eqb t' w) eqn:E; [|reflexivity].
    apply Nat.eqb_eq in E. subst. unfold gtl. rewrite Hw. reflexivity.
  - specialize (IH ths locks t'). destruct (recheck rest ths locks) as [[q' ths'] l']. exact IH.
Qed.

Lemma e2_unlock_gtl : forall t u t', gtl (u_threads (unlock t u)) t' = gtl (u_threads u) t'.
Proof.
  intros. unfold unlock.
  pose proof (e2_recheck_gtl (u_queue u) (u_threads u)
     (filter (fun h => negb (Nat.eqb (fst (fst h)) t)) (u_locks u)) t') as H.
  destruct (recheck _ _ _) as [[q ths] l]. exact H.
Qed.

Ltac e2_unl := intros; unfold unlock; destruct (recheck _ _ _) as [[? ?] ?]; reflexivity.
Lemma e2_unlock_persisted : forall t u, u_persisted (unlock t u) = u_persisted u. Proof. e2_unl. Qed.
Lemma e2_unlock_pending : forall t u, u_pending (unlock t u) = u_pending u. Proof. e2_unl. Qed.
Lemma e2_unlock_batch : forall t u, u_batch (unlock t u) = u_batch u. Proof. e2_unl. Qed.
Lemma e2_unlock_iks : forall t u, u_iks (unlock t u) = u_iks u. Proof. e2_unl. Qed.
Lemma e2_unlock_refs : forall t u, u_refs (unlock t u) = u_refs u. Proof. e2_unl. Qed.
Lemma e2_unlock_revs : forall t u, u_revs (unlock t u) = u_revs u. Proof. e2_unl. Qed.
Lemma e2_unlock_uid : forall t u, u_uid (unlock t u) = u_uid u. Proof. e2_unl. Qed.
Lemma e2_unlock_last : forall t u, u_last (unlock t u) = u_last u. Proof. e2_unl. Qed.
Lemma e2_unlock_lasttx : forall t u, u_lasttx (unlock t u) = u_lasttx u. Proof. e2_unl. Qed.
Lemma e2_unlock_published : forall t u, u_published (unlock t u) = u_published u. Proof. e2_unl. Qed.

(* ---- dequeue touches only the queue; cancel touches only [t_cancelled] --------------------------------- *)
Lemma e2_dequeue_gtl : forall t u t', gtl (u_threads (dequeue t u)) t' = gtl (u_threads u) t'. Proof. reflexivity. Qed.
Lemma e2_ug_with_cancelled : forall th, ug (with_cancelled th) = ug th. Proof. reflexivity. Qed.
Lemma e2_gtl_set_same : forall l t th th', get_thread l t = Some th -> ug th' = ug th ->
  forall t', gtl (set_thread l t th') t' = gtl l t'.
Proof.
  intros l t th th' H E t'. rewrite e2_gtl_set. destruct (Nat.eqb t' t) eqn:Q; [|reflexivity].
  apply Nat.eqb_eq in Q. subst t'. unfold gtl. rewrite H. cbn. rewrite E. reflexivity.
Qed.

(* ---- membership / removal ---------------------------------------------------------------------------- *)
Lemma e2_mem_N_In : forall x l, mem_N x l = true <-> In x l.
Proof.
  intros. unfold mem_N. rewrite existsb_exists. split.
  - intros [y [Hy E]]. apply N.eqb_eq in E. subst. exact Hy.
  - intros H. exists x. split; [exact H|apply N.eqb_refl].
Qed.
Lemma e2_mem_nat_In : forall x l, mem_nat x l = true <-> In x l.
Proof.
  intros. unfold mem_nat. rewrite existsb_exists. split.
  - intros [y [Hy E]]. apply Nat.eqb_eq in E. subst. exact Hy.
  - intros H. exists x. split; [exact H|apply Nat.eqb_refl].
Qed.
Lemma e2_In_remove_N : forall x y l, In y (remove_N x l) <-> In y l /\ x <> y.
Proof.
  intros. unfold remove_N. rewrite filter_In. split; intros [H1 H2]; split; auto.
  - intro E. subst. rewrite N.eqb_refl in H2. discriminate.
  - destruct (N.eqb x y) eqn:E; [apply N.eqb_eq in E; contradiction|reflexivity].
Qed.
Lemma e2_In_remove_nat : forall x y l, In y (remove_nat x l) <-> In y l /\ x <> y.
Proof.
  intros. unfold remove_nat. rewrite filter_In. split; intros [H1 H2]; split; auto.
  - intro E. subst. rewrite Nat.eqb_refl in H2. discriminate.
  - destruct (Nat.eqb x y) eqn:E; [apply Nat.eqb_eq in E; contradiction|reflexivity].
Qed.

(* ---- counting ------------------------------------------------------------------------------------------ *)
Lemma e2_count_app : forall f l1 l2, count_where f (l1 ++ l2) = count_where f l1 + count_where f l2.
Proof. intros. unfold count_where. rewrite filter_app, app_length. reflexivity. Qed.
Lemma e2_count_cons : forall f x l, count_where f (x :: l) = (if f x then 1 else 0) + count_where f l.
Proof. intros. unfold count_where. cbn. destruct (f x); reflexivity. Qed.
Lemma e2_count_perm : forall f l1 l2, Permutation l1 l2 -> count_where f l1 = count_where f l2.
Proof.
  intros f l1 l2 H. induction H.
  - reflexivity.
  - rewrite !e2_count_cons. lia.
  - rewrite !e2_count_cons. lia.
  - lia.
Qed.
Lemma e2_count_zero : forall f l, count_where f l = 0 <-> (forall x, In x l -> f x = false).
Proof.
  intros f l. induction l as [|a l IH].
  - cbn. split; [intros _ x []|reflexivity].
  - rewrite e2_count_cons. split.
    + intros H x [E|Hx].
      * subst. destruct (f x); [cbn in H; lia|reflexivity].
      * apply IH; [destruct (f a); cbn in H; lia|exact Hx].
    + intros H. rewrite (H a (or_introl eq_refl)). cbn. apply IH. intros x Hx. apply H. right. exact Hx.
Qed.
Lemma e2_count_le1_eq : forall f l x y, count_where f l <= 1 -> In x l -> In y l -> f x = true -> f y = true -> x = y.
Proof.
  intros f l. induction l as [|a l IH]; intros x y Hc Hx Hy Fx Fy; [destruct Hx|].
  rewrite e2_count_cons in Hc. destruct Hx as [Ex|Hx], Hy as [Ey|Hy]; subst.
  - reflexivity.
  - rewrite Fx in Hc. assert (Z0 : count_where f l = 0) by (cbn in Hc; lia).
    rewrite e2_count_zero in Z0. rewrite (Z0 y Hy) in Fy. discriminate.
  - rewrite Fy in Hc. assert (Z0 : count_where f l = 0) by (cbn in Hc; lia).
    rewrite e2_count_zero in Z0. rewrite (Z0 x Hx) in Fx. discriminate.
  - apply IH; auto. destruct (f a); cbn in Hc; lia.
Qed.

(* ---- the entries that exist outside the threads' hands ---------------------------------------------------- *)
Definition batch_l (b : option (list entry)) : list entry := match b with Some l => l | None => [] end.
Definition inflight (s : state) : list entry := batch_l (v_batch s) ++ v_pending s.
Definition all_entries (s : state) : list entry := persisted s ++ inflight s.
