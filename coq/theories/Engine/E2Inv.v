(* M2, prover E2 — the shared invariant (entries, owners, serial numbers, outcomes) and its preservation. *)
From FL Require Import Engine.Model Engine.Spec Engine.E2Base Engine.E2Step.
From Coq Require Import Lia Permutation.
Open Scope nat_scope.

(* ---- frame of persist_ok and crash --------------------------------------------------------------------- *)
Lemma e2_persist_frame : forall s s', persist_ok s = Some s' ->
  (exists b, v_batch s = Some b /\ persisted s' = persisted s ++ b) /\
  all_entries s' = all_entries s /\ inflight s' = v_pending s /\
  threads s' = threads s /\ v_uid s' = v_uid s /\ v_iks s' = v_iks s /\ v_refs s' = v_refs s /\ v_revs s' = v_revs s.
Proof.
  intros s s' H. unfold persist_ok in H. destruct (v_batch s) as [b|] eqn:Hb; [|discriminate].
  inversion H; subst s'; clear H. unfold all_entries, inflight. cbn. rewrite Hb. cbn.
  split; [eexists; split; reflexivity|].
  destruct (v_pending s) as [|p l]; cbn; rewrite ?app_nil_r;
    (split; [rewrite <- ?app_assoc; reflexivity|]); repeat split; reflexivity.
Qed.

Definition kill (a : thread) : thread :=
  match t_pc a with
  | PFinished => a
  | _ => {| t_req := t_req a; t_pc := PFinished; t_postings := t_postings a; t_unb := t_unb a; t_view := t_view a;
            t_entry := t_entry a; t_txid := t_txid a; t_granted := t_granted a; t_resp := Some RCrashed;
            t_gen := t_gen a; t_cancelled := t_cancelled a |}
  end.

Lemma e2_crash_gth : forall s t, gth (crash s) t = option_map kill (gth s t).
Proof.
  intros s t. unfold gth, gtl, crash. cbn [threads].
  induction (threads s) as [|[u x] r IH]; cbn; [reflexivity|].
  destruct (Nat.eqb t u); [|exact IH]. cbn. f_equal.
  unfold kill, ug. cbn. destruct (t_pc x) eqn:E; cbn; rewrite ?E; reflexivity.
Qed.

Lemma e2_kill_facts : forall a,
  t_req (kill a) = t_req a /\ t_entry (kill a) = t_entry a /\ t_txid (kill a) = t_txid a /\ t_pc (kill a) = PFinished /\
  (t_pc a = PFinished -> kill a = a) /\ (t_pc a <> PFinished -> t_resp (kill a) = Some RCrashed).
Proof.
  intros a. unfold kill. destruct (t_pc a) eqn:E; cbn; repeat split; auto; intros; try discriminate; congruence.
Qed.

(* ---- static facts about pcs --------------------------------------------------------------------------------- *)
Lemma e2_pre_not_after : forall p, pre_pc p = true -> after_append p = false.
Proof. destruct p; cbn; intros; congruence. Qed.
Lemma e2_wait_after : forall p, waiting p = true -> after_append p = true.
Proof. destruct p; cbn; intros; congruence. Qed.

(* ---- small list facts ----------------------------------------------------------------------------------------- *)
Lemma e2_nodup_app_disjoint : forall (l1 l2 : list entry) x y,
  NoDup (map e_uid (l1 ++ l2)) -> In y l1 -> In x l2 -> e_uid y = e_uid x -> False.
Proof.
  intros l1 l2 x y H Hy Hx E. rewrite map_app in H. induction l1 as [|a l1 IH]; [destruct Hy|].
  cbn in H. inversion H; subst. destruct Hy as [->|Hy].
  - apply H2. rewrite in_app_iff. right. rewrite E. apply in_map. exact Hx.
  - apply IH; assumption.
Qed.
Lemma e2_find_tx_app : forall l b id, find_tx l id <> None -> find_tx (l ++ b) id <> None.
Proof.
  intros l b id H. unfold find_tx in *. induction l as [|a l IH]; [contradiction|]. cbn in *.
  destruct (match e_txid a with Some t => Nat.eqb t id | None => false end); [discriminate|auto].
Qed.
Lemma e2_entry_persisted_ex : forall log e, entry_persisted log e = true -> exists y, In y log /\ e_uid y = e_uid e.
Proof.
  intros log e H. unfold entry_persisted in H. apply existsb_exists in H. destruct H as [y [Hy E]].
  apply Nat.eqb_eq in E. eauto.
Qed.

(* the entry a request built itself is its outcome in the sense of the code's comparison ([is_outcome_of]) *)
Lemma e2_entry_of_outcome : forall t a e, entry_of t a e -> is_outcome_of (t_req a) e = true.
Proof.
  intros t a e (_&_&_&Rv&_&K&M). unfold is_outcome_of. rewrite K, M. unfold rev_key in Rv.
  destruct (rq_kind (t_req a)); cbn; rewrite ?Rv; auto using Nat.eqb_refl, N.eqb_refl.
Qed.
Lemma e2_outcome_same_kind : forall rq e, is_outcome_of rq e = true -> same_kind (e_kind e) (rq_kind rq) = true.
Proof. intros rq e H. unfold is_outcome_of in H. destruct (rq_kind rq), (e_kind e); try discriminate; reflexivity. Qed.
Lemma e2_outcome_reverts : forall rq e, is_outcome_of rq e = true -> rq_kind rq = KRevert ->
  e_reverts e = Some (rq_revert rq).
Proof.
  intros rq e H K. unfold is_outcome_of in H. rewrite K in H. destruct (e_kind e); try discriminate.
  destruct (e_reverts e) as [x|]; [|discriminate]. apply Nat.eqb_eq in H. congruence.
Qed.

(* ---- the shared invariant ------------------------------------------------------------------------------------- *)
Record BInv (s : state) : Prop := {
  b_tl : forall t a, gth s t = Some a -> TL t a /\ (forall e, t_entry a = Some e -> e_uid e < v_uid s);
  b_uid : forall t1 t2 a1 a2 e1 e2, gth s t1 = Some a1 -> gth s t2 = Some a2 ->
            t_entry a1 = Some e1 -> t_entry a2 = Some e2 -> e_uid e1 = e_uid e2 -> t1 = t2;
  b_own : forall x, In x (all_entries s) ->
            exists a, gth s (e_owner x) = Some a /\ t_entry a = Some x /\ after_append (t_pc a) = true /\
                      (In x (inflight s) -> waiting (t_pc a) = true /\ rq_dry (t_req a) = false);
  b_nodup : NoDup (map e_uid (all_entries s));
  b_look : forall t a e, gth s t = Some a -> t_pc a = PIkLookup (Some e) ->
            In e (persisted s) /\ e_ik e = rq_ik (t_req a);
  b_done : forall t a, gth s t = Some a -> (t_pc a = PDone \/ (t_pc a = PUnlocked /\ good a = true)) ->
            rq_dry (t_req a) = false -> exists e, t_entry a = Some e /\ In e (persisted s);
  b_ok : forall t a x, gth s t = Some a -> t_resp a = Some (ROk x) -> rq_dry (t_req a) = false ->
            exists e, In e (persisted s) /\ e_ik e = rq_ik (t_req a) /\ e_txid e = x /\
                      is_outcome_of (t_req a) e = true;
  b_found : forall t a, gth s t = Some a -> rq_kind (t_req a) = KRevert -> rev_found (t_pc a) = true ->
            find_tx (persisted s) (rq_revert (t_req a)) <> None;
  b_revtx : forall x id, In x (all_entries s) -> e_reverts x = Some id -> find_tx (persisted s) id <> None
}.

Lemma e2_binv_init : BInv init.
Proof.
  constructor; cbn; intros; try discriminate; try contradiction. constructor.
Qed.

(* an entry a thread holds and whose serial number is on disk is on disk *)
Lemma e2_persisted_of_uid : forall s t a e, BInv s -> gth s t = Some a -> t_entry a = Some e ->
  entry_persisted (persisted s) e = true -> In e (persisted s).
Proof.
  intros s t a e B Ha He Hp. destruct (e2_entry_persisted_ex _ _ Hp) as [y [Hy E]].
  assert (Hy' : In y (all_entries s)) by (unfold all_entries; apply in_or_app; left; exact Hy).
  destruct (b_own s B y Hy') as [ao [Ho [Hoe _]]].
  pose proof (b_uid s B _ _ _ _ _ _ Ho Ha Hoe He E) as Eq. subst t. rewrite Ho in Ha. inversion Ha; subst ao.
  rewrite Hoe in He. inversion He; subst. exact Hy.
Qed.

(* ---- one thread step, abstractly -------------------------------------------------------------------------------- *)
Record stepfacts (s s' : state) (t : tid) (a a' : thread) : Prop := {
  sf_old : gth s t = Some a \/ (gth s t = None /\ t_pc a = PStart /\ t_entry a = None);
  sf_new : forall t', gth s' t' = if Nat.eqb t' t then Some a' else gth s t';
  sf_eff : eff s s' t a a'
}.

Lemma e2_sf_resume : forall s t s', (forall t a, gth s t = Some a -> TL t a) -> resume s t = Some s' ->
  exists a a', stepfacts s s' t a a'.
Proof.
  intros s t s' HTL H. destruct (e2_resume_eff _ _ _ H) as [th [th' [Hg [Hn He]]]].
  exists (ug th), (ug th'). constructor.
  - left. apply e2_gth_of_get. exact Hg.
  - exact Hn.
  - apply He. apply HTL. apply e2_gth_of_get. exact Hg.
Qed.
Lemma e2_sf_resume_cancelled : forall s t s', (forall t a, gth s t = Some a -> TL t a) -> resume_cancelled s t = Some s' ->
  exists a a', stepfacts s s' t a a'.
Proof.
  intros s t s' HTL H. destruct (e2_resume_cancelled_eff _ _ _ H) as [th [th' [Hg [Hn He]]]].
  exists (ug th), (ug th'). constructor.
  - left. apply e2_gth_of_get. exact Hg.
  - exact Hn.
  - apply He. apply HTL. apply e2_gth_of_get. exact Hg.
Qed.
Lemma e2_sf_resume_read_fail : forall s t s', (forall t a, gth s t = Some a -> TL t a) -> resume_read_fail s t = Some s' ->
  exists a a', stepfacts s s' t a a'.
Proof.
  intros s t s' HTL H. destruct (e2_resume_read_fail_eff _ _ _ H) as [th [th' [Hg [Hn He]]]].
  exists (ug th), (ug th'). constructor.
  - left. apply e2_gth_of_get. exact Hg.
  - exact Hn.
  - apply He. apply HTL. apply e2_gth_of_get. exact Hg.
Qed.
Lemma e2_sf_start : forall s t rq s', start s t rq = Some s' -> exists a a', stepfacts s s' t a a'.
Proof.
  intros s t rq s' H. destruct (e2_start_eff _ _ _ _ H) as [Hg [th' [Hn He]]].
  exists (ug (init_thread (gen s) rq)), (ug th'). constructor.
  - right. unfold gth, gtl. rewrite Hg. repeat split; reflexivity.
  - exact Hn.
  - exact He.
Qed.

(* ---- preservation of the shared invariant by a thread step ------------------------------------------------------ *)
Ltac e2_eff_names Heff :=
  destruct Heff as (Ep & Ereq & ETL & Rik & Rref & Rrev & Mik & Mref & Mrev & Eent & Faa & Fwait & Fdone & Flook &
                    Funl & Fresp & Ffound).
Ltac e2_who Hnew H t1 t a1 E :=
  rewrite Hnew in H; destruct (Nat.eqb t1 t) eqn:E;
  [ apply Nat.eqb_eq in E; subst t1; inversion H; subst a1; clear H | apply Nat.eqb_neq in E ].

Section Step.
  Variables (s s' : state) (t : tid) (a a' : thread).
  Hypothesis B : BInv s.
  Hypothesis SF : stepfacts s s' t a a'.

  Let Hold := sf_old _ _ _ _ _ SF.
  Let Hnew := sf_new _ _ _ _ _ SF.
  Let Heff := sf_eff _ _ _ _ _ SF.

  Lemma e2s_oldE : forall e, t_entry a = Some e -> gth s t = Some a.
  Proof. intros e He. destruct Hold as [H|[_ [_ H]]]; [exact H|congruence]. Qed.
  Lemma e2s_oldP : t_pc a <> PStart -> gth s t = Some a.
  Proof. intros Hp. destruct Hold as [H|[_ [H _]]]; [exact H|congruence]. Qed.
  Lemma e2s_self : gth s' t = Some a'.
  Proof. rewrite Hnew, Nat.eqb_refl. reflexivity. Qed.
  Lemma e2s_other : forall t', t' <> t -> gth s' t' = gth s t'.
  Proof. intros t' H. rewrite Hnew. apply Nat.eqb_neq in H. rewrite H. reflexivity. Qed.
  Lemma e2s_uid : v_uid s <= v_uid s'.
  Proof.
    pose proof Heff as Heff'. e2_eff_names Heff'.
    destruct Eent as [(_&_&E&_)|(_&_&[(_&E)|(_&_&E&_)])]; lia.
  Qed.
  Lemma e2s_persisted : persisted s' = persisted s.
  Proof. pose proof Heff as Heff'. e2_eff_names Heff'. exact Ep. Qed.

  (* where the entries of the new state come from *)
  Lemma e2s_inflight : forall x, In x (inflight s') ->
    In x (inflight s) \/ (t_pc a = PChained /\ t_pc a' = PAppended /\ t_entry a = Some x /\ t_entry a' = Some x).
  Proof.
    intros x Hx. pose proof Heff as Heff'. e2_eff_names Heff'.
    destruct Eent as [(P1&P2&_&e&E1&E2&Pm)|(_&Ei&_)].
    - apply (Permutation_in _ Pm) in Hx. destruct Hx as [<-|Hx]; [right; auto|left; exact Hx].
    - left. rewrite <- Ei. exact Hx.
  Qed.
  Lemma e2s_all : forall x, In x (all_entries s') ->
    In x (all_entries s) \/ (t_pc a = PChained /\ t_pc a' = PAppended /\ t_entry a = Some x /\ t_entry a' = Some x).
  Proof.
    intros x Hx. unfold all_entries in *. rewrite e2s_persisted in Hx. apply in_app_or in Hx.
    destruct Hx as [Hx|Hx]; [left; apply in_or_app; left; exact Hx|].
    destruct (e2s_inflight x Hx) as [H|H]; [left; apply in_or_app; right; exact H|right; exact H].
  Qed.
  Lemma e2s_inflight_old : forall x, In x (inflight s) -> In x (inflight s').
  Proof.
    intros x Hx. pose proof Heff as Heff'. e2_eff_names Heff'.
    destruct Eent as [(P1&P2&_&e&E1&E2&Pm)|(_&Ei&_)].
    - apply (Permutation_in _ (Permutation_sym Pm)). right. exact Hx.
    - rewrite Ei. exact Hx.
  Qed.

  (* the entry of the stepping thread *)
  Lemma e2s_entry : forall e, t_entry a' = Some e ->
    (t_entry a = Some e) \/ (pre_pc (t_pc a) = true /\ t_pc a' = PChained /\ e_uid e = v_uid s /\ v_uid s' = S (v_uid s)).
  Proof.
    intros e He. pose proof Heff as Heff'. e2_eff_names Heff'.
    destruct Eent as [(_&_&_&e0&E1&E2&_)|(_&_&[(E&_)|(P&Q&U&e0&E1&E2)])].
    - left. congruence.
    - left. congruence.
    - right. assert (e0 = e) by congruence. subst. auto.
  Qed.

  Lemma e2s_tl : forall t1 a1, gth s' t1 = Some a1 -> TL t1 a1 /\ (forall e, t_entry a1 = Some e -> e_uid e < v_uid s').
  Proof.
    intros t1 a1 H. pose proof e2s_uid as Hu. e2_who Hnew H t1 t a1 E.
    - split.
      + pose proof Heff as Heff'. e2_eff_names Heff'. exact ETL.
      + intros e He. destruct (e2s_entry e He) as [Ho|(_&_&U1&U2)]; [|lia].
        pose proof (proj2 (b_tl s B _ _ (e2s_oldE e Ho)) e Ho). lia.
    - destruct (b_tl s B _ _ H) as [T U]. split; [exact T|]. intros e He. specialize (U e He). lia.
  Qed.

  Lemma e2s_uidinj : forall t1 t2 a1 a2 e1 e2, gth s' t1 = Some a1 -> gth s' t2 = Some a2 ->
            t_entry a1 = Some e1 -> t_entry a2 = Some e2 -> e_uid e1 = e_uid e2 -> t1 = t2.
  Proof.
    intros t1 t2 a1 a2 e1 e2 H1 H2 He1 He2 Eu.
    e2_who Hnew H1 t1 t a1 E1; e2_who Hnew H2 t2 t a2 E2; try reflexivity.
    - destruct (e2s_entry e1 He1) as [Ho|(_&_&U1&_)].
      + exact (b_uid s B _ _ _ _ _ _ (e2s_oldE _ Ho) H2 Ho He2 Eu).
      + pose proof (proj2 (b_tl s B _ _ H2) e2 He2). lia.
    - destruct (e2s_entry e2 He2) as [Ho|(_&_&U1&_)].
      + exact (b_uid s B _ _ _ _ _ _ H1 (e2s_oldE _ Ho) He1 Ho Eu).
      + pose proof (proj2 (b_tl s B _ _ H1) e1 He1). lia.
    - exact (b_uid s B _ _ _ _ _ _ H1 H2 He1 He2 Eu).
  Qed.

  Lemma e2s_own : forall x, In x (all_entries s') ->
    exists a1, gth s' (e_owner x) = Some a1 /\ t_entry a1 = Some x /\ after_append (t_pc a1) = true /\
               (In x (inflight s') -> waiting (t_pc a1) = true /\ rq_dry (t_req a1) = false).
  Proof.
    intros x Hx. pose proof Heff as Heff'. e2_eff_names Heff'.
    assert (Hnewx : forall e, t_entry a' = Some e -> e_owner e = t).
    { intros e He. destruct ETL as (_&_&_&T3&_). destruct (T3 e He) as [O _]. exact O. }
    assert (Happ : t_pc a = PChained /\ t_pc a' = PAppended /\ t_entry a = Some x /\ t_entry a' = Some x ->
                   exists a1, gth s' (e_owner x) = Some a1 /\ t_entry a1 = Some x /\ after_append (t_pc a1) = true /\
                     (In x (inflight s') -> waiting (t_pc a1) = true /\ rq_dry (t_req a1) = false)).
    { intros (P1&P2&X1&X2). exists a'. rewrite (Hnewx x X2). split; [apply e2s_self|]. split; [exact X2|].
      rewrite P2. split; [reflexivity|]. intros _. split; [reflexivity|].
      destruct ETL as (_&_&T2&_). apply T2. rewrite P2. reflexivity. }
    destruct (e2s_all x Hx) as [Hold_x|Hnew_x]; [|exact (Happ Hnew_x)].
    destruct (b_own s B x Hold_x) as [ao (Ho&Hoe&Hoa&Hoi)].
    destruct (Nat.eq_dec (e_owner x) t) as [Eo|No].
    - (* the owner is the stepping thread *)
      assert (Ha : gth s t = Some a) by (destruct Hold as [H|[H _]]; [exact H|rewrite Eo in Ho; congruence]).
      rewrite Eo in Ho. rewrite Ha in Ho. inversion Ho; subst ao. clear Ho.
      destruct Eent as [(P1&_)|(P1&Ei&[(E1&_)|(P&_)])].
      + rewrite P1 in Hoa. discriminate.
      + exists a'. rewrite Eo. split; [apply e2s_self|]. split; [congruence|]. split; [exact (Faa Hoa)|].
        intros Hi. rewrite Ei in Hi. destruct (Hoi Hi) as [W D]. rewrite Ereq.
        destruct (Fwait W) as [W'|(_&Hd)]; [split; assumption|].
        exfalso. destruct (Hd D) as [e [He Hp]]. assert (e = x) by congruence. subst e.
        destruct (e2_entry_persisted_ex _ _ Hp) as [y [Hy Eu]].
        exact (e2_nodup_app_disjoint _ _ _ _ (b_nodup s B) Hy Hi Eu).
      + rewrite (e2_pre_not_after _ P) in Hoa. discriminate.
    - exists ao. rewrite (e2s_other _ No). split; [exact Ho|]. split; [exact Hoe|]. split; [exact Hoa|].
      intros Hi. destruct (e2s_inflight x Hi) as [Hi'|(_&_&_&X2)]; [exact (Hoi Hi')|].
      exfalso. apply No. exact (Hnewx x X2).
  Qed.

  Lemma e2s_nodup : NoDup (map e_uid (all_entries s')).
  Proof.
    pose proof Heff as Heff'. e2_eff_names Heff'. unfold all_entries. rewrite Ep.
    destruct Eent as [(P1&P2&_&e&E1&E2&Pm)|(_&Ei&_)].
    - assert (Pm' : Permutation (persisted s ++ inflight s') (e :: persisted s ++ inflight s)).
      { eapply Permutation_trans; [apply Permutation_app_head; exact Pm|]. apply Permutation_sym, Permutation_middle. }
      apply (Permutation_NoDup (Permutation_sym (Permutation_map e_uid Pm'))). cbn. constructor; [|exact (b_nodup s B)].
      intros Hin. apply in_map_iff in Hin. destruct Hin as [y [Eu Hy]].
      destruct (b_own s B y Hy) as [ao (Ho&Hoe&Hoa&_)].
      pose proof (e2s_oldE e E1) as Ha.
      pose proof (b_uid s B _ _ _ _ _ _ Ho Ha Hoe E1 Eu) as Eq. rewrite Eq in Ho. rewrite Ha in Ho. inversion Ho; subst ao.
      rewrite P1 in Hoa. discriminate.
    - rewrite Ei. exact (b_nodup s B).
  Qed.

  Lemma e2s_look : forall t1 a1 e, gth s' t1 = Some a1 -> t_pc a1 = PIkLookup (Some e) ->
            In e (persisted s') /\ e_ik e = rq_ik (t_req a1).
  Proof.
    intros t1 a1 e H Hp. pose proof Heff as Heff'. e2_eff_names Heff'. rewrite Ep. e2_who Hnew H t1 t a1 E.
    - pose proof (Flook _ Hp) as F. symmetry in F. unfold find_by_ik in F. apply find_some in F.
      destruct F as [F1 F2]. apply N.eqb_eq in F2. rewrite Ereq. auto.
    - exact (b_look s B _ _ _ H Hp).
  Qed.

  Lemma e2s_done : forall t1 a1, gth s' t1 = Some a1 -> (t_pc a1 = PDone \/ (t_pc a1 = PUnlocked /\ good a1 = true)) ->
            rq_dry (t_req a1) = false -> exists e, t_entry a1 = Some e /\ In e (persisted s').
  Proof.
    intros t1 a1 H Hp Hd. pose proof Heff as Heff'. e2_eff_names Heff'. rewrite Ep. e2_who Hnew H t1 t a1 E.
    - rewrite Ereq in Hd. destruct Hp as [Hp|[Hp Hg]].
      + pose proof (Fdone Hp) as Pw. assert (W : waiting (t_pc a) = true) by (rewrite Pw; reflexivity).
        destruct (Fwait W) as [W'|(_&Hx)]; [rewrite Hp in W'; discriminate|].
        destruct (Hx Hd) as [e [He Hpe]]. exists e.
        assert (Ha : gth s t = Some a) by (apply e2s_oldP; rewrite Pw; discriminate).
        split; [|exact (e2_persisted_of_uid s t a e B Ha He Hpe)].
        destruct Eent as [(P1&_)|(_&_&[(E1&_)|(_&Q&_)])]; [congruence|congruence|congruence].
      + destruct (Funl Hp) as [[Pd Ee]|G]; [|congruence].
        assert (Ha : gth s t = Some a) by (apply e2s_oldP; rewrite Pd; discriminate).
        rewrite Ee. exact (b_done s B _ _ Ha (or_introl Pd) Hd).
    - exact (b_done s B _ _ H Hp Hd).
  Qed.

  Lemma e2s_ok : forall t1 a1 x, gth s' t1 = Some a1 -> t_resp a1 = Some (ROk x) -> rq_dry (t_req a1) = false ->
            exists e, In e (persisted s') /\ e_ik e = rq_ik (t_req a1) /\ e_txid e = x /\
                      is_outcome_of (t_req a1) e = true.
  Proof.
    intros t1 a1 x H Hr Hd. pose proof Heff as Heff'. e2_eff_names Heff'. rewrite Ep. e2_who Hnew H t1 t a1 E.
    - rewrite Ereq in *. specialize (Fresp _ Hr). cbn in Fresp.
      destruct Fresp as [(Pu&G&X&_)|[(Pd&X&Tx&_)|(e&Pl&X)]].
      + assert (Ha : gth s t = Some a) by (apply e2s_oldP; rewrite Pu; discriminate).
        destruct (b_done s B _ _ Ha (or_intror (conj Pu G)) Hd) as [e [He Hin]].
        destruct (proj1 (b_tl s B _ _ Ha)) as (_&_&_&T3&_). pose proof (e2_entry_of_outcome _ _ _ (T3 e He)) as Oc.
        destruct (T3 e He) as (_&I&_&_&Tx&_).
        exists e. subst x. auto.
      + assert (Ha : gth s t = Some a) by (apply e2s_oldP; rewrite Pd; discriminate).
        destruct (b_done s B _ _ Ha (or_introl Pd) Hd) as [e [He Hin]].
        destruct (proj1 (b_tl s B _ _ Ha)) as (_&_&_&T3&_). pose proof (e2_entry_of_outcome _ _ _ (T3 e He)) as Oc.
        destruct (T3 e He) as (_&I&_&_&Tx'&_).
        exists e. subst x. split; [exact Hin|]. split; [exact I|]. split; [congruence|exact Oc].
      + assert (Ha : gth s t = Some a) by (apply e2s_oldP; rewrite Pl; discriminate).
        destruct (b_look s B _ _ _ Ha Pl) as [Hin I]. exists e. split; [exact Hin|]. split; [exact I|].
        destruct X as [K X]. split; [congruence|exact K].
    - exact (b_ok s B _ _ _ H Hr Hd).
  Qed.

  Lemma e2s_found : forall t1 a1, gth s' t1 = Some a1 -> rq_kind (t_req a1) = KRevert -> rev_found (t_pc a1) = true ->
            find_tx (persisted s') (rq_revert (t_req a1)) <> None.
  Proof.
    intros t1 a1 H Hk Hf. pose proof Heff as Heff'. e2_eff_names Heff'. rewrite Ep. e2_who Hnew H t1 t a1 E.
    - rewrite Ereq in *. destruct (Ffound Hk Hf) as [F|F]; [|exact F].
      assert (Ha : gth s t = Some a) by (apply e2s_oldP; intro Q; rewrite Q in F; discriminate).
      exact (b_found s B _ _ Ha Hk F).
    - exact (b_found s B _ _ H Hk Hf).
  Qed.

  Lemma e2s_revtx : forall x id, In x (all_entries s') -> e_reverts x = Some id -> find_tx (persisted s') id <> None.
  Proof.
    intros x id Hx Hr. pose proof Heff as Heff'. e2_eff_names Heff'. rewrite Ep.
    destruct (e2s_all x Hx) as [Ho|(P1&P2&X1&X2)]; [exact (b_revtx s B _ _ Ho Hr)|].
    pose proof (e2s_oldE x X1) as Ha.
    destruct (proj1 (b_tl s B _ _ Ha)) as (_&_&_&T3&_). destruct (T3 x X1) as (_&_&_&Rv&_).
    rewrite Hr in Rv. unfold rev_key in Rv. destruct (rq_kind (t_req a)) eqn:K; try discriminate.
    inversion Rv. apply (b_found s B _ _ Ha K). rewrite P1. reflexivity.
  Qed.

  Lemma e2_binv_step : BInv s'.
  Proof.
    constructor.
    - exact e2s_tl. - exact e2s_uidinj. - exact e2s_own. - exact e2s_nodup. - exact e2s_look.
    - exact e2s_done. - exact e2s_ok. - exact e2s_found. - exact e2s_revtx.
  Qed.
End Step.

(* ---- the invariant reads the state only through these projections ([cancel] changes none of them) ----------------- *)
Lemma e2_binv_ext : forall s s', (forall t, gth s' t = gth s t) -> persisted s' = persisted s ->
  inflight s' = inflight s -> v_uid s' = v_uid s -> BInv s -> BInv s'.
Proof.
  intros s s' Hg Ep Ei Eu B.
  assert (Ea : all_entries s' = all_entries s) by (unfold all_entries; rewrite Ep, Ei; reflexivity).
  constructor.
  - intros t a Ha. rewrite Hg in Ha. rewrite Eu. exact (b_tl s B _ _ Ha).
  - intros t1 t2 a1 a2 e1 e2 H1 H2. rewrite Hg in H1, H2. exact (b_uid s B _ _ _ _ _ _ H1 H2).
  - intros x Hx. rewrite Ea in Hx. rewrite Hg, Ei. exact (b_own s B x Hx).
  - rewrite Ea. exact (b_nodup s B).
  - intros t a e Ha. rewrite Hg in Ha. rewrite Ep. exact (b_look s B _ _ _ Ha).
  - intros t a Ha. rewrite Hg in Ha. rewrite Ep. exact (b_done s B _ _ Ha).
  - intros t a x Ha. rewrite Hg in Ha. rewrite Ep. exact (b_ok s B _ _ _ Ha).
  - intros t a Ha. rewrite Hg in Ha. rewrite Ep. exact (b_found s B _ _ Ha).
  - intros x id. rewrite Ea, Ep. exact (b_revtx s B x id).
Qed.

(* ---- persist_ok and crash ------------------------------------------------------------------------------------------ *)
Lemma e2_binv_persist : forall s s', BInv s -> persist_ok s = Some s' -> BInv s'.
Proof.
  intros s s' B H. destruct (e2_persist_frame _ _ H) as ([b [Hb Ep]] & Ea & Ei & Et & Eu & _).
  assert (Hg : forall t, gth s' t = gth s t) by (intros; unfold gth; rewrite Et; reflexivity).
  assert (Hinc : forall x, In x (persisted s) -> In x (persisted s')) by (intros; rewrite Ep; apply in_or_app; auto).
  assert (Hfl : forall x, In x (inflight s') -> In x (inflight s)).
  { intros x Hx. rewrite Ei in Hx. unfold inflight. apply in_or_app. right. exact Hx. }
  constructor.
  - intros t a Ha. rewrite Hg in Ha. rewrite Eu. exact (b_tl s B _ _ Ha).
  - intros t1 t2 a1 a2 e1 e2 H1 H2. rewrite Hg in H1, H2. exact (b_uid s B _ _ _ _ _ _ H1 H2).
  - intros x Hx. rewrite Ea in Hx. destruct (b_own s B x Hx) as [a (A1&A2&A3&A4)]. exists a. rewrite Hg.
    repeat split; auto; apply A4, Hfl; assumption.
  - rewrite Ea. exact (b_nodup s B).
  - intros t a e Ha Hp. rewrite Hg in Ha. destruct (b_look s B _ _ _ Ha Hp). auto.
  - intros t a Ha Hp Hd. rewrite Hg in Ha. destruct (b_done s B _ _ Ha Hp Hd) as [e [E1 E2]]. eauto.
  - intros t a x Ha Hr Hd. rewrite Hg in Ha. destruct (b_ok s B _ _ _ Ha Hr Hd) as [e (E1&E2&E3)]. eauto.
  - intros t a Ha Hk Hf. rewrite Hg in Ha. rewrite Ep. apply e2_find_tx_app. exact (b_found s B _ _ Ha Hk Hf).
  - intros x id Hx Hr. rewrite Ea in Hx. rewrite Ep. apply e2_find_tx_app. exact (b_revtx s B _ _ Hx Hr).
Qed.

Lemma e2_crash_entries : forall s, persisted (crash s) = persisted s /\ inflight (crash s) = [] /\
  all_entries (crash s) = persisted s /\ v_uid (crash s) = v_uid s.
Proof. intros. unfold all_entries, inflight, crash. cbn. rewrite app_nil_r. auto. Qed.

Lemma e2_crash_thread : forall s t a', gth (crash s) t = Some a' -> exists a, gth s t = Some a /\ a' = kill a.
Proof.
  intros s t a' H. rewrite e2_crash_gth in H. destruct (gth s t) as [a|]; [|discriminate]. inversion H. eauto.
Qed.

Lemma e2_pc_fin_dec : forall p, {p = PFinished} + {p <> PFinished}.
Proof. destruct p; (left; reflexivity) || (right; discriminate). Qed.

Lemma e2_TL_kill : forall t a, TL t a -> TL t (kill a).
Proof.
  intros t a T. destruct (e2_kill_facts a) as (K1&K2&K3&K4&K5&K6).
  destruct (e2_pc_fin_dec (t_pc a)) as [F|F]; [rewrite (K5 F); exact T|].
  destruct T as (T0&T1&T2&T3&T4&T5&T6&T7&T13). unfold TL. rewrite K1, K2, K3, K4. cbn.
  split; [congruence|]. split; [intros E; split; [reflexivity|exact (proj2 (T1 E))]|].
  split; [intros; discriminate|]. split; [intros e He; destruct (T3 e He) as (A&B0&C&D&E&F0&G0); unfold entry_of; rewrite K1, K3; repeat split; assumption|].
  split; [intros; discriminate|]. split; [intros; discriminate|]. split; [intros; discriminate|]. split; [intros; discriminate|].
  intros err E. rewrite (K6 F) in E. discriminate.
Qed.

Lemma e2_binv_crash : forall s, BInv s -> BInv (crash s).
Proof.
  intros s B. destruct (e2_crash_entries s) as (Ep&Ei&Ea&Eu).
  constructor.
  - intros t a' H. destruct (e2_crash_thread _ _ _ H) as [a [Ha ->]]. destruct (b_tl s B _ _ Ha) as [T U].
    split; [apply e2_TL_kill; exact T|]. rewrite Eu. destruct (e2_kill_facts a) as (_&K2&_). rewrite K2. exact U.
  - intros t1 t2 a1' a2' e1 e2 H1 H2. destruct (e2_crash_thread _ _ _ H1) as [a1 [Ha1 ->]].
    destruct (e2_crash_thread _ _ _ H2) as [a2 [Ha2 ->]].
    rewrite (proj1 (proj2 (e2_kill_facts a1))), (proj1 (proj2 (e2_kill_facts a2))).
    exact (b_uid s B _ _ _ _ _ _ Ha1 Ha2).
  - intros x Hx. rewrite Ea in Hx. assert (Hx' : In x (all_entries s)) by (apply in_or_app; left; exact Hx).
    destruct (b_own s B x Hx') as [a (A1&A2&A3&_)]. exists (kill a). rewrite e2_crash_gth, A1.
    destruct (e2_kill_facts a) as (_&K2&_&K4&_). rewrite K2, K4, Ei. repeat split; auto. contradiction.
  - rewrite Ea. pose proof (b_nodup s B) as N. unfold all_entries in N. rewrite map_app in N.
    clear - N. induction (map e_uid (persisted s)) as [|u l IH]; cbn in *; [constructor|].
    inversion N; subst. constructor; [intro Hin; apply H1; apply in_or_app; left; exact Hin|apply IH; assumption].
  - intros t a' e H Hp. destruct (e2_crash_thread _ _ _ H) as [a [Ha ->]].
    destruct (e2_kill_facts a) as (_&_&_&K4&_). congruence.
  - intros t a' H Hp. destruct (e2_crash_thread _ _ _ H) as [a [Ha ->]].
    destruct (e2_kill_facts a) as (_&_&_&K4&_). rewrite K4 in Hp. destruct Hp as [Q|[Q _]]; discriminate.
  - intros t a' x H Hr Hd. destruct (e2_crash_thread _ _ _ H) as [a [Ha ->]].
    destruct (e2_kill_facts a) as (K1&_&_&_&K5&K6). rewrite Ep.
    destruct (e2_pc_fin_dec (t_pc a)) as [F|F]; [|rewrite (K6 F) in Hr; discriminate].
    rewrite (K5 F) in *. exact (b_ok s B _ _ _ Ha Hr Hd).
  - intros t a' H Hk Hf. destruct (e2_crash_thread _ _ _ H) as [a [Ha ->]].
    destruct (e2_kill_facts a) as (_&_&_&K4&_). rewrite K4 in Hf. discriminate.
  - intros x id Hx Hr. rewrite Ea in Hx. rewrite Ep. apply (b_revtx s B x id); [|exact Hr].
    apply in_or_app; left; exact Hx.
Qed.
