(* M2, prover E2 — the three reservation tables instantiated, the invariant over every reachable state,
   and the statements behind C07 / C11 / C10 (once-only half). *)
From FL Require Import Engine.Model Engine.Spec Engine.E2Base Engine.E2Step Engine.E2Inv Engine.E2Res.
From Coq Require Import Lia Permutation.
Open Scope nat_scope.

Definition IkInv := RInv N ik_key eik_key ik_hold ik_miss v_iks.
Definition RefInv := RInv N ref_key eref_key ref_hold ref_miss v_refs.
Definition RevInv := RInv nat rev_key e_reverts rev_hold rev_miss v_revs.

Record Inv (s : state) : Prop := { i_b : BInv s; i_ik : IkInv s; i_ref : RefInv s; i_rev : RevInv s }.

(* ---- side conditions of the generic development ---------------------------------------------------------- *)
Lemma ik_miss_hold : forall p, ik_miss p = true -> ik_hold p = true.
Proof. destruct p as [| | | | | |[?|]| | | | | | | | | | | | | | | |]; cbn; congruence. Qed.
Lemma ik_wait_hold : forall p, waiting p = true -> ik_hold p = true. Proof. destruct p; cbn; congruence. Qed.
Lemma ik_wait_nomiss : forall p, waiting p = true -> ik_miss p = false. Proof. destruct p; cbn; congruence. Qed.
Lemma ik_entry_key : forall t a e, entry_of t a e -> eik_key e = ik_key (t_req a).
Proof. intros t a e (_&I&_). unfold eik_key, ik_key. rewrite I. reflexivity. Qed.

Lemma ref_miss_hold : forall p, ref_miss p = true -> ref_hold p = true.
Proof. destruct p as [| | | | | | | | |[|]| | | | | | | | | | | | |]; cbn; congruence. Qed.
Lemma ref_wait_hold : forall p, waiting p = true -> ref_hold p = true. Proof. destruct p; cbn; congruence. Qed.
Lemma ref_wait_nomiss : forall p, waiting p = true -> ref_miss p = false. Proof. destruct p; cbn; congruence. Qed.
Lemma ref_entry_key : forall t a e, entry_of t a e -> eref_key e = ref_key (t_req a).
Proof.
  intros t a e (_&_&R&_). unfold eref_key, ref_key. rewrite R.
  destruct (is_tx_kind (rq_kind (t_req a))); reflexivity.
Qed.

Lemma rev_miss_hold : forall p, rev_miss p = true -> rev_hold p = true.
Proof. destruct p as [| | |? [|]| | | | | | | | | | | | | | | | | | |]; cbn; congruence. Qed.
Lemma rev_wait_hold : forall p, waiting p = true -> rev_hold p = true. Proof. destruct p; cbn; congruence. Qed.
Lemma rev_wait_nomiss : forall p, waiting p = true -> rev_miss p = false. Proof. destruct p; cbn; congruence. Qed.
Lemma rev_entry_key : forall t a e, entry_of t a e -> e_reverts e = rev_key (t_req a).
Proof. intros t a e (_&_&_&R&_). exact R. Qed.

(* ---- the invariant holds in every reachable state ------------------------------------------------------------ *)
Lemma e2_inv_init : Inv init.
Proof. constructor; [apply e2_binv_init|apply e2_rinv_init..]. Qed.

Lemma e2_inv_sf : forall s s' t a a', Inv s -> stepfacts s s' t a a' -> Inv s'.
Proof.
  intros s s' t a a' [B I1 I2 I3] SF. pose proof (sf_eff _ _ _ _ _ SF) as Heff.
  destruct Heff as (Ep & Ereq & ETL & Rik & Rref & Rrev & Mik & Mref & Mrev & _).
  constructor.
  - exact (e2_binv_step _ _ _ _ _ B SF).
  - exact (e2_rinv_step N remove_N ik_key eik_key ik_hold ik_miss v_iks e2_In_remove_N ik_miss_hold ik_wait_hold
             ik_wait_nomiss eq_refl eq_refl eq_refl ik_entry_key _ _ _ _ _ B I1 SF Rik Mik).
  - exact (e2_rinv_step N remove_N ref_key eref_key ref_hold ref_miss v_refs e2_In_remove_N ref_miss_hold ref_wait_hold
             ref_wait_nomiss eq_refl eq_refl eq_refl ref_entry_key _ _ _ _ _ B I2 SF Rref Mref).
  - exact (e2_rinv_step nat remove_nat rev_key e_reverts rev_hold rev_miss v_revs e2_In_remove_nat rev_miss_hold rev_wait_hold
             rev_wait_nomiss eq_refl eq_refl eq_refl rev_entry_key _ _ _ _ _ B I3 SF Rrev Mrev).
Qed.

Lemma e2_inv_crash : forall s, Inv s -> Inv (crash s).
Proof.
  intros s [B I1 I2 I3]. constructor.
  - exact (e2_binv_crash _ B).
  - exact (e2_rinv_crash N ik_key eik_key ik_hold ik_miss v_iks ik_miss_hold eq_refl _ I1).
  - exact (e2_rinv_crash N ref_key eref_key ref_hold ref_miss v_refs ref_miss_hold eq_refl _ I2).
  - exact (e2_rinv_crash nat rev_key e_reverts rev_hold rev_miss v_revs rev_miss_hold eq_refl _ I3).
Qed.

Lemma e2_inv_persist : forall s s', Inv s -> persist_ok s = Some s' -> Inv s'.
Proof.
  intros s s' I H. destruct I as [B I1 I2 I3]. destruct (e2_persist_frame _ _ H) as (_&_&_&_&_&E1&E2&E3). constructor.
  - exact (e2_binv_persist _ _ B H).
  - exact (e2_rinv_persist N ik_key eik_key ik_hold ik_miss v_iks _ _ I1 H E1).
  - exact (e2_rinv_persist N ref_key eref_key ref_hold ref_miss v_refs _ _ I2 H E2).
  - exact (e2_rinv_persist nat rev_key e_reverts rev_hold rev_miss v_revs _ _ I3 H E3).
Qed.

Lemma e2_inv_step : forall s a s', Inv s -> step s a = Some s' -> Inv s'.
Proof.
  intros s a s' I H. destruct a as [t rq|t| | | |t|t|t| |]; cbn in H.
  - destruct (e2_sf_start _ _ _ _ H) as [x [x' SF]]. exact (e2_inv_sf _ _ _ _ _ I SF).
  - assert (HTL : forall t a, gth s t = Some a -> TL t a) by (intros u b Hb; exact (proj1 (b_tl s (i_b s I) _ _ Hb))).
    destruct (e2_sf_resume _ _ _ HTL H) as [x [x' SF]]. exact (e2_inv_sf _ _ _ _ _ I SF).
  - exact (e2_inv_persist _ _ I H).
  - destruct (v_batch s); [|discriminate]. inversion H. apply e2_inv_crash. exact I.
  - inversion H. apply e2_inv_crash. exact I.
  - (* cancel: only [t_cancelled] of one thread changes, which [gth] does not show *)
    destruct (e2_cancel_frame _ _ _ H) as (Hg&Ep&Ei&Eu&E1&E2&E3). destruct I as [B I1 I2 I3]. constructor.
    + exact (e2_binv_ext _ _ Hg Ep Ei Eu B).
    + exact (e2_rinv_ext N ik_key eik_key ik_hold ik_miss v_iks _ _ Hg Ep Ei E1 I1).
    + exact (e2_rinv_ext N ref_key eref_key ref_hold ref_miss v_refs _ _ Hg Ep Ei E2 I2).
    + exact (e2_rinv_ext nat rev_key e_reverts rev_hold rev_miss v_revs _ _ Hg Ep Ei E3 I3).
  - (* the cancelled wait gives up: a thread step like the other error exits *)
    assert (HTL : forall t a, gth s t = Some a -> TL t a) by (intros u b Hb; exact (proj1 (b_tl s (i_b s I) _ _ Hb))).
    destruct (e2_sf_resume_cancelled _ _ _ HTL H) as [x [x' SF]]. exact (e2_inv_sf _ _ _ _ _ I SF).
  - (* a failed store read: a thread step like the other error exits (or the pc move of a found SaveMeta target) *)
    assert (HTL : forall t a, gth s t = Some a -> TL t a) by (intros u b Hb; exact (proj1 (b_tl s (i_b s I) _ _ Hb))).
    destruct (e2_sf_resume_read_fail _ _ _ HTL H) as [x [x' SF]]. exact (e2_inv_sf _ _ _ _ _ I SF).
  - (* graceful shutdown, nothing written: [close] is [crash] *)
    inversion H. unfold close. apply e2_inv_crash. exact I.
  - (* graceful shutdown after the batch in the store call is written: [persist_ok] then [crash] *)
    unfold close_ok in H. destruct (persist_ok s) as [s1|] eqn:P; [|discriminate]. inversion H.
    apply e2_inv_crash. exact (e2_inv_persist _ _ I P).
Qed.

Lemma e2_inv_run : forall acts s s', Inv s -> run s acts = Some s' -> Inv s'.
Proof.
  induction acts as [|a r IH]; intros s s' I H; cbn in H.
  - inversion H. subst. exact I.
  - destruct (step s a) as [s1|] eqn:Hs; [|discriminate]. exact (IH _ _ (e2_inv_step _ _ _ I Hs) H).
Qed.

Theorem e2_inv_reachable : forall s, reachable s -> Inv s.
Proof. intros s [acts H]. exact (e2_inv_run _ _ _ e2_inv_init H). Qed.

(* ---- consequences ---------------------------------------------------------------------------------------------- *)
Lemma e2_nodup_prefix : forall (l1 l2 : list entry), NoDup (map e_uid (l1 ++ l2)) -> NoDup (map e_uid l1).
Proof.
  intros l1 l2 N. rewrite map_app in N. induction (map e_uid l1) as [|u l IH]; cbn in *; [constructor|].
  inversion N as [|u' l' Hnin Hnd]; subst. constructor; [intro Hin; apply Hnin; apply in_or_app; left; exact Hin|apply IH; assumption].
Qed.

Lemma e2_persisted_all : forall s x, In x (persisted s) -> In x (all_entries s).
Proof. intros. unfold all_entries. apply in_or_app. left. assumption. Qed.

Lemma e2_once_gen : forall s (f : entry -> bool), Inv s ->
  (forall x y, In x (all_entries s) -> In y (all_entries s) -> f x = true -> f y = true -> x = y) ->
  count_where f (persisted s) <= 1.
Proof.
  intros s f I H. apply e2_count_once.
  - exact (e2_nodup_prefix _ _ (b_nodup s (i_b s I))).
  - intros x y Hx Hy. apply H; apply e2_persisted_all; assumption.
Qed.

Lemma e2_eik_key_of : forall e k, k <> 0%N -> N.eqb (e_ik e) k = true -> eik_key e = Some k.
Proof.
  intros e k Hk H. apply N.eqb_eq in H. unfold eik_key. rewrite H.
  destruct (N.eqb k 0) eqn:Z; [apply N.eqb_eq in Z; contradiction|reflexivity].
Qed.
Lemma e2_eref_key_of : forall e k, k <> 0%N -> N.eqb (e_ref e) k = true -> eref_key e = Some k.
Proof.
  intros e k Hk H. apply N.eqb_eq in H. unfold eref_key. rewrite H.
  destruct (N.eqb k 0) eqn:Z; [apply N.eqb_eq in Z; contradiction|reflexivity].
Qed.

Theorem e2_ik_once : forall s, reachable s -> ik_once (persisted s).
Proof.
  intros s Hr k Hk. pose proof (e2_inv_reachable s Hr) as I. apply (e2_once_gen s _ I).
  intros x y Hx Hy Fx Fy.
  exact (r_once _ _ _ _ _ _ s (i_ik s I) x y k Hx Hy (e2_eik_key_of _ _ Hk Fx) (e2_eik_key_of _ _ Hk Fy)).
Qed.

Theorem e2_ref_once : forall s, reachable s -> ref_once (persisted s).
Proof.
  intros s Hr k Hk. pose proof (e2_inv_reachable s Hr) as I. apply (e2_once_gen s _ I).
  intros x y Hx Hy Fx Fy.
  exact (r_once _ _ _ _ _ _ s (i_ref s I) x y k Hx Hy (e2_eref_key_of _ _ Hk Fx) (e2_eref_key_of _ _ Hk Fy)).
Qed.

Theorem e2_revert_once : forall s, reachable s -> revert_once (persisted s).
Proof.
  intros s Hr id. pose proof (e2_inv_reachable s Hr) as I. apply (e2_once_gen s _ I).
  intros x y Hx Hy Fx Fy.
  assert (Kx : e_reverts x = Some id) by (destruct (e_reverts x); [apply Nat.eqb_eq in Fx; congruence|discriminate]).
  assert (Ky : e_reverts y = Some id) by (destruct (e_reverts y); [apply Nat.eqb_eq in Fy; congruence|discriminate]).
  exact (r_once _ _ _ _ _ _ s (i_rev s I) x y id Hx Hy Kx Ky).
Qed.

(* a success under a key is answered by an entry on disk that IS the outcome of this request in the sense of the
   code's comparison ([is_outcome_of]: same kind; revert: same reverted transaction; metadata: same target and
   content) -- whether the request wrote the entry itself or replayed it *)
Theorem e2_replay_is_own_outcome : forall s, reachable s ->
  forall t th x, get_thread (threads s) t = Some th -> t_resp th = Some (ROk x) -> rq_dry (t_req th) = false ->
    rq_ik (t_req th) <> 0%N ->
    exists e, In e (persisted s) /\ e_ik e = rq_ik (t_req th) /\ e_txid e = x /\ is_outcome_of (t_req th) e = true.
Proof.
  intros s Hr t th x Hth Hresp Hdry _. pose proof (e2_inv_reachable s Hr) as I.
  exact (b_ok s (i_b s I) t (ug th) x (e2_gth_of_get _ _ _ Hth) Hresp Hdry).
Qed.

(* there is one entry under the key, and a success answers only an entry that is the outcome of this request: THE
   entry under the key of a successful request carries the answered transaction id and is of the request's kind (for a
   revert: names the transaction the request reverts; metadata: same target and content) *)
Theorem e2_ik_same_request : forall s, reachable s ->
  forall t th x e, get_thread (threads s) t = Some th -> t_resp th = Some (ROk x) -> rq_dry (t_req th) = false ->
    rq_ik (t_req th) <> 0%N -> In e (persisted s) -> e_ik e = rq_ik (t_req th) ->
    e_txid e = x /\ is_outcome_of (t_req th) e = true.
Proof.
  intros s Hr t th x e Hth Hresp Hdry Hk He Hik. pose proof (e2_inv_reachable s Hr) as I.
  destruct (e2_replay_is_own_outcome s Hr t th x Hth Hresp Hdry Hk) as [e0 (H0&I0&X0&O0)].
  assert (K : forall z, e_ik z = rq_ik (t_req th) -> eik_key z = Some (rq_ik (t_req th))).
  { intros z Ez. apply e2_eik_key_of; [exact Hk|]. rewrite Ez. apply N.eqb_refl. }
  assert (Eq : e = e0)
    by exact (r_once _ _ _ _ _ _ s (i_ik s I) e e0 _ (e2_persisted_all _ _ He) (e2_persisted_all _ _ H0) (K _ Hik) (K _ I0)).
  subst e0. split; assumption.
Qed.

(* same outcome, unconditionally (the full statement of Spec.v) *)
Theorem e2_ik_same_outcome : forall s, reachable s -> ik_same_outcome s.
Proof.
  intros s Hr t th x e Hth Hresp Hdry Hk He Hik.
  exact (proj1 (e2_ik_same_request s Hr t th x e Hth Hresp Hdry Hk He Hik)).
Qed.

(* a revert is never answered from the key: RevertTransaction checks "already reverted" (under its reservation) before
   the key lookup, so when a revert request looks its key up no entry reverting its target exists -- the entry found
   under the key, if any, is not the outcome of this request: it is refused *)
Theorem e2_revert_never_replays : forall s, reachable s -> forall t th e,
  get_thread (threads s) t = Some th -> t_pc th = PIkLookup (Some e) -> rq_kind (t_req th) = KRevert ->
  In e (persisted s) /\ e_ik e = rq_ik (t_req th) /\ is_outcome_of (t_req th) e = false.
Proof.
  intros s Hr t th e Hth Hpc Hk. pose proof (e2_inv_reachable s Hr) as I.
  pose proof (e2_gth_of_get _ _ _ Hth) as Hg.
  destruct (b_look s (i_b s I) t (ug th) e Hg Hpc) as [Hin Hik]. cbn in Hik.
  split; [exact Hin|]. split; [exact Hik|].
  destruct (is_outcome_of (t_req th) e) eqn:O; [exfalso|reflexivity].
  pose proof (e2_outcome_reverts _ _ O Hk) as Rv.
  assert (K : rev_key (t_req (ug th)) = Some (rq_revert (t_req th))) by (unfold rev_key; cbn; rewrite Hk; reflexivity).
  exact (r_miss _ _ _ _ _ _ s (i_rev s I) t (ug th) _ Hg K ltac:(cbn; rewrite Hpc; reflexivity) e
           (e2_persisted_all _ _ Hin) Rv).
Qed.

(* every entry carries the key, the reference and the revert target of the request that produced it *)
Theorem e2_entry_of_owner : forall s, reachable s -> forall e, In e (all_entries s) ->
  exists th, get_thread (threads s) (e_owner e) = Some th /\ t_entry th = Some e /\
             e_ik e = rq_ik (t_req th) /\
             e_ref e = (if is_tx_kind (rq_kind (t_req th)) then rq_ref (t_req th) else 0%N) /\
             e_reverts e = (match rq_kind (t_req th) with KRevert => Some (rq_revert (t_req th)) | _ => None end).
Proof.
  intros s Hr e He. pose proof (e2_inv_reachable s Hr) as I.
  destruct (b_own s (i_b s I) e He) as [a (Ga&Ea&_)].
  destruct (e2_get_of_gth _ _ _ Ga) as [th [Hth ->]]. exists th. split; [exact Hth|]. cbn in Ea. split; [exact Ea|].
  pose proof (e2_gth_of_get _ _ _ Hth) as Hg.
  destruct (proj1 (b_tl s (i_b s I) _ _ Hg)) as (_&_&_&T3&_). destruct (T3 e Ea) as (_&A&B0&C&_). cbn in *. auto.
Qed.

Theorem e2_once_per_request_key : forall s, reachable s -> forall e1 e2 th1 th2,
  In e1 (persisted s) -> In e2 (persisted s) ->
  get_thread (threads s) (e_owner e1) = Some th1 -> get_thread (threads s) (e_owner e2) = Some th2 ->
  rq_ik (t_req th1) <> 0%N -> rq_ik (t_req th1) = rq_ik (t_req th2) -> e1 = e2.
Proof.
  intros s Hr e1 e2 th1 th2 H1 H2 G1 G2 Hk Heq. pose proof (e2_inv_reachable s Hr) as I.
  destruct (e2_entry_of_owner s Hr e1 (e2_persisted_all _ _ H1)) as [x1 (X1&_&K1&_)].
  destruct (e2_entry_of_owner s Hr e2 (e2_persisted_all _ _ H2)) as [x2 (X2&_&K2&_)].
  rewrite G1 in X1. rewrite G2 in X2. inversion X1; inversion X2; subst x1 x2.
  assert (Q1 : eik_key e1 = Some (rq_ik (t_req th1))) by (apply e2_eik_key_of; [exact Hk|rewrite K1; apply N.eqb_refl]).
  assert (Q2 : eik_key e2 = Some (rq_ik (t_req th1))) by (apply e2_eik_key_of; [exact Hk|rewrite K2, Heq; apply N.eqb_refl]).
  exact (r_once _ _ _ _ _ _ s (i_ik s I) e1 e2 _ (e2_persisted_all _ _ H1) (e2_persisted_all _ _ H2) Q1 Q2).
Qed.

(* a request answered with an error owns no entry, on disk or in flight *)
Theorem e2_error_no_trace : forall s, reachable s -> forall t th err,
  get_thread (threads s) t = Some th -> t_resp th = Some (RErr err) ->
  forall e, In e (all_entries s) -> e_owner e <> t.
Proof.
  intros s Hr t th err Hth Hresp e He Eo. pose proof (e2_inv_reachable s Hr) as I.
  destruct (b_own s (i_b s I) e He) as [a (Ga&Ea&_)]. rewrite Eo in Ga.
  rewrite (e2_gth_of_get _ _ _ Hth) in Ga. inversion Ga; subst a. cbn in Ea.
  pose proof (e2_gth_of_get _ _ _ Hth) as Hg.
  destruct (proj1 (b_tl s (i_b s I) _ _ Hg)) as (_&_&_&_&_&_&_&_&T13). cbn in T13.
  rewrite (T13 err Hresp) in Ea. discriminate.
Qed.

(* ---- what the losers answer --------------------------------------------------------------------------------------- *)
Lemma e2_run_app : forall l1 l2 s, run s (l1 ++ l2) = match run s l1 with Some s1 => run s1 l2 | None => None end.
Proof. induction l1 as [|a l1 IH]; intros; cbn; [reflexivity|]. destruct (step s a); [apply IH|reflexivity]. Qed.
Lemma e2_reachable_run : forall s acts s', reachable s -> run s acts = Some s' -> reachable s'.
Proof. intros s acts s' [l H] H'. exists (l ++ acts). rewrite e2_run_app, H. exact H'. Qed.

Lemma e2_resume_at : forall s t th, get_thread (threads s) t = Some th -> t_gen th = gen s ->
  resume s t =
  (let u := of_state s in let rq := t_req th in let ok (u' : upd) := Some (to_state (gen s) u') in
   match t_pc th with
   | PRefBusy => ok (finish t th (RErr EConflict) false true false true u)
   | PRefTaken => ok (set_th t (with_pc th (PRefLookup (has_ref (persisted s) (rq_ref rq)))) u)
   | PRefLookup true => ok (finish t th (RErr EConflict) false true true true u)
   | PRevBusy => ok (finish t th (RErr ERevertOccurring) false false false false u)
   | PRevTaken =>
       ok (set_th t (with_pc th (PRevRead (match find_tx (persisted s) (rq_revert rq) with Some _ => true | None => false end)
                                          (is_reverted (persisted s) (rq_revert rq)))) u)
   | PRevRead true true => ok (finish t th (RErr EAlreadyReverted) false false false true u)
   | PIkBusy => ok (finish t th (RErr EIkBusy) false false false true u)
   | _ => resume s t
   end).
Proof.
  intros s t th Hth Hg. cbv zeta. destruct (t_pc th) as [| | |f r| | | | | |h| | | | | | | | | | | | |] eqn:Hpc; try reflexivity.
  all: unfold resume; rewrite Hth, Hg, Nat.eqb_refl; cbn [negb]; rewrite Hpc; try reflexivity.
  - destruct f, r; reflexivity.
  - destruct h; reflexivity.
Qed.

Lemma e2_get_after_set : forall s g t th, get_thread (threads (to_state g (set_th t th (of_state s)))) t = Some th.
Proof. intros. cbn. rewrite e2_get_set, Nat.eqb_refl. reflexivity. Qed.

(* a later attempt: the reference is on disk when the lookup is made *)
Theorem e2_ref_loser : forall s, reachable s -> forall t th,
  get_thread (threads s) t = Some th -> t_gen th = gen s -> t_pc th = PRefTaken ->
  has_ref (persisted s) (rq_ref (t_req th)) = true ->
  exists s2 th2, run s [AResume t; AResume t] = Some s2 /\ get_thread (threads s2) t = Some th2 /\
    t_pc th2 = PFinished /\ t_resp th2 = Some (RErr EConflict) /\ persisted s2 = persisted s /\
    inflight s2 = inflight s /\ (forall e, In e (all_entries s2) -> e_owner e <> t).
Proof.
  intros s Hr t th Hth Hg Hpc Hhas.
  pose proof (e2_resume_at s t th Hth Hg) as R1. cbv zeta in R1. rewrite Hpc, Hhas in R1.
  set (s1 := to_state (gen s) (set_th t (with_pc th (PRefLookup true)) (of_state s))) in *.
  assert (G1 : get_thread (threads s1) t = Some (with_pc th (PRefLookup true))) by apply e2_get_after_set.
  pose proof (e2_resume_at s1 t _ G1 Hg) as R2. cbv zeta in R2. cbn [with_pc t_pc] in R2.
  match type of R2 with _ = Some ?x => set (s2 := x) in * end.
  assert (Hrun : run s [AResume t; AResume t] = Some s2) by (cbn; rewrite R1, R2; reflexivity).
  assert (G2 : exists th2, get_thread (threads s2) t = Some th2 /\ t_pc th2 = PFinished /\ t_resp th2 = Some (RErr EConflict)).
  { eexists. split; [unfold s2; cbn; rewrite e2_get_set, Nat.eqb_refl; reflexivity|]. split; reflexivity. }
  destruct G2 as [th2 (G2&P2&Rs2)]. exists s2, th2. split; [exact Hrun|]. split; [exact G2|]. split; [exact P2|].
  split; [exact Rs2|]. split; [reflexivity|]. split; [reflexivity|].
  exact (e2_error_no_trace s2 (e2_reachable_run _ _ _ Hr Hrun) t th2 EConflict G2 Rs2).
Qed.

(* a concurrent attempt: the reference is reserved by a request in flight *)
Theorem e2_ref_busy : forall s, reachable s -> forall t th,
  get_thread (threads s) t = Some th -> t_gen th = gen s -> t_pc th = PRefBusy ->
  exists s1 th1, run s [AResume t] = Some s1 /\ get_thread (threads s1) t = Some th1 /\
    t_pc th1 = PFinished /\ t_resp th1 = Some (RErr EConflict) /\ persisted s1 = persisted s /\
    inflight s1 = inflight s /\ (forall e, In e (all_entries s1) -> e_owner e <> t).
Proof.
  intros s Hr t th Hth Hg Hpc.
  pose proof (e2_resume_at s t th Hth Hg) as R1. cbv zeta in R1. rewrite Hpc in R1.
  match type of R1 with _ = Some ?x => set (s1 := x) in * end.
  assert (Hrun : run s [AResume t] = Some s1) by (cbn; rewrite R1; reflexivity).
  assert (G1 : exists th1, get_thread (threads s1) t = Some th1 /\ t_pc th1 = PFinished /\ t_resp th1 = Some (RErr EConflict)).
  { eexists. split; [unfold s1; cbn; rewrite e2_get_set, Nat.eqb_refl; reflexivity|]. split; reflexivity. }
  destruct G1 as [th1 (G1&P1&Rs1)]. exists s1, th1. split; [exact Hrun|]. split; [exact G1|]. split; [exact P1|].
  split; [exact Rs1|]. split; [reflexivity|]. split; [reflexivity|].
  exact (e2_error_no_trace s1 (e2_reachable_run _ _ _ Hr Hrun) t th1 EConflict G1 Rs1).
Qed.

(* a revert of a transaction that is already reverted on disk *)
Theorem e2_already_reverted : forall s, reachable s -> forall t th,
  get_thread (threads s) t = Some th -> t_gen th = gen s -> t_pc th = PRevTaken ->
  is_reverted (persisted s) (rq_revert (t_req th)) = true ->
  exists s2 th2, run s [AResume t; AResume t] = Some s2 /\ get_thread (threads s2) t = Some th2 /\
    t_pc th2 = PFinished /\ t_resp th2 = Some (RErr EAlreadyReverted) /\ persisted s2 = persisted s /\
    inflight s2 = inflight s /\ (forall e, In e (all_entries s2) -> e_owner e <> t).
Proof.
  intros s Hr t th Hth Hg Hpc Hrev. pose proof (e2_inv_reachable s Hr) as I.
  assert (Hf : exists e0, find_tx (persisted s) (rq_revert (t_req th)) = Some e0).
  { unfold is_reverted in Hrev. apply existsb_exists in Hrev. destruct Hrev as [x [Hx Ex]].
    destruct (e_reverts x) as [id|] eqn:Er; [|discriminate]. apply Nat.eqb_eq in Ex. subst id.
    pose proof (b_revtx s (i_b s I) x _ (e2_persisted_all _ _ Hx) Er) as F.
    destruct (find_tx (persisted s) (rq_revert (t_req th))); [eauto|contradiction]. }
  destruct Hf as [e0 Hf].
  pose proof (e2_resume_at s t th Hth Hg) as R1. cbv zeta in R1. rewrite Hpc, Hrev, Hf in R1.
  set (s1 := to_state (gen s) (set_th t (with_pc th (PRevRead true true)) (of_state s))) in *.
  assert (G1 : get_thread (threads s1) t = Some (with_pc th (PRevRead true true))) by apply e2_get_after_set.
  pose proof (e2_resume_at s1 t _ G1 Hg) as R2. cbv zeta in R2. cbn [with_pc t_pc] in R2.
  match type of R2 with _ = Some ?x => set (s2 := x) in * end.
  assert (Hrun : run s [AResume t; AResume t] = Some s2) by (cbn; rewrite R1, R2; reflexivity).
  assert (G2 : exists th2, get_thread (threads s2) t = Some th2 /\ t_pc th2 = PFinished /\ t_resp th2 = Some (RErr EAlreadyReverted)).
  { eexists. split; [unfold s2; cbn; rewrite e2_get_set, Nat.eqb_refl; reflexivity|]. split; reflexivity. }
  destruct G2 as [th2 (G2&P2&Rs2)]. exists s2, th2. split; [exact Hrun|]. split; [exact G2|]. split; [exact P2|].
  split; [exact Rs2|]. split; [reflexivity|]. split; [reflexivity|].
  exact (e2_error_no_trace s2 (e2_reachable_run _ _ _ Hr Hrun) t th2 EAlreadyReverted G2 Rs2).
Qed.

(* a thread parked after its revert lookup with [reverted = true] answers "already reverted" *)
Theorem e2_revread_answer : forall s t th, get_thread (threads s) t = Some th -> t_gen th = gen s ->
  t_pc th = PRevRead true true ->
  exists s1 th1, resume s t = Some s1 /\ get_thread (threads s1) t = Some th1 /\
                 t_resp th1 = Some (RErr EAlreadyReverted) /\ t_pc th1 = PFinished /\ persisted s1 = persisted s.
Proof.
  intros s t th Hth Hg Hpc. pose proof (e2_resume_at s t th Hth Hg) as R1. cbv zeta in R1. rewrite Hpc in R1.
  eexists. eexists. split; [exact R1|]. split; [cbn; rewrite e2_get_set, Nat.eqb_refl; reflexivity|].
  repeat split; reflexivity.
Qed.

(* in a reachable state the lookup cannot have seen "reverted" without "found" *)
Theorem e2_reverted_found : forall s, reachable s -> forall id,
  is_reverted (persisted s) id = true -> find_tx (persisted s) id <> None.
Proof.
  intros s Hr id Hrev. pose proof (e2_inv_reachable s Hr) as I.
  unfold is_reverted in Hrev. apply existsb_exists in Hrev. destruct Hrev as [x [Hx Ex]].
  destruct (e_reverts x) as [i|] eqn:Er; [|discriminate]. apply Nat.eqb_eq in Ex. subst i.
  exact (b_revtx s (i_b s I) x _ (e2_persisted_all _ _ Hx) Er).
Qed.

(* ---- cancellation: a queued request whose context is done gives up and gives everything back ------------------------ *)
Lemma e2_resume_cancelled_at : forall s t s', resume_cancelled s t = Some s' ->
  exists th, get_thread (threads s) t = Some th /\ t_gen th = gen s /\ t_pc th = PEnqueued /\ t_cancelled th = true /\
    s' = to_state (gen s) (finish t th (RErr ELockCancelled) false true true true
                             (if t_granted th then unlock t (of_state s) else dequeue t (of_state s))).
Proof.
  intros s t s' H. unfold resume_cancelled in H.
  destruct (get_thread (threads s) t) as [th|] eqn:Hth; [|discriminate].
  destruct (Nat.eqb (t_gen th) (gen s)) eqn:Hg; cbn [negb] in H; [|discriminate]. apply Nat.eqb_eq in Hg.
  destruct (t_pc th) eqn:Hpc; try discriminate H.
  destruct (t_cancelled th) eqn:Hc; [|discriminate H].
  cbv zeta in H. inversion H. exists th. repeat split; auto.
Qed.

(* what the step does to the three reservation tables, the disk, the in-flight lists and the thread *)
Theorem e2_cancelled_releases : forall s t s', reachable s -> step s (AResumeCancelled t) = Some s' ->
  exists th, get_thread (threads s) t = Some th /\ t_pc th = PEnqueued /\ t_cancelled th = true /\
    v_iks s' = (if N.eqb (rq_ik (t_req th)) 0 then v_iks s else remove_N (rq_ik (t_req th)) (v_iks s)) /\
    v_refs s' = (if N.eqb (rq_ref (t_req th)) 0 then v_refs s else remove_N (rq_ref (t_req th)) (v_refs s)) /\
    v_revs s' = (match rq_kind (t_req th) with KRevert => remove_nat (rq_revert (t_req th)) (v_revs s) | _ => v_revs s end) /\
    persisted s' = persisted s /\ inflight s' = inflight s /\
    exists th', get_thread (threads s') t = Some th' /\ t_pc th' = PFinished /\
                t_resp th' = Some (RErr ELockCancelled) /\ t_entry th' = None /\ t_req th' = t_req th.
Proof.
  intros s t s' Hr H. cbn [step] in H. pose proof (e2_inv_reachable s Hr) as I.
  destruct (e2_resume_cancelled_at _ _ _ H) as [th (Hth&Hg&Hpc&Hc&->)]. exists th.
  split; [exact Hth|]. split; [exact Hpc|]. split; [exact Hc|].
  assert (He : t_entry th = None).
  { destruct (proj1 (b_tl s (i_b s I) _ _ (e2_gth_of_get _ _ _ Hth))) as (_&_&_&_&T4&_). cbn in T4. apply T4.
    rewrite Hpc. reflexivity. }
  unfold inflight. destruct (t_granted th); cbn [to_state finish v_iks v_refs v_revs persisted v_batch v_pending threads
     andb dequeue u_iks u_refs u_revs u_persisted u_batch u_pending u_threads];
    rewrite ?e2_unlock_iks, ?e2_unlock_refs, ?e2_unlock_revs, ?e2_unlock_persisted, ?e2_unlock_batch, ?e2_unlock_pending;
    cbn [of_state u_iks u_refs u_revs u_persisted u_batch u_pending u_threads].
  all: split; [destruct (N.eqb (rq_ik (t_req th)) 0); reflexivity|].
  all: split; [destruct (N.eqb (rq_ref (t_req th)) 0); reflexivity|].
  all: split; [reflexivity|]. all: split; [reflexivity|]. all: split; [reflexivity|].
  all: eexists; split; [rewrite e2_get_set, Nat.eqb_refl; reflexivity|]; cbn; auto.
Qed.

Theorem e2_cancelled_releases_key : forall s t s', reachable s -> step s (AResumeCancelled t) = Some s' ->
  exists th, get_thread (threads s) t = Some th /\
    v_iks s' = (if N.eqb (rq_ik (t_req th)) 0 then v_iks s else remove_N (rq_ik (t_req th)) (v_iks s)) /\
    persisted s' = persisted s.
Proof. intros s t s' Hr H. destruct (e2_cancelled_releases s t s' Hr H) as [th (A&_&_&B0&_&_&C&_)]. eauto. Qed.

Theorem e2_cancelled_releases_ref : forall s t s', reachable s -> step s (AResumeCancelled t) = Some s' ->
  exists th, get_thread (threads s) t = Some th /\
    v_refs s' = (if N.eqb (rq_ref (t_req th)) 0 then v_refs s else remove_N (rq_ref (t_req th)) (v_refs s)) /\
    persisted s' = persisted s.
Proof. intros s t s' Hr H. destruct (e2_cancelled_releases s t s' Hr H) as [th (A&_&_&_&B0&_&C&_)]. eauto. Qed.

Theorem e2_cancelled_releases_rev : forall s t s', reachable s -> step s (AResumeCancelled t) = Some s' ->
  exists th, get_thread (threads s) t = Some th /\
    v_revs s' = (match rq_kind (t_req th) with KRevert => remove_nat (rq_revert (t_req th)) (v_revs s) | _ => v_revs s end) /\
    persisted s' = persisted s.
Proof. intros s t s' Hr H. destruct (e2_cancelled_releases s t s' Hr H) as [th (A&_&_&_&_&B0&C&_)]. eauto. Qed.

(* ... and what that means in a reachable state: the request held the reservation itself, nobody holds it afterwards,
   and no entry (on disk or in flight) carries the key / reference / revert target: a retry is a fresh request *)
Theorem e2_cancelled_fresh : forall s t s', reachable s -> step s (AResumeCancelled t) = Some s' ->
  exists th, get_thread (threads s) t = Some th /\
    all_entries s' = all_entries s /\
    (rq_ik (t_req th) <> 0%N ->
       In (rq_ik (t_req th)) (v_iks s) /\ ~ In (rq_ik (t_req th)) (v_iks s') /\
       forall x, In x (all_entries s') -> e_ik x <> rq_ik (t_req th)) /\
    (rq_ref (t_req th) <> 0%N ->
       In (rq_ref (t_req th)) (v_refs s) /\ ~ In (rq_ref (t_req th)) (v_refs s') /\
       forall x, In x (all_entries s') -> e_ref x <> rq_ref (t_req th)) /\
    (rq_kind (t_req th) = KRevert ->
       In (rq_revert (t_req th)) (v_revs s) /\ ~ In (rq_revert (t_req th)) (v_revs s') /\
       forall x, In x (all_entries s') -> e_reverts x <> Some (rq_revert (t_req th))).
Proof.
  intros s t s' Hr H. pose proof (e2_inv_reachable s Hr) as I.
  destruct (e2_cancelled_releases s t s' Hr H) as [th (Hth&Hpc&_&Eik&Eref&Erev&Ep&Ei&_)]. exists th.
  split; [exact Hth|].
  assert (Ea : all_entries s' = all_entries s) by (unfold all_entries; rewrite Ep, Ei; reflexivity).
  split; [exact Ea|]. rewrite Ea.
  pose proof (e2_gth_of_get _ _ _ Hth) as Hg.
  destruct (proj1 (b_tl s (i_b s I) _ _ Hg)) as (_&T1&_). cbn in T1.
  assert (Htx : is_tx_kind (rq_kind (t_req th)) = true).
  { destruct (is_tx_kind (rq_kind (t_req th))) eqn:E; [reflexivity|]. destruct (T1 eq_refl) as [Q _].
    rewrite Hpc in Q. discriminate Q. }
  split; [|split].
  - intros Hk. assert (K : ik_key (t_req (ug th)) = Some (rq_ik (t_req th))).
    { unfold ik_key. cbn. destruct (N.eqb (rq_ik (t_req th)) 0) eqn:Z; [apply N.eqb_eq in Z; contradiction|reflexivity]. }
    assert (Z : N.eqb (rq_ik (t_req th)) 0 = false) by (apply N.eqb_neq; exact Hk).
    split; [|split].
    + apply (r_in _ _ _ _ _ _ s (i_ik s I) t (ug th) _ Hg K). cbn. rewrite Hpc. reflexivity.
    + rewrite Eik, Z. intro Q. apply e2_In_remove_N in Q. destruct Q as [_ Q]. apply Q. reflexivity.
    + intros x Hx Ex.
      apply (r_miss _ _ _ _ _ _ s (i_ik s I) t (ug th) _ Hg K) with (x := x); [cbn; rewrite Hpc; reflexivity|exact Hx|].
      apply e2_eik_key_of; [exact Hk|rewrite Ex; apply N.eqb_refl].
  - intros Hk. assert (K : ref_key (t_req (ug th)) = Some (rq_ref (t_req th))).
    { unfold ref_key. cbn. rewrite Htx. destruct (N.eqb (rq_ref (t_req th)) 0) eqn:Z; [apply N.eqb_eq in Z; contradiction|reflexivity]. }
    assert (Z : N.eqb (rq_ref (t_req th)) 0 = false) by (apply N.eqb_neq; exact Hk).
    split; [|split].
    + apply (r_in _ _ _ _ _ _ s (i_ref s I) t (ug th) _ Hg K). cbn. rewrite Hpc. reflexivity.
    + rewrite Eref, Z. intro Q. apply e2_In_remove_N in Q. destruct Q as [_ Q]. apply Q. reflexivity.
    + intros x Hx Ex.
      apply (r_miss _ _ _ _ _ _ s (i_ref s I) t (ug th) _ Hg K) with (x := x); [cbn; rewrite Hpc; reflexivity|exact Hx|].
      apply e2_eref_key_of; [exact Hk|rewrite Ex; apply N.eqb_refl].
  - intros Hk. assert (K : rev_key (t_req (ug th)) = Some (rq_revert (t_req th))).
    { unfold rev_key. cbn. rewrite Hk. reflexivity. }
    split; [|split].
    + apply (r_in _ _ _ _ _ _ s (i_rev s I) t (ug th) _ Hg K). cbn. rewrite Hpc. reflexivity.
    + rewrite Erev, Hk. intro Q. apply e2_In_remove_nat in Q. destruct Q as [_ Q]. apply Q. reflexivity.
    + intros x Hx Ex.
      exact (r_miss _ _ _ _ _ _ s (i_rev s I) t (ug th) _ Hg K ltac:(cbn; rewrite Hpc; reflexivity) x Hx Ex).
Qed.

Theorem e2_cancelled_ref_fresh : forall s t s', reachable s -> step s (AResumeCancelled t) = Some s' ->
  exists th, get_thread (threads s) t = Some th /\ (rq_ref (t_req th) <> 0%N ->
       In (rq_ref (t_req th)) (v_refs s) /\ ~ In (rq_ref (t_req th)) (v_refs s') /\
       forall x, In x (all_entries s') -> e_ref x <> rq_ref (t_req th)).
Proof.
  intros s t s' Hr H. destruct (e2_cancelled_fresh s t s' Hr H) as [th (A&_&_&B&_)]. exists th. exact (conj A B).
Qed.
Theorem e2_cancelled_rev_fresh : forall s t s', reachable s -> step s (AResumeCancelled t) = Some s' ->
  exists th, get_thread (threads s) t = Some th /\ (rq_kind (t_req th) = KRevert ->
       In (rq_revert (t_req th)) (v_revs s) /\ ~ In (rq_revert (t_req th)) (v_revs s') /\
       forall x, In x (all_entries s') -> e_reverts x <> Some (rq_revert (t_req th))).
Proof.
  intros s t s' Hr H. destruct (e2_cancelled_fresh s t s' Hr H) as [th (A&_&_&_&B)]. exists th. exact (conj A B).
Qed.

(* cancelling by itself changes nothing the three properties look at *)
Theorem e2_cancel_changes_nothing : forall s t s', step s (ACancel t) = Some s' ->
  persisted s' = persisted s /\ inflight s' = inflight s /\
  v_iks s' = v_iks s /\ v_refs s' = v_refs s /\ v_revs s' = v_revs s.
Proof. intros s t s' H. cbn [step] in H. destruct (e2_cancel_frame _ _ _ H) as (_&A&B0&_&C&D&E). auto. Qed.
