(* M2, prover E2 — transient store READ failures ([AResumeReadFail t]) and the three reservation tables:
   what the step does, that it releases exactly what the failing request holds at its pc, and that this is sound in
   every reachable state (the statements behind the "read_failed" theorems of C07 / C11 / C10). *)
From FL Require Import Engine.Model Engine.Spec Engine.E2Base Engine.E2Step Engine.E2Inv Engine.E2Res Engine.E2Main
                       Engine.E2Variants.
From Coq Require Import Lia Permutation.
Open Scope nat_scope.

Local Arguments remove_N : simpl never.
Local Arguments remove_nat : simpl never.
Local Arguments N.eqb : simpl never.
Local Arguments Nat.eqb : simpl never.

(* the error a failing read is answered with (None: the read error is ignored -- SaveMeta -- or the action is not
   enabled at that pc) *)
Definition rf_error (th : thread) : option eclass :=
  match t_pc th with
  | PRevTaken | PIkTaken | PRefTaken | PLocked => Some EStoreRead
  | PRefLookup false => Some ECompilationFailed
  | PIkLookup None =>
      match rq_kind (t_req th) with KCreate => Some ECompilationFailed | KDelMeta => Some ENotFound | _ => None end
  | _ => None
  end.

(* ---- the step, field by field ------------------------------------------------------------------------------------ *)
(* In the failing cases each table loses the request's key / reference / revert target exactly when the thread HOLDS
   it at its pc -- [ik_hold] / [ref_hold] / [rev_hold] are the hold tables of the reservation invariant: the flags of
   [resume_read_fail] coincide with them at every enabled pc. *)
Theorem e2_read_failed_step : forall s t s', reachable s -> step s (AResumeReadFail t) = Some s' ->
  exists th th', get_thread (threads s) t = Some th /\ get_thread (threads s') t = Some th' /\
    t_gen th = gen s /\ t_req th' = t_req th /\ t_resp th = None /\ t_entry th = None /\ t_entry th' = None /\
    persisted s' = persisted s /\ inflight s' = inflight s /\ v_uid s' = v_uid s /\
    (((exists err, rf_error th = Some err /\ t_resp th' = Some (RErr err)) /\ t_pc th' = PFinished /\
      v_iks s' = (if ik_hold (t_pc th) && negb (N.eqb (rq_ik (t_req th)) 0)
                  then remove_N (rq_ik (t_req th)) (v_iks s) else v_iks s) /\
      v_refs s' = (if ref_hold (t_pc th) && negb (N.eqb (rq_ref (t_req th)) 0)
                   then remove_N (rq_ref (t_req th)) (v_refs s) else v_refs s) /\
      v_revs s' = (if rev_hold (t_pc th)
                   then match rq_kind (t_req th) with KRevert => remove_nat (rq_revert (t_req th)) (v_revs s) | _ => v_revs s end
                   else v_revs s))
     \/
     (rq_kind (t_req th) = KSaveMeta /\ t_pc th = PIkLookup None /\ t_resp th' = None /\
      t_pc th' = (if rq_dry (t_req th) then PWait else PAppendEnter) /\
      v_iks s' = v_iks s /\ v_refs s' = v_refs s /\ v_revs s' = v_revs s)).
Proof.
  intros s t s' Hr H. cbn [step] in H. pose proof (e2_inv_reachable s Hr) as I.
  unfold resume_read_fail in H.
  destruct (get_thread (threads s) t) as [th|] eqn:Hth; [|discriminate].
  destruct (Nat.eqb (t_gen th) (gen s)) eqn:Hg; cbn [negb] in H; [|discriminate]. apply Nat.eqb_eq in Hg.
  destruct (proj1 (b_tl s (i_b s I) _ _ (e2_gth_of_get _ _ _ Hth))) as (T0&_&_&_&T4&_). cbn in T0, T4.
  exists th.
  assert (Hpre : pre_pc (t_pc th) = true) by (destruct (t_pc th) as [| | |? ?| | |[?|]| | |[|]| | | | |?| | | | | | | |]; try discriminate H; reflexivity).
  assert (Hnf : t_pc th <> PFinished) by (intro Q; rewrite Q in Hpre; discriminate).
  specialize (T0 Hnf). specialize (T4 Hpre).
  unfold inflight.
  destruct (t_pc th) as [| | |? ?| | |[?|]| | |[|]| | | | |?| | | | | | | |] eqn:Hpc; cbv zeta in H; try discriminate H.
  all: repeat match type of H with
       | context [if ?c then _ else _] => destruct c eqn:?
       | context [match ?x with _ => _ end] => destruct x eqn:?
       end; try discriminate H; inversion H; subst s'; clear H.
  all: eexists; split; [reflexivity|];
       split; [cbn [to_state threads finish set_th u_threads]; rewrite e2_get_set, Nat.eqb_refl; reflexivity|].
  all: cbn [to_state finish set_th v_iks v_refs v_revs v_uid persisted v_batch v_pending u_iks u_refs u_revs u_uid
            u_persisted u_batch u_pending t_req t_resp t_entry t_pc with_pc andb ik_hold ref_hold rev_hold];
       rewrite ?e2_unlock_iks, ?e2_unlock_refs, ?e2_unlock_revs, ?e2_unlock_persisted, ?e2_unlock_batch,
               ?e2_unlock_pending, ?e2_unlock_uid;
       cbn [of_state u_iks u_refs u_revs u_uid u_persisted u_batch u_pending].
  all: repeat (split; [first [reflexivity | assumption]|]).
  all: first [ left; split; [eexists; split; [unfold rf_error; rewrite Hpc; try match goal with Q : rq_kind _ = _ |- _ => rewrite Q end; reflexivity|reflexivity]|];
               split; [reflexivity|];
               try match goal with Q : rq_kind _ = _ |- _ => rewrite Q end; repeat split; reflexivity
             | right; repeat split; first [reflexivity | assumption] ].
Qed.

(* ---- a releasing thread step, generically (any of the three tables) ------------------------------------------------- *)
Section Release.
  Variable K : Type.
  Variable rm : K -> list K -> list K.
  Variable key : request -> option K.
  Variable ekey : entry -> option K.
  Variables hold miss : pc -> bool.
  Variable tbl : state -> list K.
  Hypothesis rm_spec : forall x y l, In y (rm x l) <-> In y l /\ x <> y.
  Hypothesis start_nohold : hold PStart = false.

  Variables (s s' : state) (t : tid) (a a' : thread).
  Hypothesis R : RInv K key ekey hold miss tbl s.
  Hypothesis SF : stepfacts s s' t a a'.
  Hypothesis RS : res_step rm (key (t_req a)) (hold (t_pc a)) (hold (t_pc a')) (tbl s) (tbl s').

  (* the thread held [k] itself; afterwards [k] is not in the table, no thread holds it, and when the thread was past a
     lookup miss no entry on disk or in flight carries it *)
  Lemma e2_release_fresh : forall k, key (t_req a) = Some k -> hold (t_pc a) = true -> hold (t_pc a') = false ->
    In k (tbl s) /\ ~ In k (tbl s') /\
    (forall t2 a2, gth s' t2 = Some a2 -> key (t_req a2) = Some k -> hold (t_pc a2) = false) /\
    (miss (t_pc a) = true -> forall x, In x (all_entries s) -> ekey x <> Some k).
  Proof.
    intros k Hk Ho Hn.
    assert (Ha : gth s t = Some a).
    { apply (e2s_oldP _ _ _ _ _ SF). intro Q. rewrite Q in Ho. congruence. }
    unfold res_step in RS. rewrite Hk, Ho, Hn in RS.
    split; [exact (r_in _ _ _ _ _ _ s R _ _ _ Ha Hk Ho)|].
    split; [rewrite RS; intro Q; apply rm_spec in Q; destruct Q as [_ Q]; apply Q; reflexivity|].
    split.
    - intros t2 a2 H2 K2. rewrite (sf_new _ _ _ _ _ SF) in H2. destruct (Nat.eqb t2 t) eqn:E.
      + inversion H2; subst a2. exact Hn.
      + apply Nat.eqb_neq in E. destruct (hold (t_pc a2)) eqn:H2h; [|reflexivity].
        exfalso. apply E. exact (r_uniq _ _ _ _ _ _ s R _ _ _ _ _ H2 Ha K2 Hk H2h Ho).
    - intros Hm x Hx. exact (r_miss _ _ _ _ _ _ s R _ _ _ Ha Hk Hm x Hx).
  Qed.

End Release.

(* ---- the read-failure step as a thread step of the invariant ---------------------------------------------------------- *)
Lemma e2_read_fail_sf : forall s t s', reachable s -> step s (AResumeReadFail t) = Some s' ->
  forall th th', get_thread (threads s) t = Some th -> get_thread (threads s') t = Some th' ->
  stepfacts s s' t (ug th) (ug th').
Proof.
  intros s t s' Hr H th th' Hth Hth'. cbn [step] in H. pose proof (e2_inv_reachable s Hr) as I.
  assert (HTL : forall t a, gth s t = Some a -> TL t a) by (intros u b Hb; exact (proj1 (b_tl s (i_b s I) _ _ Hb))).
  destruct (e2_sf_resume_read_fail _ _ _ HTL H) as [a [a' SF]].
  pose proof (e2_gth_of_get _ _ _ Hth) as G. pose proof (e2_gth_of_get _ _ _ Hth') as G'.
  assert (Ea : a = ug th).
  { destruct (sf_old _ _ _ _ _ SF) as [Q|[Q _]]; rewrite G in Q; [inversion Q; reflexivity|discriminate]. }
  assert (Ea' : a' = ug th').
  { pose proof (sf_new _ _ _ _ _ SF t) as Q. rewrite Nat.eqb_refl, G' in Q. inversion Q. reflexivity. }
  subst a a'. exact SF.
Qed.

Lemma e2_reachable_step : forall s a s', reachable s -> step s a = Some s' -> reachable s'.
Proof. intros s a s' Hr H. apply (e2_reachable_run s [a] s' Hr). cbn. rewrite H. reflexivity. Qed.

Lemma e2_ik_key_some : forall rq, rq_ik rq <> 0%N -> ik_key rq = Some (rq_ik rq).
Proof. intros rq H. unfold ik_key. destruct (N.eqb (rq_ik rq) 0) eqn:Z; [apply N.eqb_eq in Z; contradiction|reflexivity]. Qed.
Lemma e2_ref_key_some : forall rq, is_tx_kind (rq_kind rq) = true -> rq_ref rq <> 0%N -> ref_key rq = Some (rq_ref rq).
Proof.
  intros rq Ht H. unfold ref_key. rewrite Ht.
  destruct (N.eqb (rq_ref rq) 0) eqn:Z; [apply N.eqb_eq in Z; contradiction|reflexivity].
Qed.
Lemma e2_rev_key_some : forall rq, rq_kind rq = KRevert -> rev_key rq = Some (rq_revert rq).
Proof. intros rq H. unfold rev_key. rewrite H. reflexivity. Qed.

(* ---- soundness in a reachable state ---------------------------------------------------------------------------------- *)
(* The step adds no entry.  When it answers an error, for each table: if the request holds its key at the pc it held it
   ITSELF ([In k (table s)]), afterwards the key is free and no thread holds it, and -- when the pc is past a lookup
   MISS ([ik_miss] / [ref_miss] / [rev_miss]: the lookup of this very table has been made and missed) -- no entry on
   disk or in flight carries it: a retry is a fresh request.  Before the lookup ([PIkTaken], [PRefTaken], [PRevTaken])
   nothing is known about the disk (an entry with the key MAY be there: a replay whose lookup failed); the step writes
   nothing, so the set of entries carrying the key is what it was.  If the request does not hold the key at the pc the
   table is untouched. *)
Theorem e2_read_failed_fresh : forall s t s', reachable s -> step s (AResumeReadFail t) = Some s' ->
  exists th th', get_thread (threads s) t = Some th /\ get_thread (threads s') t = Some th' /\
    all_entries s' = all_entries s /\
    ((exists err, t_resp th' = Some (RErr err)) ->
     ((rq_ik (t_req th) <> 0%N -> ik_hold (t_pc th) = true ->
        In (rq_ik (t_req th)) (v_iks s) /\ ~ In (rq_ik (t_req th)) (v_iks s') /\
        (forall t2 th2, get_thread (threads s') t2 = Some th2 -> rq_ik (t_req th2) = rq_ik (t_req th) ->
                        ik_hold (t_pc th2) = false) /\
        (ik_miss (t_pc th) = true -> forall x, In x (all_entries s') -> e_ik x <> rq_ik (t_req th))) /\
      (ik_hold (t_pc th) = false -> v_iks s' = v_iks s)) /\
     ((rq_ref (t_req th) <> 0%N -> ref_hold (t_pc th) = true ->
        In (rq_ref (t_req th)) (v_refs s) /\ ~ In (rq_ref (t_req th)) (v_refs s') /\
        (forall t2 th2, get_thread (threads s') t2 = Some th2 -> is_tx_kind (rq_kind (t_req th2)) = true ->
                        rq_ref (t_req th2) = rq_ref (t_req th) -> ref_hold (t_pc th2) = false) /\
        (ref_miss (t_pc th) = true -> forall x, In x (all_entries s') -> e_ref x <> rq_ref (t_req th))) /\
      (ref_hold (t_pc th) = false -> v_refs s' = v_refs s)) /\
     (rq_kind (t_req th) = KRevert ->
        In (rq_revert (t_req th)) (v_revs s) /\ ~ In (rq_revert (t_req th)) (v_revs s') /\
        (forall t2 th2, get_thread (threads s') t2 = Some th2 -> rq_kind (t_req th2) = KRevert ->
                        rq_revert (t_req th2) = rq_revert (t_req th) -> rev_hold (t_pc th2) = false) /\
        (rev_miss (t_pc th) = true -> forall x, In x (all_entries s') -> e_reverts x <> Some (rq_revert (t_req th))))).
Proof.
  intros s t s' Hr H. pose proof (e2_inv_reachable s Hr) as I.
  destruct (e2_read_failed_step s t s' Hr H) as [th [th' (Hth&Hth'&Hg&Ereq&Hresp&He&He'&Ep&Ei&Eu&Hcase)]].
  exists th, th'. split; [exact Hth|]. split; [exact Hth'|].
  assert (Ea : all_entries s' = all_entries s) by (unfold all_entries; rewrite Ep, Ei; reflexivity).
  split; [exact Ea|]. intros [err0 Herr0]. rewrite Ea.
  destruct Hcase as [((err&Hrf&Herr)&Hfin&Eik&Eref&Erev)|(_&_&Hn&_)]; [|congruence].
  pose proof (e2_read_fail_sf s t s' Hr H th th' Hth Hth') as SF.
  destruct (sf_eff _ _ _ _ _ SF) as (_ & _ & _ & Rik & Rref & Rrev & _).
  cbn [ug t_req t_pc] in Rik, Rref, Rrev.
  pose proof (e2_gth_of_get _ _ _ Hth) as G.
  destruct (proj1 (b_tl s (i_b s I) _ _ G)) as (_&T1&_). cbn in T1.
  assert (Hrevh : rev_hold (t_pc th) = true).
  { unfold rf_error in Hrf. destruct (t_pc th) as [| | |? ?| | |[?|]| | |[|]| | | | |?| | | | | | | |]; try discriminate Hrf; reflexivity. }
  split; [|split].
  - split.
    + intros Hk Hh.
      destruct (e2_release_fresh N remove_N ik_key eik_key ik_hold ik_miss v_iks e2_In_remove_N eq_refl
                  s s' t (ug th) (ug th') (i_ik s I) SF Rik (rq_ik (t_req th)) (e2_ik_key_some _ Hk) Hh)
        as (A1&A2&A3&A4); [cbn; rewrite Hfin; reflexivity|].
      split; [exact A1|]. split; [exact A2|]. split.
      * intros t2 th2 H2 K2. apply (A3 t2 (ug th2) (e2_gth_of_get _ _ _ H2)).
        change (ik_key (t_req th2) = Some (rq_ik (t_req th))). rewrite <- K2. apply e2_ik_key_some. rewrite K2. exact Hk.
      * intros Hm x Hx Ex. apply (A4 Hm x Hx). apply e2_eik_key_of; [exact Hk|rewrite Ex; apply N.eqb_refl].
    + intros Hh. rewrite Eik, Hh. reflexivity.
  - split.
    + intros Hk Hh.
      assert (Htx : is_tx_kind (rq_kind (t_req th)) = true).
      { destruct (is_tx_kind (rq_kind (t_req th))) eqn:E; [reflexivity|]. destruct (T1 eq_refl) as [Q _].
        unfold rf_error in Hrf.
        destruct (t_pc th) as [| | |? ?| | |[?|]| | |[|]| | | | |?| | | | | | | |]; try discriminate Hrf; discriminate. }
      destruct (e2_release_fresh N remove_N ref_key eref_key ref_hold ref_miss v_refs e2_In_remove_N eq_refl
                  s s' t (ug th) (ug th') (i_ref s I) SF Rref (rq_ref (t_req th)) (e2_ref_key_some _ Htx Hk) Hh)
        as (A1&A2&A3&A4); [cbn; rewrite Hfin; reflexivity|].
      split; [exact A1|]. split; [exact A2|]. split.
      * intros t2 th2 H2 Tx2 K2. apply (A3 t2 (ug th2) (e2_gth_of_get _ _ _ H2)).
        change (ref_key (t_req th2) = Some (rq_ref (t_req th))). rewrite <- K2. apply e2_ref_key_some; [exact Tx2|].
        rewrite K2. exact Hk.
      * intros Hm x Hx Ex. apply (A4 Hm x Hx). apply e2_eref_key_of; [exact Hk|rewrite Ex; apply N.eqb_refl].
    + intros Hh. rewrite Eref, Hh. reflexivity.
  - intros Hk.
    destruct (e2_release_fresh nat remove_nat rev_key e_reverts rev_hold rev_miss v_revs e2_In_remove_nat eq_refl
                s s' t (ug th) (ug th') (i_rev s I) SF Rrev (rq_revert (t_req th)) (e2_rev_key_some _ Hk) Hrevh)
      as (A1&A2&A3&A4); [cbn; rewrite Hfin; reflexivity|].
    split; [exact A1|]. split; [exact A2|]. split.
    + intros t2 th2 H2 Kd2 K2. apply (A3 t2 (ug th2) (e2_gth_of_get _ _ _ H2)).
      change (rev_key (t_req th2) = Some (rq_revert (t_req th))). rewrite <- K2. exact (e2_rev_key_some _ Kd2).
    + intros Hm x Hx. exact (A4 Hm x Hx).
Qed.

(* ---- per table ---------------------------------------------------------------------------------------------------------- *)
Theorem e2_read_failed_releases_key : forall s t s', reachable s -> step s (AResumeReadFail t) = Some s' ->
  exists th th', get_thread (threads s) t = Some th /\ get_thread (threads s') t = Some th' /\
    persisted s' = persisted s /\ inflight s' = inflight s /\
    ((exists err, t_resp th' = Some (RErr err)) ->
       v_iks s' = (if ik_hold (t_pc th) && negb (N.eqb (rq_ik (t_req th)) 0)
                   then remove_N (rq_ik (t_req th)) (v_iks s) else v_iks s)) /\
    (t_resp th' = None -> v_iks s' = v_iks s).
Proof.
  intros s t s' Hr H.
  destruct (e2_read_failed_step s t s' Hr H) as [th [th' (Hth&Hth'&_&_&_&_&_&Ep&Ei&_&Hcase)]].
  exists th, th'. repeat (split; [assumption|]).
  destruct Hcase as [((err&_&Herr)&_&Eik&_)|(_&_&Hn&_&Eik&_)].
  - split; [intros _; exact Eik|congruence].
  - split; [intros [e He]; congruence|intros _; exact Eik].
Qed.

Theorem e2_read_failed_releases_ref : forall s t s', reachable s -> step s (AResumeReadFail t) = Some s' ->
  exists th th', get_thread (threads s) t = Some th /\ get_thread (threads s') t = Some th' /\
    persisted s' = persisted s /\ inflight s' = inflight s /\
    ((exists err, t_resp th' = Some (RErr err)) ->
       v_refs s' = (if ref_hold (t_pc th) && negb (N.eqb (rq_ref (t_req th)) 0)
                    then remove_N (rq_ref (t_req th)) (v_refs s) else v_refs s)) /\
    (t_resp th' = None -> v_refs s' = v_refs s) /\
    (t_pc th = PIkTaken -> v_refs s' = v_refs s).
Proof.
  intros s t s' Hr H.
  destruct (e2_read_failed_step s t s' Hr H) as [th [th' (Hth&Hth'&_&_&_&_&_&Ep&Ei&_&Hcase)]].
  exists th, th'. repeat (split; [assumption|]).
  destruct Hcase as [((err&_&Herr)&_&_&Eref&_)|(_&Hpc&Hn&_&_&Eref&_)].
  - split; [intros _; exact Eref|]. split; [congruence|]. intros Hpc. rewrite Eref, Hpc. reflexivity.
  - split; [intros [e He]; congruence|]. split; intros _; exact Eref.
Qed.

Theorem e2_read_failed_releases_rev : forall s t s', reachable s -> step s (AResumeReadFail t) = Some s' ->
  exists th th', get_thread (threads s) t = Some th /\ get_thread (threads s') t = Some th' /\
    persisted s' = persisted s /\ inflight s' = inflight s /\
    ((exists err, t_resp th' = Some (RErr err)) ->
       v_revs s' = (match rq_kind (t_req th) with KRevert => remove_nat (rq_revert (t_req th)) (v_revs s) | _ => v_revs s end)) /\
    (t_resp th' = None -> v_revs s' = v_revs s).
Proof.
  intros s t s' Hr H.
  destruct (e2_read_failed_step s t s' Hr H) as [th [th' (Hth&Hth'&_&_&_&_&_&Ep&Ei&_&Hcase)]].
  exists th, th'. repeat (split; [assumption|]).
  destruct Hcase as [((err&Hrf&Herr)&_&_&_&Erev)|(_&_&Hn&_&_&_&Erev)].
  - split; [|congruence]. intros _. rewrite Erev.
    unfold rf_error in Hrf.
    destruct (t_pc th) as [| | |? ?| | |[?|]| | |[|]| | | | |?| | | | | | | |]; try discriminate Hrf; reflexivity.
  - split; [intros [e He]; congruence|intros _; exact Erev].
Qed.

Theorem e2_read_failed_key_fresh : forall s t s', reachable s -> step s (AResumeReadFail t) = Some s' ->
  exists th th', get_thread (threads s) t = Some th /\ get_thread (threads s') t = Some th' /\
    all_entries s' = all_entries s /\
    ((exists err, t_resp th' = Some (RErr err)) ->
      (rq_ik (t_req th) <> 0%N -> ik_hold (t_pc th) = true ->
        In (rq_ik (t_req th)) (v_iks s) /\ ~ In (rq_ik (t_req th)) (v_iks s') /\
        (forall t2 th2, get_thread (threads s') t2 = Some th2 -> rq_ik (t_req th2) = rq_ik (t_req th) ->
                        ik_hold (t_pc th2) = false) /\
        (ik_miss (t_pc th) = true -> forall x, In x (all_entries s') -> e_ik x <> rq_ik (t_req th))) /\
      (ik_hold (t_pc th) = false -> v_iks s' = v_iks s)).
Proof.
  intros s t s' Hr H. destruct (e2_read_failed_fresh s t s' Hr H) as [th [th' (A&B0&C&D)]].
  exists th, th'. repeat (split; [assumption|]). intros E. exact (proj1 (D E)).
Qed.

Theorem e2_read_failed_ref_fresh : forall s t s', reachable s -> step s (AResumeReadFail t) = Some s' ->
  exists th th', get_thread (threads s) t = Some th /\ get_thread (threads s') t = Some th' /\
    all_entries s' = all_entries s /\
    ((exists err, t_resp th' = Some (RErr err)) ->
      (rq_ref (t_req th) <> 0%N -> ref_hold (t_pc th) = true ->
        In (rq_ref (t_req th)) (v_refs s) /\ ~ In (rq_ref (t_req th)) (v_refs s') /\
        (forall t2 th2, get_thread (threads s') t2 = Some th2 -> is_tx_kind (rq_kind (t_req th2)) = true ->
                        rq_ref (t_req th2) = rq_ref (t_req th) -> ref_hold (t_pc th2) = false) /\
        (ref_miss (t_pc th) = true -> forall x, In x (all_entries s') -> e_ref x <> rq_ref (t_req th))) /\
      (ref_hold (t_pc th) = false -> v_refs s' = v_refs s)).
Proof.
  intros s t s' Hr H. destruct (e2_read_failed_fresh s t s' Hr H) as [th [th' (A&B0&C&D)]].
  exists th, th'. repeat (split; [assumption|]). intros E. exact (proj1 (proj2 (D E))).
Qed.

Theorem e2_read_failed_rev_fresh : forall s t s', reachable s -> step s (AResumeReadFail t) = Some s' ->
  exists th th', get_thread (threads s) t = Some th /\ get_thread (threads s') t = Some th' /\
    all_entries s' = all_entries s /\
    ((exists err, t_resp th' = Some (RErr err)) -> rq_kind (t_req th) = KRevert ->
        In (rq_revert (t_req th)) (v_revs s) /\ ~ In (rq_revert (t_req th)) (v_revs s') /\
        (forall t2 th2, get_thread (threads s') t2 = Some th2 -> rq_kind (t_req th2) = KRevert ->
                        rq_revert (t_req th2) = rq_revert (t_req th) -> rev_hold (t_pc th2) = false) /\
        (rev_miss (t_pc th) = true -> forall x, In x (all_entries s') -> e_reverts x <> Some (rq_revert (t_req th)))).
Proof.
  intros s t s' Hr H. destruct (e2_read_failed_fresh s t s' Hr H) as [th [th' (A&B0&C&D)]].
  exists th, th'. repeat (split; [assumption|]). intros E. exact (proj2 (proj2 (D E))).
Qed.

(* ---- nobody else's reservation is touched ---------------------------------------------------------------------------------- *)
Lemma e2_cond_remove_N : forall (c : bool) k l x,
  (In x (if c then remove_N k l else l) -> In x l) /\ (In x l -> x <> k -> In x (if c then remove_N k l else l)).
Proof.
  intros c k l x. destruct c; [|tauto]. split.
  - intro Q. apply e2_In_remove_N in Q. tauto.
  - intros Q Nk. apply e2_In_remove_N. split; [exact Q|]. intro E. apply Nk. symmetry. exact E.
Qed.

(* list level: each table only shrinks, and by at most the acting request's own key / reference / revert target;
   thread level: every reservation HELD by another request is still in its table afterwards *)
Theorem e2_read_fail_others_untouched : forall s t s', reachable s -> step s (AResumeReadFail t) = Some s' ->
  exists th, get_thread (threads s) t = Some th /\
    (forall k, (In k (v_iks s') -> In k (v_iks s)) /\ (In k (v_iks s) -> k <> rq_ik (t_req th) -> In k (v_iks s'))) /\
    (forall k, (In k (v_refs s') -> In k (v_refs s)) /\ (In k (v_refs s) -> k <> rq_ref (t_req th) -> In k (v_refs s'))) /\
    (forall id, (In id (v_revs s') -> In id (v_revs s)) /\
                (In id (v_revs s) -> ~ (rq_kind (t_req th) = KRevert /\ id = rq_revert (t_req th)) -> In id (v_revs s'))) /\
    (forall t2 th2, t2 <> t -> get_thread (threads s) t2 = Some th2 ->
       (rq_ik (t_req th2) <> 0%N -> ik_hold (t_pc th2) = true -> In (rq_ik (t_req th2)) (v_iks s')) /\
       (is_tx_kind (rq_kind (t_req th2)) = true -> rq_ref (t_req th2) <> 0%N -> ref_hold (t_pc th2) = true ->
          In (rq_ref (t_req th2)) (v_refs s')) /\
       (rq_kind (t_req th2) = KRevert -> rev_hold (t_pc th2) = true -> In (rq_revert (t_req th2)) (v_revs s'))).
Proof.
  intros s t s' Hr H.
  destruct (e2_read_failed_step s t s' Hr H) as [th [th' (Hth&Hth'&_&_&_&_&_&_&_&_&Hcase)]].
  exists th. split; [exact Hth|].
  split; [|split; [|split]].
  - intros k. destruct Hcase as [(_&_&E&_)|(_&_&_&_&E&_)]; rewrite E; [apply e2_cond_remove_N|tauto].
  - intros k. destruct Hcase as [(_&_&_&E&_)|(_&_&_&_&_&E&_)]; rewrite E; [apply e2_cond_remove_N|tauto].
  - intros id. destruct Hcase as [(_&_&_&_&E)|(_&_&_&_&_&_&E)]; rewrite E; [|tauto].
    destruct (rev_hold (t_pc th)); [|tauto]. destruct (rq_kind (t_req th)) eqn:K; try tauto. split.
    + intro Q. apply e2_In_remove_nat in Q. tauto.
    + intros Q Nk. apply e2_In_remove_nat. split; [exact Q|]. intro E'. apply Nk. split; [reflexivity|]. symmetry. exact E'.
  - intros t2 th2 Nt H2.
    pose proof (e2_inv_reachable s' (e2_reachable_step _ _ _ Hr H)) as I'.
    pose proof (e2_read_fail_sf s t s' Hr H th th' Hth Hth') as SF.
    assert (G2 : gth s' t2 = Some (ug th2)).
    { rewrite (sf_new _ _ _ _ _ SF). apply Nat.eqb_neq in Nt. rewrite Nt. exact (e2_gth_of_get _ _ _ H2). }
    split; [|split].
    + intros Hk Hh. exact (r_in _ _ _ _ _ _ s' (i_ik s' I') t2 (ug th2) _ G2 (e2_ik_key_some _ Hk) Hh).
    + intros Tx Hk Hh. exact (r_in _ _ _ _ _ _ s' (i_ref s' I') t2 (ug th2) _ G2 (e2_ref_key_some _ Tx Hk) Hh).
    + intros Kd Hh. exact (r_in _ _ _ _ _ _ s' (i_rev s' I') t2 (ug th2) _ G2 (e2_rev_key_some _ Kd) Hh).
Qed.

(* ---- non-vacuity (all from [init], by computation) ------------------------------------------------------------------------ *)
Definition e2_rf_fund : list action := e2_full 0 (e2_req KCreate 0 0 [(world, 1%N, 200%Z)] 0).
(* a create with key 7 and reference 9 run to the end: key lookup, reference lookup, execution, persistence *)
Definition e2_full79 (t : tid) : list action := AStart t e2_pay79 :: e2_rs t 12 ++ [APersistOk] ++ e2_rs t 3.

(* the key lookup of request 2 (key 7) fails: [RErr EStoreRead], key given back, nothing written; a NEW request 3 with
   the same key commits: exactly one entry carries key 7.  And the replay situation: request 1 (key 7) is committed
   first; the key lookup of request 2 (key 7) FAILS: it answers [RErr EStoreRead] and writes nothing (had the lookup
   succeeded it would have replayed [ROk (Some 1)]): still exactly one entry with key 7 *)
Lemma e2_read_failure_retry :
  (exists s th2, run init (e2_rf_fund ++ [AStart 2 e2_pay79; AResumeReadFail 2]) = Some s /\
     get_thread (threads s) 2 = Some th2 /\ t_pc th2 = PFinished /\ t_resp th2 = Some (RErr EStoreRead) /\
     t_entry th2 = None /\ v_iks s = [] /\ v_refs s = [] /\ map e_owner (persisted s) = [0] /\
     v_pending s = [] /\ v_batch s = None) /\
  (exists s th2 th3, run init (e2_rf_fund ++ [AStart 2 e2_pay79; AResumeReadFail 2] ++ e2_full79 3) = Some s /\
     get_thread (threads s) 2 = Some th2 /\ get_thread (threads s) 3 = Some th3 /\ t_req th3 = t_req th2 /\
     rq_ik (t_req th2) = 7%N /\ t_resp th2 = Some (RErr EStoreRead) /\ t_resp th3 = Some (ROk (Some 1)) /\
     map (fun e => (e_owner e, e_ik e, e_ref e)) (persisted s) = [(0, 0%N, 0%N); (3, 7%N, 9%N)] /\
     count_where (fun e => N.eqb (e_ik e) 7) (persisted s) = 1 /\ v_iks s = [] /\ v_refs s = []) /\
  (exists s0 th0 s th2 s2 th2',
     run init (e2_rf_fund ++ e2_full79 1 ++ [AStart 2 e2_pay79]) = Some s0 /\
     get_thread (threads s0) 2 = Some th0 /\ t_pc th0 = PIkTaken /\
     count_where (fun e => N.eqb (e_ik e) 7) (persisted s0) = 1 /\
     run init (e2_rf_fund ++ e2_full79 1 ++ [AStart 2 e2_pay79; AResumeReadFail 2]) = Some s /\
     get_thread (threads s) 2 = Some th2 /\ t_resp th2 = Some (RErr EStoreRead) /\ t_entry th2 = None /\
     persisted s = persisted s0 /\ v_pending s = [] /\ v_batch s = None /\ v_iks s = [] /\
     map (fun e => (e_owner e, e_ik e)) (persisted s) = [(0, 0%N); (1, 7%N)] /\
     count_where (fun e => N.eqb (e_ik e) 7) (persisted s) = 1 /\
     (* the same request when the lookup succeeds: the stored outcome is replayed *)
     run init (e2_rf_fund ++ e2_full79 1 ++ [AStart 2 e2_pay79; AResume 2; AResume 2]) = Some s2 /\
     get_thread (threads s2) 2 = Some th2' /\ t_resp th2' = Some (ROk (Some 1)) /\ persisted s2 = persisted s0).
Proof.
  vm_compute. split; [|split].
  - eexists. eexists. repeat split.
  - eexists. eexists. eexists. repeat split.
  - eexists. eexists. eexists. eexists. eexists. eexists. repeat split.
Qed.

(* the failing read under the account locks ([PLocked], ResolveBalances): request 1 (key 5, reference 6) holds the
   locks, request 2 (key 7, reference 9) queues behind it.  The read of request 1 fails: it gives back its key, its
   reference and its locks -- and nothing of request 2, which is granted the locks and commits *)
Definition e2_pay56 : request := e2_req KCreate 5 6 [(1%N, 2%N, 100%Z)] 0.
Definition e2_rf_locked_prefix : list action :=
  e2_rf_fund ++ [AStart 1 e2_pay56; AStart 2 e2_pay79] ++ e2_rs 1 5 ++ e2_rs 2 5.
Lemma e2_read_failure_locked :
  exists s0 th1 s1 th1' th2' s th2,
    run init e2_rf_locked_prefix = Some s0 /\ get_thread (threads s0) 1 = Some th1 /\ t_pc th1 = PLocked /\
    v_iks s0 = [7%N; 5%N] /\ v_refs s0 = [9%N; 6%N] /\ v_queue s0 = [2] /\
    run init (e2_rf_locked_prefix ++ [AResumeReadFail 1]) = Some s1 /\
    get_thread (threads s1) 1 = Some th1' /\ t_resp th1' = Some (RErr EStoreRead) /\ t_entry th1' = None /\
    v_iks s1 = [7%N] /\ v_refs s1 = [9%N] /\ v_queue s1 = [] /\ map (fun h => fst (fst h)) (v_locks s1) = [2] /\
    get_thread (threads s1) 2 = Some th2' /\ t_pc th2' = PEnqueued /\ t_granted th2' = true /\
    persisted s1 = persisted s0 /\
    run init (e2_rf_locked_prefix ++ [AResumeReadFail 1] ++ e2_rs 2 8 ++ [APersistOk] ++ e2_rs 2 3) = Some s /\
    get_thread (threads s) 2 = Some th2 /\ t_resp th2 = Some (ROk (Some 1)) /\
    map (fun e => (e_owner e, e_ik e, e_ref e)) (persisted s) = [(0, 0%N, 0%N); (2, 7%N, 9%N)] /\
    v_iks s = [] /\ v_refs s = [] /\ v_locks s = [] /\ v_queue s = [].
Proof. vm_compute. eexists. eexists. eexists. eexists. eexists. eexists. eexists. repeat split. Qed.

(* the reference lookup of request 2 (key 7, reference 9) fails at [PRefTaken] while request 1 (reference 6) is in
   flight: key and reference of 2 are given back, the reservation of 1 stays; a NEW request 3 with reference 9 commits:
   exactly one entry carries reference 9.  Replay situation: reference 9 is on disk, the lookup of a later request
   fails: [RErr EStoreRead], nothing written (had it succeeded: [EConflict]) *)
Definition e2_pay06 : request := e2_req KCreate 0 6 [(1%N, 2%N, 100%Z)] 0.
Definition e2_pay09 : request := e2_req KCreate 0 9 [(1%N, 2%N, 100%Z)] 0.
Lemma e2_read_failure_ref :
  (exists s0 th0 s th2,
     run init (e2_rf_fund ++ [AStart 1 e2_pay06] ++ e2_rs 1 3 ++ [AStart 2 e2_pay79] ++ e2_rs 2 2) = Some s0 /\
     get_thread (threads s0) 2 = Some th0 /\ t_pc th0 = PRefTaken /\ v_iks s0 = [7%N] /\ v_refs s0 = [9%N; 6%N] /\
     run init (e2_rf_fund ++ [AStart 1 e2_pay06] ++ e2_rs 1 3 ++ [AStart 2 e2_pay79] ++ e2_rs 2 2 ++ [AResumeReadFail 2]) = Some s /\
     get_thread (threads s) 2 = Some th2 /\ t_resp th2 = Some (RErr EStoreRead) /\ t_entry th2 = None /\
     v_iks s = [] /\ v_refs s = [6%N] /\ persisted s = persisted s0 /\ v_pending s = [] /\ v_batch s = None) /\
  (exists s th2 th3,
     run init (e2_rf_fund ++ [AStart 2 e2_pay79; AResume 2; AResume 2; AResumeReadFail 2] ++ e2_full79 3) = Some s /\
     get_thread (threads s) 2 = Some th2 /\ get_thread (threads s) 3 = Some th3 /\ t_req th3 = t_req th2 /\
     rq_ref (t_req th2) = 9%N /\ t_resp th2 = Some (RErr EStoreRead) /\ t_resp th3 = Some (ROk (Some 1)) /\
     map (fun e => (e_owner e, e_ik e, e_ref e)) (persisted s) = [(0, 0%N, 0%N); (3, 7%N, 9%N)] /\
     count_where (fun e => N.eqb (e_ref e) 9) (persisted s) = 1 /\ v_iks s = [] /\ v_refs s = []) /\
  (exists s th2,
     run init (e2_rf_fund ++ e2_full79 1 ++ [AStart 2 e2_pay09; AResumeReadFail 2]) = Some s /\
     get_thread (threads s) 2 = Some th2 /\ t_resp th2 = Some (RErr EStoreRead) /\ t_entry th2 = None /\
     count_where (fun e => N.eqb (e_ref e) 9) (persisted s) = 1 /\ length (persisted s) = 2 /\
     v_refs s = [] /\ v_pending s = [] /\ v_batch s = None).
Proof.
  vm_compute. split; [|split].
  - eexists. eexists. eexists. eexists. repeat split.
  - eexists. eexists. eexists. repeat split.
  - eexists. eexists. repeat split.
Qed.

(* the KEY lookup of request 2 (key 7, reference 9) fails at [PIkTaken] while request 1 holds reference 9: request 2
   has not taken the reference yet and does not release it -- the reservation of request 1 is untouched *)
Lemma e2_read_failure_key_keeps_ref :
  exists s0 th1 th0 s th2,
    run init (e2_rf_fund ++ [AStart 1 e2_pay09] ++ e2_rs 1 3 ++ [AStart 2 e2_pay79]) = Some s0 /\
    get_thread (threads s0) 1 = Some th1 /\ t_pc th1 = PLocked /\ rq_ref (t_req th1) = 9%N /\
    get_thread (threads s0) 2 = Some th0 /\ t_pc th0 = PIkTaken /\ rq_ref (t_req th0) = 9%N /\
    v_iks s0 = [7%N] /\ v_refs s0 = [9%N] /\
    run init (e2_rf_fund ++ [AStart 1 e2_pay09] ++ e2_rs 1 3 ++ [AStart 2 e2_pay79; AResumeReadFail 2]) = Some s /\
    get_thread (threads s) 2 = Some th2 /\ t_resp th2 = Some (RErr EStoreRead) /\
    v_iks s = [] /\ v_refs s = [9%N].
Proof. vm_compute. eexists. eexists. eexists. eexists. eexists. repeat split. Qed.

(* transaction 1 is on disk.  The [GetTransaction] read of revert request 3 fails at [PRevTaken]: [RErr EStoreRead], the
   revert reservation is given back, no revert entry; a NEW revert request 4 of transaction 1 commits: exactly one
   revert entry.  Then the read of a third revert request 5 fails as well: still exactly one *)
Definition e2_rf_tx1 : list action := e2_full 1 (e2_req KCreate 0 0 [(1%N, 2%N, 100%Z)] 0).
Definition e2_rf_rev_full (t : tid) : list action := AStart t e2_rev1 :: e2_rs t 10 ++ [APersistOk] ++ e2_rs t 3.
Lemma e2_read_failure_revert :
  exists s0 th0 s1 th3 s th4 s5 th5,
    run init (e2_rf_fund ++ e2_rf_tx1 ++ [AStart 3 e2_rev1]) = Some s0 /\
    get_thread (threads s0) 3 = Some th0 /\ t_pc th0 = PRevTaken /\ v_revs s0 = [1] /\
    run init (e2_rf_fund ++ e2_rf_tx1 ++ [AStart 3 e2_rev1; AResumeReadFail 3]) = Some s1 /\
    get_thread (threads s1) 3 = Some th3 /\ t_resp th3 = Some (RErr EStoreRead) /\ t_entry th3 = None /\
    v_revs s1 = [] /\ persisted s1 = persisted s0 /\ v_pending s1 = [] /\ v_batch s1 = None /\
    run init (e2_rf_fund ++ e2_rf_tx1 ++ [AStart 3 e2_rev1; AResumeReadFail 3] ++ e2_rf_rev_full 4) = Some s /\
    get_thread (threads s) 4 = Some th4 /\ t_resp th4 = Some (ROk (Some 2)) /\
    map (fun e => (e_owner e, e_reverts e)) (persisted s) = [(0, None); (1, None); (4, Some 1)] /\
    count_where (fun e => match e_reverts e with Some x => Nat.eqb x 1 | None => false end) (persisted s) = 1 /\
    v_revs s = [] /\
    run init (e2_rf_fund ++ e2_rf_tx1 ++ [AStart 3 e2_rev1; AResumeReadFail 3] ++ e2_rf_rev_full 4 ++
              [AStart 5 e2_rev1; AResumeReadFail 5]) = Some s5 /\
    get_thread (threads s5) 5 = Some th5 /\ t_resp th5 = Some (RErr EStoreRead) /\ persisted s5 = persisted s /\
    v_revs s5 = [].
Proof. vm_compute. eexists. eexists. eexists. eexists. eexists. eexists. eexists. eexists. repeat split. Qed.

(* ==== graceful shutdown ([AClose] / [ACloseOk]) =========================================================================
   [step s AClose = Some (crash s)], [step s ACloseOk = option_map crash (persist_ok s)] (Model.v, [close] / [close_ok]):
   the reservation tables, the account locks and the lock queue live in the memory of the commander that is closed:
   they are gone with the generation (by computation; no invariant is needed). *)
Lemma e2_close_frees : forall s a s', a = AClose \/ a = ACloseOk -> step s a = Some s' ->
  v_iks s' = [] /\ v_refs s' = [] /\ v_revs s' = [] /\ v_locks s' = [] /\ v_queue s' = [].
Proof.
  intros s a s' [E|E] H; subst a; cbn in H.
  - inversion H. unfold close, crash. cbn. repeat split.
  - unfold close_ok in H. destruct (persist_ok s) as [s1|]; [|discriminate]. inversion H. unfold crash. cbn. repeat split.
Qed.

(* ... and nothing but the batch inside the store call reaches the disk: [AClose] leaves the disk as it is, [ACloseOk]
   appends exactly the batch in flight (the queued entries are dropped) *)
Lemma e2_close_disk : forall s s',
  (step s AClose = Some s' -> persisted s' = persisted s) /\
  (step s ACloseOk = Some s' -> exists b, v_batch s = Some b /\ persisted s' = persisted s ++ b).
Proof.
  intros s s'. split; intro H; cbn in H.
  - inversion H. reflexivity.
  - unfold close_ok, persist_ok in H. destruct (v_batch s) as [b|]; [|discriminate]. inversion H. exists b. split; reflexivity.
Qed.

(* non-vacuity, from [init] by computation.  [e2_close_other]: an unrelated transaction (no key, no reference). *)
Definition e2_close_other : request := e2_req KCreate 0 0 [(world, 4%N, 10%Z)] 0.
(* request 1 ([e2_close_other]) has appended its entry: its batch is inside the store call *)
Definition e2_close_busy (t : tid) : list action := AStart t e2_close_other :: e2_rs t 8.
(* request 2 (key 7, reference 9) has appended its entry and waits *)
Definition e2_close_79 (t : tid) : list action := AStart t e2_pay79 :: e2_rs t 12.

(* (1) the entry of request 2 (key 7, reference 9) is QUEUED behind the batch of request 1; [ACloseOk] writes the batch
   of request 1 and drops the queue: requests 1 and 2 are answered [RCrashed] (nobody is acknowledged), no entry with
   key 7 is on disk, the tables are empty.  A NEW request 3 with key 7 and reference 9 in the next generation commits:
   exactly one entry carries key 7, exactly one carries reference 9, and it is the entry of request 3.
   (2) the entry of request 2 is IN the batch that [ACloseOk] writes: request 2 is answered [RCrashed], its entry is on
   disk; the retry (request 3, same key) REPLAYS it: [ROk] with the stored transaction id, nothing more written,
   still exactly one entry with key 7 / reference 9. *)
Lemma e2_close_then_retry :
  (exists s0 s1 s th1 th2 th3,
     run init (e2_rf_fund ++ e2_close_busy 1 ++ e2_close_79 2) = Some s0 /\
     option_map (map e_owner) (v_batch s0) = Some [1] /\ map (fun e => (e_owner e, e_ik e, e_ref e)) (v_pending s0) = [(2, 7%N, 9%N)] /\
     v_iks s0 = [7%N] /\ v_refs s0 = [9%N] /\
     run init (e2_rf_fund ++ e2_close_busy 1 ++ e2_close_79 2 ++ [ACloseOk]) = Some s1 /\
     map (fun e => (e_owner e, e_ik e, e_ref e)) (persisted s1) = [(0, 0%N, 0%N); (1, 0%N, 0%N)] /\
     count_where (fun e => N.eqb (e_ik e) 7) (persisted s1) = 0 /\
     v_pending s1 = [] /\ v_batch s1 = None /\ v_iks s1 = [] /\ v_refs s1 = [] /\ gen s1 = S (gen s0) /\
     published s1 = published s0 /\
     run init (e2_rf_fund ++ e2_close_busy 1 ++ e2_close_79 2 ++ [ACloseOk] ++ e2_full79 3) = Some s /\
     get_thread (threads s) 1 = Some th1 /\ get_thread (threads s) 2 = Some th2 /\ get_thread (threads s) 3 = Some th3 /\
     t_req th3 = t_req th2 /\ rq_ik (t_req th2) = 7%N /\ rq_ref (t_req th2) = 9%N /\
     t_resp th1 = Some RCrashed /\ t_resp th2 = Some RCrashed /\ t_resp th3 = Some (ROk (Some 2)) /\
     map (fun e => (e_owner e, e_ik e, e_ref e)) (persisted s) = [(0, 0%N, 0%N); (1, 0%N, 0%N); (3, 7%N, 9%N)] /\
     count_where (fun e => N.eqb (e_ik e) 7) (persisted s) = 1 /\
     count_where (fun e => N.eqb (e_ref e) 9) (persisted s) = 1 /\ v_iks s = [] /\ v_refs s = []) /\
  (exists s1 s th2 th3,
     run init (e2_rf_fund ++ e2_close_79 2 ++ [ACloseOk]) = Some s1 /\
     map (fun e => (e_owner e, e_ik e, e_ref e, e_txid e)) (persisted s1) = [(0, 0%N, 0%N, Some 0); (2, 7%N, 9%N, Some 1)] /\
     v_iks s1 = [] /\ v_refs s1 = [] /\
     run init (e2_rf_fund ++ e2_close_79 2 ++ [ACloseOk] ++ AStart 3 e2_pay79 :: e2_rs 3 2) = Some s /\
     get_thread (threads s) 2 = Some th2 /\ get_thread (threads s) 3 = Some th3 /\ t_req th3 = t_req th2 /\
     t_resp th2 = Some RCrashed /\ t_resp th3 = Some (ROk (Some 1)) /\ t_entry th3 = None /\
     persisted s = persisted s1 /\ v_pending s = [] /\ v_batch s = None /\
     count_where (fun e => N.eqb (e_ik e) 7) (persisted s) = 1 /\
     count_where (fun e => N.eqb (e_ref e) 9) (persisted s) = 1 /\ v_iks s = [] /\ v_refs s = []).
Proof.
  vm_compute. split.
  - eexists. eexists. eexists. eexists. eexists. eexists. repeat split.
  - eexists. eexists. eexists. eexists. repeat split.
Qed.

(* the revert of transaction 1 (request 3) has appended its entry, which is QUEUED behind the batch of request 2;
   [AClose] (the write of that batch fails, or the commander is closed: state-wise a crash) drops both: request 3 is
   answered [RCrashed], transaction 1 is not reverted on disk, the table of reverts in progress is empty.  A NEW revert
   of transaction 1 (request 4) in the next generation commits: exactly one revert entry for transaction 1.
   With [ACloseOk] instead (the batch of request 2 is written, the queued revert is still dropped): the same. *)
Lemma e2_close_during_revert :
  (exists s0 s1 s th3 th4,
     run init (e2_rf_fund ++ e2_rf_tx1 ++ e2_close_busy 2 ++ AStart 3 e2_rev1 :: e2_rs 3 10) = Some s0 /\
     option_map (map e_owner) (v_batch s0) = Some [2] /\ map (fun e => (e_owner e, e_reverts e)) (v_pending s0) = [(3, Some 1)] /\
     v_revs s0 = [1] /\
     run init (e2_rf_fund ++ e2_rf_tx1 ++ e2_close_busy 2 ++ AStart 3 e2_rev1 :: e2_rs 3 10 ++ [AClose]) = Some s1 /\
     persisted s1 = persisted s0 /\ map e_owner (persisted s1) = [0; 1] /\
     count_where (fun e => match e_reverts e with Some 1 => true | _ => false end) (persisted s1) = 0 /\
     v_pending s1 = [] /\ v_batch s1 = None /\ v_revs s1 = [] /\ published s1 = published s0 /\
     run init (e2_rf_fund ++ e2_rf_tx1 ++ e2_close_busy 2 ++ AStart 3 e2_rev1 :: e2_rs 3 10 ++ [AClose] ++ e2_rf_rev_full 4) = Some s /\
     get_thread (threads s) 3 = Some th3 /\ get_thread (threads s) 4 = Some th4 /\ t_req th4 = t_req th3 /\
     rq_kind (t_req th3) = KRevert /\ rq_revert (t_req th3) = 1 /\
     t_resp th3 = Some RCrashed /\ t_resp th4 = Some (ROk (Some 2)) /\
     map (fun e => (e_owner e, e_reverts e)) (persisted s) = [(0, None); (1, None); (4, Some 1)] /\
     count_where (fun e => match e_reverts e with Some 1 => true | _ => false end) (persisted s) = 1 /\ v_revs s = []) /\
  (exists s th3 th4,
     run init (e2_rf_fund ++ e2_rf_tx1 ++ e2_close_busy 2 ++ AStart 3 e2_rev1 :: e2_rs 3 10 ++ [ACloseOk] ++ e2_rf_rev_full 4) = Some s /\
     get_thread (threads s) 3 = Some th3 /\ get_thread (threads s) 4 = Some th4 /\
     t_resp th3 = Some RCrashed /\ t_resp th4 = Some (ROk (Some 3)) /\
     map (fun e => (e_owner e, e_reverts e)) (persisted s) = [(0, None); (1, None); (2, None); (4, Some 1)] /\
     count_where (fun e => match e_reverts e with Some 1 => true | _ => false end) (persisted s) = 1 /\ v_revs s = []).
Proof.
  vm_compute. split.
  - eexists. eexists. eexists. eexists. eexists. repeat split.
  - eexists. eexists. eexists. repeat split.
Qed.

(* the same for a reference without a key (request 2: reference 9): queued behind the batch of request 1 and dropped
   by [ACloseOk]: a NEW request with reference 9 commits, exactly one entry carries the reference; written by
   [ACloseOk]: the retry finds the reference on disk and is refused ([RErr EConflict]), still exactly one entry *)
Lemma e2_close_then_retry_ref :
  (exists s1 s th2 th3,
     run init (e2_rf_fund ++ e2_close_busy 1 ++ AStart 2 e2_pay09 :: e2_rs 2 10 ++ [ACloseOk]) = Some s1 /\
     count_where (fun e => N.eqb (e_ref e) 9) (persisted s1) = 0 /\ v_refs s1 = [] /\
     run init (e2_rf_fund ++ e2_close_busy 1 ++ AStart 2 e2_pay09 :: e2_rs 2 10 ++ [ACloseOk] ++
               AStart 3 e2_pay09 :: e2_rs 3 10 ++ [APersistOk] ++ e2_rs 3 3) = Some s /\
     get_thread (threads s) 2 = Some th2 /\ get_thread (threads s) 3 = Some th3 /\ t_req th3 = t_req th2 /\
     rq_ref (t_req th2) = 9%N /\ t_resp th2 = Some RCrashed /\ t_resp th3 = Some (ROk (Some 2)) /\
     map (fun e => (e_owner e, e_ref e)) (persisted s) = [(0, 0%N); (1, 0%N); (3, 9%N)] /\
     count_where (fun e => N.eqb (e_ref e) 9) (persisted s) = 1 /\ v_refs s = []) /\
  (exists s th2 th3,
     run init (e2_rf_fund ++ AStart 2 e2_pay09 :: e2_rs 2 10 ++ [ACloseOk] ++ AStart 3 e2_pay09 :: e2_rs 3 2) = Some s /\
     get_thread (threads s) 2 = Some th2 /\ get_thread (threads s) 3 = Some th3 /\
     t_resp th2 = Some RCrashed /\ t_resp th3 = Some (RErr EConflict) /\ t_entry th3 = None /\
     map (fun e => (e_owner e, e_ref e)) (persisted s) = [(0, 0%N); (2, 9%N)] /\ v_pending s = [] /\ v_batch s = None /\
     count_where (fun e => N.eqb (e_ref e) 9) (persisted s) = 1 /\ v_refs s = []).
Proof.
  vm_compute. split.
  - eexists. eexists. eexists. eexists. repeat split.
  - eexists. eexists. eexists. repeat split.
Qed.
