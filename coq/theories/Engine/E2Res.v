(* M2, prover E2 — the reservation invariant, once for the three reservation tables
   (idempotency keys, references, reverts). *)
From FL Require Import Engine.Model Engine.Spec Engine.E2Base Engine.E2Step Engine.E2Inv.
From Coq Require Import Lia Permutation.
Open Scope nat_scope.

Section Res.
  Variable K : Type.
  Variable rm : K -> list K -> list K.
  Variable key : request -> option K.
  Variable ekey : entry -> option K.
  Variables hold miss : pc -> bool.
  Variable tbl : state -> list K.
  Hypothesis rm_spec : forall x y l, In y (rm x l) <-> In y l /\ x <> y.
  Hypothesis miss_hold : forall p, miss p = true -> hold p = true.
  Hypothesis wait_hold : forall p, waiting p = true -> hold p = true.
  Hypothesis wait_nomiss : forall p, waiting p = true -> miss p = false.
  Hypothesis chained_miss : miss PChained = true.
  Hypothesis start_nohold : hold PStart = false.
  Hypothesis fin_nohold : hold PFinished = false.
  Hypothesis entry_key : forall t a e, entry_of t a e -> ekey e = key (t_req a).

  Record RInv (s : state) : Prop := {
    r_in : forall t a k, gth s t = Some a -> key (t_req a) = Some k -> hold (t_pc a) = true -> In k (tbl s);
    r_uniq : forall t1 t2 a1 a2 k, gth s t1 = Some a1 -> gth s t2 = Some a2 ->
               key (t_req a1) = Some k -> key (t_req a2) = Some k ->
               hold (t_pc a1) = true -> hold (t_pc a2) = true -> t1 = t2;
    r_miss : forall t a k, gth s t = Some a -> key (t_req a) = Some k -> miss (t_pc a) = true ->
               forall x, In x (all_entries s) -> ekey x <> Some k;
    r_once : forall x y k, In x (all_entries s) -> In y (all_entries s) -> ekey x = Some k -> ekey y = Some k -> x = y
  }.

  Lemma e2_rinv_init : RInv init.
  Proof. constructor; cbn; intros; try discriminate; try contradiction. Qed.

  Section RStep.
    Variables (s s' : state) (t : tid) (a a' : thread).
    Hypothesis B : BInv s.
    Hypothesis R : RInv s.
    Hypothesis SF : stepfacts s s' t a a'.
    Hypothesis RS : res_step rm (key (t_req a)) (hold (t_pc a)) (hold (t_pc a')) (tbl s) (tbl s').
    Hypothesis MF : miss_flow ekey (key (t_req a)) hold miss (t_pc a) (t_pc a') (persisted s).

    Let Hnew := sf_new _ _ _ _ _ SF.
    Let Ereq : t_req a' = t_req a := proj1 (proj2 (sf_eff _ _ _ _ _ SF)).

    Lemma e2r_old_of_hold : hold (t_pc a) = true -> gth s t = Some a.
    Proof. intros H. apply (e2s_oldP _ _ _ _ _ SF). intro Q. rewrite Q in H. congruence. Qed.

    Lemma e2r_in : forall t1 a1 k, gth s' t1 = Some a1 -> key (t_req a1) = Some k -> hold (t_pc a1) = true -> In k (tbl s').
    Proof.
      intros t1 a1 k H Hk Hh. unfold res_step in RS. e2_who Hnew H t1 t a1 E.
      - rewrite Ereq in Hk. rewrite Hk, Hh in RS. destruct (hold (t_pc a)) eqn:Ho.
        + rewrite RS. exact (r_in s R _ _ _ (e2r_old_of_hold Ho) Hk Ho).
        + destruct RS as [_ ->]. left. reflexivity.
      - pose proof (r_in s R _ _ _ H Hk Hh) as Hin.
        destruct (key (t_req a)) as [k0|] eqn:Hk0; [|rewrite RS; exact Hin].
        destruct (hold (t_pc a)) eqn:Ho; destruct (hold (t_pc a')) eqn:Hn.
        + rewrite RS. exact Hin.
        + rewrite RS. apply rm_spec. split; [exact Hin|]. intro Q. subst k0. apply E. symmetry.
          exact (r_uniq s R _ _ _ _ _ (e2r_old_of_hold Ho) H Hk0 Hk Ho Hh).
        + destruct RS as [_ ->]. right. exact Hin.
        + rewrite RS. exact Hin.
    Qed.

    Lemma e2r_uniq_aux : forall t2 a2 k, t2 <> t -> gth s t2 = Some a2 -> key (t_req a) = Some k -> key (t_req a2) = Some k ->
      hold (t_pc a') = true -> hold (t_pc a2) = true -> False.
    Proof.
      intros t2 a2 k N H2 Hk Hk2 Hh Hh2. unfold res_step in RS. rewrite Hk, Hh in RS.
      destruct (hold (t_pc a)) eqn:Ho.
      - apply N. symmetry. exact (r_uniq s R _ _ _ _ _ (e2r_old_of_hold Ho) H2 Hk Hk2 Ho Hh2).
      - destruct RS as [Nin _]. apply Nin. exact (r_in s R _ _ _ H2 Hk2 Hh2).
    Qed.

    Lemma e2r_uniq : forall t1 t2 a1 a2 k, gth s' t1 = Some a1 -> gth s' t2 = Some a2 ->
               key (t_req a1) = Some k -> key (t_req a2) = Some k ->
               hold (t_pc a1) = true -> hold (t_pc a2) = true -> t1 = t2.
    Proof.
      intros t1 t2 a1 a2 k H1 H2 K1 K2 Hh1 Hh2.
      e2_who Hnew H1 t1 t a1 E1; e2_who Hnew H2 t2 t a2 E2; try reflexivity.
      - rewrite Ereq in K1. exfalso. exact (e2r_uniq_aux _ _ _ E2 H2 K1 K2 Hh1 Hh2).
      - rewrite Ereq in K2. exfalso. exact (e2r_uniq_aux _ _ _ E1 H1 K2 K1 Hh2 Hh1).
      - exact (r_uniq s R _ _ _ _ _ H1 H2 K1 K2 Hh1 Hh2).
    Qed.

    (* the key of the entry the stepping thread appends *)
    Lemma e2r_new_key : forall x, t_entry a = Some x -> gth s t = Some a /\ ekey x = key (t_req a).
    Proof.
      intros x Hx. pose proof (e2s_oldE _ _ _ _ _ SF x Hx) as Ha. split; [exact Ha|].
      destruct (proj1 (b_tl s B _ _ Ha)) as (_&_&_&T3&_). exact (entry_key _ _ _ (T3 x Hx)).
    Qed.

    Lemma e2r_miss : forall t1 a1 k, gth s' t1 = Some a1 -> key (t_req a1) = Some k -> miss (t_pc a1) = true ->
               forall x, In x (all_entries s') -> ekey x <> Some k.
    Proof.
      intros t1 a1 k H Hk Hm x Hx Ex.
      destruct (e2s_all _ _ _ _ _ SF x Hx) as [Hold_x|(P1&P2&X1&X2)].
      - e2_who Hnew H t1 t a1 E; [|exact (r_miss s R _ _ _ H Hk Hm x Hold_x Ex)].
        rewrite Ereq in Hk. destruct (MF k Hk Hm) as [Mo|(Ho&Wn&Hp)].
        + exact (r_miss s R _ _ _ (e2r_old_of_hold (miss_hold _ Mo)) Hk Mo x Hold_x Ex).
        + unfold all_entries in Hold_x. apply in_app_or in Hold_x. destruct Hold_x as [Hx1|Hx2]; [exact (Hp x Hx1 Ex)|].
          assert (Hxa : In x (all_entries s)) by (apply in_or_app; right; exact Hx2).
          destruct (b_own s B x Hxa) as [ao (Go&Eo&_&Wo)]. destruct (Wo Hx2) as [W _].
          destruct (proj1 (b_tl s B _ _ Go)) as (_&_&_&T3&_). pose proof (entry_key _ _ _ (T3 x Eo)) as Ko.
          rewrite Ex in Ko. symmetry in Ko.
          pose proof (r_uniq s R _ _ _ _ _ Go (e2r_old_of_hold Ho) Ko Hk (wait_hold _ W) Ho) as Eq.
          rewrite Eq in Go. rewrite (e2r_old_of_hold Ho) in Go. inversion Go; subst ao. congruence.
      - destruct (e2r_new_key x X1) as [Ha Kx]. rewrite Ex in Kx. symmetry in Kx.
        e2_who Hnew H t1 t a1 E.
        + rewrite P2 in Hm. rewrite (wait_nomiss PAppended eq_refl) in Hm. discriminate.
        + apply E. assert (Hc : hold (t_pc a) = true) by (rewrite P1; apply miss_hold; exact chained_miss).
          exact (r_uniq s R _ _ _ _ _ H Ha Hk Kx (miss_hold _ Hm) Hc).
    Qed.

    Lemma e2r_once : forall x y k, In x (all_entries s') -> In y (all_entries s') -> ekey x = Some k -> ekey y = Some k -> x = y.
    Proof.
      intros x y k Hx Hy Ex Ey.
      assert (Hnew_old : forall u v, t_pc a = PChained -> t_entry a = Some u -> In v (all_entries s) ->
                                     ekey u = Some k -> ekey v = Some k -> False).
      { intros u v P1 U1 Hv Eu Ev. destruct (e2r_new_key u U1) as [Ha Ku]. rewrite Eu in Ku. symmetry in Ku.
        assert (Hm : miss (t_pc a) = true) by (rewrite P1; exact chained_miss).
        exact (r_miss s R _ _ _ Ha Ku Hm v Hv Ev). }
      destruct (e2s_all _ _ _ _ _ SF x Hx) as [Ox|(P1&_&X1&_)]; destruct (e2s_all _ _ _ _ _ SF y Hy) as [Oy|(Q1&_&Y1&_)].
      - exact (r_once s R _ _ _ Ox Oy Ex Ey).
      - exfalso. exact (Hnew_old y x Q1 Y1 Ox Ey Ex).
      - exfalso. exact (Hnew_old x y P1 X1 Oy Ex Ey).
      - congruence.
    Qed.

    Lemma e2_rinv_step : RInv s'.
    Proof. constructor; [exact e2r_in|exact e2r_uniq|exact e2r_miss|exact e2r_once]. Qed.
  End RStep.

  (* the reservation invariant reads the state only through these projections ([cancel] changes none of them) *)
  Lemma e2_rinv_ext : forall s s', (forall t, gth s' t = gth s t) -> persisted s' = persisted s ->
    inflight s' = inflight s -> tbl s' = tbl s -> RInv s -> RInv s'.
  Proof.
    intros s s' Hg Ep Ei Et R.
    assert (Ea : all_entries s' = all_entries s) by (unfold all_entries; rewrite Ep, Ei; reflexivity).
    constructor.
    - intros t a k Ha. rewrite Hg in Ha. rewrite Et. exact (r_in s R _ _ _ Ha).
    - intros t1 t2 a1 a2 k H1 H2. rewrite Hg in H1, H2. exact (r_uniq s R _ _ _ _ _ H1 H2).
    - intros t a k Ha. rewrite Hg in Ha. rewrite Ea. exact (r_miss s R _ _ _ Ha).
    - rewrite Ea. exact (r_once s R).
  Qed.

  Lemma e2_rinv_persist : forall s s', RInv s -> persist_ok s = Some s' -> tbl s' = tbl s -> RInv s'.
  Proof.
    intros s s' R H Et. destruct (e2_persist_frame _ _ H) as (_ & Ea & _ & Eth & _).
    assert (Hg : forall t, gth s' t = gth s t) by (intros; unfold gth; rewrite Eth; reflexivity).
    constructor.
    - intros t a k Ha. rewrite Hg in Ha. rewrite Et. exact (r_in s R _ _ _ Ha).
    - intros t1 t2 a1 a2 k H1 H2. rewrite Hg in H1, H2. exact (r_uniq s R _ _ _ _ _ H1 H2).
    - intros t a k Ha. rewrite Hg in Ha. rewrite Ea. exact (r_miss s R _ _ _ Ha).
    - rewrite Ea. exact (r_once s R).
  Qed.

  Lemma e2_rinv_crash : forall s, RInv s -> RInv (crash s).
  Proof.
    intros s R. destruct (e2_crash_entries s) as (_&_&Ea&_).
    assert (Hnh : forall t a', gth (crash s) t = Some a' -> hold (t_pc a') = false).
    { intros t a' H. destruct (e2_crash_thread _ _ _ H) as [a [_ ->]].
      destruct (e2_kill_facts a) as (_&_&_&K4&_). rewrite K4. exact fin_nohold. }
    constructor.
    - intros t a k Ha _ Hh. rewrite (Hnh _ _ Ha) in Hh. discriminate.
    - intros t1 t2 a1 a2 k H1 _ _ _ Hh. rewrite (Hnh _ _ H1) in Hh. discriminate.
    - intros t a k Ha _ Hm. apply miss_hold in Hm. rewrite (Hnh _ _ Ha) in Hm. discriminate.
    - intros x y k Hx Hy. rewrite Ea in Hx, Hy. apply (r_once s R); apply in_or_app; left; assumption.
  Qed.

  (* counting *)
  Lemma e2_count_once : forall (f : entry -> bool) l, NoDup (map e_uid l) ->
    (forall x y, In x l -> In y l -> f x = true -> f y = true -> x = y) -> count_where f l <= 1.
  Proof.
    intros f l. induction l as [|a l IH]; intros N H; [cbn; lia|].
    rewrite e2_count_cons. cbn in N. inversion N as [|u l' Hnin Hnd]; subst.
    destruct (f a) eqn:Fa.
    - assert (Z0 : count_where f l = 0).
      { apply e2_count_zero. intros x Hx. destruct (f x) eqn:Fx; [|reflexivity].
        exfalso. apply Hnin. rewrite (H a x (or_introl eq_refl) (or_intror Hx) Fa Fx). apply in_map. exact Hx. }
      lia.
    - cbn. apply IH; [assumption|]. intros x y Hx Hy. apply H; right; assumption.
  Qed.
End Res.
