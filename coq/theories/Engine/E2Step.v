(* M2, prover E2 — what one step does, in the abstract terms the reservation invariants need.
   The case analysis over [resume] / [start] is done exactly once, here ([e2_resume_eff], [e2_start_eff]). *)
From FL Require Import Engine.Model Engine.Spec Engine.E2Base.
From Coq Require Import Lia Permutation.
Open Scope nat_scope.

(* ---- classes of program counters ------------------------------------------------------------------------ *)
Definition after_append (p : pc) : bool :=
  match p with PAppended | PWait | PDone | PUnlocked | PFinished => true | _ => false end.
Definition waiting (p : pc) : bool := match p with PAppended | PWait => true | _ => false end.
Definition pre_pc (p : pc) : bool :=
  match p with PChained | PAppended | PWait | PDone | PUnlocked | PFinished => false | _ => true end.
Definition nodry_pc (p : pc) : bool := match p with PAppendEnter | PChained | PAppended => true | _ => false end.
Definition nontx_pc (p : pc) : bool :=
  match p with
  | PStart | PIkBusy | PIkTaken | PIkLookup _ | PAppendEnter | PChained | PAppended | PWait | PDone | PFinished => true
  | _ => false end.
Definition exec_pc (p : pc) : bool :=
  match p with PAppendEnter | PTxid | PChained | PAppended | PWait | PDone => true | _ => false end.

(* idempotency key: held from PIkTaken until the request leaves PDone *)
Definition ik_hold (p : pc) : bool :=
  match p with
  | PStart | PRevBusy | PRevTaken | PRevRead _ _ | PIkBusy | PUnlocked | PFinished => false
  | _ => true end.
Definition ik_miss (p : pc) : bool :=
  match p with
  | PIkLookup None | PRefBusy | PRefTaken | PRefLookup _ | PResolved | PEnqueued | PLocked | PBalances | PRan _
  | PAppendEnter | PTxid | PChained => true
  | _ => false end.
(* reference: held from PRefTaken until the final finish *)
Definition ref_hold (p : pc) : bool :=
  match p with
  | PRefTaken | PRefLookup _ | PResolved | PEnqueued | PLocked | PBalances | PRan _ | PAppendEnter | PTxid | PChained
  | PAppended | PWait | PDone | PUnlocked => true
  | _ => false end.
Definition ref_miss (p : pc) : bool :=
  match p with
  | PRefLookup false | PResolved | PEnqueued | PLocked | PBalances | PRan _ | PAppendEnter | PTxid | PChained => true
  | _ => false end.
(* revert reservation: held from start until the final finish *)
Definition rev_hold (p : pc) : bool := match p with PStart | PRevBusy | PFinished => false | _ => true end.
Definition rev_miss (p : pc) : bool :=
  match p with
  | PRevRead _ false | PIkBusy | PIkTaken | PIkLookup _ | PRefBusy | PRefTaken | PRefLookup _ | PResolved | PEnqueued
  | PLocked | PBalances | PRan _ | PAppendEnter | PTxid | PChained => true
  | _ => false end.
Definition rev_found (p : pc) : bool :=
  match p with PRevRead f _ => f | PStart | PRevBusy | PRevTaken | PFinished => false | _ => true end.

(* ---- keys ------------------------------------------------------------------------------------------------- *)
Definition ik_key (rq : request) : option N := if N.eqb (rq_ik rq) 0 then None else Some (rq_ik rq).
Definition ref_key (rq : request) : option N :=
  if is_tx_kind (rq_kind rq) then (if N.eqb (rq_ref rq) 0 then None else Some (rq_ref rq)) else None.
Definition rev_key (rq : request) : option nat := match rq_kind rq with KRevert => Some (rq_revert rq) | _ => None end.
Definition eik_key (e : entry) : option N := if N.eqb (e_ik e) 0 then None else Some (e_ik e).
Definition eref_key (e : entry) : option N := if N.eqb (e_ref e) 0 then None else Some (e_ref e).

(* ---- what is true of a thread whatever the rest of the state ------------------------------------------ *)
Definition good (a : thread) : bool :=
  covers (t_view a) (t_unb a) (t_postings a) && match t_postings a with [] => false | _ => true end.

Definition entry_of (t : tid) (a : thread) (e : entry) : Prop :=
  e_owner e = t /\ e_ik e = rq_ik (t_req a) /\
  e_ref e = (if is_tx_kind (rq_kind (t_req a)) then rq_ref (t_req a) else 0%N) /\
  e_reverts e = rev_key (t_req a) /\ e_txid e = t_txid a /\ e_kind e = rq_kind (t_req a) /\
  e_meta e = (if is_tx_kind (rq_kind (t_req a)) then 0%N else rq_meta (t_req a)).

Definition TL (t : tid) (a : thread) : Prop :=
  (t_pc a <> PFinished -> t_resp a = None) /\
  (is_tx_kind (rq_kind (t_req a)) = false -> nontx_pc (t_pc a) = true /\ t_txid a = None) /\
  (nodry_pc (t_pc a) = true -> rq_dry (t_req a) = false) /\
  (forall e, t_entry a = Some e -> entry_of t a e) /\
  (pre_pc (t_pc a) = true -> t_entry a = None) /\
  (t_pc a = PUnlocked -> good a = false -> t_entry a = None) /\
  (is_tx_kind (rq_kind (t_req a)) = true -> exec_pc (t_pc a) = true -> good a = true) /\
  (forall b, t_pc a = PRan b -> b = covers (t_view a) (t_unb a) (t_postings a)) /\
  (forall err, t_resp a = Some (RErr err) -> t_entry a = None).

(* a reservation table moves with the holder status of the stepping thread *)
Definition res_step {K} (rm : K -> list K -> list K) (key : option K) (h h' : bool) (l l' : list K) : Prop :=
  match key with
  | None => l' = l
  | Some k => match h, h' with
              | false, true => ~ In k l /\ l' = k :: l
              | true, false => l' = rm k l
              | _, _ => l' = l
              end
  end.
Definition miss_flow {K} (ekey : entry -> option K) (key : option K) (hold miss : pc -> bool) (p p' : pc)
                     (log : list entry) : Prop :=
  forall k, key = Some k -> miss p' = true ->
    miss p = true \/ (hold p = true /\ waiting p = false /\ forall x, In x log -> ekey x <> Some k).

Definition eff (s s' : state) (t : tid) (a a' : thread) : Prop :=
  persisted s' = persisted s /\
  t_req a' = t_req a /\
  TL t a' /\
  res_step remove_N (ik_key (t_req a)) (ik_hold (t_pc a)) (ik_hold (t_pc a')) (v_iks s) (v_iks s') /\
  res_step remove_N (ref_key (t_req a)) (ref_hold (t_pc a)) (ref_hold (t_pc a')) (v_refs s) (v_refs s') /\
  res_step remove_nat (rev_key (t_req a)) (rev_hold (t_pc a)) (rev_hold (t_pc a')) (v_revs s) (v_revs s') /\
  miss_flow eik_key (ik_key (t_req a)) ik_hold ik_miss (t_pc a) (t_pc a') (persisted s) /\
  miss_flow eref_key (ref_key (t_req a)) ref_hold ref_miss (t_pc a) (t_pc a') (persisted s) /\
  miss_flow e_reverts (rev_key (t_req a)) rev_hold rev_miss (t_pc a) (t_pc a') (persisted s) /\
  (* entries *)
  ((t_pc a = PChained /\ t_pc a' = PAppended /\ v_uid s' = v_uid s /\
    exists e, t_entry a = Some e /\ t_entry a' = Some e /\ Permutation (inflight s') (e :: inflight s))
   \/ (t_pc a <> PChained /\ inflight s' = inflight s /\
       ((t_entry a' = t_entry a /\ v_uid s' = v_uid s) \/
        (pre_pc (t_pc a) = true /\ t_pc a' = PChained /\ v_uid s' = S (v_uid s) /\
         exists e, t_entry a' = Some e /\ e_uid e = v_uid s)))) /\
  (* flow *)
  (after_append (t_pc a) = true -> after_append (t_pc a') = true) /\
  (waiting (t_pc a) = true -> waiting (t_pc a') = true \/
     (t_pc a' = PDone /\ (rq_dry (t_req a) = false ->
                          exists e, t_entry a = Some e /\ entry_persisted (persisted s) e = true))) /\
  (t_pc a' = PDone -> t_pc a = PWait) /\
  (forall x, t_pc a' = PIkLookup x -> x = find_by_ik (persisted s) (rq_ik (t_req a))) /\
  (t_pc a' = PUnlocked -> (t_pc a = PDone /\ t_entry a' = t_entry a) \/ good a' = false) /\
  (forall r, t_resp a' = Some r ->
     match r with
     | ROk x => (t_pc a = PUnlocked /\ good a = true /\ x = t_txid a /\ t_entry a' = t_entry a) \/
                (t_pc a = PDone /\ x = None /\ t_txid a = None /\ t_entry a' = t_entry a) \/
                (exists e, t_pc a = PIkLookup (Some e) /\ is_outcome_of (t_req a) e = true /\ x = e_txid e)
     | RErr _ => True
     | RCrashed => False
     end) /\
  (rq_kind (t_req a) = KRevert -> rev_found (t_pc a') = true ->
     rev_found (t_pc a) = true \/ find_tx (persisted s) (rq_revert (t_req a)) <> None).

(* ---- lookups that miss --------------------------------------------------------------------------------- *)
Lemma e2_ik_miss_none : forall log k, k <> 0%N -> find_by_ik log k = None -> forall x, In x log -> eik_key x <> Some k.
Proof.
  intros log k Hk H x Hx E. unfold find_by_ik in H. pose proof (find_none _ _ H x Hx) as F. cbn in F.
  unfold eik_key in E. destruct (N.eqb (e_ik x) 0); [discriminate|]. inversion E. subst.
  rewrite N.eqb_refl in F. discriminate.
Qed.
Lemma e2_ref_miss_none : forall log k, has_ref log k = false -> forall x, In x log -> eref_key x <> Some k.
Proof.
  intros log k H x Hx E. unfold has_ref in H.
  assert (F : N.eqb (e_ref x) k = false).
  { destruct (N.eqb (e_ref x) k) eqn:Q; [|reflexivity].
    assert (existsb (fun e => N.eqb (e_ref e) k) log = true) by (apply existsb_exists; eauto). congruence. }
  unfold eref_key in E. destruct (N.eqb (e_ref x) 0); [discriminate|]. inversion E. subst.
  rewrite N.eqb_refl in F. discriminate.
Qed.
Lemma e2_rev_miss_none : forall log id, is_reverted log id = false -> forall x, In x log -> e_reverts x <> Some id.
Proof.
  intros log id H x Hx E. unfold is_reverted in H.
  assert (existsb (fun e => match e_reverts e with Some t => Nat.eqb t id | None => false end) log = true).
  { apply existsb_exists. exists x. split; [exact Hx|]. rewrite E. apply Nat.eqb_refl. }
  congruence.
Qed.

(* ---- the case analysis ------------------------------------------------------------------------------------- *)
Local Arguments remove_N : simpl never.
Local Arguments remove_nat : simpl never.
Local Arguments covers : simpl never.
Local Arguments find_by_ik : simpl never.
Local Arguments has_ref : simpl never.
Local Arguments is_reverted : simpl never.
Local Arguments find_tx : simpl never.
Local Arguments entry_persisted : simpl never.
Local Arguments N.eqb : simpl never.
Local Arguments Nat.eqb : simpl never.
Local Arguments mem_N : simpl never.

Ltac proj_state :=
  unfold gth, inflight, all_entries; cbn [to_state persisted v_iks v_refs v_revs v_uid v_batch v_pending inflight all_entries gth threads];
  rewrite ?e2_unlock_gtl, ?e2_unlock_persisted, ?e2_unlock_pending, ?e2_unlock_batch, ?e2_unlock_iks,
          ?e2_unlock_refs, ?e2_unlock_revs, ?e2_unlock_uid;
  cbn [finish set_th release_ik dequeue of_state u_persisted u_pending u_batch u_iks u_refs u_revs u_uid u_threads];
  rewrite ?e2_unlock_persisted, ?e2_unlock_pending, ?e2_unlock_batch, ?e2_unlock_iks,
          ?e2_unlock_refs, ?e2_unlock_revs, ?e2_unlock_uid;
  cbn [of_state u_persisted u_pending u_batch u_iks u_refs u_revs u_uid u_threads].


Ltac tx_contra H1 :=
  exfalso; first
  [ let X := fresh in destruct (H1 eq_refl) as [X _]; cbn in X; discriminate X
  | match goal with
    | E : is_tx_kind _ = false |- _ => let X := fresh in destruct (H1 E) as [X _]; cbn in X; discriminate X
    end ].
Ltac kdestr :=
  repeat match goal with
  | |- context [negb ?c] => destruct c eqn:?; cbn [negb]
  | |- context [if ?c then _ else _] => destruct c eqn:?
  | |- context [match rq_kind ?r with _ => _ end] => destruct (rq_kind r) eqn:?
  end.
Ltac kdestr_in H :=
  repeat match type of H with
  | context [if ?c then _ else _] => destruct c eqn:?
  | context [match rq_kind ?r with _ => _ end] => destruct (rq_kind r) eqn:?
  end.

Ltac s_T0 H0 := intros HH; first [reflexivity | exfalso; apply HH; reflexivity | apply H0; discriminate].
Ltac s_T1 H1 := let E := fresh "E" in intros E; try congruence; destruct (H1 E) as [? ?]; cbn in *;
  split; first [reflexivity | discriminate | assumption | congruence].
Ltac s_T2 H2 := cbn; intros; first [discriminate | apply H2; reflexivity | assumption | congruence].
Ltac s_T3 H1 H3 H4 := let e := fresh "e" in let He := fresh "He" in
  intros e He; first [ exact (H3 e He) | rewrite H4 in He by reflexivity; discriminate He
   | injection He as He; subst e; unfold entry_of, rev_key; cbn; repeat split;
     first [reflexivity | apply H1; assumption | symmetry; apply H1; assumption ] ].
Ltac s_T4 H4 := cbn; intros; first [discriminate | apply H4; reflexivity].
Ltac s_T5 H4 H6 := let E := fresh "E" in let G := fresh "G" in
  intros E G; first [discriminate E | apply H4; reflexivity
    | unfold good in *; cbn in *; rewrite H6 in G by (first [assumption|reflexivity]); discriminate G ].
Ltac s_T6 H6 H7 := unfold good in *; cbn; cbn in H6; intros; first [discriminate | congruence | apply H6; [assumption|reflexivity]
    | let X := fresh in pose proof (H7 true eq_refl) as X;
      match goal with Q : t_postings _ = _ :: _ |- _ => rewrite ?Q in X; rewrite ?Q end; rewrite <- X; reflexivity ].
Ltac s_T7 := let b := fresh "b" in let E := fresh "E" in
  intros b E; first [discriminate E | inversion E; reflexivity].
Ltac s_T13 H0 H4 H5 := let err := fresh "err" in let E := fresh "E" in
  intros err E; first [discriminate E | apply H4; reflexivity
    | rewrite H0 in E by discriminate; discriminate E
    | apply H5; [reflexivity | unfold good; cbn;
        repeat match goal with Q : covers _ _ _ = _ |- _ => rewrite Q | Q : t_postings _ = _ |- _ => rewrite Q end;
        reflexivity ] ].
Ltac s_res H1 :=
  unfold res_step, ik_key, ref_key, rev_key;
  try match goal with Q : rq_kind _ = _ |- _ => rewrite Q end; cbn; kdestr; cbn;
  first [ reflexivity | congruence | discriminate
        | split; [ first [rewrite <- e2_mem_N_In | rewrite <- e2_mem_nat_In]; congruence | reflexivity ]
        | tx_contra H1 ].
Ltac s_miss :=
  let k := fresh "k" in let Hk := fresh "Hk" in let Hm := fresh "Hm" in
  unfold miss_flow, ik_key, ref_key, rev_key;
  try match goal with Q : rq_kind _ = _ |- _ => rewrite Q end; cbn [is_tx_kind];
  intros k Hk Hm; cbn in Hm |- *;
  first [ discriminate Hm | left; reflexivity
   | kdestr_in Hk; first [ congruence |
     inversion Hk; subst k; kdestr_in Hm; first [ discriminate Hm |
     right; split; [reflexivity|split; [reflexivity|]];
     first [ apply e2_ik_miss_none; [apply N.eqb_neq|]; assumption
           | apply e2_ref_miss_none; assumption
           | apply e2_rev_miss_none; assumption ] ] ] ].
Ltac s_ent :=
  first [ right; split; [discriminate|]; split; [reflexivity|];
          first [ left; split; reflexivity
                | right; split; [reflexivity|split; [reflexivity|split; [reflexivity|eexists; split; reflexivity]]] ]
        | left; split; [reflexivity|split; [reflexivity|split; [reflexivity|]]];
          eexists; split; [eassumption|split; [eassumption|]];
          match goal with Q : v_batch _ = _ |- _ => rewrite Q end; cbn;
          first [ reflexivity | rewrite app_assoc; apply Permutation_sym, Permutation_cons_append ] ].
Ltac s_aa := cbn; intros; first [reflexivity | discriminate].
Ltac s_wait := let W := fresh "W" in cbn; intros W;
  first [ discriminate W | left; reflexivity
        | right; split; [reflexivity|]; intros; first [congruence | eexists; split; [eassumption|assumption]] ].
Ltac s_done := let E := fresh "E" in intros E; first [discriminate E | reflexivity].
Ltac s_look := let x := fresh "x" in let E := fresh "E" in intros x E; first [discriminate E | inversion E; reflexivity].
Ltac s_unl H7 := let E := fresh "E" in intros E;
  first [ discriminate E | left; split; reflexivity
        | right; unfold good; cbn; rewrite <- (H7 false eq_refl); reflexivity
        | right; unfold good; cbn; match goal with Q : t_postings _ = [] |- _ => rewrite Q end; apply Bool.andb_false_r ].
Ltac s_resp H0 H1 := let r := fresh "r" in let E := fresh "E" in
  intros r E; first [ discriminate E | rewrite H0 in E by discriminate; discriminate E
   | inversion E; subst r; cbn;
     first [ exact I
           | left; split; [reflexivity|split; [|split; reflexivity]]; unfold good; cbn;
             repeat match goal with Q : covers _ _ _ = _ |- _ => rewrite Q | Q : t_postings _ = _ |- _ => rewrite Q end;
             reflexivity
           | right; left; split; [reflexivity|split; [reflexivity|split; [|reflexivity]]]; apply H1; assumption
           | right; right; eexists; split; [reflexivity|]; split; [assumption|reflexivity] ] ].
Ltac s_found := let K := fresh "K" in let F := fresh "F" in
  intros K F; cbn in F |- *; first [ left; reflexivity | discriminate F | congruence | right; congruence
   | match goal with Q : negb ?f = false |- _ => destruct f; [left; reflexivity|discriminate Q] end ].


Ltac e2_leaves H Hpc :=
  repeat match type of H with
       | context [if ?c then _ else _] => destruct c eqn:?
       | context [match ?x with _ => _ end] => destruct x eqn:?
       end; try discriminate;
  inversion H; subst; clear H.
Ltac e2_close th Hpc :=
  split;
       [ intros t'; proj_state; rewrite e2_gtl_set; rewrite ?e2_unlock_gtl; reflexivity | ];
  let HTL := fresh "HTL" in
  intros HTL; unfold TL in HTL; cbn [ug t_pc t_req t_entry t_resp t_txid t_view t_unb t_postings] in HTL;
  rewrite Hpc in HTL;
  let H0 := fresh "H0" in let H1 := fresh "H1" in let H2 := fresh "H2" in let H3 := fresh "H3" in
  let H4 := fresh "H4" in let H5 := fresh "H5" in let H6 := fresh "H6" in let H7 := fresh "H7" in
  let H13 := fresh "H13" in
  destruct HTL as (H0&H1&H2&H3&H4&H5&H6&H7&H13);
  cbn [of_state set_th u_batch u_pending u_persisted u_iks u_refs u_revs t_req t_pc t_postings t_unb t_view t_entry t_txid] in *;
  unfold eff, TL; proj_state;
  cbn [ug with_pc t_pc t_req t_entry t_resp t_txid t_view t_unb t_postings]; rewrite ?Hpc;
  try match goal with Q : rq_kind _ = _ |- _ => rewrite Q in *; cbn [is_tx_kind] in * end;
  (split; [reflexivity|]); (split; [reflexivity|]);
  (split; [ split; [s_T0 H0|split; [s_T1 H1|split; [s_T2 H2|split; [s_T3 H1 H3 H4|split; [s_T4 H4|
         split; [s_T5 H4 H6|split; [s_T6 H6 H7|split; [s_T7|s_T13 H0 H4 H5]]]]]]]] | ]);
  (split; [s_res H1|split; [s_res H1|split; [s_res H1|split; [s_miss|split; [s_miss|split; [s_miss|
         split; [s_ent|split; [s_aa|split; [s_wait|split; [s_done|split; [s_look|split; [s_unl H7|
         split; [s_resp H0 H1|s_found]]]]]]]]]]]]]).

Lemma e2_resume_eff : forall s t s', resume s t = Some s' ->
  exists th th', get_thread (threads s) t = Some th /\
    (forall t', gth s' t' = if Nat.eqb t' t then Some (ug th') else gth s t') /\
    (TL t (ug th) -> eff s s' t (ug th) (ug th')).
Proof.
  intros s t s' H. unfold resume in H.
  destruct (get_thread (threads s) t) as [th|] eqn:Hth; [|discriminate].
  destruct (negb (Nat.eqb (t_gen th) (gen s))) eqn:Hgen; [discriminate|].
  exists th.
  destruct (t_pc th) eqn:Hpc; cbv zeta in H; unfold enter_run, enter_exec in H; cbv zeta in H.
  all: e2_leaves H Hpc.
  all: eexists; split; [reflexivity|].
  all: e2_close th Hpc.
Qed.

(* the ctx.Done() branch of the wait for the account locks: same abstract effect as the other error exits that
   release what the request took itself ([PRefLookup true]); the lock table / queue are outside [eff] *)
Lemma e2_resume_cancelled_eff : forall s t s', resume_cancelled s t = Some s' ->
  exists th th', get_thread (threads s) t = Some th /\
    (forall t', gth s' t' = if Nat.eqb t' t then Some (ug th') else gth s t') /\
    (TL t (ug th) -> eff s s' t (ug th) (ug th')).
Proof.
  intros s t s' H. unfold resume_cancelled in H.
  destruct (get_thread (threads s) t) as [th|] eqn:Hth; [|discriminate].
  destruct (negb (Nat.eqb (t_gen th) (gen s))) eqn:Hgen; [discriminate|].
  exists th.
  destruct (t_pc th) eqn:Hpc; try discriminate H.
  destruct (t_cancelled th) eqn:Hc; [|discriminate H].
  cbv zeta in H. destruct (t_granted th) eqn:Hgr; inversion H; subst; clear H.
  all: eexists; split; [reflexivity|].
  all: e2_close th Hpc.
Qed.

(* a store read of the region the thread runs next fails: in every failing case the thread ends with an error and
   releases exactly what it took itself at that pc (the same abstract moves as the error exits of [resume]: hold ->
   not hold, table loses the key; [PIkTaken]: the reference is neither held nor released); the SaveMeta case is the
   pc move [enter_exec] makes when the transaction is found.  Lock table / queue are outside [eff]. *)
Lemma e2_resume_read_fail_eff : forall s t s', resume_read_fail s t = Some s' ->
  exists th th', get_thread (threads s) t = Some th /\
    (forall t', gth s' t' = if Nat.eqb t' t then Some (ug th') else gth s t') /\
    (TL t (ug th) -> eff s s' t (ug th) (ug th')).
Proof.
  intros s t s' H. unfold resume_read_fail in H.
  destruct (get_thread (threads s) t) as [th|] eqn:Hth; [|discriminate].
  destruct (negb (Nat.eqb (t_gen th) (gen s))) eqn:Hgen; [discriminate|].
  exists th.
  destruct (t_pc th) eqn:Hpc; cbv zeta in H; try discriminate H.
  all: e2_leaves H Hpc.
  all: eexists; split; [reflexivity|].
  all: e2_close th Hpc.
Qed.

(* cancelling a context changes nothing of what the invariants read *)
Lemma e2_cancel_frame : forall s t s', cancel s t = Some s' ->
  (forall t', gth s' t' = gth s t') /\ persisted s' = persisted s /\ inflight s' = inflight s /\
  v_uid s' = v_uid s /\ v_iks s' = v_iks s /\ v_refs s' = v_refs s /\ v_revs s' = v_revs s.
Proof.
  intros s t s' H. unfold cancel in H.
  destruct (get_thread (threads s) t) as [th|] eqn:Hth; [|discriminate].
  destruct (negb (Nat.eqb (t_gen th) (gen s))); [discriminate|].
  destruct (pc_finished (t_pc th)); [discriminate|]. inversion H; subst; clear H.
  split; [|repeat split; reflexivity].
  intros t'. unfold gth. cbn [to_state threads set_th of_state u_threads].
  exact (e2_gtl_set_same _ _ _ _ Hth (e2_ug_with_cancelled th) t').
Qed.

Definition init_thread (g : nat) (rq : request) : thread :=
  {| t_req := rq; t_pc := PStart; t_postings := rq_postings rq; t_unb := rq_unb rq; t_view := [];
     t_entry := None; t_txid := None; t_granted := false; t_resp := None; t_gen := g; t_cancelled := false |}.

Lemma e2_TL_init : forall t g rq, TL t (ug (init_thread g rq)).
Proof.
  intros. unfold TL. cbn. repeat split; intros; try discriminate; try reflexivity.
Qed.

Lemma e2_start_eff : forall s t rq s', start s t rq = Some s' ->
  get_thread (threads s) t = None /\
  exists th', (forall t', gth s' t' = if Nat.eqb t' t then Some (ug th') else gth s t') /\
              eff s s' t (ug (init_thread (gen s) rq)) (ug th').
Proof.
  intros s t rq s' H. unfold start in H.
  destruct (get_thread (threads s) t) as [|] eqn:Hth; [discriminate|]. split; [reflexivity|].
  pose proof (e2_TL_init t (gen s) rq) as HT.
  change {| t_req := rq; t_pc := PStart; t_postings := rq_postings rq; t_unb := rq_unb rq; t_view := [];
            t_entry := None; t_txid := None; t_granted := false; t_resp := None; t_gen := gen s; t_cancelled := false |}
    with (init_thread (gen s) rq) in H.
  assert (Hpc : t_pc (init_thread (gen s) rq) = PStart) by reflexivity.
  assert (Hrq : t_req (init_thread (gen s) rq) = rq) by reflexivity.
  generalize dependent (init_thread (gen s) rq). intros th H HT Hpc Hrq. subst rq.
  cbv zeta in H; unfold enter_run, enter_exec in H; cbv zeta in H.
  e2_leaves H Hpc.
  all: eexists; refine ((fun P => conj (proj1 P) (proj2 P HT)) _).
  all: e2_close th Hpc.
Qed.
