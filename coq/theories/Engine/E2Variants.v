(* M2, prover E2 — two small variants of the model that reproduce the code BEFORE two repairs, and the schedules
   that refute C11 / C07 on them (checked by computation).  The variants wrap [resume]; everything else is Model.v. *)
From FL Require Import Engine.Model Engine.Spec.
Open Scope nat_scope.

Definition with_refs (s : state) (l : list N) : state :=
  {| persisted := persisted s; v_last := v_last s; v_lasttx := v_lasttx s; v_pending := v_pending s;
     v_batch := v_batch s; v_iks := v_iks s; v_refs := l; v_revs := v_revs s; v_locks := v_locks s;
     v_queue := v_queue s; v_cs := v_cs s; v_uid := v_uid s; gen := gen s; threads := threads s;
     published := published s |}.
Definition with_threads (s : state) (l : list (tid * thread)) : state :=
  {| persisted := persisted s; v_last := v_last s; v_lasttx := v_lasttx s; v_pending := v_pending s;
     v_batch := v_batch s; v_iks := v_iks s; v_refs := v_refs s; v_revs := v_revs s; v_locks := v_locks s;
     v_queue := v_queue s; v_cs := v_cs s; v_uid := v_uid s; gen := gen s; threads := l;
     published := published s |}.

(* variant 1 (code before 4b34895): the transaction reference is released when the executor returns, i.e. when the
   request starts waiting for persistence ([PWait]) -- not after the entry is on disk *)
Definition early_release (t : tid) (s' : state) : state :=
  match get_thread (threads s') t with
  | Some th => match t_pc th with
               | PWait => if N.eqb (rq_ref (t_req th)) 0 then s'
                          else with_refs s' (remove_N (rq_ref (t_req th)) (v_refs s'))
               | _ => s'
               end
  | None => s'
  end.
Definition step_early (s : state) (a : action) : option state :=
  match a with
  | AResume t => option_map (early_release t) (resume s t)
  | _ => step s a
  end.

(* variant 2 (code before 28239f3): metadata writes build their log without the idempotency key *)
Definition strip_entry (e : entry) : entry :=
  {| e_id := e_id e; e_uid := e_uid e; e_prev := e_prev e; e_kind := e_kind e; e_txid := e_txid e;
     e_postings := e_postings e; e_ref := e_ref e; e_ik := 0%N; e_reverts := e_reverts e; e_owner := e_owner e;
     e_unb := e_unb e; e_meta := e_meta e |}.
Definition strip_meta_ik (t : tid) (s' : state) : state :=
  match get_thread (threads s') t with
  | Some th =>
      match t_pc th, is_tx_kind (rq_kind (t_req th)) with
      | PChained, false =>
          with_threads s' (set_thread (threads s') t
            {| t_req := t_req th; t_pc := t_pc th; t_postings := t_postings th; t_unb := t_unb th; t_view := t_view th;
               t_entry := option_map strip_entry (t_entry th); t_txid := t_txid th; t_granted := t_granted th;
               t_resp := t_resp th; t_gen := t_gen th; t_cancelled := t_cancelled th |})
      | _, _ => s'
      end
  | None => s'
  end.
Definition step_nometaik (s : state) (a : action) : option state :=
  match a with
  | AResume t => option_map (strip_meta_ik t) (resume s t)
  | _ => step s a
  end.

Fixpoint run_with (stp : state -> action -> option state) (s : state) (acts : list action) : option state :=
  match acts with
  | [] => Some s
  | a :: r => match stp s a with Some s' => run_with stp s' r | None => None end
  end.

Definition e2_req (k : kind) (ik ref : N) (ps : list posting) (rv : nat) : request :=
  {| rq_kind := k; rq_ik := ik; rq_ref := ref; rq_dry := false; rq_postings := ps; rq_unb := false; rq_revert := rv;
     rq_target_tx := None; rq_meta := 0%N |}.
Definition e2_rs (t : tid) (n : nat) : list action := repeat (AResume t) n.

(* ---- C11 before the repair ---------------------------------------------------------------------------------- *)
Definition e2_pay7 : request := e2_req KCreate 0 7 [(world, 1%N, 10%Z)] 0.
(* A runs until it has appended its entry and waits (11 actions); B takes the reference and looks it up (2 more):
   the 13-action schedule, B's lookup misses *)
Definition e2_c11_prefix : list action := AStart 1 e2_pay7 :: e2_rs 1 10 ++ AStart 2 e2_pay7 :: e2_rs 2 1.
(* ... B completes, the worker writes both batches *)
Definition e2_c11_schedule : list action := e2_c11_prefix ++ e2_rs 2 9 ++ [APersistOk; APersistOk].

Lemma e2_c11_prefix_miss :
  length e2_c11_prefix = 13 /\
  exists s th, run_with step_early init e2_c11_prefix = Some s /\ get_thread (threads s) 2 = Some th /\
               t_pc th = PRefLookup false /\ persisted s = [].
Proof. split; [reflexivity|]. vm_compute. eexists. eexists. repeat split. Qed.

Lemma e2_c11_refuted_early :
  exists s, run_with step_early init e2_c11_schedule = Some s /\
            count_where (fun e => N.eqb (e_ref e) 7) (persisted s) = 2.
Proof. vm_compute. eexists. split; reflexivity. Qed.

(* the same schedule is not even executable on the repaired model: B finds the reference reserved *)
Lemma e2_c11_fixed_same_prefix :
  exists s th, run init e2_c11_prefix = Some s /\ get_thread (threads s) 2 = Some th /\
               t_resp th = Some (RErr EConflict) /\ v_refs s = [7%N].
Proof. vm_compute. eexists. eexists. repeat split. Qed.

(* ---- C07 before the repair ---------------------------------------------------------------------------------- *)
Definition e2_meta5 : request := e2_req KSaveMeta 5 0 [] 0.
Definition e2_c07_once (t : tid) : list action := AStart t e2_meta5 :: e2_rs t 5 ++ [APersistOk] ++ e2_rs t 2.
Definition e2_c07_schedule : list action := e2_c07_once 1 ++ e2_c07_once 2.

(* the same request (key 5) sent twice, one after the other: two entries on disk, both answered with success *)
Lemma e2_c07_refuted_nometaik :
  exists s th1 th2, run_with step_nometaik init e2_c07_schedule = Some s /\
    length (persisted s) = 2 /\ map e_owner (persisted s) = [1; 2] /\
    get_thread (threads s) 1 = Some th1 /\ get_thread (threads s) 2 = Some th2 /\
    rq_ik (t_req th1) = 5%N /\ rq_ik (t_req th2) = 5%N /\
    t_resp th1 = Some (ROk None) /\ t_resp th2 = Some (ROk None).
Proof. vm_compute. eexists. eexists. eexists. repeat split. Qed.

(* on the repaired model the retry finds the stored entry and replays it: one entry *)
Lemma e2_c07_fixed_replay :
  exists s th2, run init (e2_c07_once 1 ++ AStart 2 e2_meta5 :: e2_rs 2 2) = Some s /\
    length (persisted s) = 1 /\ get_thread (threads s) 2 = Some th2 /\ t_resp th2 = Some (ROk None).
Proof. vm_compute. eexists. eexists. repeat split. Qed.

(* ---- C07 same outcome: a key stored by another kind of write is refused (the former known finding) ------------------ *)
(* a transaction is committed with key 5; a SaveMeta request carrying key 5 finds the entry, which is not the outcome
   of a SaveMeta: it is refused ([RErr EKeyReused]), writes nothing, publishes nothing, and gives the key back;
   a retry of the SAME create under key 5 (request 3) replays the stored transaction id.
   Before the repair of executionContext.run the SaveMeta answered [ROk None] and published. *)
Definition e2_pay_k5 : request := e2_req KCreate 5 0 [(world, 1%N, 10%Z)] 0.
Definition e2_c07_mixed : list action :=
  AStart 1 e2_pay_k5 :: e2_rs 1 10 ++ [APersistOk] ++ e2_rs 1 3 ++ AStart 2 e2_meta5 :: e2_rs 2 2.
Definition e2_c07_mixed_retry : list action := e2_c07_mixed ++ AStart 3 e2_pay_k5 :: e2_rs 3 2.

Lemma e2_c07_key_reuse_refused :
  exists s e th1 th2 th3, run init e2_c07_mixed_retry = Some s /\
    persisted s = [e] /\ v_pending s = [] /\ v_batch s = None /\ v_iks s = [] /\
    e_ik e = 5%N /\ e_txid e = Some 0 /\ e_kind e = KCreate /\ e_owner e = 1 /\
    get_thread (threads s) 1 = Some th1 /\ get_thread (threads s) 2 = Some th2 /\ get_thread (threads s) 3 = Some th3 /\
    rq_ik (t_req th1) = 5%N /\ rq_ik (t_req th2) = 5%N /\ rq_ik (t_req th3) = 5%N /\
    rq_kind (t_req th2) = KSaveMeta /\ rq_dry (t_req th2) = false /\
    t_resp th1 = Some (ROk (Some 0)) /\
    t_resp th2 = Some (RErr EKeyReused) /\ t_entry th2 = None /\ t_pc th2 = PFinished /\
    t_resp th3 = Some (ROk (Some 0)) /\ t_entry th3 = None /\
    map ev_tid (published s) = [1; 3].
Proof. vm_compute. do 5 eexists. repeat split. Qed.

(* the state right after the refusal: same disk, nothing in flight, key free, one event (of request 1) *)
Lemma e2_c07_key_reuse_refused_at :
  exists s0 s e th2, run init (AStart 1 e2_pay_k5 :: e2_rs 1 10 ++ [APersistOk] ++ e2_rs 1 3) = Some s0 /\
    run init e2_c07_mixed = Some s /\ persisted s0 = [e] /\ persisted s = [e] /\
    v_pending s = [] /\ v_batch s = None /\ v_iks s = [] /\ published s = published s0 /\
    get_thread (threads s) 2 = Some th2 /\ t_resp th2 = Some (RErr EKeyReused).
Proof. vm_compute. do 4 eexists. repeat split. Qed.

(* ---- C10: a key that stored the revert of one transaction, reused for the revert of another ---------------------- *)
(* transactions 0 (world -> 1, 200), 1 (1 -> 2, 100), 2 (1 -> 3, 50) on disk; request 3 reverts transaction 1 under
   key 5 (entry 3); request 4 reverts transaction 2 under key 5: the entry under the key is the revert of
   transaction 1, not the outcome of this request: refused, transaction 2 is not reverted, one revert entry.
   Request 5 retries the SAME revert (transaction 1, key 5): the revert check precedes the key lookup in
   RevertTransaction, so it is answered [EAlreadyReverted] (no second effect; a revert never reaches the replay) *)
Definition e2_revk (ik : N) (id : nat) : request := e2_req KRevert ik 0 [] id.
Definition e2_c10_setup : list action :=
  AStart 0 (e2_req KCreate 0 0 [(world, 1%N, 200%Z)] 0) :: e2_rs 0 8 ++ [APersistOk] ++ e2_rs 0 3 ++
  AStart 1 (e2_req KCreate 0 0 [(1%N, 2%N, 100%Z)] 0) :: e2_rs 1 8 ++ [APersistOk] ++ e2_rs 1 3 ++
  AStart 2 (e2_req KCreate 0 0 [(1%N, 3%N, 50%Z)] 0) :: e2_rs 2 8 ++ [APersistOk] ++ e2_rs 2 3.
Definition e2_c10_reuse : list action :=
  e2_c10_setup ++ AStart 3 (e2_revk 5 1) :: e2_rs 3 12 ++ [APersistOk] ++ e2_rs 3 3 ++
  AStart 4 (e2_revk 5 2) :: e2_rs 4 4 ++ AStart 5 (e2_revk 5 1) :: e2_rs 5 2.

Lemma e2_c10_key_reuse_other_revert :
  exists s th3 th4 th5, run init e2_c10_reuse = Some s /\
    map (fun e => (e_owner e, e_ik e, e_txid e, e_reverts e)) (persisted s) =
      [(0, 0%N, Some 0, None); (1, 0%N, Some 1, None); (2, 0%N, Some 2, None); (3, 5%N, Some 3, Some 1)] /\
    v_pending s = [] /\ v_batch s = None /\ v_iks s = [] /\ v_revs s = [] /\
    is_reverted (persisted s) 1 = true /\ is_reverted (persisted s) 2 = false /\
    count_where (fun e => match e_reverts e with Some _ => true | None => false end) (persisted s) = 1 /\
    get_thread (threads s) 3 = Some th3 /\ get_thread (threads s) 4 = Some th4 /\ get_thread (threads s) 5 = Some th5 /\
    t_req th4 = e2_revk 5 2 /\ t_req th5 = t_req th3 /\
    t_resp th3 = Some (ROk (Some 3)) /\
    t_resp th4 = Some (RErr EKeyReused) /\ t_entry th4 = None /\
    t_resp th5 = Some (RErr EAlreadyReverted) /\ t_entry th5 = None /\
    map ev_tid (published s) = [0; 1; 2; 3].
Proof. vm_compute. do 4 eexists. repeat split. Qed.

(* ---- cancellation of a queued request (ACancel / AResumeCancelled), non-vacuity --------------------------------------- *)
Definition e2_full (t : tid) (rq : request) : list action := AStart t rq :: e2_rs t 8 ++ [APersistOk] ++ e2_rs t 3.
(* account 1 is funded with 200; request 1 (1 -> 2, no key) holds the account locks, parked at "locked";
   request 2 (1 -> 3, key 7, reference 9) has taken its key and its reference and queues behind it *)
Definition e2_pay79 : request := e2_req KCreate 7 9 [(1%N, 3%N, 100%Z)] 0.
Definition e2_cancel_prefix : list action :=
  e2_full 0 (e2_req KCreate 0 0 [(world, 1%N, 200%Z)] 0) ++
  [AStart 1 (e2_req KCreate 0 0 [(1%N, 2%N, 100%Z)] 0); AStart 2 e2_pay79] ++ e2_rs 1 1 ++ e2_rs 2 5.
(* ... its context is cancelled, it gives up; a NEW request 3 with the same key and reference takes both, queues,
   request 1 completes (which grants 3), 3 runs to the end *)
Definition e2_cancel_retry : list action :=
  [AStart 3 e2_pay79] ++ e2_rs 3 5 ++ e2_rs 1 6 ++ [APersistOk] ++ e2_rs 1 4 ++ e2_rs 3 8 ++ [APersistOk] ++ e2_rs 3 3.

Lemma e2_cancel_prefix_state :
  (exists s th2, run init e2_cancel_prefix = Some s /\ get_thread (threads s) 2 = Some th2 /\
    t_pc th2 = PEnqueued /\ t_granted th2 = false /\ v_queue s = [2] /\ v_iks s = [7%N] /\ v_refs s = [9%N]) /\
  run init (e2_cancel_prefix ++ [AResumeCancelled 2]) = None.   (* not enabled before the context is cancelled *)
Proof. vm_compute. split; [|reflexivity]. eexists. eexists. repeat split. Qed.

Lemma e2_cancel_gives_up :
  exists s th2, run init (e2_cancel_prefix ++ [ACancel 2; AResumeCancelled 2]) = Some s /\
    get_thread (threads s) 2 = Some th2 /\ t_pc th2 = PFinished /\ t_resp th2 = Some (RErr ELockCancelled) /\
    t_entry th2 = None /\ v_queue s = [] /\ v_iks s = [] /\ v_refs s = [] /\
    map e_owner (persisted s) = [0] /\ v_pending s = [] /\ v_batch s = None.
Proof. vm_compute. eexists. eexists. repeat split. Qed.

Lemma e2_cancel_then_retry :
  exists s th2 th3,
    run init (e2_cancel_prefix ++ [ACancel 2; AResumeCancelled 2] ++ e2_cancel_retry) = Some s /\
    get_thread (threads s) 2 = Some th2 /\ get_thread (threads s) 3 = Some th3 /\
    rq_ik (t_req th2) = 7%N /\ rq_ref (t_req th2) = 9%N /\ t_req th3 = t_req th2 /\
    t_resp th2 = Some (RErr ELockCancelled) /\ t_resp th3 = Some (ROk (Some 2)) /\
    map (fun e => (e_owner e, e_ik e, e_ref e)) (persisted s) = [(0, 0%N, 0%N); (1, 0%N, 0%N); (3, 7%N, 9%N)] /\
    count_where (fun e => N.eqb (e_ik e) 7) (persisted s) = 1 /\
    count_where (fun e => N.eqb (e_ref e) 9) (persisted s) = 1 /\
    v_iks s = [] /\ v_refs s = [] /\ v_locks s = [] /\ v_queue s = [].
Proof. vm_compute. eexists. eexists. eexists. repeat split. Qed.

(* the other branch: the intent was granted meanwhile (request 1 completed) AND the context is done: both
   [AResume 2] and [AResumeCancelled 2] are enabled; the latter gives the granted locks back *)
Definition e2_cancel_granted_prefix : list action :=
  e2_cancel_prefix ++ [ACancel 2] ++ e2_rs 1 6 ++ [APersistOk] ++ e2_rs 1 4.
Lemma e2_cancel_granted :
  exists s0 th0 s th2,
    run init e2_cancel_granted_prefix = Some s0 /\
    get_thread (threads s0) 2 = Some th0 /\ t_pc th0 = PEnqueued /\ t_granted th0 = true /\ t_cancelled th0 = true /\
    map (fun h => fst (fst h)) (v_locks s0) = [2] /\
    run init (e2_cancel_granted_prefix ++ [AResume 2]) <> None /\
    run init (e2_cancel_granted_prefix ++ [AResumeCancelled 2]) = Some s /\
    get_thread (threads s) 2 = Some th2 /\ t_resp th2 = Some (RErr ELockCancelled) /\
    v_locks s = [] /\ v_queue s = [] /\ v_iks s = [] /\ v_refs s = [] /\ map e_owner (persisted s) = [0; 1].
Proof. vm_compute. eexists. eexists. eexists. eexists. repeat split. discriminate. Qed.

(* a revert: transaction 1 (1 -> 2, 100) is on disk; request 2 (1 -> 2, 50) holds the locks; revert request 3 of
   transaction 1 holds the revert reservation and queues; cancelled, it gives the reservation back; a new revert
   request 4 takes it, waits for request 2, and is the one revert of transaction 1 *)
Definition e2_rev1 : request := e2_req KRevert 0 0 [] 1.
Definition e2_cancel_rev_prefix : list action :=
  e2_full 0 (e2_req KCreate 0 0 [(world, 1%N, 200%Z)] 0) ++ e2_full 1 (e2_req KCreate 0 0 [(1%N, 2%N, 100%Z)] 0) ++
  [AStart 2 (e2_req KCreate 0 0 [(1%N, 2%N, 50%Z)] 0); AStart 3 e2_rev1] ++ e2_rs 2 1 ++ e2_rs 3 3.
Definition e2_cancel_rev_retry : list action :=
  [AStart 4 e2_rev1] ++ e2_rs 4 3 ++ e2_rs 2 6 ++ [APersistOk] ++ e2_rs 2 4 ++ e2_rs 4 8 ++ [APersistOk] ++ e2_rs 4 3.

Lemma e2_cancel_rev_then_retry :
  exists s0 th0 s1 s th3 th4,
    run init e2_cancel_rev_prefix = Some s0 /\ get_thread (threads s0) 3 = Some th0 /\ t_pc th0 = PEnqueued /\
    v_revs s0 = [1] /\
    run init (e2_cancel_rev_prefix ++ [ACancel 3; AResumeCancelled 3]) = Some s1 /\
    v_revs s1 = [] /\ persisted s1 = persisted s0 /\
    run init (e2_cancel_rev_prefix ++ [ACancel 3; AResumeCancelled 3] ++ e2_cancel_rev_retry) = Some s /\
    get_thread (threads s) 3 = Some th3 /\ get_thread (threads s) 4 = Some th4 /\
    t_resp th3 = Some (RErr ELockCancelled) /\ t_resp th4 = Some (ROk (Some 3)) /\
    map (fun e => (e_owner e, e_reverts e)) (persisted s) = [(0, None); (1, None); (2, None); (4, Some 1)] /\
    v_revs s = [].
Proof. vm_compute. eexists. eexists. eexists. eexists. eexists. eexists. repeat split. Qed.
