(* E3 -- basic frame lemmas about the engine model shared by the C14 / C16 proofs (prefix e3_). *)
From Coq Require Import Lia.
From FL Require Import Engine.Model Engine.Spec.
Open Scope Z_scope.

(* ---- thread table ------------------------------------------------------------------------------------- *)
Lemma e3_get_set : forall l t th w,
  get_thread (set_thread l t th) w = if Nat.eqb w t then Some th else get_thread l w.
Proof.
  induction l as [|[u x] r IH]; intros t th w; simpl.
  - destruct (Nat.eqb w t); reflexivity.
  - destruct (Nat.eqb t u) eqn:Htu; simpl.
    + apply Nat.eqb_eq in Htu; subst u. destruct (Nat.eqb w t); reflexivity.
    + destruct (Nat.eqb w u) eqn:Hwu.
      * apply Nat.eqb_eq in Hwu; subst u.
        destruct (Nat.eqb w t) eqn:Hwt; [|reflexivity].
        apply Nat.eqb_eq in Hwt; subst w. rewrite Nat.eqb_refl in Htu. discriminate.
      * apply IH.
Qed.

Lemma e3_get_set_same : forall l t th, get_thread (set_thread l t th) t = Some th.
Proof. intros. rewrite e3_get_set, Nat.eqb_refl. reflexivity. Qed.

Lemma e3_get_set_other : forall l t th w, w <> t -> get_thread (set_thread l t th) w = get_thread l w.
Proof. intros l t th w H. rewrite e3_get_set. apply Nat.eqb_neq in H. rewrite H. reflexivity. Qed.

Lemma e3_get_map : forall (g : thread -> thread) l w,
  get_thread (map (fun p => (fst p, g (snd p))) l) w = option_map g (get_thread l w).
Proof.
  induction l as [|[u x] r IH]; intros w; simpl; [reflexivity|].
  destruct (Nat.eqb w u); [reflexivity|apply IH].
Qed.

(* the only thing another thread's step does to a thread record: the lock grant flag *)
Definition grant (th : thread) : thread :=
  {| t_req := t_req th; t_pc := t_pc th; t_postings := t_postings th; t_unb := t_unb th;
     t_view := t_view th; t_entry := t_entry th; t_txid := t_txid th; t_granted := true;
     t_resp := t_resp th; t_gen := t_gen th; t_cancelled := t_cancelled th |}.

Definition gsim (a b : option thread) : Prop :=
  match a, b with
  | None, None => True
  | Some x, Some y => y = x \/ y = grant x
  | _, _ => False
  end.

Lemma gsim_refl : forall a, gsim a a.
Proof. destruct a; simpl; auto. Qed.

Lemma gsim_trans : forall a b c, gsim a b -> gsim b c -> gsim a c.
Proof.
  intros [x|] [y|] [z|]; simpl; try tauto.
  intros [H1|H1] [H2|H2]; subst; auto.
Qed.

Lemma e3_recheck_get : forall q ths locks q' ths' locks',
  recheck q ths locks = (q', ths', locks') -> forall w, gsim (get_thread ths w) (get_thread ths' w).
Proof.
  induction q as [|w0 rest IH]; intros ths locks q' ths' locks' H w; simpl in H.
  - inversion H; subst. apply gsim_refl.
  - destruct (get_thread ths w0) as [th|] eqn:Hw0.
    + destruct (compatible _ _ locks).
      * apply IH with (w := w) in H. eapply gsim_trans; [|exact H].
        rewrite e3_get_set. destruct (Nat.eqb w w0) eqn:E.
        -- apply Nat.eqb_eq in E; subst. rewrite Hw0. simpl. right. reflexivity.
        -- apply gsim_refl.
      * destruct (recheck rest ths locks) as [[q1 t1] l1] eqn:E. inversion H; subst.
        eapply IH; eauto.
    + eapply IH; eauto.
Qed.

Lemma e3_recheck_nil : forall ths locks, recheck [] ths locks = ([], ths, locks).
Proof. reflexivity. Qed.

(* unlock, field by field *)
Lemma e3_unlock_spec : forall t u, exists q ths locks,
  recheck (u_queue u) (u_threads u) (filter (fun h => negb (Nat.eqb (fst (fst h)) t)) (u_locks u)) = (q, ths, locks) /\
  unlock t u =
  {| u_persisted := u_persisted u; u_last := u_last u; u_lasttx := u_lasttx u; u_pending := u_pending u;
     u_batch := u_batch u; u_iks := u_iks u; u_refs := u_refs u; u_revs := u_revs u; u_locks := locks;
     u_queue := q; u_cs := u_cs u; u_uid := u_uid u; u_threads := ths; u_published := u_published u |}.
Proof.
  intros t u. unfold unlock.
  destruct (recheck _ _ _) as [[q ths] locks]. exists q, ths, locks. split; reflexivity.
Qed.

(* ---- lists --------------------------------------------------------------------------------------------- *)
Lemma e3_firstn_app_le : forall (A : Type) n (l b : list A), (n <= length l)%nat -> firstn n (l ++ b) = firstn n l.
Proof.
  intros A n l b H. rewrite firstn_app. replace (n - length l)%nat with O by lia. simpl. apply app_nil_r.
Qed.

Lemma e3_remove_N_single : forall x, remove_N x [x] = [].
Proof. intros x. unfold remove_N. simpl. rewrite N.eqb_refl. reflexivity. Qed.

Lemma e3_remove_nat_single : forall x, remove_nat x [x] = [].
Proof. intros x. unfold remove_nat. simpl. rewrite Nat.eqb_refl. reflexivity. Qed.

Lemma e3_compatible_nil : forall rs ws, compatible rs ws [] = true.
Proof.
  intros rs ws. unfold compatible, held_writes, held_reads. simpl.
  apply andb_true_iff. split; apply forallb_forall; intros; reflexivity.
Qed.

(* ---- run / reachable ------------------------------------------------------------------------------------ *)
Lemma e3_run_app : forall a1 a2 s, run s (a1 ++ a2) = match run s a1 with Some s' => run s' a2 | None => None end.
Proof.
  induction a1 as [|a r IH]; intros a2 s; simpl; [reflexivity|].
  destruct (step s a); [apply IH|reflexivity].
Qed.

Lemma e3_reachable_ind : forall (P : state -> Prop),
  P init -> (forall s a s', P s -> step s a = Some s' -> P s') -> forall s, reachable s -> P s.
Proof.
  intros P H0 HS s [acts Hrun]. revert s Hrun.
  induction acts as [|a r IH] using rev_ind; intros s Hrun.
  - simpl in Hrun. inversion Hrun; subst. exact H0.
  - rewrite e3_run_app in Hrun. destruct (run init r) as [s1|] eqn:E; [|discriminate].
    simpl in Hrun. destruct (step s1 a) as [s2|] eqn:E2; [|discriminate]. inversion Hrun; subst.
    eapply HS; [apply IH; reflexivity|exact E2].
Qed.

Lemma e3_reachable_step : forall s a s', reachable s -> step s a = Some s' -> reachable s'.
Proof.
  intros s a s' [acts H] Hs. exists (acts ++ [a]). rewrite e3_run_app, H. simpl. rewrite Hs. reflexivity.
Qed.
