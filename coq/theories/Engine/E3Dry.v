(* E3 -- C14: a request submitted alone in a quiescent state, followed symbolically to its end.
   One invariant [SI] serves the preview (everything observable stays as it was) and the real write (only the
   answer is followed); both answers are the pure function [answer] of the disk and of lastTXID. *)
From Coq Require Import Lia.
From FL Require Import Engine.Model Engine.Spec Engine.E3Base.
Open Scope Z_scope.

(* ---- the answer of a request submitted alone, as a function of the disk ------------------------------------ *)
Definition is_rev (q : request) : bool := match rq_kind q with KRevert => true | _ => false end.
Definition eff_ps (log : list entry) (q : request) : list posting :=
  match rq_kind q with
  | KRevert => match find_tx log (rq_revert q) with Some e => swap_rev (e_postings e) | None => [] end
  | _ => rq_postings q
  end.
Definition qview (log : list entry) (q : request) : list (account * Z) :=
  map (fun a => (a, balance_of log a)) (reads_of (eff_ps log q)).
Definition qcov (log : list entry) (q : request) : bool := covers (qview log q) (rq_unb q) (eff_ps log q).

Definition answer_exec (log : list entry) (ltx : option nat) (q : request) : response :=
  if is_tx_kind (rq_kind q) then
    if N.eqb (rq_ref q) 0 then
      if qcov log q then match eff_ps log q with [] => RErr ENoPostings | _ => ROk (Some (next_nat ltx)) end
      else RErr EInsufficient
    else if has_ref log (rq_ref q) then RErr EConflict
    else
      if qcov log q then match eff_ps log q with [] => RErr ENoPostings | _ => ROk (Some (next_nat ltx)) end
      else RErr EInsufficient
  else
    match rq_target_tx q with
    | Some id => match find_tx log id with None => RErr ENotFound | Some _ => ROk None end
    | None => ROk None
    end.
Definition answer_run (log : list entry) (ltx : option nat) (q : request) : response :=
  if N.eqb (rq_ik q) 0 then answer_exec log ltx q
  else match find_by_ik log (rq_ik q) with
       | Some e => if same_kind (e_kind e) (rq_kind q) then ROk (e_txid e) else RErr EKindMismatch
       | None => answer_exec log ltx q
       end.
Definition answer (log : list entry) (ltx : option nat) (q : request) : response :=
  if is_rev q then
    match find_tx log (rq_revert q) with
    | None => RErr ENotFound
    | Some _ => if is_reverted log (rq_revert q) then RErr EAlreadyReverted else answer_run log ltx q
    end
  else answer_run log ltx q.

(* ---- what the thread holds, by program counter ---------------------------------------------------------------- *)
Definition b_ik (p : pc) : bool :=
  match p with
  | PIkTaken | PIkLookup _ | PRefTaken | PRefLookup _ | PResolved | PLocked | PBalances | PRan _ | PAppendEnter
  | PTxid | PChained | PAppended | PWait | PDone => true
  | _ => false
  end.
Definition b_ref (p : pc) : bool :=
  match p with
  | PRefTaken | PRefLookup _ | PResolved | PLocked | PBalances | PRan _ | PAppendEnter
  | PTxid | PChained | PAppended | PWait | PDone | PUnlocked => true
  | _ => false
  end.
Definition b_lock (p : pc) : bool :=
  match p with
  | PLocked | PBalances | PRan _ | PAppendEnter | PTxid | PChained | PAppended | PWait | PDone => true
  | _ => false
  end.
Definition b_rev (p : pc) : bool := match p with PFinished => false | _ => true end.
(* before the append: nothing but reservations and locks has changed, for a real write too *)
Definition b_pre (p : pc) : bool :=
  match p with
  | PRevTaken | PRevRead _ _ | PIkTaken | PIkLookup _ | PRefTaken | PRefLookup _ | PResolved | PLocked | PBalances
  | PRan _ | PAppendEnter => true
  | _ => false
  end.

Definition core_same (s0 s : state) : Prop :=
  persisted s = persisted s0 /\ v_last s = v_last s0 /\ v_lasttx s = v_lasttx s0 /\ v_pending s = [] /\
  v_batch s = None /\ v_cs s = None /\ v_uid s = v_uid s0 /\ published s = published s0.

Definition st_sym (s0 s : state) (q : request) (th : thread) : Prop :=
  if rq_dry q then core_same s0 s
  else if b_pre (t_pc th) then core_same s0 s
  else match t_pc th with
       | PTxid => v_batch s = None
       | PChained => v_batch s = None /\ exists e, t_entry th = Some e
       | PAppended => exists e, t_entry th = Some e /\ v_batch s = Some [e]
       | PWait => exists e, t_entry th = Some e /\ (entry_persisted (persisted s) e = true \/ v_batch s = Some [e])
       | _ => True
       end.

(* ---- what the thread knows, by program counter ----------------------------------------------------------------- *)
Definition P_rev (log : list entry) (q : request) : Prop :=
  is_rev q = true -> (exists e, find_tx log (rq_revert q) = Some e) /\ is_reverted log (rq_revert q) = false.
Definition P_run (log : list entry) (q : request) (th : thread) : Prop :=
  P_rev log q /\ t_postings th = eff_ps log q /\ t_unb th = rq_unb q.
Definition P_ik (log : list entry) (q : request) : Prop := N.eqb (rq_ik q) 0 = true \/ (N.eqb (rq_ik q) 0 = false /\ find_by_ik log (rq_ik q) = None).
Definition P_ref (log : list entry) (q : request) : Prop := N.eqb (rq_ref q) 0 = true \/ (N.eqb (rq_ref q) 0 = false /\ has_ref log (rq_ref q) = false).
Definition P_tgt (log : list entry) (q : request) : Prop :=
  match rq_target_tx q with Some id => exists e, find_tx log id = Some e | None => True end.
Definition P_txid (log : list entry) (ltx : option nat) (q : request) (th : thread) : Prop :=
  qcov log q = true /\ eff_ps log q <> [] /\ t_txid th = Some (next_nat ltx).
Definition P_late (log : list entry) (ltx : option nat) (q : request) (th : thread) : Prop :=
  P_run log q th /\ P_ik log q /\
  (if is_tx_kind (rq_kind q) then P_ref log q /\ t_view th = qview log q /\ P_txid log ltx q th else P_tgt log q).

Definition th_sym (log : list entry) (ltx : option nat) (q : request) (th : thread) : Prop :=
  match t_pc th with
  | PRevTaken => is_rev q = true
  | PRevRead f r => is_rev q = true /\
                    f = (match find_tx log (rq_revert q) with Some _ => true | None => false end) /\
                    r = is_reverted log (rq_revert q)
  | PIkTaken => P_run log q th /\ N.eqb (rq_ik q) 0 = false
  | PIkLookup h => P_run log q th /\ N.eqb (rq_ik q) 0 = false /\ h = find_by_ik log (rq_ik q)
  | PRefTaken => P_run log q th /\ P_ik log q /\ is_tx_kind (rq_kind q) = true /\ N.eqb (rq_ref q) 0 = false
  | PRefLookup h => P_run log q th /\ P_ik log q /\ is_tx_kind (rq_kind q) = true /\ N.eqb (rq_ref q) 0 = false /\
                    h = has_ref log (rq_ref q)
  | PResolved | PLocked => P_run log q th /\ P_ik log q /\ is_tx_kind (rq_kind q) = true /\ P_ref log q
  | PBalances => P_run log q th /\ P_ik log q /\ is_tx_kind (rq_kind q) = true /\ P_ref log q /\ t_view th = qview log q
  | PRan ok => P_run log q th /\ P_ik log q /\ is_tx_kind (rq_kind q) = true /\ P_ref log q /\ t_view th = qview log q /\
               ok = qcov log q
  | PAppendEnter => rq_dry q = false /\ P_run log q th /\ P_ik log q /\
                    (if is_tx_kind (rq_kind q)
                     then P_ref log q /\ t_view th = qview log q /\ qcov log q = true /\ eff_ps log q <> []
                     else P_tgt log q)
  | PTxid => is_tx_kind (rq_kind q) = true /\ P_late log ltx q th
  | PChained | PAppended => rq_dry q = false /\ P_late log ltx q th
  | PWait | PDone => P_late log ltx q th
  | PUnlocked => P_run log q th /\ P_ik log q /\ is_tx_kind (rq_kind q) = true /\ P_ref log q /\ t_view th = qview log q /\
                 (qcov log q = true -> eff_ps log q <> [] -> t_txid th = Some (next_nat ltx))
  | PFinished => t_resp th = Some (answer log ltx q)
  | _ => False
  end.

Record SI (s0 : state) (t : tid) (q : request) (s : state) (th : thread) : Prop := {
  si_get : get_thread (threads s) t = Some th;
  si_req : t_req th = q;
  si_gen : t_gen th = gen s;
  si_gen0 : gen s = gen s0;
  si_oth : forall w, w <> t -> get_thread (threads s) w = get_thread (threads s0) w;
  si_queue : v_queue s = [];
  si_iks : v_iks s = if b_ik (t_pc th) && negb (N.eqb (rq_ik q) 0) then [rq_ik q] else [];
  si_refs : v_refs s = if b_ref (t_pc th) && is_tx_kind (rq_kind q) && negb (N.eqb (rq_ref q) 0) then [rq_ref q] else [];
  si_revs : v_revs s = if b_rev (t_pc th) && is_rev q then [rq_revert q] else [];
  si_locks : v_locks s = if b_lock (t_pc th) && is_tx_kind (rq_kind q)
                         then [(t, reads_of (t_postings th), writes_of (t_postings th))] else [];
  si_st : st_sym s0 s q th;
  si_sym : th_sym (persisted s0) (v_lasttx s0) q th
}.

(* ---- the driver ----------------------------------------------------------------------------------------------------- *)
Definition next (s : state) (t : tid) : option state :=
  match resume s t with Some s' => Some s' | None => persist_ok s end.

Lemma drive_unfold : forall k s t,
  drive (S k) s t =
  match get_thread (threads s) t with
  | Some th => match t_pc th with
               | PFinished => s
               | _ => match next s t with Some s' => drive k s' t | None => s end
               end
  | None => s
  end.
Proof.
  intros k s t. unfold next. simpl. destruct (get_thread (threads s) t) as [th|]; [|reflexivity].
  destruct (t_pc th); try reflexivity; destruct (resume s t); reflexivity.
Qed.

Definition pcrank (p : pc) : nat :=
  match p with
  | PFinished => 0 | PUnlocked => 1 | PDone => 2 | PWait => 3 | PAppended => 4 | PChained => 5 | PTxid => 6
  | PAppendEnter => 7 | PRan _ => 8 | PBalances => 9 | PLocked => 10 | PResolved => 11 | PRefLookup _ => 12
  | PRefTaken => 13 | PIkLookup _ => 14 | PIkTaken => 15 | PRevRead _ _ => 16 | PRevTaken => 17
  | _ => 17
  end.
Definition rank (s : state) (th : thread) : nat :=
  2 * pcrank (t_pc th) +
  match t_pc th, t_entry th with
  | PWait, Some e => if entry_persisted (persisted s) e then 0 else 1
  | _, _ => 0
  end.

Lemma rank_bound : forall s th, (rank s th <= 35)%nat.
Proof.
  intros s th. unfold rank.
  assert (pcrank (t_pc th) <= 17)%nat by (destruct (t_pc th); simpl; lia).
  destruct (t_pc th); try lia. destruct (t_entry th); try lia. destruct (entry_persisted _ _); lia.
Qed.

Lemma entry_persisted_app : forall log e, entry_persisted (log ++ [e]) e = true.
Proof.
  intros log e. unfold entry_persisted. rewrite existsb_app. simpl. rewrite Nat.eqb_refl. rewrite orb_true_r. reflexivity.
Qed.
