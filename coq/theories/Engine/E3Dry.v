(* E3 -- C14: a request submitted alone in a quiescent state, followed symbolically to its end.
   One invariant [SI] serves the preview (everything observable stays as it was) and the real write (only the
   answer is followed); both answers are the pure function [answer] of the disk and of lastTXID. *)
From Coq Require Import Lia.
From FL Require Import Engine.Model Engine.Spec Engine.E3Base.
Open Scope Z_scope.

(* ---- the answer of a request submitted alone, as a function of the disk ------------------------------------ *)
Definition is_rev (q : request) : bool := match rq_kind q with KRevert => true | _ => false end.
Definition eff_ps (log : list entry) (q : request) : list posting :=
  match rq_kind q with
  | KRevert => match find_tx log (rq_revert q) with Some e => swap_rev (e_postings e) | None => [] end
  | _ => rq_postings q
  end.
Definition qview (log : list entry) (q : request) : list (account * Z) :=
  map (fun a => (a, balance_of log a)) (reads_of (eff_ps log q)).
Definition qcov (log : list entry) (q : request) : bool := covers (qview log q) (rq_unb q) (eff_ps log q).

Definition answer_exec (log : list entry) (ltx : option nat) (q : request) : response :=
  if is_tx_kind (rq_kind q) then
    if N.eqb (rq_ref q) 0 then
      if qcov log q then match eff_ps log q with [] => RErr ENoPostings | _ => ROk (Some (next_nat ltx)) end
      else RErr EInsufficient
    else if has_ref log (rq_ref q) then RErr EConflict
    else
      if qcov log q then match eff_ps log q with [] => RErr ENoPostings | _ => ROk (Some (next_nat ltx)) end
      else RErr EInsufficient
  else
    match rq_target_tx q with
    | Some id => match find_tx log id with None => RErr ENotFound | Some _ => ROk None end
    | None => ROk None
    end.
Definition answer_run (log : list entry) (ltx : option nat) (q : request) : response :=
  if N.eqb (rq_ik q) 0 then answer_exec log ltx q
  else match find_by_ik log (rq_ik q) with
       (* the stored entry is answered again only when it is the outcome of this request ([is_outcome_of]: same
          kind; revert: same reverted transaction; metadata write: same target and content); otherwise the key was
          reused with a different request: refused *)
       | Some e => if is_outcome_of q e then ROk (e_txid e) else RErr EKeyReused
       | None => answer_exec log ltx q
       end.
Definition answer (log : list entry) (ltx : option nat) (q : request) : response :=
  if is_rev q then
    match find_tx log (rq_revert q) with
    | None => RErr ENotFound
    | Some _ => if is_reverted log (rq_revert q) then RErr EAlreadyReverted else answer_run log ltx q
    end
  else answer_run log ltx q.

(* ---- what the thread holds, by program counter ---------------------------------------------------------------- *)
Definition b_ik (p : pc) : bool :=
  match p with
  | PIkTaken | PIkLookup _ | PRefTaken | PRefLookup _ | PResolved | PLocked | PBalances | PRan _ | PAppendEnter
  | PTxid | PChained | PAppended | PWait | PDone => true
  | _ => false
  end.
Definition b_ref (p : pc) : bool :=
  match p with
  | PRefTaken | PRefLookup _ | PResolved | PLocked | PBalances | PRan _ | PAppendEnter
  | PTxid | PChained | PAppended | PWait | PDone | PUnlocked => true
  | _ => false
  end.
Definition b_lock (p : pc) : bool :=
  match p with
  | PLocked | PBalances | PRan _ | PAppendEnter | PTxid | PChained | PAppended | PWait | PDone => true
  | _ => false
  end.
Definition b_rev (p : pc) : bool := match p with PFinished => false | _ => true end.
(* before the append: nothing but reservations and locks has changed, for a real write too *)
Definition b_pre (p : pc) : bool :=
  match p with
  | PRevTaken | PRevRead _ _ | PIkTaken | PIkLookup _ | PRefTaken | PRefLookup _ | PResolved | PLocked | PBalances
  | PRan _ | PAppendEnter => true
  | _ => false
  end.

Definition core_same (s0 s : state) : Prop :=
  persisted s = persisted s0 /\ v_last s = v_last s0 /\ v_lasttx s = v_lasttx s0 /\ v_pending s = [] /\
  v_batch s = None /\ v_cs s = None /\ v_uid s = v_uid s0 /\ published s = published s0.

Definition st_sym (s0 s : state) (q : request) (th : thread) : Prop :=
  if rq_dry q then core_same s0 s
  else if b_pre (t_pc th) then core_same s0 s
  else match t_pc th with
       | PTxid => v_batch s = None /\ v_pending s = [] /\ persisted s = persisted s0 /\ v_uid s = v_uid s0
       | PChained => v_batch s = None /\ v_pending s = [] /\ persisted s = persisted s0 /\
                     exists e, t_entry th = Some e /\ e_uid e = v_uid s0
       | PAppended => v_pending s = [] /\ persisted s = persisted s0 /\
                      exists e, t_entry th = Some e /\ e_uid e = v_uid s0 /\ v_batch s = Some [e]
       | PWait => v_pending s = [] /\ v_cs s = None /\
                  exists e, t_entry th = Some e /\
                    ((persisted s = persisted s0 /\ e_uid e = v_uid s0 /\ v_batch s = Some [e]) \/
                     (entry_persisted (persisted s) e = true /\ v_batch s = None))
       | PDone | PUnlocked | PFinished => v_pending s = [] /\ v_cs s = None /\ v_batch s = None
       | _ => True
       end.

(* ---- what the thread knows, by program counter ----------------------------------------------------------------- *)
Definition P_rev (log : list entry) (q : request) : Prop :=
  is_rev q = true -> (exists e, find_tx log (rq_revert q) = Some e) /\ is_reverted log (rq_revert q) = false.
Definition P_run (log : list entry) (q : request) (th : thread) : Prop :=
  P_rev log q /\ t_postings th = eff_ps log q /\ t_unb th = rq_unb q.
Definition P_ik (log : list entry) (q : request) : Prop := N.eqb (rq_ik q) 0 = true \/ (N.eqb (rq_ik q) 0 = false /\ find_by_ik log (rq_ik q) = None).
Definition P_ref (log : list entry) (q : request) : Prop := N.eqb (rq_ref q) 0 = true \/ (N.eqb (rq_ref q) 0 = false /\ has_ref log (rq_ref q) = false).
Definition P_tgt (log : list entry) (q : request) : Prop :=
  match rq_target_tx q with Some id => exists e, find_tx log id = Some e | None => True end.
Definition P_txid (log : list entry) (ltx : option nat) (q : request) (th : thread) : Prop :=
  qcov log q = true /\ eff_ps log q <> [] /\ t_txid th = Some (next_nat ltx).
Definition P_late (log : list entry) (ltx : option nat) (q : request) (th : thread) : Prop :=
  P_run log q th /\ P_ik log q /\
  (if is_tx_kind (rq_kind q) then P_ref log q /\ t_view th = qview log q /\ P_txid log ltx q th else P_tgt log q).

Definition th_sym (log : list entry) (ltx : option nat) (q : request) (th : thread) : Prop :=
  match t_pc th with
  | PRevTaken => is_rev q = true
  | PRevRead f r => is_rev q = true /\
                    f = (match find_tx log (rq_revert q) with Some _ => true | None => false end) /\
                    r = is_reverted log (rq_revert q)
  | PIkTaken => P_run log q th /\ N.eqb (rq_ik q) 0 = false
  | PIkLookup h => P_run log q th /\ N.eqb (rq_ik q) 0 = false /\ h = find_by_ik log (rq_ik q)
  | PRefTaken => P_run log q th /\ P_ik log q /\ is_tx_kind (rq_kind q) = true /\ N.eqb (rq_ref q) 0 = false
  | PRefLookup h => P_run log q th /\ P_ik log q /\ is_tx_kind (rq_kind q) = true /\ N.eqb (rq_ref q) 0 = false /\
                    h = has_ref log (rq_ref q)
  | PResolved | PLocked => P_run log q th /\ P_ik log q /\ is_tx_kind (rq_kind q) = true /\ P_ref log q
  | PBalances => P_run log q th /\ P_ik log q /\ is_tx_kind (rq_kind q) = true /\ P_ref log q /\ t_view th = qview log q
  | PRan ok => P_run log q th /\ P_ik log q /\ is_tx_kind (rq_kind q) = true /\ P_ref log q /\ t_view th = qview log q /\
               ok = qcov log q
  | PAppendEnter => rq_dry q = false /\ P_run log q th /\ P_ik log q /\
                    (if is_tx_kind (rq_kind q)
                     then P_ref log q /\ t_view th = qview log q /\ qcov log q = true /\ eff_ps log q <> []
                     else P_tgt log q)
  | PTxid => is_tx_kind (rq_kind q) = true /\ P_late log ltx q th
  | PChained | PAppended => rq_dry q = false /\ P_late log ltx q th
  | PWait | PDone => P_late log ltx q th
  | PUnlocked => P_run log q th /\ P_ik log q /\ is_tx_kind (rq_kind q) = true /\ P_ref log q /\ t_view th = qview log q /\
                 (qcov log q = true -> eff_ps log q <> [] -> t_txid th = Some (next_nat ltx))
  | PFinished => t_resp th = Some (answer log ltx q)
  | _ => False
  end.

Record SI (s0 : state) (t : tid) (q : request) (s : state) (th : thread) : Prop := {
  si_get : get_thread (threads s) t = Some th;
  si_req : t_req th = q;
  si_gen : t_gen th = gen s;
  si_gen0 : gen s = gen s0;
  si_oth : forall w, w <> t -> get_thread (threads s) w = get_thread (threads s0) w;
  si_queue : v_queue s = [];
  si_iks : v_iks s = if b_ik (t_pc th) && negb (N.eqb (rq_ik q) 0) then [rq_ik q] else [];
  si_refs : v_refs s = if b_ref (t_pc th) && is_tx_kind (rq_kind q) && negb (N.eqb (rq_ref q) 0) then [rq_ref q] else [];
  si_revs : v_revs s = if b_rev (t_pc th) && is_rev q then [rq_revert q] else [];
  si_locks : v_locks s = if b_lock (t_pc th) && is_tx_kind (rq_kind q)
                         then [(t, reads_of (t_postings th), writes_of (t_postings th))] else [];
  si_fresh : rq_dry q = false -> forall x, In x (persisted s0) -> (e_uid x < v_uid s0)%nat;
  si_st : st_sym s0 s q th;
  si_sym : th_sym (persisted s0) (v_lasttx s0) q th
}.

(* ---- the driver ----------------------------------------------------------------------------------------------------- *)
Definition next (s : state) (t : tid) : option state :=
  match resume s t with Some s' => Some s' | None => persist_ok s end.

Lemma drive_unfold : forall k s t,
  drive (S k) s t =
  match get_thread (threads s) t with
  | Some th => match t_pc th with
               | PFinished => s
               | _ => match next s t with Some s' => drive k s' t | None => s end
               end
  | None => s
  end.
Proof.
  intros k s t. unfold next. simpl. destruct (get_thread (threads s) t) as [th|]; [|reflexivity].
  destruct (t_pc th); try reflexivity; destruct (resume s t); reflexivity.
Qed.

Definition pcrank (p : pc) : nat :=
  match p with
  | PFinished => 0 | PUnlocked => 1 | PDone => 2 | PWait => 3 | PAppended => 4 | PChained => 5 | PTxid => 6
  | PAppendEnter => 7 | PRan _ => 8 | PBalances => 9 | PLocked => 10 | PResolved => 11 | PRefLookup _ => 12
  | PRefTaken => 13 | PIkLookup _ => 14 | PIkTaken => 15 | PRevRead _ _ => 16 | PRevTaken => 17
  | _ => 17
  end.
Definition rank (s : state) (th : thread) : nat :=
  2 * pcrank (t_pc th) +
  match t_pc th, t_entry th with
  | PWait, Some e => if entry_persisted (persisted s) e then 0 else 1
  | _, _ => 0
  end.

Lemma rank_bound : forall s th, (rank s th <= 35)%nat.
Proof.
  intros s th. unfold rank.
  assert (pcrank (t_pc th) <= 17)%nat by (destruct (t_pc th); simpl; lia).
  destruct (t_pc th); try lia. destruct (t_entry th); try lia. destruct (entry_persisted _ _); lia.
Qed.

Lemma fresh_not_persisted : forall log e n,
  (forall x, In x log -> (e_uid x < n)%nat) -> e_uid e = n -> entry_persisted log e = false.
Proof.
  intros log e n H Hn. unfold entry_persisted. destruct (existsb _ log) eqn:E; [|reflexivity].
  apply existsb_exists in E. destruct E as (x & Hin & Hx). apply Nat.eqb_eq in Hx. specialize (H x Hin). lia.
Qed.

Lemma entry_persisted_app : forall log e, entry_persisted (log ++ [e]) e = true.
Proof.
  intros log e. unfold entry_persisted. rewrite existsb_app. simpl. rewrite Nat.eqb_refl. rewrite orb_true_r. reflexivity.
Qed.

(* ---- one step of the driver preserves the invariant and makes progress ------------------------------------ *)
Ltac d_cbn := cbn [to_state of_state finish set_th release_ik with_pc persisted v_last v_lasttx v_pending v_batch v_iks v_refs v_revs v_locks v_queue v_cs v_uid gen threads published u_persisted u_last u_lasttx u_pending u_batch u_iks u_refs u_revs u_locks u_queue u_cs u_uid u_threads u_published t_req t_pc t_postings t_unb t_view t_entry t_txid t_granted t_resp t_gen t_cancelled b_ik b_ref b_lock b_rev b_pre andb orb negb recheck mem_N mem_nat existsb is_tx_kind is_rev app filter fst snd] in *.

Ltac atom c :=
  lazymatch c with
  | negb ?x => atom x
  | andb ?x _ => atom x
  | orb ?x _ => atom x
  | match ?x with _ => _ end => atom x
  | _ => c
  end.
Ltac csplit := repeat match goal with |- _ /\ _ => split end.
Ltac facts :=
  repeat match goal with
  | H : _ /\ _ |- _ => destruct H
  | H : exists _, _ |- _ => destruct H
  | H : ?a = ?b -> _, H' : ?a = ?b |- _ => specialize (H H')
  | H : true = true -> _ |- _ => specialize (H eq_refl)
  | H : false = false -> _ |- _ => specialize (H eq_refl)
  | H : _ :: _ <> [] -> _ |- _ => specialize (H ltac:(discriminate))
  | H : ?c = _, H' : context [match ?c with _ => _ end] |- _ => rewrite H in H'; d_cbn
  end.
Ltac use_eq c :=
  match goal with
  | H : c = _ |- _ => rewrite H
  end.
Ltac head_step :=
  d_cbn;
  lazymatch goal with
  | |- match _ with _ => _ end =>
      match goal with |- ?G =>
        let c := atom G in
        first [ rewrite e3_compatible_nil | use_eq c | destruct c eqn:?; try congruence ] end
  end.
Ltac inner_step :=
  d_cbn; rewrite ?Nat.eqb_refl, ?entry_persisted_app; facts;
  match goal with
  | |- context [match ?c0 with _ => _ end] =>
      let c := atom c0 in
      first [ use_eq c | destruct c eqn:?; try congruence ]
  end.

Ltac thf :=
  try match goal with H : t_postings _ = _ |- _ => rewrite ?H end;
  try match goal with H : t_unb _ = _ |- _ => rewrite ?H end;
  try match goal with H : t_view _ = _ |- _ => rewrite ?H end;
  try match goal with H : eff_ps _ _ = _ |- _ => rewrite ?H end;
  try match goal with H : persisted _ = persisted _ |- _ => rewrite ?H end;
  try match goal with H : v_lasttx _ = v_lasttx _ |- _ => rewrite ?H end.
Lemma si_step : forall s0 t q s th, SI s0 t q s th -> t_pc th <> PFinished ->
  match next s t with
  | Some s' => exists th', SI s0 t q s' th' /\ (rank s' th' < rank s th)%nat
  | None => False
  end.
Proof.
  intros s0 t q s th [Hget Hreq Hgen Hgen0 Hoth Hq Hiks Hrefs Hrevs Hlocks Hfresh Hst Hsym] Hnf.
  subst q. unfold next, resume, persist_ok. rewrite Hget, Hgen, Nat.eqb_refl. cbn [negb]. cbv zeta.
  unfold st_sym, th_sym in *.
  destruct (rq_dry (t_req th)) eqn:Hdry; destruct (t_pc th) eqn:Hpc; d_cbn; try contradiction; try congruence;
  unfold P_late, P_run, P_txid, P_ik, P_ref, P_rev, qcov, core_same in *;
  repeat match goal with H : _ /\ _ |- _ => destruct H | H : exists _, _ |- _ => destruct H | H : _ \/ _ |- _ => destruct H end.
  all: repeat match goal with H : ?v = _ |- _ => is_var v; subst v end.
  all: facts.
  all: try match goal with Hu : e_uid ?e = v_uid ?s0, Hp : persisted ?s = persisted ?s0, Hf : forall x, In x (persisted ?s0) -> _ |- _ =>
             assert (entry_persisted (persisted s) e = false) by (rewrite Hp; apply (fresh_not_persisted _ _ _ Hf Hu)) end.
  all: try match goal with H : t_postings _ = _ |- _ => rewrite H in Hlocks end.
  all: try match goal with H : t_postings _ = _ |- _ => rewrite ?H end.
  all: try match goal with H : t_unb _ = _ |- _ => rewrite ?H end.
  all: try match goal with H : t_view _ = _ |- _ => rewrite ?H end.
  all: rewrite ?Hlocks.
  all: repeat head_step.
  all: unfold enter_run, enter_exec, unlock; d_cbn; rewrite ?Hiks, ?Hrefs, ?Hq; d_cbn.
  all: try match goal with H : persisted _ = persisted _ |- _ => rewrite ?H end.
  all: try match goal with H : v_lasttx _ = v_lasttx _ |- _ => rewrite ?H end.
  all: repeat inner_step.
  all: eexists; (split; [constructor|]).
  all: try solve [d_cbn; apply e3_get_set_same].
  all: try solve [reflexivity | assumption].
  all: try solve [intros w Hw; d_cbn; rewrite e3_get_set_other by exact Hw; apply Hoth; exact Hw].
  all: try solve [unfold rank; d_cbn; rewrite ?Hpc; cbn [pcrank]; repeat inner_step; lia].
  all: try solve [d_cbn; rewrite ?Hpc; d_cbn; rewrite ?Hiks, ?Hrefs, ?Hrevs, ?Hlocks; thf; unfold is_rev in *; repeat inner_step; d_cbn;
                  rewrite ?e3_remove_N_single, ?e3_remove_nat_single, ?Nat.eqb_refl; d_cbn; try reflexivity; try congruence;
                  destruct (rq_kind (t_req th)); d_cbn; congruence].
  all: try solve [unfold st_sym, core_same; d_cbn; rewrite ?Hpc, ?Hdry; d_cbn; csplit; try assumption; try reflexivity; eauto using entry_persisted_app; eexists; csplit; eauto using entry_persisted_app].
  all: try solve [unfold th_sym, P_late, P_run, P_txid, P_ik, P_ref, P_rev, P_tgt, answer, answer_run, answer_exec, qcov; d_cbn; rewrite ?Hpc; d_cbn; thf;
                  unfold eff_ps, is_rev in *;
                  repeat inner_step; d_cbn; unfold P_tgt in *; facts; try congruence; csplit; try assumption; try reflexivity; try congruence; auto;
                  intros; csplit; try assumption; try reflexivity; try congruence; eauto;
                  unfold qview, eff_ps; repeat inner_step; reflexivity].
Qed.

Lemma si_start : forall s0 t q, quiescent s0 -> get_thread (threads s0) t = None ->
  (rq_dry q = false -> forall x, In x (persisted s0) -> (e_uid x < v_uid s0)%nat) ->
  match start s0 t q with
  | Some s1 => exists th, SI s0 t q s1 th
  | None => False
  end.
Proof.
  intros s0 t q (Qp & Qb & Qi & Qr & Qv & Ql & Qq & Qc & Qt) Hnone Hfresh.
  unfold start. rewrite Hnone. cbv zeta. rewrite Qv.
  destruct (rq_dry q) eqn:Hdry.
  all: repeat head_step.
  all: unfold enter_run, enter_exec; d_cbn; rewrite ?Qi, ?Qr, ?Qv; d_cbn.
  all: repeat inner_step.
  all: eexists; constructor.
  all: try solve [d_cbn; apply e3_get_set_same].
  all: try solve [reflexivity | assumption].
  all: try solve [intros w Hw; d_cbn; rewrite e3_get_set_other by exact Hw; reflexivity].
  all: try solve [d_cbn; rewrite ?Qi, ?Qr, ?Qv, ?Ql; unfold is_rev in *; repeat inner_step; d_cbn;
                  rewrite ?e3_remove_N_single, ?e3_remove_nat_single, ?Nat.eqb_refl; d_cbn; try reflexivity; try congruence;
                  destruct (rq_kind q); d_cbn; congruence].
  all: try solve [unfold st_sym, core_same; d_cbn; rewrite ?Hdry; d_cbn; csplit; try assumption; try reflexivity].
  all: try solve [unfold th_sym, P_late, P_run, P_txid, P_ik, P_ref, P_rev, P_tgt, answer, answer_run, answer_exec, qcov; d_cbn;
                  unfold eff_ps, is_rev in *;
                  repeat inner_step; d_cbn; unfold P_tgt in *; facts; try congruence; csplit; try assumption; try reflexivity; try congruence; auto;
                  intros; csplit; try assumption; try reflexivity; try congruence; eauto].
Qed.

(* ---- the driver reaches the end within its fuel ------------------------------------------------------------------ *)
Definition is_fin (p : pc) : bool := match p with PFinished => true | _ => false end.

Lemma drive_unfold2 : forall k s t th, get_thread (threads s) t = Some th ->
  drive (S k) s t = if is_fin (t_pc th) then s else match next s t with Some s' => drive k s' t | None => s end.
Proof. intros k s t th H. rewrite drive_unfold, H. destruct (t_pc th); reflexivity. Qed.

Lemma si_drive : forall n s0 t q s th, SI s0 t q s th -> (rank s th < n)%nat ->
  exists th', SI s0 t q (drive n s t) th' /\ t_pc th' = PFinished.
Proof.
  induction n as [|n IH]; intros s0 t q s th HSI Hr; [lia|].
  rewrite (drive_unfold2 n s t th (si_get _ _ _ _ _ HSI)).
  destruct (is_fin (t_pc th)) eqn:Hf.
  - exists th. split; [exact HSI|]. destruct (t_pc th); try discriminate Hf. reflexivity.
  - assert (Hnf : t_pc th <> PFinished) by (intros E; rewrite E in Hf; discriminate Hf).
    pose proof (si_step s0 t q s th HSI Hnf) as Hs.
    destruct (next s t) as [s'|]; [|contradiction].
    destruct Hs as (th' & HSI' & Hlt). apply (IH s0 t q s' th' HSI'). lia.
Qed.

Definition fresh_uid (s : state) : Prop := forall x, In x (persisted s) -> (e_uid x < v_uid s)%nat.

Lemma si_submit : forall s0 t q, quiescent s0 -> get_thread (threads s0) t = None ->
  (rq_dry q = false -> fresh_uid s0) ->
  exists th, SI s0 t q (submit s0 t q) th /\ t_pc th = PFinished.
Proof.
  intros s0 t q Hq Hn Hf. unfold submit. pose proof (si_start s0 t q Hq Hn Hf) as Hs.
  destruct (start s0 t q) as [s1|]; [|contradiction]. destruct Hs as (th & HSI).
  apply (si_drive 64 s0 t q s1 th HSI). pose proof (rank_bound s1 th). lia.
Qed.

(* ---- C14: the preview is a stutter step, and answers what the real write answers ------------------------------------ *)
Theorem e3_answer : forall s t q, quiescent s -> get_thread (threads s) t = None ->
  (rq_dry q = false -> fresh_uid s) ->
  exists th, get_thread (threads (submit s t q)) t = Some th /\
             t_resp th = Some (answer (persisted s) (v_lasttx s) q).
Proof.
  intros s t q Hq Hn Hf. destruct (si_submit s t q Hq Hn Hf) as (th & HSI & Hpc).
  exists th. split; [exact (si_get _ _ _ _ _ HSI)|].
  pose proof (si_sym _ _ _ _ _ HSI) as H. unfold th_sym in H. rewrite Hpc in H. exact H.
Qed.

(* any request submitted alone in a quiescent state leaves a quiescent state, touches no other table entry *)
Theorem e3_submit_quiescent : forall s t q, quiescent s -> get_thread (threads s) t = None ->
  (rq_dry q = false -> fresh_uid s) ->
  quiescent (submit s t q) /\ gen (submit s t q) = gen s /\
  (forall w, w <> t -> get_thread (threads (submit s t q)) w = get_thread (threads s) w) /\
  (exists th, get_thread (threads (submit s t q)) t = Some th /\ t_pc th = PFinished).
Proof.
  intros s t q Hq Hn Hf. destruct (si_submit s t q Hq Hn Hf) as (th & HSI & Hpc).
  destruct HSI as [Hget Hreq Hgen Hgen0 Hoth Hqu Hiks Hrefs Hrevs Hlocks Hfresh Hst Hsym].
  rewrite Hpc in Hiks, Hrefs, Hrevs, Hlocks. cbn in Hiks, Hrefs, Hrevs, Hlocks.
  destruct Hq as (Qp & Qb & Qi & Qr & Qv & Ql & Qq & Qc & Qt).
  assert (Hcore : v_pending (submit s t q) = [] /\ v_cs (submit s t q) = None /\ v_batch (submit s t q) = None).
  { unfold st_sym in Hst. rewrite Hpc in Hst. cbn in Hst. destruct (rq_dry q).
    - destruct Hst as (C1 & C2 & C3 & C4 & C5 & C6 & C7 & C8). auto.
    - exact Hst. }
  destruct Hcore as (C4 & C6 & C5).
  split; [|split; [exact Hgen0|split; [exact Hoth|exists th; auto]]].
  unfold quiescent. rewrite C4, C5, C6, Hiks, Hrefs, Hrevs, Hlocks, Hqu. repeat split; try reflexivity.
  intros w thw Hw. destruct (Nat.eq_dec w t) as [->|Hne].
  - rewrite Hget in Hw. inversion Hw; subst thw. exact Hpc.
  - rewrite (Hoth w Hne) in Hw. eapply Qt; eauto.
Qed.

Theorem e3_stutter : forall s t q, quiescent s -> get_thread (threads s) t = None -> rq_dry q = true ->
  observe (submit s t q) = observe s /\ quiescent (submit s t q) /\
  gen (submit s t q) = gen s /\ v_uid (submit s t q) = v_uid s /\
  (forall w, w <> t -> get_thread (threads (submit s t q)) w = get_thread (threads s) w) /\
  (exists th, get_thread (threads (submit s t q)) t = Some th /\ t_pc th = PFinished).
Proof.
  intros s t q Hq Hn Hdry.
  assert (Hf : rq_dry q = false -> fresh_uid s) by (intros D; congruence).
  destruct (e3_submit_quiescent s t q Hq Hn Hf) as (Q1 & Q2 & Q3 & Q4).
  destruct (si_submit s t q Hq Hn Hf) as (th & HSI & Hpc).
  destruct HSI as [Hget Hreq Hgen Hgen0 Hoth Hqu Hiks Hrefs Hrevs Hlocks Hfresh Hst Hsym].
  unfold st_sym in Hst. rewrite Hdry in Hst. destruct Hst as (C1 & C2 & C3 & C4 & C5 & C6 & C7 & C8).
  rewrite Hpc in Hiks, Hrefs, Hrevs, Hlocks. cbn in Hiks, Hrefs, Hrevs, Hlocks.
  destruct Hq as (Qp & Qb & Qi & Qr & Qv & Ql & Qq & Qc & Qt).
  split; [|split; [exact Q1|split; [exact Q2|split; [exact C7|split; [exact Q3|exact Q4]]]]].
  unfold observe. rewrite C1, C2, C3, C4, C5, C6, C8, Hiks, Hrefs, Hrevs, Hlocks, Hqu, Qp, Qb, Qi, Qr, Qv, Ql, Qq, Qc.
  reflexivity.
Qed.

Definition with_dry (q : request) (b : bool) : request :=
  {| rq_kind := rq_kind q; rq_ik := rq_ik q; rq_ref := rq_ref q; rq_dry := b; rq_postings := rq_postings q;
     rq_unb := rq_unb q; rq_revert := rq_revert q; rq_target_tx := rq_target_tx q; rq_meta := rq_meta q |}.

Lemma answer_with_dry : forall log ltx q b, answer log ltx (with_dry q b) = answer log ltx q.
Proof. reflexivity. Qed.

Theorem e3_answer_same : forall s t q, quiescent s -> get_thread (threads s) t = None -> fresh_uid s ->
  exists th th', get_thread (threads (submit s t (with_dry q true))) t = Some th /\
                 get_thread (threads (submit s t (with_dry q false))) t = Some th' /\
                 t_resp th = t_resp th' /\ t_resp th = Some (answer (persisted s) (v_lasttx s) q).
Proof.
  intros s t q Hq Hn Hf.
  destruct (e3_answer s t (with_dry q true) Hq Hn (fun _ => Hf)) as (th & G & R).
  destruct (e3_answer s t (with_dry q false) Hq Hn (fun _ => Hf)) as (th' & G' & R').
  exists th, th'. rewrite answer_with_dry in R, R'. repeat split; auto. congruence.
Qed.
