(* E3 -- C16: the invariant behind "published events describe committed changes". *)
From Coq Require Import Lia.
From FL Require Import Engine.Model Engine.Spec Engine.E3Base.
Open Scope Z_scope.

Definition rev_of (q : request) : option nat :=
  match rq_kind q with KRevert => Some (rq_revert q) | _ => None end.

(* the entry a thread built describes its request *)
Definition entry_ok (t : tid) (th : thread) (e : entry) : Prop :=
  e_owner e = t /\ e_kind e = rq_kind (t_req th) /\ e_txid e = t_txid th /\ e_reverts e = rev_of (t_req th).

(* every entry the system knows of: on disk, in the batcher, or built by a thread *)
Definition known (s : state) (x : entry) : Prop :=
  In x (persisted s) \/ In x (v_pending s) \/ (exists b, v_batch s = Some b /\ In x b) \/
  exists t th, get_thread (threads s) t = Some th /\ t_entry th = Some x.

Definition has_entry (s : state) (t : tid) (th : thread) (disk : bool) : Prop :=
  rq_dry (t_req th) = false ->
  exists e, t_entry th = Some e /\ entry_ok t th e /\ (disk = true -> In e (persisted s)).

Definition thread_ok (s : state) (t : tid) (th : thread) : Prop :=
  (is_tx_kind (rq_kind (t_req th)) = false -> t_txid th = None) /\
  match t_pc th with
  | PRefTaken | PRefLookup _ | PResolved | PEnqueued | PLocked | PBalances => is_tx_kind (rq_kind (t_req th)) = true
  | PRan ok => is_tx_kind (rq_kind (t_req th)) = true /\ ok = covers (t_view th) (t_unb th) (t_postings th)
  | PIkTaken => rq_ik (t_req th) <> 0%N
  | PIkLookup (Some e) => In e (persisted s) /\ e_ik e = rq_ik (t_req th) /\ rq_ik (t_req th) <> 0%N
  | PChained | PAppended | PWait => has_entry s t th false
  | PDone => has_entry s t th true
  | PUnlocked => covers (t_view th) (t_unb th) (t_postings th) = true -> t_postings th <> [] -> has_entry s t th true
  | _ => True
  end.

(* an event is faithful: when it was published, the disk held an entry that matches it ([Spec.event_matches]: same
   kind, same transaction id, for a revert the same reverted transaction) and that is the publisher's own entry or
   the entry stored under the publisher's idempotency key (a replay: the key is answered again only when the stored
   entry IS the outcome of the request, [is_outcome_of]); the publisher is a non-preview request of the event's kind
   and the event names the transaction the request asked to revert *)
Definition ev_ok (s : state) (ev : event) : Prop :=
  (ev_persisted ev <= length (persisted s))%nat /\
  exists e th, In e (firstn (ev_persisted ev) (persisted s)) /\
    get_thread (threads s) (ev_tid ev) = Some th /\ rq_dry (t_req th) = false /\
    ev_kind ev = rq_kind (t_req th) /\ ev_reverted ev = rev_of (t_req th) /\
    event_matches ev e /\
    (e_owner e = ev_tid ev \/ (e_ik e <> 0%N /\ rq_ik (t_req th) = e_ik e)).

Record Inv (s : state) : Prop := {
  inv_uid_lt : forall x, known s x -> (e_uid x < v_uid s)%nat;
  inv_uid_inj : forall x y, known s x -> known s y -> e_uid x = e_uid y -> x = y;
  inv_th : forall t th, get_thread (threads s) t = Some th -> thread_ok s t th;
  inv_ev : forall ev, In ev (published s) -> ev_ok s ev;
  inv_alo : forall t th x, get_thread (threads s) t = Some th -> t_resp th = Some (ROk x) ->
              rq_dry (t_req th) = false -> exists ev, In ev (published s) /\ ev_tid ev = t;
  (* the publisher of an event has finished, with a success (so: no event for a request that failed, crashed,
     or gave up -- [ELockCancelled] in particular) *)
  inv_ev_fin : forall ev, In ev (published s) ->
              exists th x, get_thread (threads s) (ev_tid ev) = Some th /\ t_pc th = PFinished /\ t_resp th = Some (ROk x)
}.

(* ---- monotonicity ------------------------------------------------------------------------------------------ *)
Lemma has_entry_mono : forall s s' t th d,
  (forall e, In e (persisted s) -> In e (persisted s')) -> has_entry s t th d -> has_entry s' t th d.
Proof.
  intros s s' t th d Hinc H Hdry. destruct (H Hdry) as (e & H1 & H2 & H3). exists e. auto.
Qed.

Lemma has_entry_weaken : forall s t th, has_entry s t th true -> has_entry s t th false.
Proof.
  intros s t th H Hdry. destruct (H Hdry) as (e & H1 & H2 & H3). exists e. split; [exact H1|]. split; [exact H2|]. intros D; discriminate D.
Qed.

Lemma thread_ok_mono : forall s s' t th,
  (forall e, In e (persisted s) -> In e (persisted s')) -> thread_ok s t th -> thread_ok s' t th.
Proof.
  intros s s' t th Hinc [H0 H]. split; [exact H0|].
  destruct (t_pc th); auto; try (eapply has_entry_mono; eauto).
  - destruct hit; auto. destruct H as (H1 & H2 & H3). auto.
  - intros C P. eapply has_entry_mono; eauto.
Qed.

Lemma thread_ok_grant : forall s t th, thread_ok s t th -> thread_ok s t (grant th).
Proof. intros s t th H. exact H. Qed.

Lemma thread_ok_gsim : forall s s' t a b,
  (forall e, In e (persisted s) -> In e (persisted s')) ->
  gsim (Some a) (Some b) -> thread_ok s t a -> thread_ok s' t b.
Proof.
  intros s s' t a b Hinc [H|H] Hok; subst b.
  - eapply thread_ok_mono; eauto.
  - apply thread_ok_grant. eapply thread_ok_mono; eauto.
Qed.

Lemma ev_ok_mono : forall s s' ev b,
  persisted s' = persisted s ++ b ->
  (forall w th, get_thread (threads s) w = Some th ->
     exists th', get_thread (threads s') w = Some th' /\ t_req th' = t_req th) ->
  ev_ok s ev -> ev_ok s' ev.
Proof.
  intros s s' ev b Hp Hth (Hle & e & th & H1 & H2 & H3 & H4 & H5 & H6 & H8).
  split; [rewrite Hp, app_length; lia|].
  destruct (Hth _ _ H2) as (th' & G1 & G2).
  exists e, th'. rewrite G2. rewrite Hp, e3_firstn_app_le by exact Hle.
  split; [exact H1|]. split; [exact G1|]. split; [exact H3|]. split; [exact H4|]. split; [exact H5|].
  split; [exact H6|exact H8].
Qed.

(* ---- the generic preservation lemma for a step of thread [t] (start or resume) ------------------------------- *)
Lemma inv_thread_step : forall s s' t o th',
  Inv s ->
  get_thread (threads s) t = o ->
  (forall th, o = Some th -> t_pc th <> PFinished) ->
  persisted s' = persisted s ->
  (forall w, w <> t -> gsim (get_thread (threads s) w) (get_thread (threads s') w)) ->
  gsim (Some th') (get_thread (threads s') t) ->
  (forall th, o = Some th -> t_req th' = t_req th) ->
  thread_ok s' t th' ->
  (forall x, In x (v_pending s') \/ (exists b, v_batch s' = Some b /\ In x b) -> known s x) ->
  ((t_entry th' = None \/ (exists th, o = Some th /\ t_entry th' = t_entry th)) /\ v_uid s' = v_uid s \/
   (exists e, t_entry th' = Some e /\ e_uid e = v_uid s) /\ v_uid s' = S (v_uid s)) ->
  (published s' = published s \/
   exists ev, published s' = published s ++ [ev] /\ ev_tid ev = t /\ ev_ok s' ev /\
              t_pc th' = PFinished /\ exists x, t_resp th' = Some (ROk x)) ->
  (forall x, t_resp th' = Some (ROk x) -> rq_dry (t_req th') = false ->
     (exists th, o = Some th /\ t_resp th = Some (ROk x)) \/ exists ev, In ev (published s') /\ ev_tid ev = t) ->
  Inv s'.
Proof.
  intros s s' t o th' I Ho Hnf Hp Hoth Hme Hreq Hok Hbat Hent Hpub Hresp.
  assert (Hreqs : forall w th, get_thread (threads s) w = Some th ->
             exists th2, get_thread (threads s') w = Some th2 /\ t_req th2 = t_req th).
  { intros w th Hw. destruct (Nat.eq_dec w t) as [->|Hne].
    - rewrite Ho in Hw. destruct (get_thread (threads s') t) as [y|]; simpl in Hme; [|contradiction].
      exists y. split; [reflexivity|]. symmetry in Hw.
      destruct Hme; subst y; simpl; apply Hreq; auto.
    - specialize (Hoth w Hne). rewrite Hw in Hoth. destruct (get_thread (threads s') w) as [y|]; simpl in Hoth; [|contradiction].
      exists y. split; [reflexivity|]. destruct Hoth; subst y; reflexivity. }
  assert (Hknown : forall x, known s' x -> known s x \/
             (exists e, t_entry th' = Some e /\ e_uid e = v_uid s) /\ v_uid s' = S (v_uid s) /\ t_entry th' = Some x).
  { intros x [K|[K|[K|(w & th & K1 & K2)]]].
    - left. left. rewrite <- Hp. exact K.
    - left. apply Hbat. auto.
    - left. apply Hbat. auto.
    - destruct (Nat.eq_dec w t) as [->|Hne].
      + assert (Hx : t_entry th' = Some x).
        { rewrite K1 in Hme. simpl in Hme. destruct Hme; subst th; exact K2. }
        destruct Hent as [[[E|(th0 & E1 & E2)] U]|[E U]].
        * congruence.
        * left. right. right. right. exists t, th0. split; [congruence|congruence].
        * right. auto.
      + left. right. right. right. specialize (Hoth w Hne). rewrite K1 in Hoth.
        destruct (get_thread (threads s) w) as [y|] eqn:E; simpl in Hoth; [|contradiction].
        exists w, y. split; [exact E|]. destruct Hoth; subst th; exact K2. }
  assert (Huid : (v_uid s <= v_uid s')%nat) by (destruct Hent as [[_ U]|[_ U]]; lia).
  constructor.
  - intros x K. destruct (Hknown x K) as [K'|((e & E1 & E2) & U & E3)].
    + pose proof (inv_uid_lt s I x K'). lia.
    + assert (x = e) by congruence. subst. lia.
  - intros x y Kx Ky Hxy.
    destruct (Hknown x Kx) as [Kx'|((e & E1 & E2) & U & E3)];
    destruct (Hknown y Ky) as [Ky'|((e' & E1' & E2') & U' & E3')].
    + eapply inv_uid_inj; eauto.
    + assert (y = e') by congruence. subst. pose proof (inv_uid_lt s I x Kx'). lia.
    + assert (x = e) by congruence. subst. pose proof (inv_uid_lt s I y Ky'). lia.
    + congruence.
  - intros w th Hw. destruct (Nat.eq_dec w t) as [->|Hne].
    + rewrite Hw in Hme. simpl in Hme. destruct Hme; subst th; auto.
    + specialize (Hoth w Hne). rewrite Hw in Hoth.
      destruct (get_thread (threads s) w) as [y|] eqn:E; simpl in Hoth; [|contradiction].
      eapply thread_ok_gsim; [| |eapply inv_th; eauto].
      * intros e. rewrite Hp. auto.
      * exact Hoth.
  - intros ev Hin. destruct Hpub as [Hpub|(ev0 & Hpub & Ht & Hev0 & _)]; rewrite Hpub in Hin.
    + eapply ev_ok_mono with (b := []); [rewrite app_nil_r; exact Hp|exact Hreqs|]. apply (inv_ev s I). exact Hin.
    + apply in_app_or in Hin. destruct Hin as [Hin|[Hin|[]]].
      * eapply ev_ok_mono with (b := []); [rewrite app_nil_r; exact Hp|exact Hreqs|]. apply (inv_ev s I). exact Hin.
      * subst ev0. exact Hev0.
  - intros w th x Hw Hr Hd.
    assert (Hpubinc : forall ev, In ev (published s) -> In ev (published s')).
    { intros ev Hin. destruct Hpub as [Hpub|(ev0 & Hpub & _)]; rewrite Hpub; [exact Hin|apply in_or_app; auto]. }
    destruct (Nat.eq_dec w t) as [->|Hne].
    + rewrite Hw in Hme. simpl in Hme.
      assert (Hr' : t_resp th' = Some (ROk x)) by (destruct Hme; subst th; exact Hr).
      assert (Hd' : rq_dry (t_req th') = false) by (destruct Hme; subst th; exact Hd).
      destruct (Hresp x Hr' Hd') as [(th0 & E1 & E2)|Hex]; [|exact Hex].
      rewrite E1 in Ho. destruct (inv_alo s I t th0 x Ho E2) as (ev & Hin & Ht).
      * rewrite <- (Hreq th0 E1). exact Hd'.
      * exists ev. auto.
    + specialize (Hoth w Hne). rewrite Hw in Hoth.
      destruct (get_thread (threads s) w) as [y|] eqn:E; simpl in Hoth; [|contradiction].
      destruct (inv_alo s I w y x E) as (ev & Hin & Ht).
      * destruct Hoth; subst th; exact Hr.
      * destruct Hoth; subst th; exact Hd.
      * exists ev. auto.
  - assert (Hold : forall ev, In ev (published s) ->
               exists th x, get_thread (threads s') (ev_tid ev) = Some th /\ t_pc th = PFinished /\ t_resp th = Some (ROk x)).
    { intros ev Hin. destruct (inv_ev_fin s I ev Hin) as (th & x & G & Hpc & Hr).
      destruct (Nat.eq_dec (ev_tid ev) t) as [E|Hne].
      - rewrite E, Ho in G. exfalso. exact (Hnf th G Hpc).
      - specialize (Hoth _ Hne). rewrite G in Hoth.
        destruct (get_thread (threads s') (ev_tid ev)) as [y|]; simpl in Hoth; [|contradiction].
        exists y, x. split; [reflexivity|]. destruct Hoth; subst y; auto. }
    intros ev Hin. destruct Hpub as [Hpub|(ev0 & Hpub & Ht & _ & Hfin & x & Hr)]; rewrite Hpub in Hin.
    + apply Hold. exact Hin.
    + apply in_app_or in Hin. destruct Hin as [Hin|[Hin|[]]]; [apply Hold; exact Hin|].
      subst ev0. rewrite Ht. destruct (get_thread (threads s') t) as [y|]; simpl in Hme; [|contradiction].
      exists y, x. split; [reflexivity|]. destruct Hme; subst y; auto.
Qed.

(* ---- resume ---------------------------------------------------------------------------------------------- *)
Ltac head_destruct H :=
  repeat match type of H with
  | (match ?x with _ => _ end) = Some _ => destruct x eqn:?; try discriminate H
  end.
Ltac e3_cbn := cbn [to_state of_state finish set_th release_ik with_pc with_cancelled dequeue persisted v_last v_lasttx v_pending v_batch v_iks v_refs v_revs v_locks v_queue v_cs v_uid gen threads published u_persisted u_last u_lasttx u_pending u_batch u_iks u_refs u_revs u_locks u_queue u_cs u_uid u_threads u_published t_req t_pc t_postings t_unb t_view t_entry t_txid t_granted t_resp t_gen t_cancelled grant build_entry e_id e_uid e_prev e_kind e_txid e_postings e_ref e_ik e_reverts e_owner e_unb ev_tid ev_kind ev_txid ev_reverted ev_persisted] in *.

Ltac others_tac :=
  intros w Hw; e3_cbn;
  first [ rewrite e3_get_set_other by exact Hw; apply gsim_refl
        | match goal with Hre : recheck _ _ _ = _ |- _ =>
            let G := fresh in pose proof (e3_recheck_get _ _ _ _ _ _ Hre w) as G;
            rewrite e3_get_set_other in G by exact Hw; exact G end ].
Ltac me_tac :=
  e3_cbn;
  first [ rewrite e3_get_set_same; simpl; left; reflexivity
        | match goal with Hre : recheck _ _ _ = _ |- gsim _ (get_thread _ ?t) =>
            let G := fresh in pose proof (e3_recheck_get _ _ _ _ _ _ Hre t) as G;
            rewrite e3_get_set_same in G; exact G end ].
Ltac req_tac := let E := fresh in intros ? E; inversion E; subst; reflexivity.
Ltac bat_tac := e3_cbn; intros x [K|K]; [right; left; exact K| right; right; left; exact K].
Ltac ent_tac t0 := e3_cbn; first [ left; split; [first [left; reflexivity | right; exists t0; split; reflexivity] | reflexivity]
  | right; split; [eexists; split; reflexivity | reflexivity] ].
Ltac tok_tac :=
  match goal with Hp : t_pc ?t0 = _, Hok : thread_ok _ _ ?t0 |- _ => unfold thread_ok in Hok; rewrite Hp in Hok end;
  unfold thread_ok; e3_cbn;
  let Hk := fresh "Hk" in let Hc := fresh "Hc" in
  match goal with Hok : _ /\ _ |- _ => destruct Hok as [Hk Hc] end;
  split; [try exact Hk|]; try solve [exact Logic.I | auto | intuition congruence].
Ltac pub_tac := e3_cbn; left; reflexivity.
Ltac nf_tac := let E := fresh in let F := fresh in intros ? E F; inversion E; subst; congruence.
Ltac fin_tac := split; [|split; [reflexivity|eexists; reflexivity]].
Ltac resp_tac t0 := e3_cbn; intros x Hr Hd; first [discriminate Hr | left; exists t0; split; [reflexivity|exact Hr]].


Lemma he_dry : forall s t th d, rq_dry (t_req th) = true -> has_entry s t th d.
Proof. intros s t th d H H'. congruence. Qed.

Lemma entry_persisted_in : forall s e, Inv s -> entry_persisted (persisted s) e = true -> known s e -> In e (persisted s).
Proof.
  intros s e I H K. unfold entry_persisted in H. apply existsb_exists in H. destruct H as (x & Hx & Hu).
  apply Nat.eqb_eq in Hu. assert (x = e) by (eapply (inv_uid_inj s I); eauto; left; exact Hx). subst. exact Hx.
Qed.

Lemma find_by_ik_some : forall log k e, find_by_ik log k = Some e -> In e log /\ e_ik e = k.
Proof. intros log k e H. apply find_some in H. destruct H as [H1 H2]. apply N.eqb_eq in H2. auto. Qed.

Lemma same_kind_refl : forall k, same_kind k k = true.
Proof. destruct k; reflexivity. Qed.

Lemma in_firstn_all : forall (A : Type) (x : A) l, In x l -> In x (firstn (length l) l).
Proof. intros. rewrite firstn_all. assumption. Qed.

Lemma ev_ok_own : forall s s' t th th' e x,
  persisted s' = persisted s -> get_thread (threads s') t = Some th' -> t_req th' = t_req th ->
  rq_dry (t_req th) = false -> entry_ok t th e -> In e (persisted s) -> t_txid th = x ->
  ev_ok s' {| ev_tid := t; ev_kind := rq_kind (t_req th); ev_txid := x;
              ev_reverted := match rq_kind (t_req th) with KRevert => Some (rq_revert (t_req th)) | _ => None end;
              ev_persisted := length (persisted s) |}.
Proof.
  intros s s' t th th' e x Hp Hg Hr Hd (E1 & E2 & E3 & E4) Hin Hx.
  split; simpl; [rewrite Hp; lia|].
  exists e, th'. rewrite Hp, Hr. split; [apply in_firstn_all; exact Hin|]. repeat split; auto.
  - simpl. rewrite E2. apply same_kind_refl.
  - simpl. congruence.
Qed.

(* what [is_outcome_of] says of the stored entry *)
Lemma is_outcome_of_spec : forall rq e, is_outcome_of rq e = true ->
  same_kind (e_kind e) (rq_kind rq) = true /\ (rq_kind rq = KRevert -> e_reverts e = Some (rq_revert rq)).
Proof.
  intros rq e H. unfold is_outcome_of in H.
  destruct (rq_kind rq) eqn:Hk, (e_kind e) eqn:He; try discriminate H; (split; [reflexivity|]); intros Hr; try discriminate Hr.
  destruct (e_reverts e) as [x|]; [|discriminate H]. apply Nat.eqb_eq in H. subst x. reflexivity.
Qed.

(* a replay: the key is answered again, and published again, only for an entry that is the outcome of the request *)
Lemma ev_ok_replay : forall s s' t th th' e,
  persisted s' = persisted s -> get_thread (threads s') t = Some th' -> t_req th' = t_req th ->
  rq_dry (t_req th) = false -> In e (persisted s) -> e_ik e = rq_ik (t_req th) -> rq_ik (t_req th) <> 0%N ->
  is_outcome_of (t_req th) e = true ->
  ev_ok s' {| ev_tid := t; ev_kind := rq_kind (t_req th); ev_txid := e_txid e;
              ev_reverted := match rq_kind (t_req th) with KRevert => Some (rq_revert (t_req th)) | _ => None end;
              ev_persisted := length (persisted s) |}.
Proof.
  intros s s' t th th' e Hp Hg Hr Hd Hin Hik Hnz Hk.
  destruct (is_outcome_of_spec _ _ Hk) as [Hsk Hrev].
  split; simpl; [rewrite Hp; lia|].
  exists e, th'. rewrite Hp, Hr. split; [apply in_firstn_all; exact Hin|]. repeat split; auto.
  - simpl. intros Hkr. rewrite Hkr. apply Hrev. exact Hkr.
  - right. split; congruence.
Qed.

Ltac new_entry_tac :=
  unfold has_entry, entry_ok, rev_of; e3_cbn; intros _; eexists; split; [reflexivity|]; split;
  [repeat split; auto; symmetry; auto | intros D; discriminate D].
Lemma inv_resume : forall s t s', Inv s -> resume s t = Some s' -> Inv s'.
Proof.
  intros s t s' I H. unfold resume in H. cbv zeta in H.
  head_destruct H.
  all: inversion H; subst s'; clear H.
  all: try (match goal with |- context [unlock ?t ?u] => destruct (e3_unlock_spec t u) as (q & ths & locks & Hre & Hun); rewrite Hun; clear Hun end).
  all: unfold enter_run, enter_exec; repeat match goal with |- context [match ?x with _ => _ end] => destruct x eqn:? end.
  all: match goal with Hg : get_thread (threads ?s) ?t = Some ?t0, I : Inv ?s |- _ =>
         pose proof (inv_th s I t t0 Hg) as Hok;
         eapply (inv_thread_step s _ t (Some t0) _ I Hg);
         [ nf_tac | try reflexivity | try others_tac | try me_tac | try req_tac | try tok_tac | try bat_tac | try (ent_tac t0) | try pub_tac | try (resp_tac t0) ] end.
  all: try solve [apply he_dry; assumption].
  all: try solve [apply N.eqb_neq; assumption].
  all: try solve [destruct (find_by_ik _ _) eqn:Hf; [apply find_by_ik_some in Hf; intuition congruence|exact Logic.I]].
  all: try solve [new_entry_tac].
  - (* replay *)
    unfold thread_ok in Hok; rewrite Heqp in Hok; destruct Hok as (Hk & Hin & Hik & Hnz).
    destruct (rq_dry (t_req t0)) eqn:Hdry; [left; reflexivity|].
    right. eexists. split; [reflexivity|]. split; [reflexivity|]. fin_tac.
    eapply ev_ok_replay with (th := t0) (e := e);
      [reflexivity | e3_cbn; apply e3_get_set_same | reflexivity | assumption ..].
  - e3_cbn. intros x Hr Hd. right. rewrite Hd. eexists. split; [apply in_or_app; right; left; reflexivity|reflexivity].
  - e3_cbn. intros x [K|(b & Hb & K)].
    + apply in_app_or in K. destruct K as [K|[K|[]]]; [right; left; exact K|].
      subst x. right; right; right. exists t, t0. auto.
    + right; right; left. exists b. split; congruence.
  - e3_cbn. intros x [K|(b & Hb & K)].
    + right; left; exact K.
    + inversion Hb; subst b. destruct K as [K|[]]. subst x. right; right; right. exists t, t0. auto.
  - intros Hd. destruct (Hc Hd) as (e' & E1 & E2 & _). exists e'. split; [exact E1|]. split; [exact E2|].
    intros _. e3_cbn. apply entry_persisted_in; [exact I|congruence|].
    right; right; right. exists t, t0. auto.
  - (* metadata write acknowledged *)
    unfold thread_ok in Hok; rewrite Heqp in Hok; destruct Hok as (Hk & Hc).
    destruct (rq_dry (t_req t0)) eqn:Hdry; [left; reflexivity|].
    destruct (Hc Hdry) as (e' & E1 & E2 & E3).
    right. eexists. split; [reflexivity|]. split; [reflexivity|]. fin_tac.
    eapply ev_ok_own with (th := t0) (e := e');
      [reflexivity | e3_cbn; apply e3_get_set_same | reflexivity | auto ..].
  - e3_cbn. intros x Hr Hd. right. rewrite Hd. eexists. split; [apply in_or_app; right; left; reflexivity|reflexivity].
  - unfold thread_ok in Hok; rewrite Heqp in Hok; destruct Hok as (Hk & Hc).
    destruct (rq_dry (t_req t0)) eqn:Hdry; [left; reflexivity|].
    rewrite Heql in Hc. specialize (Hc Heqb0). destruct Hc as (e' & E1 & E2 & E3); [discriminate|exact Hdry|].
    right. eexists. split; [reflexivity|]. split; [reflexivity|]. fin_tac.
    eapply ev_ok_own with (th := t0) (e := e');
      [reflexivity | e3_cbn; apply e3_get_set_same | reflexivity | auto ..].
  - e3_cbn. intros x Hr Hd. right. rewrite Hd. eexists. split; [apply in_or_app; right; left; reflexivity|reflexivity].
Qed.

(* ---- start ------------------------------------------------------------------------------------------------- *)
Lemma inv_start : forall s t rq s', Inv s -> start s t rq = Some s' -> Inv s'.
Proof.
  intros s t rq s' I H. unfold start in H. cbv zeta in H.
  head_destruct H.
  all: inversion H; subst s'; clear H.
  all: unfold enter_run, enter_exec; repeat match goal with |- context [match ?x with _ => _ end] => destruct x eqn:? end.
  all: match goal with Hg : get_thread (threads ?s) ?t = None, I : Inv ?s |- _ =>
         eapply (inv_thread_step s _ t None _ I Hg);
         [ intros ? E; discriminate E | try reflexivity | try others_tac | try me_tac | try (intros ? E; discriminate E)
         | unfold thread_ok; e3_cbn; split; [try reflexivity|]; try solve [exact Logic.I | auto | intuition congruence]
         | try bat_tac | e3_cbn; left; split; [left; reflexivity|reflexivity] | try pub_tac
         | e3_cbn; intros x Hr Hd; discriminate Hr ] end.
  all: try solve [apply he_dry; assumption].
  all: try solve [apply N.eqb_neq; assumption].
Qed.

(* ---- persist_ok / crash ------------------------------------------------------------------------------------- *)
Lemma inv_persist_ok : forall s s', Inv s -> persist_ok s = Some s' -> Inv s'.
Proof.
  intros s s' I H. unfold persist_ok in H. destruct (v_batch s) as [b|] eqn:Hb; [|discriminate].
  inversion H; subst s'; clear H.
  match goal with |- Inv ?S => assert (Hknown : forall x, known S x -> known s x) end.
  { intros x [K|[K|[(b' & K1 & K2)|K]]]; e3_cbn.
    - apply in_app_or in K. destruct K as [K|K]; [left; exact K|]. right; right; left. exists b. auto.
    - destruct K.
    - right; left. destruct (v_pending s); [discriminate|]. inversion K1; subst b'. exact K2.
    - right; right; right. exact K. }
  constructor.
  - intros x K. apply Hknown in K. e3_cbn. apply (inv_uid_lt s I x K).
  - intros x y Kx Ky. apply (inv_uid_inj s I); auto.
  - e3_cbn. intros t th Hg. eapply thread_ok_mono; [|apply (inv_th s I t th Hg)].
    intros e Hin. e3_cbn. apply in_or_app. auto.
  - e3_cbn. intros ev Hin. eapply ev_ok_mono with (b := b); [reflexivity| |apply (inv_ev s I ev Hin)].
    e3_cbn. intros w th Hw. exists th. auto.
  - e3_cbn. apply (inv_alo s I).
  - e3_cbn. apply (inv_ev_fin s I).
Qed.

Definition crash_th (th : thread) : thread :=
  match t_pc th with
  | PFinished => th
  | _ => {| t_req := t_req th; t_pc := PFinished; t_postings := t_postings th; t_unb := t_unb th;
            t_view := t_view th; t_entry := t_entry th; t_txid := t_txid th;
            t_granted := t_granted th; t_resp := Some RCrashed; t_gen := t_gen th; t_cancelled := t_cancelled th |}
  end.

Lemma e3_crash_threads : forall s w, get_thread (threads (crash s)) w = option_map crash_th (get_thread (threads s) w).
Proof. intros s w. unfold crash. cbn [threads]. apply (e3_get_map crash_th). Qed.

Lemma crash_th_req : forall th, t_req (crash_th th) = t_req th.
Proof. intros th. unfold crash_th. destruct (t_pc th); reflexivity. Qed.
Lemma crash_th_entry : forall th, t_entry (crash_th th) = t_entry th.
Proof. intros th. unfold crash_th. destruct (t_pc th); reflexivity. Qed.
Lemma crash_th_txid : forall th, t_txid (crash_th th) = t_txid th.
Proof. intros th. unfold crash_th. destruct (t_pc th); reflexivity. Qed.
Lemma crash_th_pc : forall th, t_pc (crash_th th) = PFinished.
Proof. intros th. unfold crash_th. destruct (t_pc th) eqn:E; try reflexivity. exact E. Qed.
Lemma crash_th_resp : forall th x, t_resp (crash_th th) = Some (ROk x) -> t_resp th = Some (ROk x).
Proof. intros th x. unfold crash_th. destruct (t_pc th); simpl; intros H; try discriminate H; exact H. Qed.

Lemma inv_crash : forall s, Inv s -> Inv (crash s).
Proof.
  intros s I.
  assert (Hknown : forall x, known (crash s) x -> known s x).
  { intros x [K|[K|[(b' & K1 & K2)|(w & th & K1 & K2)]]].
    - left. exact K.
    - destruct K.
    - discriminate K1.
    - rewrite e3_crash_threads in K1. destruct (get_thread (threads s) w) as [y|] eqn:E; [|discriminate].
      inversion K1; subst th. rewrite crash_th_entry in K2. right; right; right. exists w, y. auto. }
  constructor.
  - intros x K. apply Hknown in K. apply (inv_uid_lt s I x K).
  - intros x y Kx Ky. apply (inv_uid_inj s I); auto.
  - intros t th Hg. rewrite e3_crash_threads in Hg. destruct (get_thread (threads s) t) as [y|] eqn:E; [|discriminate].
    inversion Hg; subst th. destruct (inv_th s I t y E) as [H1 H2]. split.
    + rewrite crash_th_req, crash_th_txid. exact H1.
    + rewrite crash_th_pc. exact Logic.I.
  - intros ev Hin. eapply ev_ok_mono with (b := []); [simpl; rewrite app_nil_r; reflexivity| |apply (inv_ev s I ev Hin)].
    intros w th Hw. exists (crash_th th). rewrite e3_crash_threads, Hw. split; [reflexivity|apply crash_th_req].
  - intros t th x Hg Hr Hd. rewrite e3_crash_threads in Hg. destruct (get_thread (threads s) t) as [y|] eqn:E; [|discriminate].
    inversion Hg; subst th. rewrite crash_th_req in Hd. apply crash_th_resp in Hr.
    apply (inv_alo s I t y x E Hr Hd).
  - intros ev Hin. destruct (inv_ev_fin s I ev Hin) as (th & x & G & Hpc & Hr).
    exists th, x. rewrite e3_crash_threads, G. simpl. unfold crash_th. rewrite Hpc. auto.
Qed.

(* ---- cancellation ---------------------------------------------------------------------------------------------- *)
(* [cancel] only sets the flag of the acting thread: no clause of the invariant reads [t_cancelled] *)
Lemma thread_ok_cancelled : forall s s' t th,
  (forall e, In e (persisted s) -> In e (persisted s')) -> thread_ok s t th -> thread_ok s' t (with_cancelled th).
Proof. intros s s' t th Hinc H. apply (thread_ok_mono s s' t (with_cancelled th) Hinc). exact H. Qed.

Lemma inv_cancel : forall s t s', Inv s -> cancel s t = Some s' -> Inv s'.
Proof.
  intros s t s' I H. unfold cancel in H.
  destruct (get_thread (threads s) t) as [t0|] eqn:Hg; [|discriminate H].
  destruct (negb (Nat.eqb (t_gen t0) (gen s))); [discriminate H|].
  destruct (pc_finished (t_pc t0)) eqn:Hf; [discriminate H|].
  inversion H; subst s'; clear H.
  pose proof (inv_th s I t t0 Hg) as Hok.
  eapply (inv_thread_step s _ t (Some t0) (with_cancelled t0) I Hg).
  - intros th E F. inversion E; subst th. rewrite F in Hf. discriminate Hf.
  - reflexivity.
  - others_tac.
  - me_tac.
  - req_tac.
  - eapply thread_ok_cancelled; [|exact Hok]. intros e He. exact He.
  - bat_tac.
  - e3_cbn. left. split; [right; exists t0; split; reflexivity|reflexivity].
  - pub_tac.
  - resp_tac t0.
Qed.

(* the ctx.Done() branch of the lock wait: [finish] with an error and without publishing, after [unlock] (the
   intent had been granted) or [dequeue] *)
Lemma inv_resume_cancelled : forall s t s', Inv s -> resume_cancelled s t = Some s' -> Inv s'.
Proof.
  intros s t s' I H. unfold resume_cancelled in H. cbv zeta in H.
  head_destruct H.
  all: inversion H; subst s'; clear H.
  all: try (match goal with |- context [unlock ?t ?u] => destruct (e3_unlock_spec t u) as (q & ths & locks & Hre & Hun); rewrite Hun; clear Hun end).
  all: repeat match goal with |- context [match ?x with _ => _ end] => destruct x eqn:? end.
  all: match goal with Hg : get_thread (threads ?s) ?t = Some ?t0, I : Inv ?s |- _ =>
         pose proof (inv_th s I t t0 Hg) as Hok;
         eapply (inv_thread_step s _ t (Some t0) _ I Hg);
         [ nf_tac | try reflexivity | try others_tac | try me_tac | try req_tac | try tok_tac | try bat_tac | try (ent_tac t0) | try pub_tac | try (resp_tac t0) ] end.
  intros w Hw. e3_cbn. rewrite e3_get_set_other by exact Hw. exact (e3_recheck_get _ _ _ _ _ _ Hre w).
Qed.

(* ---- transient failure of a store read ------------------------------------------------------------------------- *)
(* every failing case is a non-publishing [finish] to [PFinished] (after [unlock] at [PLocked]); the SaveMeta case is
   the pc move [enter_exec] performs when the transaction is found *)
Lemma inv_resume_read_fail : forall s t s', Inv s -> resume_read_fail s t = Some s' -> Inv s'.
Proof.
  intros s t s' I H. unfold resume_read_fail in H. cbv zeta in H.
  head_destruct H.
  all: inversion H; subst s'; clear H.
  all: try (match goal with |- context [unlock ?t ?u] => destruct (e3_unlock_spec t u) as (q & ths & locks & Hre & Hun); rewrite Hun; clear Hun end).
  all: repeat match goal with |- context [match ?x with _ => _ end] => destruct x eqn:? end.
  all: match goal with Hg : get_thread (threads ?s) ?t = Some ?t0, I : Inv ?s |- _ =>
         pose proof (inv_th s I t t0 Hg) as Hok;
         eapply (inv_thread_step s _ t (Some t0) _ I Hg);
         [ nf_tac | try reflexivity | try others_tac | try me_tac | try req_tac | try tok_tac | try bat_tac | try (ent_tac t0) | try pub_tac | try (resp_tac t0) ] end.
  all: try solve [apply he_dry; assumption].
  intros w Hw. e3_cbn. rewrite e3_get_set_other by exact Hw. exact (e3_recheck_get _ _ _ _ _ _ Hre w).
Qed.

Lemma inv_init : Inv init.
Proof.
  constructor.
  - intros x [K|[K|[(b & K1 & K2)|(w & th & K1 & K2)]]]; try destruct K; discriminate.
  - intros x y [K|[K|[(b & K1 & K2)|(w & th & K1 & K2)]]]; try destruct K; discriminate.
  - intros t th H; discriminate H.
  - intros ev [].
  - intros t th x H; discriminate H.
  - intros ev [].
Qed.

Lemma inv_step : forall s a s', Inv s -> step s a = Some s' -> Inv s'.
Proof.
  intros s a s' I H. destruct a; simpl in H.
  - eapply inv_start; eauto.
  - eapply inv_resume; eauto.
  - eapply inv_persist_ok; eauto.
  - destruct (v_batch s); [|discriminate]. inversion H; subst. apply inv_crash. exact I.
  - inversion H; subst. apply inv_crash. exact I.
  - eapply inv_cancel; eauto.
  - eapply inv_resume_cancelled; eauto.
  - eapply inv_resume_read_fail; eauto.
  - inversion H; subst. unfold close. apply inv_crash. exact I.
  - unfold close_ok in H. destruct (persist_ok s) as [s1|] eqn:P; [|discriminate H].
    inversion H; subst. apply inv_crash. exact (inv_persist_ok s s1 I P).
Qed.

Theorem inv_reachable : forall s, reachable s -> Inv s.
Proof. apply e3_reachable_ind; [exact inv_init|exact inv_step]. Qed.

(* ---- the C16 statements ---------------------------------------------------------------------------------------- *)
Theorem e3_at_least_once : forall s, reachable s -> events_at_least_once s.
Proof. intros s R. exact (inv_alo s (inv_reachable s R)). Qed.

Theorem e3_no_preview_event : forall s, reachable s -> no_event_for_preview s.
Proof.
  intros s R ev th Hin Hg. destruct (inv_ev s (inv_reachable s R) ev Hin) as (_ & e & th' & _ & Hg' & Hd & _).
  congruence.
Qed.

(* the publisher of every event has finished and answered a success *)
Theorem e3_event_publisher_succeeded : forall s, reachable s -> forall ev, In ev (published s) ->
  exists th x, get_thread (threads s) (ev_tid ev) = Some th /\ t_pc th = PFinished /\ t_resp th = Some (ROk x).
Proof. intros s R. exact (inv_ev_fin s (inv_reachable s R)). Qed.

(* ---- cancellation: neither cancelling a context nor giving up the lock wait publishes or writes anything ------ *)
Theorem e3_cancelled_publishes_nothing : forall s a s',
  (exists t, a = ACancel t \/ a = AResumeCancelled t) -> step s a = Some s' ->
  published s' = published s /\ persisted s' = persisted s.
Proof.
  intros s a s' (t & [Ha|Ha]) H; subst a; simpl in H.
  - unfold cancel in H. head_destruct H. inversion H; subst s'. split; reflexivity.
  - unfold resume_cancelled in H. cbv zeta in H. head_destruct H. inversion H; subst s'; clear H.
    destruct (e3_unlock_spec t (of_state s)) as (q & ths & locks & _ & Hun). rewrite Hun. clear Hun.
    destruct (t_granted t0); split; reflexivity.
Qed.

(* a request that gave up its lock wait owns no event (nor does any request that answered an error or crashed) *)
Theorem e3_cancelled_no_event : forall s t th, reachable s -> get_thread (threads s) t = Some th ->
  t_resp th = Some (RErr ELockCancelled) -> forall ev, In ev (published s) -> ev_tid ev <> t.
Proof.
  intros s t th R Hg Hr ev Hin E.
  destruct (e3_event_publisher_succeeded s R ev Hin) as (th' & x & G & _ & Hr').
  rewrite E, Hg in G. inversion G; subst th'. rewrite Hr in Hr'. discriminate Hr'.
Qed.

(* ---- graceful shutdown (AClose / ACloseOk): a close publishes nothing, from ANY state ([close] is [crash],
   [close_ok] is [persist_ok] then [crash]: neither touches [published]) ------------------------------------------- *)
Theorem e3_close_publishes_nothing : forall s a s', a = AClose \/ a = ACloseOk -> step s a = Some s' ->
  published s' = published s.
Proof.
  intros s a s' [Ha|Ha] H; subst a; simpl in H.
  - inversion H; subst s'. reflexivity.
  - unfold close_ok, persist_ok in H. destruct (v_batch s); [|discriminate H]. inversion H; subst s'. reflexivity.
Qed.

(* a request that has not finished owns no event (the publisher of every event has finished, [inv_ev_fin]) *)
Theorem e3_unfinished_no_event : forall s t th, reachable s -> get_thread (threads s) t = Some th ->
  t_pc th <> PFinished -> forall ev, In ev (published s) -> ev_tid ev <> t.
Proof.
  intros s t th R Hg Hp ev Hin E.
  destruct (e3_event_publisher_succeeded s R ev Hin) as (th' & x & G & Hf & _).
  rewrite E, Hg in G. inversion G; subst th'. exact (Hp Hf).
Qed.

(* ---- store read failures: a failed read publishes and writes nothing ------------------------------------------- *)
(* from ANY state.  The failing cases are a [finish] with [publish = false]; the one non-failing case (SaveMeta: the
   code ignores the error of GetTransaction) is a pc move: its event, if any, comes later, from the ordinary [resume]
   at [PDone] after its entry has been persisted *)
Theorem e3_read_failed_publishes_nothing : forall s t s',
  step s (AResumeReadFail t) = Some s' -> published s' = published s /\ persisted s' = persisted s.
Proof.
  intros s t s' H. simpl in H. unfold resume_read_fail in H. cbv zeta in H. head_destruct H.
  all: inversion H; subst s'; clear H.
  all: try (destruct (e3_unlock_spec t (of_state s)) as (q & ths & locks & _ & Hun); rewrite Hun; clear Hun).
  all: split; reflexivity.
Qed.

(* a request that answered a read failure (store read, or the compilation error a failed metadata read becomes)
   owns no event *)
Theorem e3_read_failed_no_event : forall s t th, reachable s -> get_thread (threads s) t = Some th ->
  (t_resp th = Some (RErr EStoreRead) \/ t_resp th = Some (RErr ECompilationFailed)) ->
  forall ev, In ev (published s) -> ev_tid ev <> t.
Proof.
  intros s t th R Hg Hr ev Hin E.
  destruct (e3_event_publisher_succeeded s R ev Hin) as (th' & x & G & _ & Hr').
  rewrite E, Hg in G. inversion G; subst th'. destruct Hr as [Hr|Hr]; rewrite Hr in Hr'; discriminate Hr'.
Qed.

(* THE FULL STATEMENT (Spec.events_after_persist), unconditionally: every event was published when an entry was
   already on disk that matches it -- same kind, same transaction id, for a revert the SAME reverted transaction --
   and that is the publisher's own or is stored under the publisher's idempotency key.  (Before the repair of
   executionContext.run the replay did not compare the request with the stored outcome and this was false for a key
   reused by a revert of another transaction or by a metadata write; now such a request is refused, [EKeyReused].) *)
Theorem e3_after_persist : forall s, reachable s -> events_after_persist s.
Proof.
  intros s R ev Hin.
  destruct (inv_ev s (inv_reachable s R) ev Hin) as (Hle & e & th & H1 & H2 & H3 & H4 & H5 & H6 & H7).
  split; [exact Hle|]. exists e. split; [exact H1|]. split; [exact H6|].
  destruct H7 as [Ho|(Hnz & Hik)]; [left; exact Ho|right; split; [exact Hnz|exists th; auto]].
Qed.

(* what the invariant says besides: the publisher of an event is a non-preview request of the event's kind, and the
   reverted transaction the event names is the one the request named *)
Theorem e3_event_of_request : forall s, reachable s -> forall ev, In ev (published s) ->
  exists th, get_thread (threads s) (ev_tid ev) = Some th /\ rq_dry (t_req th) = false /\
    ev_kind ev = rq_kind (t_req th) /\
    ev_reverted ev = match rq_kind (t_req th) with KRevert => Some (rq_revert (t_req th)) | _ => None end.
Proof.
  intros s R ev Hin.
  destruct (inv_ev s (inv_reachable s R) ev Hin) as (_ & e & th & _ & H2 & H3 & H4 & H5 & _).
  exists th. auto.
Qed.

Lemma e3_get_thread_in : forall l t th, get_thread l t = Some th -> In (t, th) l.
Proof.
  induction l as [|[u x] r IH]; intros t th H; simpl in H; [discriminate|].
  destruct (Nat.eqb t u) eqn:E.
  - apply Nat.eqb_eq in E. inversion H; subst. left; reflexivity.
  - right. apply IH. exact H.
Qed.

(* an executable necessary condition of [events_after_persist], for refutations by computation *)
Definition onat_eq (a b : option nat) : bool :=
  match a, b with Some x, Some y => Nat.eqb x y | None, None => true | _, _ => false end.
Lemma onat_eq_refl : forall a, onat_eq a a = true.
Proof. destruct a; simpl; [apply Nat.eqb_refl|reflexivity]. Qed.
Definition ev_match_b (ev : event) (e : entry) : bool :=
  same_kind (e_kind e) (ev_kind ev) && onat_eq (e_txid e) (ev_txid ev) &&
  match ev_kind ev with KRevert => onat_eq (e_reverts e) (ev_reverted ev) | _ => true end.
Definition eap_b (s : state) : bool :=
  forallb (fun ev => existsb (ev_match_b ev) (firstn (ev_persisted ev) (persisted s))) (published s).

Lemma eap_b_sound : forall s, events_after_persist s -> eap_b s = true.
Proof.
  intros s H. unfold eap_b. apply forallb_forall. intros ev Hin.
  destruct (H ev Hin) as (_ & e & He & (M1 & M2 & M3) & _).
  apply existsb_exists. exists e. split; [exact He|].
  unfold ev_match_b. rewrite M1, M2, onat_eq_refl. cbn [andb].
  destruct (ev_kind ev); try reflexivity. rewrite M3 by reflexivity. apply onat_eq_refl.
Qed.

(* a preview has published: executable witness against [no_event_for_preview] *)
Definition preview_event_b (s : state) : bool :=
  existsb (fun ev => match get_thread (threads s) (ev_tid ev) with Some th => rq_dry (t_req th) | None => false end)
          (published s).
Lemma preview_event_b_sound : forall s, preview_event_b s = true -> ~ no_event_for_preview s.
Proof.
  intros s H N. apply existsb_exists in H. destruct H as (ev & Hin & H).
  destruct (get_thread (threads s) (ev_tid ev)) as [th|] eqn:E; [|discriminate].
  rewrite (N ev th Hin E) in H. discriminate.
Qed.
