(* E3 -- C14: frame property. A finished (or absent) thread [t] that is not in the lock queue is never read by
   the steps of the other threads: two states that differ only in the table entry of [t] stay so, step by step,
   under every action that does not name [t] (starts and steps of other requests, batch persistence, store
   failures, crashes). *)
From Coq Require Import Lia.
From FL Require Import Engine.Model Engine.Spec Engine.E3Base.
Open Scope Z_scope.

Definition agree (t : tid) (l1 l2 : list (tid * thread)) : Prop :=
  forall w, w <> t -> get_thread l1 w = get_thread l2 w.

Definition frel (t : tid) (s1 s : state) : Prop :=
  observe s1 = observe s /\ gen s1 = gen s /\ v_uid s1 = v_uid s /\
  agree t (threads s1) (threads s) /\ ~ In t (v_queue s).

Lemma agree_set : forall t l1 l2 w th, agree t l1 l2 -> agree t (set_thread l1 w th) (set_thread l2 w th).
Proof.
  intros t l1 l2 w th H x Hx. rewrite !e3_get_set. destruct (Nat.eqb x w); [reflexivity|apply H; exact Hx].
Qed.

Lemma agree_map : forall t (g : thread -> thread) l1 l2, agree t l1 l2 ->
  agree t (map (fun p => (fst p, g (snd p))) l1) (map (fun p => (fst p, g (snd p))) l2).
Proof. intros t g l1 l2 H x Hx. rewrite !e3_get_map. rewrite (H x Hx). reflexivity. Qed.

Lemma recheck_agree : forall t q l1 l2 locks, agree t l1 l2 -> ~ In t q ->
  fst (fst (recheck q l1 locks)) = fst (fst (recheck q l2 locks)) /\
  snd (recheck q l1 locks) = snd (recheck q l2 locks) /\
  agree t (snd (fst (recheck q l1 locks))) (snd (fst (recheck q l2 locks))) /\
  ~ In t (fst (fst (recheck q l1 locks))).
Proof.
  intros t q. induction q as [|w rest IH]; intros l1 l2 locks Ha Hq; simpl.
  - repeat split; auto.
  - assert (Hw : w <> t) by (intros E; apply Hq; left; exact E).
    assert (Hr : ~ In t rest) by (intros E; apply Hq; right; exact E).
    rewrite (Ha w Hw). destruct (get_thread l2 w) as [th|].
    + destruct (compatible _ _ locks).
      * apply IH; [apply agree_set; exact Ha|exact Hr].
      * destruct (IH l1 l2 locks Ha Hr) as (I1 & I2 & I3 & I4).
        destruct (recheck rest l1 locks) as [[q1 t1] k1]. destruct (recheck rest l2 locks) as [[q2 t2] k2].
        simpl in *. subst. repeat split; auto. intros [E|E]; [apply Hw; exact E|apply I4; exact E].
    + apply IH; assumption.
Qed.

Definition orel (t : tid) (a b : option state) : Prop :=
  match a, b with Some x, Some y => frel t x y | None, None => True | _, _ => False end.

Definition urel (t : tid) (u1 u : upd) : Prop :=
  u_persisted u1 = u_persisted u /\ u_last u1 = u_last u /\ u_lasttx u1 = u_lasttx u /\ u_pending u1 = u_pending u /\
  u_batch u1 = u_batch u /\ u_iks u1 = u_iks u /\ u_refs u1 = u_refs u /\ u_revs u1 = u_revs u /\
  u_locks u1 = u_locks u /\ u_queue u1 = u_queue u /\ u_cs u1 = u_cs u /\ u_uid u1 = u_uid u /\
  u_published u1 = u_published u /\ agree t (u_threads u1) (u_threads u) /\ ~ In t (u_queue u).

Lemma frel_to_state : forall t g u1 u, urel t u1 u -> frel t (to_state g u1) (to_state g u).
Proof.
  intros t g u1 u (H1 & H2 & H3 & H4 & H5 & H6 & H7 & H8 & H9 & H10 & H11 & H12 & H13 & H14 & H15).
  unfold frel, observe. cbn. rewrite H1, H2, H3, H4, H5, H6, H7, H8, H9, H10, H11, H13. repeat split; auto.
Qed.

Lemma urel_unlock : forall t x u1 u, urel t u1 u -> urel t (unlock x u1) (unlock x u).
Proof.
  intros t x u1 u (H1 & H2 & H3 & H4 & H5 & H6 & H7 & H8 & H9 & H10 & H11 & H12 & H13 & H14 & H15).
  unfold unlock. rewrite H9, H10.
  destruct (recheck_agree t (u_queue u) (u_threads u1) (u_threads u)
              (filter (fun h => negb (Nat.eqb (fst (fst h)) x)) (u_locks u)) H14 H15) as (R1 & R2 & R3 & R4).
  destruct (recheck (u_queue u) (u_threads u1) _) as [[q1 t1] k1].
  destruct (recheck (u_queue u) (u_threads u) _) as [[q2 t2] k2].
  cbn in *. subst. unfold urel. cbn. repeat split; auto.
Qed.

Ltac frel_close :=
  unfold frel, observe; cbn;
  repeat match goal with |- _ /\ _ => split end;
  try reflexivity; try assumption;
  try (apply agree_set; assumption);
  try (let Hin := fresh in intros Hin; apply in_app_or in Hin; destruct Hin as [Hin|[Hin|[]]]; [auto|congruence]).

Lemma frame_resume : forall t s1 s w, frel t s1 s -> w <> t -> orel t (resume s1 w) (resume s w).
Proof.
  intros t s1 s w (Hobs & Hg & Hu & Ha & Hq) Hw.
  destruct s1 as [p1 la1 lt1 pe1 ba1 ik1 rf1 rv1 lk1 qu1 cs1 ui1 g1 th1 pu1].
  destruct s as [p la lt pe ba ik rf rv lk qu cs ui g ths pu].
  unfold observe in Hobs. cbn in *. inversion Hobs; subst. clear Hobs.
  unfold resume. cbn [threads gen]. rewrite (Ha w Hw).
  destruct (get_thread ths w) as [th|]; [|exact I].
  destruct (negb (Nat.eqb (t_gen th) g)); [exact I|].
  cbv zeta.
  destruct (t_pc th).
  all: cbn [persisted v_locks v_lasttx v_cs].
  all: repeat match goal with
       | |- orel _ (match ?c with _ => _ end) _ => destruct c eqn:?
       end.
  all: try exact I.
  all: unfold orel.
  all: try solve [apply frel_to_state; apply urel_unlock; unfold urel; cbn; repeat split; auto; apply agree_set; assumption].
  all: unfold enter_run, enter_exec; cbn [to_state of_state finish set_th release_ik with_pc persisted v_last v_lasttx v_pending v_batch v_iks v_refs v_revs v_locks v_queue v_cs v_uid gen threads published u_persisted u_last u_lasttx u_pending u_batch u_iks u_refs u_revs u_locks u_queue u_cs u_uid u_threads u_published t_req t_pc t_postings t_unb t_view t_entry t_txid t_granted t_resp t_gen t_cancelled];
       repeat match goal with |- context [match ?c with _ => _ end] => destruct c eqn:? end.
  all: try solve [frel_close].
  all: frel_close.
Qed.

Lemma frame_start : forall t s1 s w rq, frel t s1 s -> w <> t -> orel t (start s1 w rq) (start s w rq).
Proof.
  intros t s1 s w rq (Hobs & Hg & Hu & Ha & Hq) Hw.
  destruct s1 as [p1 la1 lt1 pe1 ba1 ik1 rf1 rv1 lk1 qu1 cs1 ui1 g1 th1 pu1].
  destruct s as [p la lt pe ba ik rf rv lk qu cs ui g ths pu].
  unfold observe in Hobs. cbn in *. inversion Hobs; subst. clear Hobs.
  unfold start. cbn [threads gen v_revs]. rewrite (Ha w Hw).
  destruct (get_thread ths w) as [th|]; [exact I|].
  cbv zeta.
  repeat match goal with
       | |- orel _ (match ?c with _ => _ end) _ => destruct c eqn:?
       end.
  all: unfold orel.
  all: unfold enter_run, enter_exec; cbn [to_state of_state finish set_th release_ik with_pc persisted v_last v_lasttx v_pending v_batch v_iks v_refs v_revs v_locks v_queue v_cs v_uid gen threads published u_persisted u_last u_lasttx u_pending u_batch u_iks u_refs u_revs u_locks u_queue u_cs u_uid u_threads u_published t_req t_pc t_postings t_unb t_view t_entry t_txid t_granted t_resp t_gen t_cancelled];
       repeat match goal with |- context [match ?c with _ => _ end] => destruct c eqn:? end.
  all: frel_close.
Qed.

Lemma frame_persist_ok : forall t s1 s, frel t s1 s -> orel t (persist_ok s1) (persist_ok s).
Proof.
  intros t s1 s (Hobs & Hg & Hu & Ha & Hq).
  destruct s1 as [p1 la1 lt1 pe1 ba1 ik1 rf1 rv1 lk1 qu1 cs1 ui1 g1 th1 pu1].
  destruct s as [p la lt pe ba ik rf rv lk qu cs ui g ths pu].
  unfold observe in Hobs. cbn in *. inversion Hobs; subst. clear Hobs.
  unfold persist_ok. cbn [v_batch]. destruct ba; [|exact I].
  unfold orel. frel_close.
Qed.

Lemma frame_crash : forall t s1 s, frel t s1 s -> frel t (crash s1) (crash s).
Proof.
  intros t s1 s (Hobs & Hg & Hu & Ha & Hq).
  destruct s1 as [p1 la1 lt1 pe1 ba1 ik1 rf1 rv1 lk1 qu1 cs1 ui1 g1 th1 pu1].
  destruct s as [p la lt pe ba ik rf rv lk qu cs ui g ths pu].
  unfold observe in Hobs. cbn in *. inversion Hobs; subst. clear Hobs.
  unfold crash, frel, observe. cbn. repeat split; auto.
  intros x Hx. rewrite !(e3_get_map (fun th => match t_pc th with PFinished => th | _ =>
     {| t_req := t_req th; t_pc := PFinished; t_postings := t_postings th; t_unb := t_unb th;
        t_view := t_view th; t_entry := t_entry th; t_txid := t_txid th;
        t_granted := t_granted th; t_resp := Some RCrashed; t_gen := t_gen th; t_cancelled := t_cancelled th |} end)).
  rewrite (Ha x Hx). reflexivity.
Qed.

(* ---- cancellation: [cancel w] touches only the entry of [w]; [resume_cancelled w] is a [finish] of [w] after an
   [unlock w] (which may grant queued threads, as any release by [w] does) or a [dequeue w] ----------------------- *)
Lemma urel_finish : forall t w th r p a b c u1 u, urel t u1 u -> urel t (finish w th r p a b c u1) (finish w th r p a b c u).
Proof.
  intros t w th r p a b c u1 u (H1 & H2 & H3 & H4 & H5 & H6 & H7 & H8 & H9 & H10 & H11 & H12 & H13 & H14 & H15).
  unfold urel, finish. cbn. rewrite H1, H6, H7, H8, H13. repeat split; auto. apply agree_set. exact H14.
Qed.

Lemma urel_dequeue : forall t w u1 u, urel t u1 u -> urel t (dequeue w u1) (dequeue w u).
Proof.
  intros t w u1 u (H1 & H2 & H3 & H4 & H5 & H6 & H7 & H8 & H9 & H10 & H11 & H12 & H13 & H14 & H15).
  unfold urel, dequeue. cbn. rewrite H10. repeat split; auto.
  intros Hin. apply H15. unfold remove_nat in Hin. apply filter_In in Hin. destruct Hin as [Hin _]. exact Hin.
Qed.

Lemma urel_of_state : forall t s1 s, frel t s1 s -> urel t (of_state s1) (of_state s).
Proof.
  intros t s1 s (Hobs & Hg & Hu & Ha & Hq). unfold urel, of_state. cbn.
  repeat split; auto;
    first [ exact (f_equal ob_disk Hobs) | exact (f_equal ob_last Hobs) | exact (f_equal ob_lasttx Hobs)
          | exact (f_equal ob_pending Hobs) | exact (f_equal ob_batch Hobs) | exact (f_equal ob_iks Hobs)
          | exact (f_equal ob_refs Hobs) | exact (f_equal ob_revs Hobs) | exact (f_equal ob_locks Hobs)
          | exact (f_equal ob_queue Hobs) | exact (f_equal ob_cs Hobs) | exact (f_equal ob_events Hobs) ].
Qed.

Lemma frame_cancel : forall t s1 s w, frel t s1 s -> w <> t -> orel t (cancel s1 w) (cancel s w).
Proof.
  intros t s1 s w H Hw. pose proof (urel_of_state t s1 s H) as Hur. destruct H as (Hobs & Hg & Hu & Ha & Hq).
  unfold cancel. rewrite (Ha w Hw), Hg.
  destruct (get_thread (threads s) w) as [th|]; [|exact I].
  destruct (negb (Nat.eqb (t_gen th) (gen s))); [exact I|].
  destruct (pc_finished (t_pc th)); [exact I|].
  unfold orel. apply frel_to_state.
  destruct Hur as (H1 & H2 & H3 & H4 & H5 & H6 & H7 & H8 & H9 & H10 & H11 & H12 & H13 & H14 & H15).
  unfold urel, set_th. cbn. repeat split; auto. apply agree_set. exact H14.
Qed.

Lemma frame_resume_cancelled : forall t s1 s w, frel t s1 s -> w <> t ->
  orel t (resume_cancelled s1 w) (resume_cancelled s w).
Proof.
  intros t s1 s w H Hw. pose proof (urel_of_state t s1 s H) as Hur. destruct H as (Hobs & Hg & Hu & Ha & Hq).
  unfold resume_cancelled. rewrite (Ha w Hw), Hg.
  destruct (get_thread (threads s) w) as [th|]; [|exact I].
  destruct (negb (Nat.eqb (t_gen th) (gen s))); [exact I|].
  destruct (t_pc th); try exact I.
  destruct (t_cancelled th); [|exact I].
  cbv zeta. unfold orel. apply frel_to_state. apply urel_finish.
  destruct (t_granted th); [apply urel_unlock|apply urel_dequeue]; exact Hur.
Qed.

(* ---- store read failure: [resume_read_fail w] is a non-publishing [finish] of [w] -- after an [unlock w] at
   [PLocked], which may grant queued threads exactly as the granted branch of [resume_cancelled w] does -- or, for
   SaveMeta, a pc move of [w] ------------------------------------------------------------------------------------- *)
Lemma urel_set_th : forall t w th u1 u, urel t u1 u -> urel t (set_th w th u1) (set_th w th u).
Proof.
  intros t w th u1 u (H1 & H2 & H3 & H4 & H5 & H6 & H7 & H8 & H9 & H10 & H11 & H12 & H13 & H14 & H15).
  unfold urel, set_th. cbn. repeat split; auto. apply agree_set. exact H14.
Qed.

Lemma frame_resume_read_fail : forall t s1 s w, frel t s1 s -> w <> t ->
  orel t (resume_read_fail s1 w) (resume_read_fail s w).
Proof.
  intros t s1 s w H Hw. pose proof (urel_of_state t s1 s H) as Hur. destruct H as (Hobs & Hg & Hu & Ha & Hq).
  unfold resume_read_fail. rewrite (Ha w Hw), Hg.
  destruct (get_thread (threads s) w) as [th|]; [|exact I].
  destruct (negb (Nat.eqb (t_gen th) (gen s))); [exact I|].
  cbv zeta.
  destruct (t_pc th); try exact I.
  all: repeat match goal with
       | |- orel _ (match ?c with _ => _ end) _ => destruct c eqn:?
       end.
  all: try exact I.
  all: unfold orel; apply frel_to_state.
  all: first [ apply urel_finish; first [exact Hur | apply urel_unlock; exact Hur] | apply urel_set_th; exact Hur ].
Qed.

(* an action that does not name [t] *)
Definition avoids (t : tid) (a : action) : Prop :=
  match a with
  | AStart w _ => w <> t | AResume w => w <> t | ACancel w => w <> t | AResumeCancelled w => w <> t
  | AResumeReadFail w => w <> t
  | _ => True
  end.

Lemma frame_step : forall t s1 s a, frel t s1 s -> avoids t a -> orel t (step s1 a) (step s a).
Proof.
  intros t s1 s a H Ha. destruct a; simpl in *.
  - apply frame_start; assumption.
  - apply frame_resume; assumption.
  - apply frame_persist_ok; assumption.
  - assert (Hb : v_batch s1 = v_batch s) by (destruct H as (Hobs & _); apply (f_equal ob_batch) in Hobs; exact Hobs).
    rewrite Hb. destruct (v_batch s); [|exact I]. simpl. apply frame_crash. exact H.
  - simpl. apply frame_crash. exact H.
  - apply frame_cancel; assumption.
  - apply frame_resume_cancelled; assumption.
  - apply frame_resume_read_fail; assumption.
  - unfold close. simpl. apply frame_crash. exact H.
  - unfold close_ok. pose proof (frame_persist_ok t s1 s H) as Hp.
    destruct (persist_ok s1) as [p1|]; destruct (persist_ok s) as [p|]; simpl in Hp; try exact Hp.
    simpl. apply frame_crash. exact Hp.
Qed.

(* a graceful shutdown names no request: it is framed like a crash, whoever [t] is *)
Lemma frame_close : forall t s1 s a, a = AClose \/ a = ACloseOk -> frel t s1 s -> orel t (step s1 a) (step s a).
Proof. intros t s1 s a [Ha|Ha] H; subst a; apply frame_step; [exact H|exact I|exact H|exact I]. Qed.

Lemma frame_run : forall t acts s1 s, frel t s1 s -> Forall (avoids t) acts -> orel t (run s1 acts) (run s acts).
Proof.
  intros t acts. induction acts as [|a r IH]; intros s1 s H Hall; simpl.
  - exact H.
  - inversion Hall; subst. pose proof (frame_step t s1 s a H H2) as Hs.
    destruct (step s1 a) as [x|], (step s a) as [y|]; simpl in Hs; try contradiction; [|exact I].
    apply IH; assumption.
Qed.

Lemma frame_drive : forall t w n s1 s, frel t s1 s -> w <> t -> frel t (drive n s1 w) (drive n s w).
Proof.
  intros t w n. induction n as [|n IH]; intros s1 s H Hw; simpl; [exact H|].
  destruct H as (Hobs & Hg & Hu & Ha & Hq). rewrite (Ha w Hw).
  assert (H : frel t s1 s) by (repeat split; assumption).
  destruct (get_thread (threads s) w) as [th|]; [|exact H].
  pose proof (frame_resume t s1 s w H Hw) as Hr. pose proof (frame_persist_ok t s1 s H) as Hp.
  destruct (t_pc th); try exact H;
  (destruct (resume s1 w) as [x|], (resume s w) as [y|]; simpl in Hr; try contradiction;
   [apply IH; assumption|];
   destruct (persist_ok s1) as [x|], (persist_ok s) as [y|]; simpl in Hp; try contradiction;
   [apply IH; assumption|exact H]).
Qed.

Lemma frame_submit : forall t w rq s1 s, frel t s1 s -> w <> t -> frel t (submit s1 w rq) (submit s w rq).
Proof.
  intros t w rq s1 s H Hw. unfold submit. pose proof (frame_start t s1 s w rq H Hw) as Hs.
  destruct (start s1 w rq) as [x|], (start s w rq) as [y|]; simpl in Hs; try contradiction; [|exact H].
  apply frame_drive; assumption.
Qed.

Lemma frame_submit_all : forall t h s1 s, frel t s1 s -> Forall (fun p => fst p <> t) h ->
  frel t (submit_all s1 h) (submit_all s h).
Proof.
  intros t h. induction h as [|[w rq] r IH]; intros s1 s H Hall; simpl; [exact H|].
  inversion Hall; subst. apply IH; [|assumption]. apply frame_submit; assumption.
Qed.
