(* E3 -- C14 assembled: stutter + answer + frame, over reachable states and over sequential histories. *)
From Coq Require Import Lia.
(* the E2 invariant is used (qualified, not imported) by the graceful-shutdown section at the end *)
From FL Require Engine.E2Base Engine.E2Step Engine.E2Inv Engine.E2Main.
From FL Require Import Engine.Model Engine.Spec Engine.E3Base Engine.E3Events Engine.E3Dry Engine.E3Frame.
Open Scope Z_scope.

Lemma e3_fresh_uid : forall s, reachable s -> fresh_uid s.
Proof. intros s R x Hin. apply (inv_uid_lt s (inv_reachable s R)). left. exact Hin. Qed.

(* ---- the sequential driver only performs model steps --------------------------------------------------------- *)
Lemma e3_reachable_drive : forall n s t, reachable s -> reachable (drive n s t).
Proof.
  induction n as [|n IH]; intros s t R; simpl; [exact R|].
  destruct (get_thread (threads s) t) as [th|]; [|exact R].
  assert (H : reachable match resume s t with
                        | Some s' => drive n s' t
                        | None => match persist_ok s with Some s' => drive n s' t | None => s end
                        end).
  { destruct (resume s t) as [s'|] eqn:E.
    - apply IH. apply (e3_reachable_step s (AResume t) s' R). exact E.
    - destruct (persist_ok s) as [s'|] eqn:E2; [|exact R].
      apply IH. apply (e3_reachable_step s APersistOk s' R). exact E2. }
  destruct (t_pc th); try exact H. exact R.
Qed.

Lemma e3_reachable_submit : forall s t q, reachable s -> reachable (submit s t q).
Proof.
  intros s t q R. unfold submit. destruct (start s t q) as [s'|] eqn:E; [|exact R].
  apply e3_reachable_drive. apply (e3_reachable_step s (AStart t q) s' R). exact E.
Qed.

Lemma e3_reachable_submit_all : forall h s, reachable s -> reachable (submit_all s h).
Proof.
  induction h as [|[t q] r IH]; intros s R; simpl; [exact R|]. apply IH. apply e3_reachable_submit. exact R.
Qed.

(* ---- sequential histories stay quiescent ------------------------------------------------------------------------ *)
Definition fresh_for (s : state) (h : list (tid * request)) : Prop :=
  NoDup (map fst h) /\ forall t, In t (map fst h) -> get_thread (threads s) t = None.

Lemma e3_sequential_quiescent : forall h s, reachable s -> quiescent s -> fresh_for s h ->
  reachable (submit_all s h) /\ quiescent (submit_all s h) /\
  (forall w, ~ In w (map fst h) -> get_thread (threads (submit_all s h)) w = get_thread (threads s) w).
Proof.
  induction h as [|[t q] r IH]; intros s R Q (Hnd & Hfr); simpl.
  - split; [exact R|split; [exact Q|reflexivity]].
  - simpl in Hnd. inversion Hnd as [|? ? Hnot Hnd']; subst.
    assert (Hn : get_thread (threads s) t = None) by (apply Hfr; left; reflexivity).
    destruct (e3_submit_quiescent s t q Q Hn (fun _ => e3_fresh_uid s R)) as (Q1 & Q2 & Q3 & Q4).
    destruct (IH (submit s t q) (e3_reachable_submit s t q R) Q1) as (I1 & I2 & I3).
    + split; [exact Hnd'|]. intros w Hw. rewrite Q3.
      * apply Hfr. right. exact Hw.
      * intros E; subst. contradiction.
    + split; [exact I1|]. split; [exact I2|]. intros w Hw. rewrite I3.
      * apply Q3. intros E; subst. apply Hw. left. reflexivity.
      * intros Hin. apply Hw. right. exact Hin.
Qed.

(* ---- C14 over reachable quiescent states ------------------------------------------------------------------------- *)
Theorem e3_C14_stutter : forall s t q, reachable s -> quiescent s -> get_thread (threads s) t = None ->
  rq_dry q = true -> observe (submit s t q) = observe s /\ quiescent (submit s t q).
Proof.
  intros s t q _ Q Hn Hd. destruct (e3_stutter s t q Q Hn Hd) as (H1 & H2 & _). auto.
Qed.

Theorem e3_C14_frel : forall s t q, quiescent s -> get_thread (threads s) t = None -> rq_dry q = true ->
  frel t (submit s t q) s.
Proof.
  intros s t q Q Hn Hd. destruct (e3_stutter s t q Q Hn Hd) as (H1 & H2 & H3 & H4 & H5 & H6).
  repeat split; auto. destruct Q as (_ & _ & _ & _ & _ & _ & Qq & _). rewrite Qq. intros [].
Qed.

(* every later sequential history: same observable state at the end, same table entries (requests, program
   counters, responses) for every other thread id *)
Theorem e3_C14_later_history : forall s t q h, reachable s -> quiescent s -> get_thread (threads s) t = None ->
  rq_dry q = true -> Forall (fun p => fst p <> t) h ->
  observe (submit_all (submit s t q) h) = observe (submit_all s h) /\
  forall w, w <> t -> get_thread (threads (submit_all (submit s t q) h)) w = get_thread (threads (submit_all s h)) w.
Proof.
  intros s t q h _ Q Hn Hd Hh.
  destruct (frame_submit_all t h _ _ (e3_C14_frel s t q Q Hn Hd) Hh) as (H1 & _ & _ & H4 & _). auto.
Qed.

(* every later behaviour at all: any action list that does not name [t] -- concurrent requests in any
   interleaving, batch persistence, store failures, crashes -- is enabled in one state iff in the other and leads
   to states that differ at most in the table entry of [t] *)
Theorem e3_C14_later_run : forall s t q acts, reachable s -> quiescent s -> get_thread (threads s) t = None ->
  rq_dry q = true -> Forall (avoids t) acts ->
  match run (submit s t q) acts, run s acts with
  | Some a, Some b => observe a = observe b /\ forall w, w <> t -> get_thread (threads a) w = get_thread (threads b) w
  | None, None => True
  | _, _ => False
  end.
Proof.
  intros s t q acts _ Q Hn Hd Ha.
  pose proof (frame_run t acts _ _ (e3_C14_frel s t q Q Hn Hd) Ha) as H.
  destruct (run (submit s t q) acts), (run s acts); simpl in H; auto.
  destruct H as (H1 & _ & _ & H4 & _). auto.
Qed.

Theorem e3_C14_answer : forall s t q, reachable s -> quiescent s -> get_thread (threads s) t = None ->
  exists th th', get_thread (threads (submit s t (with_dry q true))) t = Some th /\
                 get_thread (threads (submit s t (with_dry q false))) t = Some th' /\
                 t_resp th = t_resp th' /\ t_resp th = Some (answer (persisted s) (v_lasttx s) q).
Proof. intros s t q R Q Hn. apply e3_answer_same; auto. apply e3_fresh_uid. exact R. Qed.

(* ---- the property as it quantifies: a preview at any position of any sequential history ------------------------- *)
Lemma e3_nodup_app_l : forall (A : Type) (l1 l2 : list A), NoDup (l1 ++ l2) -> NoDup l1.
Proof.
  induction l1 as [|a r IH]; intros l2 H; [constructor|].
  simpl in H. inversion H; subst. constructor.
  - intros Hin. apply H2. apply in_or_app. left. exact Hin.
  - eapply IH; eauto.
Qed.

Lemma submit_all_app : forall h1 h2 s, submit_all s (h1 ++ h2) = submit_all (submit_all s h1) h2.
Proof. induction h1 as [|[t q] r IH]; intros h2 s; simpl; [reflexivity|apply IH]. Qed.

Theorem e3_C14_sequential : forall h1 t q h2, NoDup (map fst (h1 ++ (t, q) :: h2)) -> rq_dry q = true ->
  observe (submit_all init (h1 ++ (t, q) :: h2)) = observe (submit_all init (h1 ++ h2)) /\
  (forall w, w <> t -> get_thread (threads (submit_all init (h1 ++ (t, q) :: h2))) w =
                       get_thread (threads (submit_all init (h1 ++ h2))) w) /\
  (exists th, get_thread (threads (submit_all init (h1 ++ [(t, q)]))) t = Some th /\
              t_resp th = Some (answer (persisted (submit_all init h1)) (v_lasttx (submit_all init h1)) q)).
Proof.
  intros h1 t q h2 Hnd Hd.
  rewrite map_app in Hnd. simpl in Hnd.
  assert (Hnd1 : NoDup (map fst h1)) by (eapply e3_nodup_app_l; exact Hnd).
  assert (Ht1 : ~ In t (map fst h1)).
  { intros Hin. apply NoDup_remove_2 in Hnd. apply Hnd. apply in_or_app. left. exact Hin. }
  assert (Ht2 : ~ In t (map fst h2)).
  { intros Hin. apply NoDup_remove_2 in Hnd. apply Hnd. apply in_or_app. right. exact Hin. }
  assert (R0 : reachable init) by (exists []; reflexivity).
  assert (Q0 : quiescent init) by (repeat split; intros; discriminate).
  destruct (e3_sequential_quiescent h1 init R0 Q0) as (R1 & Q1 & T1).
  { split; [exact Hnd1|]. intros; reflexivity. }
  assert (Hn : get_thread (threads (submit_all init h1)) t = None) by (rewrite T1 by exact Ht1; reflexivity).
  assert (Hh2 : Forall (fun p => fst p <> t) h2).
  { apply Forall_forall. intros p Hp E. apply Ht2. rewrite <- E. apply in_map. exact Hp. }
  rewrite !submit_all_app. simpl.
  destruct (e3_C14_later_history _ t q h2 R1 Q1 Hn Hd Hh2) as (H1 & H2).
  split; [exact H1|]. split; [exact H2|].
  destruct (e3_answer _ t q Q1 Hn (fun _ => e3_fresh_uid _ R1)) as (th & G & A). exists th. auto.
Qed.

(* executable quiescence, for concrete examples *)
Definition is_nil {A} (l : list A) : bool := match l with [] => true | _ => false end.
Definition quiescent_b (s : state) : bool :=
  is_nil (v_pending s) && match v_batch s with None => true | _ => false end && is_nil (v_iks s) && is_nil (v_refs s) &&
  is_nil (v_revs s) && is_nil (v_locks s) && is_nil (v_queue s) && match v_cs s with None => true | _ => false end &&
  forallb (fun p => match t_pc (snd p) with PFinished => true | _ => false end) (threads s).

Lemma quiescent_b_sound : forall s, quiescent_b s = true -> quiescent s.
Proof.
  intros s H. unfold quiescent_b in H. repeat (apply andb_true_iff in H; destruct H as [H ?]).
  unfold quiescent. repeat split;
    try (match goal with |- ?x = [] => destruct x; [reflexivity|discriminate] end);
    try (match goal with |- ?x = None => destruct x; [discriminate|reflexivity] end).
  intros t th Hg. apply e3_get_thread_in in Hg.
  match goal with H : forallb _ _ = true |- _ => rewrite forallb_forall in H; specialize (H _ Hg) end.
  cbn in *. destruct (t_pc th); try discriminate. reflexivity.
Qed.

(* the id a preview of a transaction reports, when it is not the replay of a stored outcome, is the next one *)
Lemma answer_fresh_txid : forall log ltx q x,
  (rq_ik q = 0%N \/ find_by_ik log (rq_ik q) = None) -> is_tx_kind (rq_kind q) = true ->
  answer log ltx q = ROk x -> x = Some (next_nat ltx).
Proof.
  intros log ltx q x Hik Htx. unfold answer, answer_run, answer_exec. rewrite Htx.
  assert (Hrun : (if N.eqb (rq_ik q) 0
                  then (if N.eqb (rq_ref q) 0
                        then if qcov log q then match eff_ps log q with [] => RErr ENoPostings | _ :: _ => ROk (Some (next_nat ltx)) end
                             else RErr EInsufficient
                        else if has_ref log (rq_ref q) then RErr EConflict
                             else if qcov log q then match eff_ps log q with [] => RErr ENoPostings | _ :: _ => ROk (Some (next_nat ltx)) end
                                  else RErr EInsufficient)
                  else match find_by_ik log (rq_ik q) with
                       | Some e => if is_outcome_of q e then ROk (e_txid e) else RErr EKeyReused
                       | None => (if N.eqb (rq_ref q) 0
                        then if qcov log q then match eff_ps log q with [] => RErr ENoPostings | _ :: _ => ROk (Some (next_nat ltx)) end
                             else RErr EInsufficient
                        else if has_ref log (rq_ref q) then RErr EConflict
                             else if qcov log q then match eff_ps log q with [] => RErr ENoPostings | _ :: _ => ROk (Some (next_nat ltx)) end
                                  else RErr EInsufficient)
                       end) = ROk x -> x = Some (next_nat ltx)).
  { destruct Hik as [H0|Hn].
    - rewrite H0. cbn [N.eqb].
      destruct (N.eqb (rq_ref q) 0); [|destruct (has_ref log (rq_ref q)); [discriminate|]];
      (destruct (qcov log q); [|discriminate]; destruct (eff_ps log q); [discriminate|]; intros E; inversion E; reflexivity).
    - rewrite Hn. destruct (N.eqb (rq_ik q) 0);
      (destruct (N.eqb (rq_ref q) 0); [|destruct (has_ref log (rq_ref q)); [discriminate|]];
      (destruct (qcov log q); [|discriminate]; destruct (eff_ps log q); [discriminate|]; intros E; inversion E; reflexivity)). }
  destruct (is_rev q); [|exact Hrun].
  destruct (find_tx log (rq_revert q)); [|discriminate].
  destruct (is_reverted log (rq_revert q)); [discriminate|exact Hrun].
Qed.

(* ---- cancellation: the sequential driver never cancels, so no request it runs gives up a lock wait ---------------- *)
Lemma answer_not_lock_cancelled : forall log ltx q, answer log ltx q <> RErr ELockCancelled.
Proof.
  intros log ltx q. unfold answer, answer_run, answer_exec.
  repeat match goal with |- context [match ?x with _ => _ end] => destruct x end; discriminate.
Qed.

Theorem e3_C14_never_lock_cancelled : forall s t q, reachable s -> quiescent s -> get_thread (threads s) t = None ->
  exists th, get_thread (threads (submit s t q)) t = Some th /\ t_resp th <> Some (RErr ELockCancelled).
Proof.
  intros s t q R Q Hn. destruct (e3_answer s t q Q Hn (fun _ => e3_fresh_uid s R)) as (th & G & A).
  exists th. split; [exact G|]. rewrite A. intros E. inversion E as [E']. exact (answer_not_lock_cancelled _ _ _ E').
Qed.

(* ---- store read failures: the sequential driver never fails a read ([drive] uses [resume] / [persist_ok] only) ---- *)
Lemma answer_not_read_failed : forall log ltx q,
  answer log ltx q <> RErr EStoreRead /\ answer log ltx q <> RErr ECompilationFailed.
Proof.
  intros log ltx q. unfold answer, answer_run, answer_exec.
  repeat match goal with |- context [match ?x with _ => _ end] => destruct x end; split; discriminate.
Qed.

Theorem e3_C14_never_read_failed : forall s t q, reachable s -> quiescent s -> get_thread (threads s) t = None ->
  exists th, get_thread (threads (submit s t q)) t = Some th /\
             t_resp th <> Some (RErr EStoreRead) /\ t_resp th <> Some (RErr ECompilationFailed).
Proof.
  intros s t q R Q Hn. destruct (e3_answer s t q Q Hn (fun _ => e3_fresh_uid s R)) as (th & G & A).
  exists th. split; [exact G|]. rewrite A. destruct (answer_not_read_failed (persisted s) (v_lasttx s) q) as [N1 N2].
  split; intros E; inversion E as [E']; [exact (N1 E')|exact (N2 E')].
Qed.

(* ---- graceful shutdown (AClose / ACloseOk): no event for an entry the close drops -------------------------------
   The E3 invariant says that the publisher of every event has FINISHED ([inv_ev_fin]); that the owner of an entry
   in flight (in the batch inside the store call, or queued in the batcher) has NOT -- it is parked at [PAppended] or
   [PWait] -- is a clause of the E2 invariant ([E2Inv.b_own]), which is used here rather than proved again. *)
Lemma e3_inflight_owner_waits : forall s, reachable s -> forall e, In e (E2Base.inflight s) ->
  exists th, get_thread (threads s) (e_owner e) = Some th /\ (t_pc th = PAppended \/ t_pc th = PWait).
Proof.
  intros s R e He. pose proof (E2Main.e2_inv_reachable s R) as I.
  assert (Ha : In e (E2Base.all_entries s)) by (unfold E2Base.all_entries; apply in_or_app; right; exact He).
  destruct (E2Inv.b_own s (E2Main.i_b s I) e Ha) as (a & Ga & _ & _ & Hw).
  destruct (Hw He) as (Hw1 & _).
  destruct (E2Base.e2_get_of_gth _ _ _ Ga) as (th & Hth & ->). exists th. split; [exact Hth|].
  cbn in Hw1. destruct (t_pc th); try discriminate Hw1; auto.
Qed.

(* neither the owner of a queued entry (dropped by the close) nor the owner of an entry of the batch in the store call
   (written or not, never acknowledged by the close) owns an event after the close *)
Theorem e3_close_no_event_for_inflight : forall s a s', a = AClose \/ a = ACloseOk -> reachable s ->
  step s a = Some s' ->
  forall e, In e (v_pending s) \/ (exists b, v_batch s = Some b /\ In e b) ->
  forall ev, In ev (published s') -> ev_tid ev <> e_owner e.
Proof.
  intros s a s' Ha R H e He ev Hin. rewrite (e3_close_publishes_nothing s a s' Ha H) in Hin.
  assert (Hi : In e (E2Base.inflight s)).
  { unfold E2Base.inflight. apply in_or_app. destruct He as [He|(b & Hb & He)]; [right; exact He|left].
    rewrite Hb. exact He. }
  destruct (e3_inflight_owner_waits s R e Hi) as (th & Hg & Hp).
  apply (e3_unfinished_no_event s (e_owner e) th R Hg); [|exact Hin].
  destruct Hp as [Hp|Hp]; rewrite Hp; discriminate.
Qed.

Theorem e3_no_event_for_dropped_entry : forall s a s', a = AClose \/ a = ACloseOk -> reachable s ->
  step s a = Some s' -> forall e, In e (v_pending s) -> forall ev, In ev (published s') -> ev_tid ev <> e_owner e.
Proof.
  intros s a s' Ha R H e He. apply (e3_close_no_event_for_inflight s a s' Ha R H). left. exact He.
Qed.
