(* E3 -- local variants of the model standing for the code BEFORE two repairs, used only for the
   [..._refuted_before_fix] witnesses of C14 / C16, and helpers to write concrete histories. *)
From FL Require Import Engine.Model Engine.Spec.
Open Scope Z_scope.

(* before bbc4775 "a dry run must not publish events": CreateTransaction / RevertTransaction called the monitor
   whatever Parameters.DryRun said *)
Definition resume_prepub (s : state) (t : tid) : option state :=
  match get_thread (threads s) t with
  | Some th =>
      if Nat.eqb (t_gen th) (gen s) && rq_dry (t_req th) then
        match t_pc th with
        | PUnlocked =>
            if covers (t_view th) (t_unb th) (t_postings th) then
              match t_postings th with
              | [] => resume s t
              | _ => Some (to_state (gen s) (finish t th (ROk (t_txid th)) true false true true (of_state s)))
              end
            else resume s t
        | _ => resume s t
        end
      else resume s t
  | None => resume s t
  end.

(* before 52579e0 "a dry run must not consume a transaction id": nextTXID ran before the dry-run branch *)
Definition resume_pretxid (s : state) (t : tid) : option state :=
  match get_thread (threads s) t with
  | Some th =>
      if Nat.eqb (t_gen th) (gen s) && rq_dry (t_req th) then
        match t_pc th with
        | PRan true =>
            match t_postings th with
            | [] => resume s t
            | _ =>
                let id := next_nat (v_lasttx s) in
                let th' := {| t_req := t_req th; t_pc := PTxid; t_postings := t_postings th; t_unb := t_unb th;
                              t_view := t_view th; t_entry := t_entry th; t_txid := Some id;
                              t_granted := t_granted th; t_resp := None; t_gen := t_gen th;
                              t_cancelled := t_cancelled th |} in
                let u1 := set_th t th' (of_state s) in
                Some (to_state (gen s)
                  {| u_persisted := u_persisted u1; u_last := u_last u1; u_lasttx := Some id; u_pending := u_pending u1;
                     u_batch := u_batch u1; u_iks := u_iks u1; u_refs := u_refs u1; u_revs := u_revs u1;
                     u_locks := u_locks u1; u_queue := u_queue u1; u_cs := u_cs u1; u_uid := u_uid u1;
                     u_threads := u_threads u1; u_published := u_published u1 |})
            end
        | _ => resume s t
        end
      else resume s t
  | None => resume s t
  end.

Definition step_with (rs : state -> tid -> option state) (s : state) (a : action) : option state :=
  match a with AResume t => rs s t | _ => step s a end.
Fixpoint run_with (rs : state -> tid -> option state) (s : state) (acts : list action) : option state :=
  match acts with
  | [] => Some s
  | a :: r => match step_with rs s a with Some s' => run_with rs s' r | None => None end
  end.

Lemma run_with_resume : forall acts s, run_with resume s acts = run s acts.
Proof.
  induction acts as [|a r IH]; intros s; simpl; [reflexivity|].
  assert (E : step_with resume s a = step s a) by (destruct a; reflexivity).
  rewrite E. destruct (step s a); [apply IH|reflexivity].
Qed.

(* ---- concrete histories ------------------------------------------------------------------------------------- *)
Definition mk_create (ik rf : N) (dry : bool) (ps : list posting) : request :=
  {| rq_kind := KCreate; rq_ik := ik; rq_ref := rf; rq_dry := dry; rq_postings := ps; rq_unb := false;
     rq_revert := O; rq_target_tx := None; rq_meta := 0%N |}.
Definition mk_revert (ik : N) (dry : bool) (id : nat) : request :=
  {| rq_kind := KRevert; rq_ik := ik; rq_ref := 0%N; rq_dry := dry; rq_postings := []; rq_unb := false;
     rq_revert := id; rq_target_tx := None; rq_meta := 0%N |}.
Definition mk_meta (ik : N) (dry : bool) (target : option nat) : request :=
  {| rq_kind := KSaveMeta; rq_ik := ik; rq_ref := 0%N; rq_dry := dry; rq_postings := []; rq_unb := false;
     rq_revert := O; rq_target_tx := target; rq_meta := 0%N |}.

(* the action list the sequential driver [Spec.drive] performs *)
Fixpoint drive_acts (fuel : nat) (s : state) (t : tid) : list action :=
  match fuel with
  | O => []
  | S k =>
      match get_thread (threads s) t with
      | Some th =>
          match t_pc th with
          | PFinished => []
          | _ => match resume s t with
                 | Some s' => AResume t :: drive_acts k s' t
                 | None => match persist_ok s with Some s' => APersistOk :: drive_acts k s' t | None => [] end
                 end
          end
      | None => []
      end
  end.
Definition submit_acts (s : state) (t : tid) (rq : request) : list action :=
  match start s t rq with Some s' => AStart t rq :: drive_acts 64 s' t | None => [] end.
Fixpoint submit_all_acts (s : state) (l : list (tid * request)) : list action :=
  match l with [] => [] | (t, rq) :: r => submit_acts s t rq ++ submit_all_acts (submit s t rq) r end.
