(* M2 / C02 — basic lemmas for the serial-validity proof: views and [covers], balances, [serially_valid_from],
   the thread table, the lock table ([compatible], [recheck]). Prefix e4_. *)
From FL Require Import Engine.Model Engine.Spec.
From Coq Require Import Lia.
Open Scope Z_scope.

(* ---- views and covers ------------------------------------------------------------------------------------- *)
Lemma e4_view_get_add v s d a :
  view_get (view_add v s d) a = if N.eqb a s then view_get v s + d else view_get v a.
Proof. unfold view_add; simpl. destruct (N.eqb a s); reflexivity. Qed.

Lemma e4_view_add_agree v v' s d a :
  view_get v a = view_get v' a -> view_get (view_add v s d) a = view_get (view_add v' s d) a.
Proof.
  intros H. rewrite !e4_view_get_add. destruct (N.eqb a s) eqn:E; auto.
  apply N.eqb_eq in E; subst. now rewrite H.
Qed.

Lemma e4_view_get_map (f : account -> Z) l a :
  In a l -> view_get (map (fun x => (x, f x)) l) a = f a.
Proof.
  induction l as [|b r IH]; simpl; intros H; [tauto|].
  destruct (N.eqb a b) eqn:E.
  - apply N.eqb_eq in E; now subst.
  - destruct H as [H|H]; [subst; rewrite N.eqb_refl in E; discriminate | auto].
Qed.

Lemma e4_in_writes_cons a p r : In a (writes_of r) -> In a (writes_of (p :: r)).
Proof. unfold writes_of, non_world; simpl. destruct (negb (N.eqb (fst (fst p)) world)); simpl; auto. Qed.

(* [covers] reads the view only at the non-world sources of the postings *)
Lemma e4_covers_ext : forall ps unb v v',
  (forall a, In a (writes_of ps) -> view_get v a = view_get v' a) -> covers v unb ps = covers v' unb ps.
Proof.
  induction ps as [|[[s d] amt] r IH]; intros unb v v' H; simpl; auto.
  f_equal.
  - destruct (N.eqb s world) eqn:Es; simpl; auto. destruct unb; simpl; auto.
    rewrite (H s); auto. unfold writes_of, non_world; simpl. rewrite Es; simpl; auto.
  - apply IH. intros a Ha. apply e4_view_add_agree, e4_view_add_agree, H.
    now apply e4_in_writes_cons.
Qed.

Lemma e4_in_reads_of a p ps :
  In p ps -> (fst (fst p) = a \/ snd (fst p) = a) -> a <> world -> In a (reads_of ps).
Proof.
  intros Hp Ha Hw. unfold reads_of, non_world. apply filter_In. split.
  - apply in_flat_map. exists p; split; auto. simpl. tauto.
  - apply negb_true_iff. apply N.eqb_neq. exact Hw.
Qed.

Lemma e4_writes_non_world a ps : In a (writes_of ps) -> a <> world.
Proof.
  unfold writes_of, non_world. intros H. apply filter_In in H. destruct H as [_ H].
  apply negb_true_iff in H. now apply N.eqb_neq in H.
Qed.

Lemma e4_writes_in_reads a ps : In a (writes_of ps) -> In a (reads_of ps).
Proof.
  intros H. pose proof (e4_writes_non_world _ _ H) as Hw.
  unfold writes_of, non_world in H. apply filter_In in H. destruct H as [H _].
  apply in_map_iff in H. destruct H as [p [E Hp]].
  eapply e4_in_reads_of; eauto.
Qed.

Lemma e4_view_of_get log ps a : In a (reads_of ps) -> view_get (view_of log ps) a = balance_of log a.
Proof. intros H. unfold view_of. now apply (e4_view_get_map (balance_of log)). Qed.

(* ---- balances --------------------------------------------------------------------------------------------- *)
Definition e4_entry_delta (a : account) (e : entry) : Z :=
  fold_left (fun acc p => acc + delta a p) (e_postings e) 0.

Lemma e4_fold_delta_acc a ps : forall acc,
  fold_left (fun acc p => acc + delta a p) ps acc = acc + fold_left (fun acc p => acc + delta a p) ps 0.
Proof.
  induction ps as [|p r IH]; intros acc; simpl; [lia|].
  rewrite IH. rewrite (IH (delta a p)). lia.
Qed.

Lemma e4_balance_snoc l e a : balance_of (l ++ [e]) a = balance_of l a + e4_entry_delta a e.
Proof. unfold balance_of, e4_entry_delta. rewrite fold_left_app; simpl. apply e4_fold_delta_acc. Qed.

Lemma e4_balance_untouched a : forall l' l,
  (forall e, In e l' -> e4_entry_delta a e = 0) -> balance_of (l ++ l') a = balance_of l a.
Proof.
  induction l' as [|e r IH]; intros l H; [now rewrite app_nil_r|].
  change (l ++ e :: r) with (l ++ [e] ++ r). rewrite app_assoc, IH.
  - rewrite e4_balance_snoc, (H e); simpl; auto; lia.
  - intros x Hx. apply H; simpl; auto.
Qed.

Lemma e4_delta_untouched a ps : a <> world -> ~ In a (reads_of ps) ->
  fold_left (fun acc p => acc + delta a p) ps 0 = 0.
Proof.
  intros Hw. induction ps as [|p r IH]; intros H; simpl; auto.
  rewrite e4_fold_delta_acc, IH.
  - destruct p as [[s d] amt]. unfold delta.
    destruct (N.eqb d a) eqn:Ed.
    { exfalso; apply H. apply N.eqb_eq in Ed. eapply e4_in_reads_of; [left; reflexivity| simpl; auto | auto]. }
    destruct (N.eqb s a) eqn:Es.
    { exfalso; apply H. apply N.eqb_eq in Es. eapply e4_in_reads_of; [left; reflexivity| simpl; auto | auto]. }
    lia.
  - intros Hin. apply H. unfold reads_of, non_world in *. apply filter_In in Hin. destruct Hin as [Hin Hn].
    apply filter_In; split; auto. simpl. auto.
Qed.

Lemma e4_entry_untouched a e ps : e_postings e = ps \/ e_postings e = [] -> a <> world -> ~ In a (reads_of ps) ->
  e4_entry_delta a e = 0.
Proof.
  intros [H|H] Hw Hn; unfold e4_entry_delta; rewrite H; [now apply e4_delta_untouched | reflexivity].
Qed.

(* ---- serial validity -------------------------------------------------------------------------------------- *)
Lemma e4_sv_from_app : forall l1 l2 bf,
  serially_valid_from bf (l1 ++ l2) <-> serially_valid_from bf l1 /\ serially_valid_from (bf ++ l1) l2.
Proof.
  induction l1 as [|e r IH]; intros l2 bf; simpl.
  - rewrite app_nil_r. tauto.
  - rewrite IH, <- app_assoc. simpl. tauto.
Qed.

Lemma e4_sv_snoc l e :
  serially_valid (l ++ [e]) <->
  serially_valid l /\ covers (view_of l (e_postings e)) (e_unb e) (e_postings e) = true.
Proof. unfold serially_valid. rewrite e4_sv_from_app. simpl. tauto. Qed.

Lemma e4_sv_from_split bf : forall b2 b1,
  (forall l1 e l2, b1 ++ b2 = l1 ++ e :: l2 -> (length b1 <= length l1)%nat ->
     covers (view_of (bf ++ l1) (e_postings e)) (e_unb e) (e_postings e) = true) ->
  serially_valid_from (bf ++ b1) b2.
Proof.
  induction b2 as [|e r IH]; intros b1 H; simpl; auto. split.
  - apply (H b1 e r); auto.
  - rewrite <- app_assoc. apply IH. intros l1 e' l2 E L. apply (H l1 e' l2).
    + rewrite <- E, <- app_assoc. reflexivity.
    + rewrite app_length in L; simpl in L; lia.
Qed.

Lemma e4_sv_at l1 e l2 : serially_valid (l1 ++ e :: l2) ->
  covers (view_of l1 (e_postings e)) (e_unb e) (e_postings e) = true.
Proof. unfold serially_valid. rewrite e4_sv_from_app. simpl. tauto. Qed.

(* ---- thread table ----------------------------------------------------------------------------------------- *)
Lemma e4_get_set_same l t th : get_thread (set_thread l t th) t = Some th.
Proof.
  induction l as [|[u x] r IH]; simpl.
  - now rewrite Nat.eqb_refl.
  - destruct (Nat.eqb t u) eqn:E; simpl; [now rewrite Nat.eqb_refl | now rewrite E].
Qed.

Lemma e4_get_set_other l t t' th : t <> t' -> get_thread (set_thread l t th) t' = get_thread l t'.
Proof.
  intros Hn. induction l as [|[u x] r IH]; simpl.
  - destruct (Nat.eqb t' t) eqn:E; auto. apply Nat.eqb_eq in E; congruence.
  - destruct (Nat.eqb t u) eqn:E; simpl.
    + apply Nat.eqb_eq in E; subst u. destruct (Nat.eqb t' t) eqn:E'; auto. apply Nat.eqb_eq in E'; congruence.
    + destruct (Nat.eqb t' u); auto.
Qed.

Lemma e4_get_map (f : thread -> thread) l t :
  get_thread (map (fun p => (fst p, f (snd p))) l) t = option_map f (get_thread l t).
Proof. induction l as [|[u x] r IH]; simpl; auto. destruct (Nat.eqb t u); auto. Qed.

(* ---- lock table ------------------------------------------------------------------------------------------- *)
Definition e4_pairwise (locks : list (tid * list account * list account)) : Prop :=
  forall h h', In h locks -> In h' locks -> fst (fst h) <> fst (fst h') ->
    forall a, In a (snd h) -> ~ In a (snd (fst h')) /\ ~ In a (snd h').

Lemma e4_mem_acc_false a l : mem_acc a l = false -> ~ In a l.
Proof.
  unfold mem_acc. intros H Hin.
  assert (existsb (N.eqb a) l = true) by (apply existsb_exists; exists a; split; auto; apply N.eqb_refl).
  congruence.
Qed.

Lemma e4_compatible_spec rs ws locks : compatible rs ws locks = true ->
  forall h, In h locks ->
    (forall a, In a rs -> ~ In a (snd h)) /\ (forall a, In a ws -> ~ In a (snd (fst h)) /\ ~ In a (snd h)).
Proof.
  unfold compatible. intros H h Hh. apply andb_true_iff in H. destruct H as [H1 H2].
  rewrite forallb_forall in H1, H2. split.
  - intros a Ha Hin. specialize (H1 a Ha). apply negb_true_iff in H1. apply e4_mem_acc_false in H1.
    apply H1. unfold held_writes. apply in_flat_map. exists h; auto.
  - intros a Ha. specialize (H2 a Ha). apply andb_true_iff in H2. destruct H2 as [A B].
    apply negb_true_iff in A, B. apply e4_mem_acc_false in A, B.
    split; intro Hin; [apply A; unfold held_reads | apply B; unfold held_writes]; apply in_flat_map; exists h; auto.
Qed.

Lemma e4_pairwise_add locks t rs ws :
  e4_pairwise locks -> compatible rs ws locks = true -> e4_pairwise (locks ++ [(t, rs, ws)]).
Proof.
  intros P C h h' Hh Hh' Nq a Ha.
  apply in_app_or in Hh. apply in_app_or in Hh'.
  destruct Hh as [Hh|[Hh|[]]]; destruct Hh' as [Hh'|[Hh'|[]]].
  - exact (P h h' Hh Hh' Nq a Ha).
  - subst h'; simpl. destruct (e4_compatible_spec _ _ _ C h Hh) as [R W]. split; intro Hin.
    + apply (R a Hin Ha).
    + apply (W a Hin). exact Ha.
  - subst h; simpl in Ha. destruct (e4_compatible_spec _ _ _ C h' Hh') as [R W]. apply (W a Ha).
  - subst h h'. congruence.
Qed.

Lemma e4_pairwise_incl l l' : incl l' l -> e4_pairwise l -> e4_pairwise l'.
Proof. intros I P h h' Hh Hh'. apply P; auto. Qed.

Definition e4_grant (th : thread) : thread :=
  {| t_req := t_req th; t_pc := t_pc th; t_postings := t_postings th; t_unb := t_unb th;
     t_view := t_view th; t_entry := t_entry th; t_txid := t_txid th; t_granted := true;
     t_resp := t_resp th; t_gen := t_gen th; t_cancelled := t_cancelled th |}.

(* the FIFO pass: the table stays pairwise compatible and only grows; a thread is left alone or gets the
   grant flag together with its entry in the table *)
Lemma e4_recheck_spec : forall q ths locks q' ths' locks',
  recheck q ths locks = (q', ths', locks') -> e4_pairwise locks ->
  e4_pairwise locks' /\ incl locks locks' /\
  (forall x th, get_thread ths x = Some th ->
     get_thread ths' x = Some th \/
     (get_thread ths' x = Some (e4_grant th) /\
      In (x, reads_of (t_postings th), writes_of (t_postings th)) locks')) /\
  (forall x, get_thread ths x = None -> get_thread ths' x = None).
Proof.
  induction q as [|w rest IH]; intros ths locks q' ths' locks' H P; simpl in H.
  - inversion H; subst. split; auto. split; [apply incl_refl|]. split; auto.
  - destruct (get_thread ths w) as [thw|] eqn:Ew.
    + destruct (compatible (reads_of (t_postings thw)) (writes_of (t_postings thw)) locks) eqn:Ec.
      * apply IH in H; [|now apply e4_pairwise_add].
        destruct H as (P' & I & F & Nn). split; auto.
        assert (I' : incl locks locks') by (eapply incl_tran; [|exact I]; apply incl_appl, incl_refl).
        split; auto. split.
        -- intros x th Hx. destruct (Nat.eq_dec w x) as [->|Hwx].
           ++ rewrite Hx in Ew; inversion Ew; subst thw.
              destruct (F x _ (e4_get_set_same ths x _)) as [F1|[F1 F2]].
              ** right. split; [exact F1|]. apply I. apply in_or_app. right. left. reflexivity.
              ** right. split; [exact F1 | exact F2].
           ++ apply F. rewrite e4_get_set_other; auto.
        -- intros x Hx. apply Nn. rewrite e4_get_set_other; auto. intro; subst; congruence.
      * destruct (recheck rest ths locks) as [[q1 ths1] locks1] eqn:Er. inversion H; subst.
        eapply IH in Er; eauto.
    + eapply IH; eauto.
Qed.

(* ---- uids --------------------------------------------------------------------------------------------------- *)
Lemma e4_nodup_app_neq {A B} (f : A -> B) l1 l2 x y :
  NoDup (map f (l1 ++ l2)) -> In x l1 -> In y l2 -> f x <> f y.
Proof.
  induction l1 as [|z r IH]; simpl; intros N Hx Hy; [tauto|].
  inversion N as [|? ? Hn N']; subst. destruct Hx as [->|Hx]; [|auto].
  intro E. apply Hn. rewrite E. apply in_map. apply in_or_app. auto.
Qed.

Lemma e4_entry_persisted_in log e : In e log -> entry_persisted log e = true.
Proof. intros H. unfold entry_persisted. apply existsb_exists. exists e; split; auto. apply Nat.eqb_refl. Qed.

Lemma e4_entry_persisted_uid log e : entry_persisted log e = true -> In (e_uid e) (map e_uid log).
Proof.
  unfold entry_persisted. intros H. apply existsb_exists in H. destruct H as [x [Hx E]].
  apply Nat.eqb_eq in E. rewrite <- E. now apply in_map.
Qed.

Lemma e4_entry_persisted_app l1 l2 e : entry_persisted (l1 ++ l2) e = false -> entry_persisted l1 e = false.
Proof. unfold entry_persisted. rewrite existsb_app. intros H. apply orb_false_iff in H. tauto. Qed.
