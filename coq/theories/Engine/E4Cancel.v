(* M2 / C02 — cancellation of a request's context while it waits for its account locks ([ACancel],
   [AResumeCancelled]): what the waiter that gives up does to the lock table and the queue.
   A second, independent invariant [e4_QInv] (lock-queue hygiene: the queue has no duplicates, every queued tid is a
   thread parked at [PEnqueued] that has NOT been granted, a thread that has not reached the locker has no grant) is
   proved for every reachable state; [e4_Inv] (E4Inv.v) does not constrain the queue and is left as it was.
   [e4_QInv] is also preserved by a transient store read failure ([AResumeReadFail], [e4_q_resume_read_fail]); the
   theorems about the locks of the request whose read fails are in E4ReadFail.v. *)
From FL Require Import Engine.Model Engine.Spec Engine.E4Base Engine.E4Inv Engine.E4Steps Engine.E4Resume Engine.E4Cor.
From Coq Require Import Lia.
Open Scope Z_scope.

Record e4_QInv (s : state) : Prop := {
  q_nodup : NoDup (v_queue s);
  q_wait : forall x, In x (v_queue s) ->
           exists th, get_thread (threads s) x = Some th /\ t_pc th = PEnqueued /\ t_granted th = false;
  q_pre : forall t th, get_thread (threads s) t = Some th -> e4_prelock_pc (t_pc th) = true -> t_granted th = false
}.

(* ---- generic preservation ------------------------------------------------------------------------------------- *)
Lemma e4_q_upd s s' t th' :
  e4_QInv s -> threads s' = set_thread (threads s) t th' -> v_queue s' = v_queue s ->
  (In t (v_queue s) -> t_pc th' = PEnqueued /\ t_granted th' = false) ->
  (e4_prelock_pc (t_pc th') = true -> t_granted th' = false) -> e4_QInv s'.
Proof.
  intros [Qn Qw Qp] Et Eq Hin Hpre. constructor.
  - now rewrite Eq.
  - rewrite Eq, Et. intros x Hx. destruct (Nat.eq_dec t x) as [<-|Hn].
    + exists th'. rewrite e4_get_set_same. destruct (Hin Hx); auto.
    + rewrite e4_get_set_other; auto.
  - rewrite Et. intros x thx Hx. destruct (Nat.eq_dec t x) as [<-|Hn].
    + rewrite e4_get_set_same in Hx. inversion Hx; subst; auto.
    + rewrite e4_get_set_other in Hx; eauto.
Qed.

Lemma e4_q_notin s t th :
  e4_QInv s -> get_thread (threads s) t = Some th -> t_pc th <> PEnqueued \/ t_granted th = true ->
  ~ In t (v_queue s).
Proof.
  intros HQ Hth H Hin. destruct (q_wait _ HQ t Hin) as (th0 & E & Hp & Hg).
  rewrite Hth in E. inversion E; subst th0. destruct H; congruence.
Qed.

Lemma e4_q_notin_none s t : e4_QInv s -> get_thread (threads s) t = None -> ~ In t (v_queue s).
Proof. intros HQ Hth Hin. destruct (q_wait _ HQ t Hin) as (th0 & E & _). congruence. Qed.

(* ---- enter_run / enter_exec ------------------------------------------------------------------------------------- *)
Definition e4_q_shape (t : tid) (th : thread) (u u' : upd) : Prop :=
  exists th', u_threads u' = set_thread (u_threads u) t th' /\ u_queue u' = u_queue u /\
              t_granted th' = t_granted th /\ t_pc th' <> PEnqueued.

Lemma e4_enter_exec_q t th u : e4_q_shape t th u (enter_exec t th u).
Proof.
  unfold enter_exec, e4_q_shape.
  destruct (is_tx_kind (rq_kind (t_req th))).
  - destruct (N.eqb (rq_ref (t_req th)) 0); [|destruct (mem_N (rq_ref (t_req th)) (u_refs u))];
      eexists; repeat split; try reflexivity; discriminate.
  - destruct (rq_target_tx (t_req th)) as [id|]; [destruct (find_tx (u_persisted u) id)|];
      eexists; repeat split; try reflexivity; cbn; try discriminate; destruct (rq_dry (t_req th)); discriminate.
Qed.

Lemma e4_enter_run_q t th u : e4_q_shape t th u (enter_run t th u).
Proof.
  unfold enter_run. destruct (N.eqb (rq_ik (t_req th)) 0); [apply e4_enter_exec_q|].
  unfold e4_q_shape. destruct (mem_N (rq_ik (t_req th)) (u_iks u)); eexists; repeat split; try reflexivity; discriminate.
Qed.

Lemma e4_q_enter s g t th u' :
  e4_QInv s -> ~ In t (v_queue s) -> e4_q_shape t th (of_state s) u' -> t_granted th = false ->
  e4_QInv (to_state g u').
Proof.
  intros HQ Hni (th' & Et & Eq & Eg & Hp) Hg.
  apply (e4_q_upd s _ t th' HQ); auto.
  - intros; contradiction.
  - intros _. congruence.
Qed.

(* ---- the FIFO pass -------------------------------------------------------------------------------------------- *)
(* the pass keeps a sub-list of the queue, leaves alone every thread that is not queued or stays queued, and never
   moves a program counter *)
Lemma e4_recheck_q : forall q ths locks q' ths' locks',
  recheck q ths locks = (q', ths', locks') -> NoDup q ->
  NoDup q' /\ incl q' q /\
  (forall x, ~ In x q \/ In x q' -> get_thread ths' x = get_thread ths x) /\
  (forall x th', get_thread ths' x = Some th' -> exists th, get_thread ths x = Some th /\ t_pc th' = t_pc th).
Proof.
  induction q as [|w rest IH]; intros ths locks q' ths' locks' H Nd; simpl in H.
  - inversion H; subst. repeat split; auto; [apply incl_refl | eauto].
  - inversion Nd as [|? ? Hw Nr]; subst.
    destruct (get_thread ths w) as [thw|] eqn:Ew.
    + destruct (compatible (reads_of (t_postings thw)) (writes_of (t_postings thw)) locks).
      * destruct (IH _ _ _ _ _ H Nr) as (N' & I & S & P). split; [exact N'|]. split; [apply incl_tl; exact I|]. split.
        -- intros x Hx.
           assert (Hxw : w <> x).
           { intros ->. destruct Hx as [Hx|Hx]; [apply Hx; left; reflexivity | apply Hw, I, Hx]. }
           rewrite S; [now apply e4_get_set_other|]. destruct Hx as [Hx|Hx]; [left; intro; apply Hx; right; auto | auto].
        -- intros x th' Hx. destruct (P x th' Hx) as (th0 & E0 & Ep).
           destruct (Nat.eq_dec w x) as [<-|Hn].
           ++ rewrite e4_get_set_same in E0. inversion E0; subst th0. exists thw. split; auto.
           ++ rewrite e4_get_set_other in E0; eauto.
      * destruct (recheck rest ths locks) as [[q1 ths1] locks1] eqn:Er. inversion H; subst.
        destruct (IH _ _ _ _ _ Er Nr) as (N' & I & S & P).
        split; [constructor; auto|]. split; [intros x [->|Hx]; [left; reflexivity | right; apply I, Hx]|].
        split; [|exact P].
        intros x Hx. apply S. destruct Hx as [Hx|[<-|Hx]]; auto. left; intro; apply Hx; right; auto.
    + destruct (IH _ _ _ _ _ H Nr) as (N' & I & S & P). split; [exact N'|]. split; [apply incl_tl; exact I|].
      split; [|exact P]. intros x Hx. apply S. destruct Hx as [Hx|Hx]; auto. left; intro; apply Hx; right; auto.
Qed.

(* the pass adds table entries only for tids that are in the queue *)
Lemma e4_recheck_locks : forall q ths locks q' ths' locks',
  recheck q ths locks = (q', ths', locks') -> forall h, In h locks' -> In h locks \/ In (fst (fst h)) q.
Proof.
  induction q as [|w rest IH]; intros ths locks q' ths' locks' H h Hh; simpl in H.
  - inversion H; subst; auto.
  - destruct (get_thread ths w) as [thw|].
    + destruct (compatible (reads_of (t_postings thw)) (writes_of (t_postings thw)) locks).
      * destruct (IH _ _ _ _ _ H h Hh) as [Hl|Hl]; [|right; right; exact Hl].
        apply in_app_or in Hl. destruct Hl as [Hl|[<-|[]]]; [left; exact Hl | right; left; reflexivity].
      * destruct (recheck rest ths locks) as [[q1 ths1] locks1] eqn:Er. inversion H; subst.
        destruct (IH _ _ _ _ _ Er h Hh); auto. right; right; auto.
    + destruct (IH _ _ _ _ _ H h Hh); auto. right; right; auto.
Qed.

Lemma e4_q_unlock s s' locks q' ths' locks' :
  e4_QInv s -> recheck (v_queue s) (threads s) locks = (q', ths', locks') ->
  v_queue s' = q' -> threads s' = ths' -> e4_QInv s'.
Proof.
  intros HQ Hr Eq Et. pose proof HQ as [Qn Qw Qp].
  destruct (e4_recheck_q _ _ _ _ _ _ Hr Qn) as (N' & I & S & P).
  constructor.
  - now rewrite Eq.
  - rewrite Eq, Et. intros x Hx. rewrite S by auto. apply Qw, I, Hx.
  - rewrite Et. intros x th' Hx Hpre.
    destruct (in_dec Nat.eq_dec x (v_queue s)) as [Hin|Hnin].
    + destruct (P x th' Hx) as (th0 & E0 & Ep). destruct (Qw x Hin) as (th1 & E1 & Hp1 & _).
      rewrite E0 in E1. inversion E1; subst th1. rewrite Ep, Hp1 in Hpre. discriminate.
    + rewrite S in Hx by auto. eauto.
Qed.

Lemma e4_q_unlock_step s t th :
  e4_QInv s -> get_thread (threads s) t = Some th -> ~ In t (v_queue s) ->
  e4_QInv (to_state (gen s) (unlock t (release_ik (t_req th) (set_th t (with_pc th PUnlocked) (of_state s))))).
Proof.
  intros HQ Hth Hni.
  set (s1 := to_state (gen s) (set_th t (with_pc th PUnlocked) (of_state s))).
  assert (HQ1 : e4_QInv s1).
  { apply (e4_q_upd s s1 t (with_pc th PUnlocked) HQ); try reflexivity; [intros; contradiction | discriminate]. }
  unfold unlock. cbn [release_ik set_th of_state u_queue u_threads u_locks u_persisted u_last u_lasttx u_pending
                      u_batch u_iks u_refs u_revs u_cs u_uid u_published].
  destruct (recheck (v_queue s) (set_thread (threads s) t (with_pc th PUnlocked))
              (filter (fun h => negb (Nat.eqb (fst (fst h)) t)) (v_locks s))) as [[q' ths'] locks'] eqn:Hr.
  eapply (e4_q_unlock s1 _ _ q' ths' locks' HQ1 Hr); reflexivity.
Qed.

(* ---- the transitions ---------------------------------------------------------------------------------------------- *)
Lemma e4_q_start s t rq s' : e4_QInv s -> start s t rq = Some s' -> e4_QInv s'.
Proof.
  intros HQ H. unfold start in H. destruct (get_thread (threads s) t) eqn:Hth; [discriminate|].
  pose proof (e4_q_notin_none _ _ HQ Hth) as Hni.
  cbv zeta in H. revert H.
  destruct (rq_kind rq) eqn:Ek; intros H; cbv beta iota in H;
    try (injection H as <-; apply (e4_q_enter s (gen s) t _ _ HQ Hni (e4_enter_run_q _ _ _)); reflexivity).
  destruct (mem_nat (rq_revert rq) (v_revs s)); injection H as <-;
    (eapply e4_q_upd with (t := t); [exact HQ | reflexivity | reflexivity | intros; contradiction | reflexivity]).
Qed.

(* a step of thread [t] (not queued) that rewrites its own thread and leaves the queue alone *)
Ltac e4_q_own t HQ Hth Hpc Hni :=
  eapply e4_q_upd with (t := t); [exact HQ | reflexivity | reflexivity | intros X; exfalso; exact (Hni X) | ];
  e4_thr; first [ intros X; discriminate X
                | intros _; apply (q_pre _ HQ _ _ Hth); rewrite Hpc; reflexivity ].

Lemma e4_q_resume s t s' : e4_QInv s -> resume s t = Some s' -> e4_QInv s'.
Proof.
  intros HQ H. unfold resume in H.
  destruct (get_thread (threads s) t) as [th|] eqn:Hth; [|discriminate].
  destruct (negb (Nat.eqb (t_gen th) (gen s))); [discriminate|].
  assert (Hni0 : t_pc th <> PEnqueued -> ~ In t (v_queue s)) by (intros X; eapply e4_q_notin; eauto).
  cbv zeta in H. revert H.
  destruct (t_pc th) eqn:Hpc; intros H; cbv beta iota in H; try discriminate;
    try (assert (Hni : ~ In t (v_queue s)) by (apply Hni0; discriminate)).
  - (* PRevBusy *) injection H as <-. e4_q_own t HQ Hth Hpc Hni.
  - (* PRevTaken *) injection H as <-. e4_q_own t HQ Hth Hpc Hni.
  - (* PRevRead *)
    destruct (negb found); [injection H as <-; e4_q_own t HQ Hth Hpc Hni|].
    destruct reverted; [injection H as <-; e4_q_own t HQ Hth Hpc Hni|].
    injection H as <-.
    apply (e4_q_enter s (gen s) t _ _ HQ Hni (e4_enter_run_q _ _ _)). reflexivity.
  - (* PIkBusy *) injection H as <-. e4_q_own t HQ Hth Hpc Hni.
  - (* PIkTaken *) injection H as <-. e4_q_own t HQ Hth Hpc Hni.
  - (* PIkLookup *)
    destruct hit as [e|].
    + (* replay of the request's own outcome / refusal of a reused key: a [finish] of an unqueued thread *)
      destruct (is_outcome_of (t_req th) e); injection H as <-; e4_q_own t HQ Hth Hpc Hni.
    + injection H as <-.
      apply (e4_q_enter s (gen s) t _ _ HQ Hni (e4_enter_exec_q _ _ _)).
      apply (q_pre _ HQ _ _ Hth). rewrite Hpc; reflexivity.
  - (* PRefBusy *) injection H as <-. e4_q_own t HQ Hth Hpc Hni.
  - (* PRefTaken *) injection H as <-. e4_q_own t HQ Hth Hpc Hni.
  - (* PRefLookup *) destruct hit; injection H as <-; e4_q_own t HQ Hth Hpc Hni.
  - (* PResolved *)
    destruct (compatible (reads_of (t_postings th)) (writes_of (t_postings th)) (v_locks s));
      injection H as <-.
    + e4_q_own t HQ Hth Hpc Hni.
    + (* the intent is queued: not granted so far *)
      assert (Hg : t_granted th = false) by (apply (q_pre _ HQ _ _ Hth); rewrite Hpc; reflexivity).
      pose proof HQ as [Qn Qw Qp]. constructor; e4_red.
      * apply e4_nodup_snoc; auto.
      * intros x Hx. apply in_app_or in Hx. destruct Hx as [Hx|[<-|[]]].
        -- assert (t <> x) by (intros ->; auto). rewrite e4_get_set_other; auto.
        -- rewrite e4_get_set_same. eexists; split; [reflexivity|]. split; [reflexivity | exact Hg].
      * intros x thx Hx. destruct (Nat.eq_dec t x) as [<-|Hn].
        -- rewrite e4_get_set_same in Hx. inversion Hx; subst thx. discriminate.
        -- rewrite e4_get_set_other in Hx; eauto.
  - (* PEnqueued *)
    destruct (t_granted th) eqn:Eg; [|discriminate]. injection H as <-.
    assert (Hni : ~ In t (v_queue s)) by (eapply e4_q_notin; eauto).
    e4_q_own t HQ Hth Hpc Hni.
  - (* PLocked *) injection H as <-. e4_q_own t HQ Hth Hpc Hni.
  - (* PBalances *) injection H as <-. e4_q_own t HQ Hth Hpc Hni.
  - (* PRan *)
    destruct ok.
    + assert (Hcase : t_postings th = [] \/ exists p0 r0, t_postings th = p0 :: r0)
        by (destruct (t_postings th); eauto).
      destruct Hcase as [E|(p0 & r0 & E)]; rewrite E in H.
      * injection H as <-. now apply e4_q_unlock_step.
      * destruct (rq_dry (t_req th)); injection H as <-; e4_q_own t HQ Hth Hpc Hni.
    + injection H as <-. now apply e4_q_unlock_step.
  - (* PAppendEnter *)
    destruct (v_cs s); [discriminate|].
    destruct (is_tx_kind (rq_kind (t_req th))); injection H as <-; e4_q_own t HQ Hth Hpc Hni.
  - (* PTxid *) destruct (rq_dry (t_req th)); injection H as <-; e4_q_own t HQ Hth Hpc Hni.
  - (* PChained *) destruct (t_entry th); [|discriminate]. injection H as <-. e4_q_own t HQ Hth Hpc Hni.
  - (* PAppended *) injection H as <-. e4_q_own t HQ Hth Hpc Hni.
  - (* PWait *)
    destruct (rq_dry (t_req th)).
    + injection H as <-. e4_q_own t HQ Hth Hpc Hni.
    + destruct (t_entry th) as [e0|]; [|discriminate].
      destruct (entry_persisted (persisted s) e0); [|discriminate]. injection H as <-. e4_q_own t HQ Hth Hpc Hni.
  - (* PDone *)
    destruct (is_tx_kind (rq_kind (t_req th))); injection H as <-.
    + now apply e4_q_unlock_step.
    + e4_q_own t HQ Hth Hpc Hni.
  - (* PUnlocked *)
    destruct (covers (t_view th) (t_unb th) (t_postings th)).
    + assert (Hcase : t_postings th = [] \/ exists p0 r0, t_postings th = p0 :: r0)
        by (destruct (t_postings th); eauto).
      destruct Hcase as [E|(p0 & r0 & E)]; rewrite E in H; injection H as <-; e4_q_own t HQ Hth Hpc Hni.
    + injection H as <-; e4_q_own t HQ Hth Hpc Hni.
Qed.

Lemma e4_q_crash s : e4_QInv (crash s).
Proof.
  constructor.
  - constructor.
  - intros x [].
  - intros t th' H. rewrite e4_crash_threads, e4_get_map in H.
    destruct (get_thread (threads s) t) as [th|]; [|discriminate]. simpl in H. inversion H; subst th'.
    rewrite e4_kill_pc. discriminate.
Qed.

Lemma e4_q_cancel s t s' : e4_QInv s -> cancel s t = Some s' -> e4_QInv s'.
Proof.
  intros HQ H. unfold cancel in H.
  destruct (get_thread (threads s) t) as [th|] eqn:Hth; [|discriminate].
  destruct (negb (Nat.eqb (t_gen th) (gen s))); [discriminate|].
  destruct (pc_finished (t_pc th)); [discriminate|]. injection H as <-.
  eapply e4_q_upd with (t := t); [exact HQ | reflexivity | reflexivity | | ]; cbn [t_pc t_granted with_cancelled].
  - intros Hin. destruct (q_wait _ HQ t Hin) as (th0 & E & Hp & Hg). rewrite Hth in E. inversion E; subst; auto.
  - apply (q_pre _ HQ _ _ Hth).
Qed.

Lemma e4_remove_nat_in t x q : In x (remove_nat t q) -> x <> t /\ In x q.
Proof.
  unfold remove_nat. intros H. apply filter_In in H. destruct H as [H1 H2]. split; auto.
  apply negb_true_iff, Nat.eqb_neq in H2. auto.
Qed.

Lemma e4_q_resume_cancelled s t s' : e4_QInv s -> resume_cancelled s t = Some s' -> e4_QInv s'.
Proof.
  intros HQ H. unfold resume_cancelled in H.
  destruct (get_thread (threads s) t) as [th|] eqn:Hth; [|discriminate].
  destruct (negb (Nat.eqb (t_gen th) (gen s))); [discriminate|].
  destruct (t_pc th) eqn:Hpc; try discriminate.
  destruct (t_cancelled th); [|discriminate]. cbv zeta in H.
  destruct (t_granted th) eqn:Eg; injection H as <-.
  - (* granted meanwhile: no longer queued; release + FIFO pass, then the thread finishes *)
    assert (Hni : ~ In t (v_queue s)) by (eapply e4_q_notin; eauto).
    set (s1 := to_state (gen s) (unlock t (of_state s))).
    assert (HQ1 : e4_QInv s1).
    { unfold s1, unlock. cbn [of_state u_queue u_threads u_locks u_persisted u_last u_lasttx u_pending
                               u_batch u_iks u_refs u_revs u_cs u_uid u_published].
      destruct (recheck (v_queue s) (threads s) (filter (fun h => negb (Nat.eqb (fst (fst h)) t)) (v_locks s)))
        as [[q' ths'] locks'] eqn:Hr.
      eapply (e4_q_unlock s _ _ q' ths' locks' HQ Hr); reflexivity. }
    assert (Hni1 : ~ In t (v_queue s1)).
    { unfold s1, unlock. cbn [of_state u_queue u_threads u_locks u_persisted u_last u_lasttx u_pending
                               u_batch u_iks u_refs u_revs u_cs u_uid u_published].
      destruct (recheck (v_queue s) (threads s) (filter (fun h => negb (Nat.eqb (fst (fst h)) t)) (v_locks s)))
        as [[q' ths'] locks'] eqn:Hr.
      destruct (e4_recheck_q _ _ _ _ _ _ Hr (q_nodup _ HQ)) as (_ & I & _). cbn. intros X. apply Hni, I, X. }
    eapply (e4_q_upd s1 _ t); [exact HQ1 | reflexivity | reflexivity | intros X; exfalso; exact (Hni1 X) | discriminate].
  - (* still waiting: the intent leaves the queue *)
    pose proof HQ as [Qn Qw Qp]. constructor; e4_red; unfold dequeue; e4_red.
    + unfold remove_nat. now apply NoDup_filter.
    + intros x Hx. apply e4_remove_nat_in in Hx. destruct Hx as [Hn Hx].
      rewrite e4_get_set_other; auto.
    + intros x thx Hx. destruct (Nat.eq_dec t x) as [<-|Hn].
      * rewrite e4_get_set_same in Hx. inversion Hx; subst thx. discriminate.
      * rewrite e4_get_set_other in Hx; eauto.
Qed.

(* a transient store read failure: before the locker the thread (not queued: it is not at [PEnqueued]) finishes or,
   for SaveMeta, moves on, and the queue is left alone; at [PLocked] it releases (FIFO pass) and finishes, exactly
   as the granted waiter that gives up *)
Lemma e4_q_resume_read_fail s t s' : e4_QInv s -> resume_read_fail s t = Some s' -> e4_QInv s'.
Proof.
  intros HQ H. unfold resume_read_fail in H.
  destruct (get_thread (threads s) t) as [th|] eqn:Hth; [|discriminate].
  destruct (negb (Nat.eqb (t_gen th) (gen s))); [discriminate|].
  assert (Hni0 : t_pc th <> PEnqueued -> ~ In t (v_queue s)) by (intros X; eapply e4_q_notin; eauto).
  cbv zeta in H. revert H.
  destruct (t_pc th) eqn:Hpc; intros H; cbv beta iota in H; try discriminate;
    assert (Hni : ~ In t (v_queue s)) by (apply Hni0; discriminate).
  - (* PRevTaken *) injection H as <-. e4_q_own t HQ Hth Hpc Hni.
  - (* PIkTaken *) injection H as <-. e4_q_own t HQ Hth Hpc Hni.
  - (* PIkLookup *)
    destruct hit as [e|]; [discriminate|].
    destruct (rq_kind (t_req th)); try discriminate.
    + destruct (N.eqb (rq_ref (t_req th)) 0); [|discriminate]. injection H as <-. e4_q_own t HQ Hth Hpc Hni.
    + destruct (rq_target_tx (t_req th)); [|discriminate]. injection H as <-. e4_q_own t HQ Hth Hpc Hni.
    + destruct (rq_target_tx (t_req th)); [|discriminate]. injection H as <-. e4_q_own t HQ Hth Hpc Hni.
  - (* PRefTaken *) injection H as <-. e4_q_own t HQ Hth Hpc Hni.
  - (* PRefLookup *)
    destruct hit; [discriminate|].
    destruct (rq_kind (t_req th)); try discriminate. injection H as <-. e4_q_own t HQ Hth Hpc Hni.
  - (* PLocked: release + FIFO pass, then the thread finishes *)
    destruct (needs_balance th); [|discriminate]. injection H as <-.
    set (s1 := to_state (gen s) (unlock t (of_state s))).
    assert (HQ1 : e4_QInv s1).
    { unfold s1, unlock. cbn [of_state u_queue u_threads u_locks u_persisted u_last u_lasttx u_pending
                               u_batch u_iks u_refs u_revs u_cs u_uid u_published].
      destruct (recheck (v_queue s) (threads s) (filter (fun h => negb (Nat.eqb (fst (fst h)) t)) (v_locks s)))
        as [[q' ths'] locks'] eqn:Hr.
      eapply (e4_q_unlock s _ _ q' ths' locks' HQ Hr); reflexivity. }
    assert (Hni1 : ~ In t (v_queue s1)).
    { unfold s1, unlock. cbn [of_state u_queue u_threads u_locks u_persisted u_last u_lasttx u_pending
                               u_batch u_iks u_refs u_revs u_cs u_uid u_published].
      destruct (recheck (v_queue s) (threads s) (filter (fun h => negb (Nat.eqb (fst (fst h)) t)) (v_locks s)))
        as [[q' ths'] locks'] eqn:Hr.
      destruct (e4_recheck_q _ _ _ _ _ _ Hr (q_nodup _ HQ)) as (_ & I & _). cbn. intros X. apply Hni, I, X. }
    eapply (e4_q_upd s1 _ t); [exact HQ1 | reflexivity | reflexivity | intros X; exfalso; exact (Hni1 X) | discriminate].
Qed.

Lemma e4_q_step s a s' : e4_QInv s -> step s a = Some s' -> e4_QInv s'.
Proof.
  intros HQ H. destruct a; simpl in H.
  - eapply e4_q_start; eauto.
  - eapply e4_q_resume; eauto.
  - unfold persist_ok in H. destruct (v_batch s); [|discriminate]. injection H as <-.
    destruct HQ as [Qn Qw Qp]. constructor; auto.
  - destruct (v_batch s); [|discriminate]. injection H as <-. apply e4_q_crash.
  - injection H as <-. apply e4_q_crash.
  - eapply e4_q_cancel; eauto.
  - eapply e4_q_resume_cancelled; eauto.
  - eapply e4_q_resume_read_fail; eauto.
  - injection H as <-. unfold close. apply e4_q_crash.
  - unfold close_ok in H. destruct (persist_ok s); [|discriminate]. injection H as <-. apply e4_q_crash.
Qed.

Lemma e4_q_init : e4_QInv init.
Proof. constructor; simpl; [constructor | intros x [] | intros t th H; discriminate]. Qed.

Lemma e4_q_run : forall acts s s', e4_QInv s -> run s acts = Some s' -> e4_QInv s'.
Proof.
  induction acts as [|a r IH]; intros s s' HQ H; simpl in H.
  - injection H as <-. exact HQ.
  - destruct (step s a) as [s1|] eqn:E; [|discriminate]. eapply IH; [|exact H]. eapply e4_q_step; eauto.
Qed.

Theorem e4_reachable_qinv s : reachable s -> e4_QInv s.
Proof. intros [acts H]. eapply e4_q_run; [apply e4_q_init | exact H]. Qed.

(* ---- what the waiter that gives up does ------------------------------------------------------------------------ *)
(* never granted: the lock table is untouched, the intent only disappears from the queue *)
Theorem e4_cancelled_waiter_gives_up_nothing : forall s t s' th,
  reachable s -> get_thread (threads s) t = Some th -> t_granted th = false ->
  step s (AResumeCancelled t) = Some s' ->
  v_locks s' = v_locks s /\ v_queue s' = remove_nat t (v_queue s).
Proof.
  intros s t s' th _ Hth Hg H. simpl in H. unfold resume_cancelled in H. rewrite Hth in H.
  destruct (negb (Nat.eqb (t_gen th) (gen s))); [discriminate|].
  destruct (t_pc th); try discriminate.
  destruct (t_cancelled th); [|discriminate]. rewrite Hg in H. injection H as <-. split; reflexivity.
Qed.

(* granted meanwhile: the grant is given back, no table entry of [t] remains (the FIFO pass only grants queued
   intents, and a granted intent is no longer queued) *)
Theorem e4_cancelled_grant_is_released : forall s t s' th,
  reachable s -> get_thread (threads s) t = Some th -> t_granted th = true ->
  step s (AResumeCancelled t) = Some s' ->
  forall h, In h (v_locks s') -> fst (fst h) <> t.
Proof.
  intros s t s' th Hr Hth Hg H h Hh. pose proof (e4_reachable_qinv s Hr) as HQ.
  assert (Hni : ~ In t (v_queue s)) by (eapply e4_q_notin; eauto).
  simpl in H. unfold resume_cancelled in H. rewrite Hth in H.
  destruct (negb (Nat.eqb (t_gen th) (gen s))); [discriminate|].
  destruct (t_pc th); try discriminate.
  destruct (t_cancelled th); [|discriminate]. rewrite Hg in H. injection H as <-.
  revert Hh. unfold unlock. cbn [of_state u_queue u_threads u_locks u_persisted u_last u_lasttx u_pending
                                  u_batch u_iks u_refs u_revs u_cs u_uid u_published].
  destruct (recheck (v_queue s) (threads s) (filter (fun h => negb (Nat.eqb (fst (fst h)) t)) (v_locks s)))
    as [[q' ths'] locks'] eqn:Hrc.
  e4_red. intros Hh. destruct (e4_recheck_locks _ _ _ _ _ _ Hrc h Hh) as [Hl|Hl].
  - apply filter_In in Hl. destruct Hl as [_ Hl]. apply negb_true_iff, Nat.eqb_neq in Hl. exact Hl.
  - intros E. apply Hni. now rewrite <- E.
Qed.

(* and it was queued-then-granted, so (by [e4_Inv], clause [k_grant]) it did hold such an entry before *)
Lemma e4_cancelled_grant_was_held : forall s t th,
  reachable s -> get_thread (threads s) t = Some th -> t_pc th = PEnqueued -> t_granted th = true ->
  In (t, reads_of (t_postings th), writes_of (t_postings th)) (v_locks s).
Proof.
  intros s t th Hr Hth Hpc Hg. pose proof (e4_reachable_inv s Hr) as HI.
  apply (k_grant _ _ _ (i_th _ HI _ _ Hth)); auto. rewrite Hpc. reflexivity.
Qed.

(* ---- non-vacuity: the race of E4Cor.v with a cancelled loser ------------------------------------------------- *)
(* 1 locks, 2 queues; 2 is cancelled and gives up while still waiting; 1 completes *)
Definition e4_cancel_acts : list action :=
  e4_fund ++ [AStart 1%nat e4_spend; AStart 2%nat e4_spend] ++
  [AResume 1%nat; AResume 2%nat; ACancel 2%nat; AResumeCancelled 2%nat] ++
  e4_resumes 1%nat 7 ++ [APersistOk] ++ e4_resumes 1%nat 3.

Definition e4_nil {A} (l : list A) : bool := match l with [] => true | _ => false end.

Lemma e4_cancel_check :
  match run init e4_cancel_acts with
  | Some s => e4_sv_b (persisted s) && Nat.eqb (length (persisted s)) 2 &&
              (balance_of (persisted s) e4_alice =? 0) &&
              e4_nil (v_locks s) && e4_nil (v_queue s) &&
              match e4_resp s 1%nat, e4_resp s 2%nat with
              | Some (ROk (Some 1%nat)), Some (RErr ELockCancelled) => true
              | _, _ => false
              end
  | None => false
  end = true.
Proof. vm_compute. reflexivity. Qed.

(* 1 completes and unlocks first: 2 is granted (flag + table entry); then 2 is cancelled and takes the ctx.Done()
   branch: it gives the grant back; nothing of 2 reaches the disk *)
Definition e4_cancel_granted_pre : list action :=
  e4_fund ++ [AStart 1%nat e4_spend; AStart 2%nat e4_spend] ++
  [AResume 1%nat; AResume 2%nat] ++ e4_resumes 1%nat 7 ++ [APersistOk] ++ e4_resumes 1%nat 2.
Definition e4_cancel_granted_acts : list action :=
  e4_cancel_granted_pre ++ [ACancel 2%nat; AResumeCancelled 2%nat] ++ e4_resumes 1%nat 1.

Lemma e4_cancel_granted_check :
  match run init e4_cancel_granted_pre, run init e4_cancel_granted_acts with
  | Some s0, Some s =>
      (* before the cancellation: 2 holds the grant and the only table entry *)
      match get_thread (threads s0) 2%nat with Some th => t_granted th | None => false end &&
      match v_locks s0 with [(2%nat, _, _)] => true | _ => false end && e4_nil (v_queue s0) &&
      (* at the end *)
      e4_sv_b (persisted s) && Nat.eqb (length (persisted s)) 2 &&
      (balance_of (persisted s) e4_alice =? 0) &&
      forallb (fun e => negb (Nat.eqb (e_owner e) 2)) (persisted s) &&
      e4_nil (v_locks s) && e4_nil (v_queue s) && e4_nil (v_pending s) &&
      match v_batch s with None => true | Some _ => false end &&
      match e4_resp s 1%nat, e4_resp s 2%nat with
      | Some (ROk (Some 1%nat)), Some (RErr ELockCancelled) => true
      | _, _ => false
      end
  | _, _ => false
  end = true.
Proof. vm_compute. reflexivity. Qed.

(* with the grant AND the context done both branches of the select are enabled: the other one proceeds as usual *)
Lemma e4_cancel_granted_other_branch :
  match run init (e4_cancel_granted_pre ++ [ACancel 2%nat] ++ e4_resumes 2%nat 5 ++ e4_resumes 1%nat 1) with
  | Some s => e4_sv_b (persisted s) && Nat.eqb (length (persisted s)) 2 && e4_nil (v_locks s) && e4_nil (v_queue s) &&
              match e4_resp s 2%nat with Some (RErr EInsufficient) => true | _ => false end
  | None => false
  end = true.
Proof. vm_compute. reflexivity. Qed.
