(* M2 / C02 — the double-spend corollary, a boolean checker for [serially_valid], the variant of the LTS with the
   behaviour before the repair (account locks given back right after [Lock]) and its refutation. *)
From FL Require Import Engine.Model Engine.Spec Engine.E4Base Engine.E4Inv Engine.E4Steps Engine.E4Resume.
From Coq Require Import Lia.
Open Scope Z_scope.

(* ---- corollary -------------------------------------------------------------------------------------------------- *)
Lemma e4_balance_nonincreasing a : forall l' l,
  (forall e, In e l' -> e4_entry_delta a e <= 0) -> balance_of (l ++ l') a <= balance_of l a.
Proof.
  induction l' as [|e r IH]; intros l H; [rewrite app_nil_r; lia|].
  change (l ++ e :: r) with (l ++ [e] ++ r). rewrite app_assoc.
  assert (H1 : balance_of ((l ++ [e]) ++ r) a <= balance_of (l ++ [e]) a) by (apply IH; intros x Hx; apply H; simpl; auto).
  rewrite e4_balance_snoc in H1. specialize (H e (or_introl eq_refl)). lia.
Qed.

(* two entries that debit the same account: the second one was covered by what the first one left *)
Theorem e4_no_double_spend : forall s l1 e1 l2 e2 l3 a d1 d2 x y,
  reachable s -> persisted s = l1 ++ e1 :: l2 ++ e2 :: l3 ->
  a <> world -> d1 <> a ->
  e_postings e1 = [(a, d1, x)] -> e_postings e2 = [(a, d2, y)] -> e_unb e2 = false ->
  (forall e, In e l2 -> e4_entry_delta a e <= 0) ->
  0 < y -> x + y <= balance_of l1 a.
Proof.
  intros s l1 e1 l2 e2 l3 a d1 d2 x y Hr Hp Ha Hd E1 E2 Eu Hl2 Hy.
  pose proof (e4_serial s Hr) as Hsv. rewrite Hp in Hsv.
  replace (l1 ++ e1 :: l2 ++ e2 :: l3) with ((l1 ++ e1 :: l2) ++ e2 :: l3) in Hsv
    by (rewrite <- app_assoc; reflexivity).
  apply e4_sv_at in Hsv. rewrite E2, Eu in Hsv. simpl in Hsv.
  assert (Hw : N.eqb a world = false) by (now apply N.eqb_neq).
  rewrite Hw in Hsv. simpl in Hsv. rewrite andb_true_r in Hsv. apply Z.leb_le in Hsv.
  assert (Hv : view_get (view_of (l1 ++ e1 :: l2) [(a, d2, y)]) a = balance_of (l1 ++ e1 :: l2) a).
  { apply e4_view_of_get. apply (e4_in_reads_of a (a, d2, y)); simpl; auto. }
  rewrite Hv in Hsv.
  assert (Hb : balance_of (l1 ++ e1 :: l2) a <= balance_of l1 a - x).
  { change (l1 ++ e1 :: l2) with (l1 ++ [e1] ++ l2). rewrite app_assoc.
    pose proof (e4_balance_nonincreasing a l2 (l1 ++ [e1]) Hl2) as Hn.
    rewrite e4_balance_snoc in Hn. unfold e4_entry_delta in Hn. rewrite E1 in Hn. simpl in Hn.
    rewrite N.eqb_refl in Hn. assert (Hda : N.eqb d1 a = false) by (now apply N.eqb_neq). rewrite Hda in Hn. lia. }
  lia.
Qed.

(* ---- boolean checker ---------------------------------------------------------------------------------------------- *)
Fixpoint e4_sv_from_b (before rest : list entry) : bool :=
  match rest with
  | [] => true
  | e :: r => covers (view_of before (e_postings e)) (e_unb e) (e_postings e) && e4_sv_from_b (before ++ [e]) r
  end.
Definition e4_sv_b (log : list entry) : bool := e4_sv_from_b [] log.

Lemma e4_sv_from_b_spec : forall rest before, e4_sv_from_b before rest = true <-> serially_valid_from before rest.
Proof.
  induction rest as [|e r IH]; intros before; simpl; [tauto|].
  rewrite andb_true_iff, IH. tauto.
Qed.
Lemma e4_sv_b_spec log : e4_sv_b log = true <-> serially_valid log.
Proof. apply e4_sv_from_b_spec. Qed.

(* ---- the tree before the repair: [unlock(ctx)] right after [Lock] (commander.go before 55a292a) ----------------- *)
Definition e4_resume_early (s : state) (t : tid) : option state :=
  match get_thread (threads s) t with
  | Some th =>
      match t_pc th with
      | PLocked => match resume s t with
                   | Some s1 => Some (to_state (gen s1) (unlock t (of_state s1)))
                   | None => None
                   end
      | _ => resume s t
      end
  | None => None
  end.
(* every action other than [AResume] ([ACancel], [AResumeCancelled], [AResumeReadFail] included) is the one of [step] *)
Definition e4_step_early (s : state) (a : action) : option state :=
  match a with
  | AResume t => e4_resume_early s t
  | _ => step s a
  end.
Fixpoint e4_run_early (s : state) (acts : list action) : option state :=
  match acts with
  | [] => Some s
  | a :: r => match e4_step_early s a with Some s' => e4_run_early s' r | None => None end
  end.

Definition e4_alice : account := 1%N.
Definition e4_bob : account := 2%N.
Definition e4_create (ps : list posting) : request :=
  {| rq_kind := KCreate; rq_ik := 0%N; rq_ref := 0%N; rq_dry := false; rq_postings := ps; rq_unb := false;
     rq_revert := O; rq_target_tx := None; rq_meta := 0%N |}.
Definition e4_resumes (t : tid) (n : nat) : list action := repeat (AResume t) n.

(* thread 0 funds alice with 100 and completes; threads 1 and 2 each send 100 from alice to bob *)
Definition e4_fund : list action :=
  [AStart 0%nat (e4_create [(world, e4_alice, 100)])] ++ e4_resumes 0%nat 8 ++ [APersistOk] ++ e4_resumes 0%nat 3.
Definition e4_spend : request := e4_create [(e4_alice, e4_bob, 100)].

(* before the repair: both take the lock in turn (it is given back at once), both read 100, both are persisted *)
Definition e4_bug_acts : list action :=
  e4_fund ++ [AStart 1%nat e4_spend; AStart 2%nat e4_spend] ++
  e4_resumes 1%nat 2 ++ e4_resumes 2%nat 2 ++ e4_resumes 1%nat 6 ++ e4_resumes 2%nat 6 ++
  [APersistOk; APersistOk] ++ e4_resumes 1%nat 3 ++ e4_resumes 2%nat 3.

Definition e4_resp (s : state) (t : tid) : option response :=
  match get_thread (threads s) t with Some th => t_resp th | None => None end.

Lemma e4_bug_check :
  match e4_run_early init e4_bug_acts with
  | Some s => negb (e4_sv_b (persisted s)) && Nat.eqb (length (persisted s)) 3 &&
              (balance_of (persisted s) e4_alice =? -100) &&
              match e4_resp s 1%nat, e4_resp s 2%nat with
              | Some (ROk (Some 1%nat)), Some (ROk (Some 2%nat)) => true
              | _, _ => false
              end
  | None => false
  end = true.
Proof. vm_compute. reflexivity. Qed.

Theorem e4_refuted_before_fix :
  exists s, e4_run_early init e4_bug_acts = Some s /\
            ~ serially_valid (persisted s) /\ length (persisted s) = 3%nat /\
            balance_of (persisted s) e4_alice = -100 /\
            e4_resp s 1%nat = Some (ROk (Some 1%nat)) /\ e4_resp s 2%nat = Some (ROk (Some 2%nat)).
Proof.
  pose proof e4_bug_check as H.
  destruct (e4_run_early init e4_bug_acts) as [s|]; [|discriminate].
  exists s. split; [reflexivity|].
  apply andb_true_iff in H. destruct H as [H H4].
  apply andb_true_iff in H. destruct H as [H H3].
  apply andb_true_iff in H. destruct H as [H1 H2].
  split; [|split; [|split]].
  - intros Hsv. apply e4_sv_b_spec in Hsv. rewrite Hsv in H1. discriminate.
  - now apply Nat.eqb_eq.
  - now apply Z.eqb_eq.
  - destruct (e4_resp s 1%nat) as [[[[|[|?]]|]| |]|]; try discriminate;
      destruct (e4_resp s 2%nat) as [[[[|[|[|?]]]|]| |]|]; try discriminate; auto.
Qed.

(* ---- non-vacuity on the repaired model: the same race; the loser waits for the lock, reads 0 and is refused ------ *)
Definition e4_race_acts : list action :=
  e4_fund ++ [AStart 1%nat e4_spend; AStart 2%nat e4_spend] ++
  [AResume 1%nat; AResume 2%nat] ++ e4_resumes 1%nat 7 ++ [APersistOk] ++ e4_resumes 1%nat 2 ++
  e4_resumes 2%nat 5 ++ e4_resumes 1%nat 1.

Lemma e4_race_check :
  match run init e4_race_acts with
  | Some s => e4_sv_b (persisted s) && Nat.eqb (length (persisted s)) 2 &&
              (balance_of (persisted s) e4_alice =? 0) &&
              match e4_resp s 1%nat, e4_resp s 2%nat with
              | Some (ROk (Some 1%nat)), Some (RErr EInsufficient) => true
              | _, _ => false
              end
  | None => false
  end = true.
Proof. vm_compute. reflexivity. Qed.

(* the schedule of the refutation is not even executable after the repair: thread 2 is queued behind thread 1 *)
Lemma e4_bug_acts_disabled : run init e4_bug_acts = None.
Proof. vm_compute. reflexivity. Qed.

Theorem e4_nonvacuous :
  exists s, reachable s /\ length (persisted s) = 2%nat /\ balance_of (persisted s) e4_alice = 0 /\
            e4_resp s 1%nat = Some (ROk (Some 1%nat)) /\ e4_resp s 2%nat = Some (RErr EInsufficient).
Proof.
  pose proof e4_race_check as H.
  destruct (run init e4_race_acts) as [s|] eqn:E; [|discriminate].
  exists s. split; [exists e4_race_acts; exact E|]. clear E.
  apply andb_true_iff in H. destruct H as [H H4].
  apply andb_true_iff in H. destruct H as [H H3].
  apply andb_true_iff in H. destruct H as [H1 H2].
  split; [|split].
  - now apply Nat.eqb_eq.
  - now apply Z.eqb_eq.
  - destruct (e4_resp s 1%nat) as [[[[|[|?]]|]| |]|]; try discriminate;
      destruct (e4_resp s 2%nat) as [[|[]|]|]; try discriminate; auto.
Qed.

(* a crash while the winner's entry is in the batcher and the loser is queued: nothing of either reaches the disk *)
Definition e4_crash_acts : list action :=
  e4_fund ++ [AStart 1%nat e4_spend; AStart 2%nat e4_spend] ++
  [AResume 1%nat; AResume 2%nat] ++ e4_resumes 1%nat 7 ++ [ACrash] ++
  [AStart 3%nat e4_spend] ++ e4_resumes 3%nat 8 ++ [APersistOk] ++ e4_resumes 3%nat 3.

Lemma e4_crash_check :
  match run init e4_crash_acts with
  | Some s => e4_sv_b (persisted s) && Nat.eqb (length (persisted s)) 2 &&
              (balance_of (persisted s) e4_alice =? 0) &&
              match e4_resp s 1%nat, e4_resp s 2%nat, e4_resp s 3%nat with
              | Some RCrashed, Some RCrashed, Some (ROk (Some 1%nat)) => true
              | _, _, _ => false
              end
  | None => false
  end = true.
Proof. vm_compute. reflexivity. Qed.
