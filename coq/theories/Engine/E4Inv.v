(* M2 / C02 — the lock / visibility invariant of the engine LTS and its generic preservation lemmas. *)
From FL Require Import Engine.Model Engine.Spec Engine.E4Base.
From Coq Require Import Lia.
Open Scope Z_scope.

Definition e4_tx (th : thread) : bool := is_tx_kind (rq_kind (t_req th)).
Definition e4_holds (s : state) (t : tid) (th : thread) : Prop :=
  In (t, reads_of (t_postings th), writes_of (t_postings th)) (v_locks s).
(* entries handed to the batcher and not yet on disk, in the order they will reach the disk *)
Definition e4_inflight (s : state) : list entry :=
  match v_batch s with Some b => b | None => [] end ++ v_pending s.
Definition e4_all (s : state) : list entry := persisted s ++ e4_inflight s.

Definition e4_viewed_pc (p : pc) : bool :=
  match p with PBalances | PRan _ | PAppendEnter | PTxid | PChained | PAppended | PWait => true | _ => false end.
Definition e4_locked_pc (p : pc) : bool := match p with PLocked => true | _ => e4_viewed_pc p end.
Definition e4_covered_pc (p : pc) : bool :=
  match p with PRan true | PAppendEnter | PTxid => true | _ => false end.
Definition e4_prebuild_pc (p : pc) : bool :=
  match p with PChained | PAppended | PWait | PDone | PUnlocked | PFinished => false | _ => true end.
Definition e4_grantable_pc (p : pc) : bool :=
  match p with
  | PStart | PRevBusy | PRevTaken | PRevRead _ _ | PIkBusy | PIkTaken | PIkLookup _ | PRefBusy | PRefTaken
  | PRefLookup _ | PResolved | PEnqueued => true
  | _ => false
  end.
Definition e4_cs_pc (th : thread) : bool :=
  match t_pc th with PChained | PAppended => true | PTxid => negb (rq_dry (t_req th)) | _ => false end.

(* what the owner [th] guarantees about the entry [e] it built *)
Definition e4_entry_ok (s : state) (t : tid) (th : thread) (e : entry) : Prop :=
  e_owner e = t /\ t_entry th = Some e /\ rq_dry (t_req th) = false /\
  (e_postings e = [] \/
   (e4_tx th = true /\ e_postings e = t_postings th /\ e_unb e = t_unb th /\ e4_holds s t th /\
    covers (t_view th) (t_unb th) (t_postings th) = true)).

Record e4_thread_ok (s : state) (t : tid) (th : thread) : Prop := {
  k_lock : e4_locked_pc (t_pc th) = true -> e4_tx th = true -> e4_holds s t th;
  k_grant : e4_grantable_pc (t_pc th) = true -> t_granted th = true -> e4_holds s t th;
  k_cov : e4_covered_pc (t_pc th) = true -> e4_tx th = true ->
          covers (t_view th) (t_unb th) (t_postings th) = true;
  (* the balances read under the locks are still the persisted ones on the write set *)
  k_view : e4_viewed_pc (t_pc th) = true -> e4_tx th = true ->
           (forall e, t_entry th = Some e -> entry_persisted (persisted s) e = false) ->
           forall a, In a (writes_of (t_postings th)) -> view_get (t_view th) a = balance_of (persisted s) a;
  k_chained : t_pc th = PChained -> forall e, t_entry th = Some e ->
              e4_entry_ok s t th e /\ (e_uid e < v_uid s)%nat /\ ~ In (e_uid e) (map e_uid (e4_all s));
  k_cs : e4_cs_pc th = true -> v_cs s = Some t;
  k_own : forall e, In e (e4_inflight s) -> e_owner e = t ->
          (t_pc th = PAppended \/ t_pc th = PWait) /\ e4_entry_ok s t th e;
  k_pre : e4_prebuild_pc (t_pc th) = true -> t_entry th = None;
  k_dry : t_pc th = PAppendEnter -> rq_dry (t_req th) = false
}.

Record e4_Inv (s : state) : Prop := {
  i_sv : serially_valid (persisted s);
  i_nodup : NoDup (map e_uid (e4_all s));
  i_uid : forall e, In e (e4_all s) -> (e_uid e < v_uid s)%nat;
  i_bp : v_batch s = None -> v_pending s = [];
  i_locks : e4_pairwise (v_locks s);
  i_own : forall e, In e (e4_inflight s) -> exists th, get_thread (threads s) (e_owner e) = Some th;
  i_th : forall t th, get_thread (threads s) t = Some th -> e4_thread_ok s t th
}.

(* ---- frame -------------------------------------------------------------------------------------------------- *)
Lemma e4_entry_ok_frame s s' t th e :
  e4_entry_ok s t th e -> (forall rs ws, In (t, rs, ws) (v_locks s) -> In (t, rs, ws) (v_locks s')) ->
  e4_entry_ok s' t th e.
Proof.
  unfold e4_entry_ok, e4_holds. intros (A & B & C & D) I. repeat split; auto.
  destruct D as [D|(D1 & D2 & D3 & D4 & D5)]; [left; auto | right; repeat split; auto].
Qed.

Lemma e4_thread_ok_frame s s' t th :
  e4_thread_ok s t th -> persisted s' = persisted s -> v_pending s' = v_pending s -> v_batch s' = v_batch s ->
  (forall rs ws, In (t, rs, ws) (v_locks s) -> In (t, rs, ws) (v_locks s')) ->
  (v_uid s <= v_uid s')%nat -> (v_cs s = Some t -> v_cs s' = Some t) ->
  e4_thread_ok s' t th.
Proof.
  intros [K1 K2 K3 K4 K5 K6 K7 K8 K9] Ep Epd Eb I U C.
  assert (Ei : e4_inflight s' = e4_inflight s) by (unfold e4_inflight; now rewrite Epd, Eb).
  assert (Ea : e4_all s' = e4_all s) by (unfold e4_all; now rewrite Ep, Ei).
  constructor.
  - intros; apply I, K1; auto.
  - intros; apply I, K2; auto.
  - exact K3.
  - rewrite Ep. exact K4.
  - intros Hp e He. destruct (K5 Hp e He) as (A & B & D). rewrite Ea.
    split; [eapply e4_entry_ok_frame; eauto|]. split; [lia | auto].
  - intros; apply C, K6; auto.
  - rewrite Ei. intros e Hin Ho. destruct (K7 e Hin Ho) as [A B]. split; auto.
    eapply e4_entry_ok_frame; eauto.
  - exact K8.
  - exact K9.
Qed.

(* a step of thread [t] that leaves disk and batcher alone and does not take locks away *)
Lemma e4_inv_upd s s' t th' :
  e4_Inv s ->
  persisted s' = persisted s -> v_pending s' = v_pending s -> v_batch s' = v_batch s ->
  (v_uid s <= v_uid s')%nat -> incl (v_locks s) (v_locks s') -> e4_pairwise (v_locks s') ->
  threads s' = set_thread (threads s) t th' ->
  (forall x, x <> t -> v_cs s = Some x -> v_cs s' = Some x) ->
  e4_thread_ok s' t th' -> e4_Inv s'.
Proof.
  intros [Isv Ind Iu Ibp Il Io Ith] Ep Epd Eb U I P Et C Hok.
  assert (Ei : e4_inflight s' = e4_inflight s) by (unfold e4_inflight; now rewrite Epd, Eb).
  assert (Ea : e4_all s' = e4_all s) by (unfold e4_all; now rewrite Ep, Ei).
  constructor.
  - now rewrite Ep.
  - now rewrite Ea.
  - rewrite Ea. intros e He. specialize (Iu e He). lia.
  - rewrite Eb, Epd; auto.
  - auto.
  - rewrite Ei, Et. intros e He. destruct (Nat.eq_dec t (e_owner e)) as [<-|Hn].
    + exists th'. apply e4_get_set_same.
    + rewrite e4_get_set_other; auto.
  - rewrite Et. intros x thx Hx. destruct (Nat.eq_dec t x) as [<-|Hn].
    + rewrite e4_get_set_same in Hx. inversion Hx; subst; auto.
    + rewrite e4_get_set_other in Hx; auto. eapply e4_thread_ok_frame; eauto.
Qed.

Lemma e4_inv_upd0 s s' t th' :
  e4_Inv s ->
  persisted s' = persisted s -> v_pending s' = v_pending s -> v_batch s' = v_batch s ->
  v_uid s' = v_uid s -> v_locks s' = v_locks s -> v_cs s' = v_cs s ->
  threads s' = set_thread (threads s) t th' ->
  e4_thread_ok s t th' -> e4_Inv s'.
Proof.
  intros HI Ep Epd Eb Eu El Ec Et Hok.
  eapply e4_inv_upd; eauto.
  - lia.
  - rewrite El. apply incl_refl.
  - rewrite El. apply i_locks; auto.
  - intros; congruence.
  - eapply e4_thread_ok_frame; eauto; try lia; try congruence; intros; rewrite El; auto.
Qed.

(* ---- threads about which the invariant says nothing ------------------------------------------------------------ *)
Definition e4_no_own (s : state) (t : tid) : Prop := forall e, In e (e4_inflight s) -> e_owner e <> t.
Definition e4_prelock_pc (p : pc) : bool :=
  match p with
  | PStart | PRevBusy | PRevTaken | PRevRead _ _ | PIkBusy | PIkTaken | PIkLookup _ | PRefBusy | PRefTaken
  | PRefLookup _ | PResolved => true
  | _ => false
  end.
Definition e4_benign (th : thread) : Prop :=
  e4_prelock_pc (t_pc th) = true \/ t_pc th = PFinished \/ t_pc th = PUnlocked \/ t_pc th = PDone \/
  (e4_tx th = false /\ (t_pc th = PWait \/ (t_pc th = PAppendEnter /\ rq_dry (t_req th) = false))).

Lemma e4_benign_ok s t th :
  e4_benign th -> e4_no_own s t ->
  (e4_grantable_pc (t_pc th) = true -> t_granted th = true -> e4_holds s t th) ->
  (e4_prebuild_pc (t_pc th) = true -> t_entry th = None) ->
  e4_thread_ok s t th.
Proof.
  intros B Hno Hg Hpre.
  constructor; auto; unfold e4_cs_pc; intros;
    try (exfalso; eapply Hno; eauto; fail);
    unfold e4_benign in B; destruct (t_pc th) eqn:E; simpl in *; try discriminate;
    decompose [and or] B; try discriminate; try congruence.
Qed.

Lemma e4_no_own_pc s t th :
  e4_thread_ok s t th -> t_pc th <> PAppended -> t_pc th <> PWait -> e4_no_own s t.
Proof. intros K A B e He Ho. destruct (k_own _ _ _ K e He Ho) as [[X|X] _]; auto. Qed.

Lemma e4_no_own_none s t : e4_Inv s -> get_thread (threads s) t = None -> e4_no_own s t.
Proof. intros HI Hn e He Ho. destruct (i_own _ HI e He) as [th Hth]. congruence. Qed.

Lemma e4_thread_ok_grant s t th :
  e4_thread_ok s t th -> (e4_grantable_pc (t_pc th) = true -> e4_holds s t th) -> e4_thread_ok s t (e4_grant th).
Proof.
  intros [K1 K2 K3 K4 K5 K6 K7 K8 K9] G. constructor; auto.
Qed.

(* ---- release of the account locks ------------------------------------------------------------------------------ *)
Lemma e4_inv_unlock s s' t q' ths' locks' :
  e4_Inv s ->
  recheck (v_queue s) (threads s) (filter (fun h => negb (Nat.eqb (fst (fst h)) t)) (v_locks s)) = (q', ths', locks') ->
  (forall th, get_thread (threads s) t = Some th -> t_pc th = PUnlocked) ->
  persisted s' = persisted s -> v_pending s' = v_pending s -> v_batch s' = v_batch s -> v_uid s' = v_uid s ->
  v_cs s' = v_cs s -> v_locks s' = locks' -> threads s' = ths' -> e4_Inv s'.
Proof.
  intros HI Hr Hpc Ep Epd Eb Eu Ec El Et.
  assert (Pf : e4_pairwise (filter (fun h => negb (Nat.eqb (fst (fst h)) t)) (v_locks s))).
  { eapply e4_pairwise_incl; [apply incl_filter | apply i_locks; auto]. }
  destruct (e4_recheck_spec _ _ _ _ _ _ Hr Pf) as (P' & I & F & Nn).
  assert (Ei : e4_inflight s' = e4_inflight s) by (unfold e4_inflight; now rewrite Epd, Eb).
  assert (Ea : e4_all s' = e4_all s) by (unfold e4_all; now rewrite Ep, Ei).
  assert (Hk : forall x, x <> t -> forall rs ws, In (x, rs, ws) (v_locks s) -> In (x, rs, ws) (v_locks s')).
  { intros x Hx rs ws Hin. rewrite El. apply I. apply filter_In. split; auto. simpl.
    apply negb_true_iff. now apply Nat.eqb_neq. }
  destruct HI as [Isv Ind Iu Ibp Il Io Ith].
  constructor.
  - now rewrite Ep.
  - now rewrite Ea.
  - rewrite Ea, Eu. auto.
  - rewrite Eb, Epd; auto.
  - now rewrite El.
  - rewrite Ei, Et. intros e He. destruct (Io e He) as [th Hth].
    destruct (F _ _ Hth) as [F1|[F1 _]]; eauto.
  - rewrite Et. intros x thx' Hx.
    destruct (get_thread (threads s) x) as [thx|] eqn:Hox; [|rewrite (Nn x Hox) in Hx; discriminate].
    pose proof (Ith x thx Hox) as Kx.
    destruct (Nat.eq_dec x t) as [->|Hn].
    + (* the releasing thread itself *)
      pose proof (Hpc thx Hox) as Hp.
      assert (Hno : e4_no_own s' t).
      { intros e He. rewrite Ei in He. eapply e4_no_own_pc; eauto; rewrite Hp; discriminate. }
      destruct (F _ _ Hox) as [F1|[F1 _]]; rewrite F1 in Hx; inversion Hx; subst thx';
        apply e4_benign_ok; auto; unfold e4_benign; simpl; rewrite Hp; auto; simpl; discriminate.
    + assert (Kx' : e4_thread_ok s' x thx).
      { eapply e4_thread_ok_frame; eauto; try lia. congruence. }
      destruct (F _ _ Hox) as [F1|[F1 F2]]; rewrite F1 in Hx; inversion Hx; subst thx'; auto.
      apply e4_thread_ok_grant; auto. intros _. unfold e4_holds. now rewrite El.
Qed.

(* ---- cancellation ------------------------------------------------------------------------------------------------ *)
(* the per-thread invariant does not read [t_cancelled] *)
Lemma e4_thread_ok_cancelled s t th : e4_thread_ok s t th -> e4_thread_ok s t (with_cancelled th).
Proof. intros [K1 K2 K3 K4 K5 K6 K7 K8 K9]. constructor; auto. Qed.

(* release of the account locks (+ FIFO recheck) by a thread that finishes in the same step: the cancelled waiter
   that had been granted meanwhile. [thf] is the finished thread written over whatever the pass left at [t]. *)
Lemma e4_inv_unlock_fin s s' t th thf q' ths' locks' :
  e4_Inv s ->
  recheck (v_queue s) (threads s) (filter (fun h => negb (Nat.eqb (fst (fst h)) t)) (v_locks s)) = (q', ths', locks') ->
  get_thread (threads s) t = Some th -> t_pc th <> PAppended -> t_pc th <> PWait -> t_pc thf = PFinished ->
  persisted s' = persisted s -> v_pending s' = v_pending s -> v_batch s' = v_batch s -> v_uid s' = v_uid s ->
  v_cs s' = v_cs s -> v_locks s' = locks' -> threads s' = set_thread ths' t thf -> e4_Inv s'.
Proof.
  intros HI Hr Hth N1 N2 Hpf Ep Epd Eb Eu Ec El Et.
  assert (Pf : e4_pairwise (filter (fun h => negb (Nat.eqb (fst (fst h)) t)) (v_locks s))).
  { eapply e4_pairwise_incl; [apply incl_filter | apply i_locks; auto]. }
  destruct (e4_recheck_spec _ _ _ _ _ _ Hr Pf) as (P' & I & F & Nn).
  assert (Ei : e4_inflight s' = e4_inflight s) by (unfold e4_inflight; now rewrite Epd, Eb).
  assert (Ea : e4_all s' = e4_all s) by (unfold e4_all; now rewrite Ep, Ei).
  assert (Hk : forall x, x <> t -> forall rs ws, In (x, rs, ws) (v_locks s) -> In (x, rs, ws) (v_locks s')).
  { intros x Hx rs ws Hin. rewrite El. apply I. apply filter_In. split; auto. simpl.
    apply negb_true_iff. now apply Nat.eqb_neq. }
  destruct HI as [Isv Ind Iu Ibp Il Io Ith].
  constructor.
  - now rewrite Ep.
  - now rewrite Ea.
  - rewrite Ea, Eu. auto.
  - rewrite Eb, Epd; auto.
  - now rewrite El.
  - rewrite Ei, Et. intros e He. destruct (Nat.eq_dec t (e_owner e)) as [<-|Hn].
    + exists thf. apply e4_get_set_same.
    + rewrite e4_get_set_other; auto. destruct (Io e He) as [thx Hthx].
      destruct (F _ _ Hthx) as [F1|[F1 _]]; eauto.
  - rewrite Et. intros x thx' Hx.
    destruct (Nat.eq_dec t x) as [<-|Hn].
    + rewrite e4_get_set_same in Hx. inversion Hx; subst thx'.
      apply e4_benign_ok.
      * right; left; exact Hpf.
      * intros e He. rewrite Ei in He. eapply e4_no_own_pc; eauto.
      * rewrite Hpf; discriminate.
      * rewrite Hpf; discriminate.
    + rewrite e4_get_set_other in Hx; auto.
      destruct (get_thread (threads s) x) as [thx|] eqn:Hox; [|rewrite (Nn x Hox) in Hx; discriminate].
      pose proof (Ith x thx Hox) as Kx.
      assert (Kx' : e4_thread_ok s' x thx).
      { eapply e4_thread_ok_frame; eauto; try lia. congruence. }
      destruct (F _ _ Hox) as [F1|[F1 F2]]; rewrite F1 in Hx; inversion Hx; subst thx'; auto.
      apply e4_thread_ok_grant; auto. intros _. unfold e4_holds. now rewrite El.
Qed.
