(* M2 / C02 — transient failures of the store reads of the write path ([AResumeReadFail]): what the request whose
   read fails does to the account locks and the lock queue. The invariants ([e4_Inv], E4Inv.v; [e4_QInv],
   E4Cancel.v) are unchanged: their preservation by the new action is proved in E4Resume.v
   ([e4_inv_resume_read_fail]) and E4Cancel.v ([e4_q_resume_read_fail]). *)
From FL Require Import Engine.Model Engine.Spec Engine.E4Base Engine.E4Inv Engine.E4Steps Engine.E4Resume Engine.E4Cor
  Engine.E4Cancel.
From Coq Require Import Lia.
Open Scope Z_scope.

(* the balance read under the account locks fails ([PLocked]): the locks are given back, no table entry of [t]
   remains (the thread at [PLocked] is not queued — [e4_QInv] — and the FIFO pass that follows the release only
   grants queued intents) *)
Theorem e4_read_failed_lock_is_released : forall s t s' th,
  reachable s -> get_thread (threads s) t = Some th -> t_pc th = PLocked ->
  step s (AResumeReadFail t) = Some s' ->
  forall h, In h (v_locks s') -> fst (fst h) <> t.
Proof.
  intros s t s' th Hr Hth Hpc H h Hh. pose proof (e4_reachable_qinv s Hr) as HQ.
  assert (Hni : ~ In t (v_queue s)) by (eapply e4_q_notin; eauto; left; rewrite Hpc; discriminate).
  simpl in H. unfold resume_read_fail in H. rewrite Hth in H.
  destruct (negb (Nat.eqb (t_gen th) (gen s))); [discriminate|].
  rewrite Hpc in H. destruct (needs_balance th); [|discriminate]. injection H as <-.
  revert Hh. unfold unlock. cbn [of_state u_queue u_threads u_locks u_persisted u_last u_lasttx u_pending
                                  u_batch u_iks u_refs u_revs u_cs u_uid u_published].
  destruct (recheck (v_queue s) (threads s) (filter (fun h => negb (Nat.eqb (fst (fst h)) t)) (v_locks s)))
    as [[q' ths'] locks'] eqn:Hrc.
  e4_red. intros Hh. destruct (e4_recheck_locks _ _ _ _ _ _ Hrc h Hh) as [Hl|Hl].
  - apply filter_In in Hl. destruct Hl as [_ Hl]. apply negb_true_iff, Nat.eqb_neq in Hl. exact Hl.
  - intros E. apply Hni. now rewrite <- E.
Qed.

(* and it did hold its entry before the step (clause [k_lock] of [e4_Inv]): the release is not vacuous *)
Lemma e4_read_failed_lock_was_held : forall s t th,
  reachable s -> get_thread (threads s) t = Some th -> t_pc th = PLocked ->
  is_tx_kind (rq_kind (t_req th)) = true ->
  In (t, reads_of (t_postings th), writes_of (t_postings th)) (v_locks s).
Proof.
  intros s t th Hr Hth Hpc Hk. pose proof (e4_reachable_inv s Hr) as HI.
  apply (k_lock _ _ _ (i_th _ HI _ _ Hth)); auto. rewrite Hpc. reflexivity.
Qed.

(* a read that fails before the locker (key / reference / transaction lookups, compilation): lock table and queue
   are untouched *)
Theorem e4_read_failed_before_lock_touches_no_lock : forall s t s' th,
  reachable s -> get_thread (threads s) t = Some th -> t_pc th <> PLocked ->
  step s (AResumeReadFail t) = Some s' ->
  v_locks s' = v_locks s /\ v_queue s' = v_queue s.
Proof.
  intros s t s' th _ Hth Hpc H. simpl in H. unfold resume_read_fail in H. rewrite Hth in H.
  destruct (negb (Nat.eqb (t_gen th) (gen s))); [discriminate|].
  cbv zeta in H. revert H.
  destruct (t_pc th) eqn:E; intros H; cbv beta iota in H; try discriminate; try (exfalso; apply Hpc; reflexivity).
  - injection H as <-. split; reflexivity.
  - injection H as <-. split; reflexivity.
  - destruct hit; [discriminate|].
    destruct (rq_kind (t_req th)); try discriminate.
    + destruct (N.eqb (rq_ref (t_req th)) 0); [|discriminate]. injection H as <-. split; reflexivity.
    + destruct (rq_target_tx (t_req th)); [|discriminate]. injection H as <-. split; reflexivity.
    + destruct (rq_target_tx (t_req th)); [|discriminate]. injection H as <-. split; reflexivity.
  - injection H as <-. split; reflexivity.
  - destruct hit; [discriminate|].
    destruct (rq_kind (t_req th)); try discriminate. injection H as <-. split; reflexivity.
Qed.

(* ---- non-vacuity: the race of E4Cor.v; the balance read of the lock holder fails ----------------------------- *)
(* 1 locks, 2 queues; the balance read of 1 fails: 1 answers [RErr EStoreRead], its release grants 2; 2 reads 100
   and commits *)
Definition e4_readfail_pre : list action :=
  e4_fund ++ [AStart 1%nat e4_spend; AStart 2%nat e4_spend] ++ [AResume 1%nat; AResume 2%nat].
Definition e4_readfail_acts : list action :=
  e4_readfail_pre ++ [AResumeReadFail 1%nat] ++ e4_resumes 2%nat 8 ++ [APersistOk] ++ e4_resumes 2%nat 3.

Definition e4_pc_of (s : state) (t : tid) : option pc :=
  match get_thread (threads s) t with Some th => Some (t_pc th) | None => None end.

Lemma e4_readfail_check :
  match run init e4_readfail_pre, run init (e4_readfail_pre ++ [AResumeReadFail 1%nat]), run init e4_readfail_acts with
  | Some s0, Some s1, Some s =>
      (* before the failure: 1 holds the only table entry at [PLocked], 2 is queued *)
      match e4_pc_of s0 1%nat, e4_pc_of s0 2%nat with Some PLocked, Some PEnqueued => true | _, _ => false end &&
      match v_locks s0 with [(1%nat, _, _)] => true | _ => false end &&
      match v_queue s0 with [2%nat] => true | _ => false end &&
      (* right after: 1 has answered, the table entry is the one of 2 (granted), the queue is empty, disk unchanged *)
      match e4_resp s1 1%nat with Some (RErr EStoreRead) => true | _ => false end &&
      match v_locks s1 with [(2%nat, _, _)] => true | _ => false end && e4_nil (v_queue s1) &&
      match get_thread (threads s1) 2%nat with Some th => t_granted th | None => false end &&
      Nat.eqb (length (persisted s1)) 1 &&
      (* at the end *)
      e4_sv_b (persisted s) && Nat.eqb (length (persisted s)) 2 &&
      (balance_of (persisted s) e4_alice =? 0) &&
      forallb (fun e => negb (Nat.eqb (e_owner e) 1)) (persisted s) &&
      e4_nil (v_locks s) && e4_nil (v_queue s) && e4_nil (v_pending s) &&
      match v_batch s with None => true | Some _ => false end &&
      match e4_resp s 1%nat, e4_resp s 2%nat with
      | Some (RErr EStoreRead), Some (ROk (Some 1%nat)) => true
      | _, _ => false
      end
  | _, _, _ => false
  end = true.
Proof. vm_compute. reflexivity. Qed.

(* the failures before the locker, on the same ledger: the key lookup ([PIkTaken]) and the reference lookup
   ([PRefTaken]) of a spender with a key and a reference fail: [RErr EStoreRead], key and reference are free again,
   lock table and queue untouched, nothing on disk besides the funding *)
Definition e4_spend_kr : request :=
  {| rq_kind := KCreate; rq_ik := 7%N; rq_ref := 9%N; rq_dry := false; rq_postings := [(e4_alice, e4_bob, 100)];
     rq_unb := false; rq_revert := O; rq_target_tx := None; rq_meta := 0%N |}.

Lemma e4_readfail_prelock_check :
  match run init (e4_fund ++ [AStart 2%nat e4_spend_kr; AResumeReadFail 2%nat]),
        run init (e4_fund ++ [AStart 2%nat e4_spend_kr; AResume 2%nat; AResume 2%nat; AResumeReadFail 2%nat]) with
  | Some s1, Some s2 =>
      match e4_resp s1 2%nat, e4_resp s2 2%nat with
      | Some (RErr EStoreRead), Some (RErr EStoreRead) => true | _, _ => false end &&
      e4_nil (v_iks s1) && e4_nil (v_refs s1) && e4_nil (v_locks s1) && e4_nil (v_queue s1) &&
      e4_nil (v_iks s2) && e4_nil (v_refs s2) && e4_nil (v_locks s2) && e4_nil (v_queue s2) &&
      Nat.eqb (length (persisted s1)) 1 && Nat.eqb (length (persisted s2)) 1
  | _, _ => false
  end = true.
Proof. vm_compute. reflexivity. Qed.
