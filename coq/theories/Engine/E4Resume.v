(* M2 / C02 — [start] and [resume] preserve the invariant; the theorem for all reachable states. *)
From FL Require Import Engine.Model Engine.Spec Engine.E4Base Engine.E4Inv Engine.E4Steps.
From Coq Require Import Lia.
Open Scope Z_scope.

Ltac e4_red :=
  cbn [persisted v_last v_lasttx v_pending v_batch v_iks v_refs v_revs v_locks v_queue v_cs v_uid gen threads
       published to_state of_state set_th finish release_ik u_persisted u_last u_lasttx u_pending u_batch u_iks
       u_refs u_revs u_locks u_queue u_cs u_uid u_threads u_published].
Ltac e4_thr :=
  cbn [t_pc t_req t_postings t_unb t_view t_entry t_txid t_granted t_resp t_gen t_cancelled with_pc with_cancelled] in *.

Definition e4_same_core (u u' : upd) : Prop :=
  u_persisted u' = u_persisted u /\ u_pending u' = u_pending u /\ u_batch u' = u_batch u /\
  u_uid u' = u_uid u /\ u_locks u' = u_locks u /\ u_cs u' = u_cs u.

Definition e4_enter_shape (t : tid) (th : thread) (u u' : upd) : Prop :=
  exists th', u_threads u' = set_thread (u_threads u) t th' /\ e4_same_core u u' /\
    t_entry th' = t_entry th /\ t_postings th' = t_postings th /\ t_granted th' = t_granted th /\ e4_benign th'.

Lemma e4_enter_exec_shape t th u : e4_enter_shape t th u (enter_exec t th u).
Proof.
  unfold enter_exec, e4_enter_shape, e4_same_core.
  destruct (is_tx_kind (rq_kind (t_req th))) eqn:Ek.
  - destruct (N.eqb (rq_ref (t_req th)) 0); [|destruct (mem_N (rq_ref (t_req th)) (u_refs u))];
      eexists; repeat split; try reflexivity; left; reflexivity.
  - assert (Hb : forall p, p = PWait \/ (p = PAppendEnter /\ rq_dry (t_req th) = false) ->
                   e4_benign (with_pc th p)).
    { intros p Hp. unfold e4_benign, e4_tx. cbn [t_pc t_req with_pc]. right; right; right; right. split; auto. }
    destruct (rq_target_tx (t_req th)) as [id|].
    + destruct (find_tx (u_persisted u) id).
      * eexists; repeat split; try reflexivity. apply Hb.
        destruct (rq_dry (t_req th)); auto.
      * eexists; repeat split; try reflexivity. right; left; reflexivity.
    + eexists; repeat split; try reflexivity. apply Hb.
      destruct (rq_dry (t_req th)); auto.
Qed.

Lemma e4_enter_run_shape t th u : e4_enter_shape t th u (enter_run t th u).
Proof.
  unfold enter_run. destruct (N.eqb (rq_ik (t_req th)) 0); [apply e4_enter_exec_shape|].
  unfold e4_enter_shape, e4_same_core.
  destruct (mem_N (rq_ik (t_req th)) (u_iks u));
    eexists; repeat split; try reflexivity; left; reflexivity.
Qed.

Lemma e4_inv_enter s g t th u' :
  e4_Inv s -> e4_no_own s t -> e4_enter_shape t th (of_state s) u' ->
  (t_granted th = true -> e4_holds s t th) -> t_entry th = None ->
  e4_Inv (to_state g u').
Proof.
  intros HI Hno (th' & Et & (E1 & E2 & E3 & E4 & E5 & E6) & Hent & Hps & Hg & Hb) Hgr Hnone.
  eapply (e4_inv_upd0 s _ t th'); eauto.
  apply e4_benign_ok; auto.
  - intros _ G. unfold e4_holds. rewrite Hps. apply Hgr. congruence.
  - intros _. congruence.
Qed.

(* a step that only moves the program counter (and fields the invariant does not read) *)
Lemma e4_thread_ok_move s s' t th th' :
  e4_thread_ok s t th ->
  persisted s' = persisted s -> v_pending s' = v_pending s -> v_batch s' = v_batch s ->
  (forall rs ws, In (t, rs, ws) (v_locks s) -> In (t, rs, ws) (v_locks s')) ->
  t_req th' = t_req th -> t_postings th' = t_postings th -> t_unb th' = t_unb th -> t_view th' = t_view th ->
  t_entry th' = t_entry th -> t_granted th' = t_granted th ->
  (e4_locked_pc (t_pc th') = true -> e4_locked_pc (t_pc th) = true) ->
  (e4_grantable_pc (t_pc th') = true -> e4_grantable_pc (t_pc th) = true) ->
  (e4_covered_pc (t_pc th') = true -> e4_covered_pc (t_pc th) = true) ->
  (e4_viewed_pc (t_pc th') = true -> e4_viewed_pc (t_pc th) = true) ->
  t_pc th' <> PChained ->
  (e4_cs_pc th' = true -> v_cs s' = Some t) ->
  (t_pc th = PAppended \/ t_pc th = PWait -> t_pc th' = PAppended \/ t_pc th' = PWait) ->
  (e4_prebuild_pc (t_pc th') = true -> e4_prebuild_pc (t_pc th) = true) ->
  (t_pc th' = PAppendEnter -> rq_dry (t_req th) = false) ->
  e4_thread_ok s' t th'.
Proof.
  intros [K1 K2 K3 K4 K5 K6 K7 K8 K9] Epe Epd Eb I Er Ep Eu Ev Ee Eg L G C V Nc Cs O Pb D.
  assert (Ei : e4_inflight s' = e4_inflight s) by (unfold e4_inflight; now rewrite Epd, Eb).
  constructor; unfold e4_entry_ok, e4_tx, e4_holds in *; rewrite ?Er, ?Ep, ?Eu, ?Ev, ?Ee, ?Eg, ?Epe, ?Ei; auto.
  - intros; contradiction.
  - intros e He Ho. destruct (K7 e He Ho) as [A (B1 & B2 & B3 & B4)]. split; auto. repeat split; auto.
    destruct B4 as [B4|(C1 & C2 & C3 & C4 & C5)]; [left; auto | right; repeat split; auto].
Qed.

Lemma e4_inv_start s t rq s' : e4_Inv s -> start s t rq = Some s' -> e4_Inv s'.
Proof.
  intros HI H. unfold start in H. destruct (get_thread (threads s) t) eqn:Hth; [discriminate|].
  pose proof (e4_no_own_none _ _ HI Hth) as Hno.
  cbv zeta in H. revert H.
  destruct (rq_kind rq) eqn:Ek; intros H; cbv beta iota in H;
    try (injection H as <-; apply (e4_inv_enter s (gen s) t _ _ HI Hno (e4_enter_run_shape _ _ _)); [discriminate | reflexivity]).
  destruct (mem_nat (rq_revert rq) (v_revs s)); injection H as <-;
    (eapply e4_inv_upd0 with (t := t); [exact HI | reflexivity | reflexivity | reflexivity | reflexivity
                                        | reflexivity | reflexivity | reflexivity | ]);
    (apply e4_benign_ok; [left; reflexivity | exact Hno | discriminate | reflexivity]).
Qed.

Ltac e4_fin HI Hok Hpc :=
  eapply e4_inv_upd0; [exact HI | reflexivity | reflexivity | reflexivity | reflexivity | reflexivity
                       | reflexivity | reflexivity | ];
  apply e4_benign_ok;
  [ unfold e4_benign; e4_thr; auto
  | eapply e4_no_own_pc; [exact Hok | rewrite Hpc; discriminate | rewrite Hpc; discriminate]
  | e4_thr; first [ intros; discriminate | intros _ G; apply (k_grant _ _ _ Hok); [rewrite Hpc; reflexivity | exact G] ]
  | e4_thr; first [ intros; discriminate | intros _; apply (k_pre _ _ _ Hok); rewrite Hpc; reflexivity ] ].

(* pc-only move: leaves the cs-frame obligation and whatever the pc conditions do not decide *)
Ltac e4_mv HI Hok Hpc :=
  eapply e4_inv_upd; [exact HI | reflexivity | reflexivity | reflexivity | apply Nat.le_refl | apply incl_refl
                      | apply (i_locks _ HI) | reflexivity | | ];
  [ | eapply (e4_thread_ok_move _ _ _ _ _ Hok); try reflexivity; try (intros rs ws X; exact X);
      unfold e4_cs_pc; e4_thr; e4_red; rewrite ?Hpc; simpl; auto; try discriminate;
      try (intros [X|X]; discriminate X) ].

Ltac e4_up0 HI :=
  eapply e4_inv_upd0; [exact HI | reflexivity | reflexivity | reflexivity | reflexivity | reflexivity
                       | reflexivity | reflexivity | ].
(* build the clauses of the moved thread by hand *)
Ltac e4_mk Hok Hpc :=
  destruct Hok as [K1 K2 K3 K4 K5 K6 K7 K8 K9]; unfold e4_cs_pc in K6; rewrite Hpc in *;
  constructor; unfold e4_cs_pc, e4_entry_ok, e4_tx, e4_holds in *; e4_thr; e4_red; try (intros; discriminate).

Lemma e4_inv_unlock_step s t th :
  e4_Inv s -> get_thread (threads s) t = Some th -> t_pc th <> PAppended -> t_pc th <> PWait ->
  e4_Inv (to_state (gen s) (unlock t (release_ik (t_req th) (set_th t (with_pc th PUnlocked) (of_state s))))).
Proof.
  intros HI Hth N1 N2.
  pose proof (i_th _ HI _ _ Hth) as Hok.
  set (s1 := to_state (gen s) (set_th t (with_pc th PUnlocked) (of_state s))).
  assert (HI1 : e4_Inv s1).
  { eapply e4_inv_upd0 with (t := t); [exact HI | reflexivity | reflexivity | reflexivity | reflexivity
                                      | reflexivity | reflexivity | reflexivity | ].
    apply e4_benign_ok; [right; right; left; reflexivity | eapply e4_no_own_pc; eauto | discriminate | discriminate]. }
  unfold unlock. cbn [release_ik set_th of_state u_queue u_threads u_locks u_persisted u_last u_lasttx u_pending
                      u_batch u_iks u_refs u_revs u_cs u_uid u_published].
  destruct (recheck (v_queue s) (set_thread (threads s) t (with_pc th PUnlocked))
              (filter (fun h => negb (Nat.eqb (fst (fst h)) t)) (v_locks s))) as [[q' ths'] locks'] eqn:Hr.
  eapply (e4_inv_unlock s1 _ t q' ths' locks' HI1 Hr); try reflexivity.
  intros th0 H0. unfold s1 in H0. cbn in H0. rewrite e4_get_set_same in H0. inversion H0; reflexivity.
Qed.

Lemma e4_fresh_uid s : e4_Inv s -> ~ In (v_uid s) (map e_uid (e4_all s)).
Proof.
  intros HI Hin. apply in_map_iff in Hin. destruct Hin as [e [E He]]. pose proof (i_uid _ HI e He). lia.
Qed.

Lemma e4_inv_resume s t s' : e4_Inv s -> resume s t = Some s' -> e4_Inv s'.
Proof.
  intros HI H. unfold resume in H.
  destruct (get_thread (threads s) t) as [th|] eqn:Hth; [|discriminate].
  destruct (negb (Nat.eqb (t_gen th) (gen s))); [discriminate|].
  pose proof (i_th _ HI _ _ Hth) as Hok.
  assert (Hno : t_pc th <> PAppended -> t_pc th <> PWait -> e4_no_own s t) by (apply e4_no_own_pc; auto).
  cbv zeta in H. revert H.
  destruct (t_pc th) eqn:Hpc; intros H; cbv beta iota in H; try discriminate.
  - (* PRevBusy *) injection H as <-. e4_fin HI Hok Hpc.
  - (* PRevTaken *) injection H as <-. e4_fin HI Hok Hpc.
  - (* PRevRead *)
    destruct (negb found); [injection H as <-; e4_fin HI Hok Hpc|].
    destruct reverted; [injection H as <-; e4_fin HI Hok Hpc|].
    injection H as <-.
    apply (e4_inv_enter s (gen s) t _ _ HI (Hno ltac:(discriminate) ltac:(discriminate)) (e4_enter_run_shape _ _ _)).
    + discriminate.
    + cbn. apply (k_pre _ _ _ Hok). rewrite Hpc; reflexivity.
  - (* PIkBusy *) injection H as <-. e4_fin HI Hok Hpc.
  - (* PIkTaken *) injection H as <-. e4_fin HI Hok Hpc.
  - (* PIkLookup *)
    destruct hit as [e|].
    + (* replay of the request's own outcome / refusal of a reused key: a [finish] from a benign pc either way *)
      destruct (is_outcome_of (t_req th) e); injection H as <-; e4_fin HI Hok Hpc.
    + injection H as <-.
      apply (e4_inv_enter s (gen s) t _ _ HI (Hno ltac:(discriminate) ltac:(discriminate)) (e4_enter_exec_shape _ _ _)).
      * intros G. apply (k_grant _ _ _ Hok); auto. rewrite Hpc; reflexivity.
      * apply (k_pre _ _ _ Hok). rewrite Hpc; reflexivity.
  - (* PRefBusy *) injection H as <-. e4_fin HI Hok Hpc.
  - (* PRefTaken *) injection H as <-. e4_fin HI Hok Hpc.
  - (* PRefLookup *) destruct hit; injection H as <-; e4_fin HI Hok Hpc.
  - (* PResolved *)
    destruct (compatible (reads_of (t_postings th)) (writes_of (t_postings th)) (v_locks s)) eqn:Ec;
      injection H as <-.
    + eapply e4_inv_upd with (t := t);
        [exact HI | reflexivity | reflexivity | reflexivity | apply Nat.le_refl | apply incl_appl, incl_refl
        | apply e4_pairwise_add; [apply (i_locks _ HI) | exact Ec] | reflexivity | intros x _ Hx; exact Hx | ].
      destruct Hok as [K1 K2 K3 K4 K5 K6 K7 K8 K9]. rewrite Hpc in *.
      constructor; unfold e4_cs_pc, e4_entry_ok, e4_tx, e4_holds in *; e4_thr; e4_red; try (intros; discriminate).
      * intros _ _. apply in_or_app; right; left; reflexivity.
      * intros e He Ho. destruct (K7 e He Ho) as [[X|X] _]; discriminate X.
      * intros _. apply K8; reflexivity.
    + e4_mv HI Hok Hpc. intros x _ Hx; exact Hx.
  - (* PEnqueued *)
    destruct (t_granted th) eqn:Eg; [|discriminate]. injection H as <-.
    e4_up0 HI. e4_mk Hok Hpc.
    + intros _ _. apply K2; auto.
    + intros e He Ho. destruct (K7 e He Ho) as [[X|X] _]; discriminate X.
    + intros _. apply K8; reflexivity.
  - (* PLocked *)
    injection H as <-. e4_up0 HI. e4_mk Hok Hpc.
    + intros _. apply K1; reflexivity.
    + intros _ _ _ a Ha. apply (e4_view_get_map (balance_of (persisted s))). now apply e4_writes_in_reads.
    + intros e He Ho. destruct (K7 e He Ho) as [[X|X] _]; discriminate X.
    + intros _. apply K8; reflexivity.
  - (* PBalances *)
    injection H as <-. e4_up0 HI. e4_mk Hok Hpc.
    + intros _. apply K1; reflexivity.
    + destruct (covers (t_view th) (t_unb th) (t_postings th)); auto.
    + intros _. apply K4; reflexivity.
    + intros e He Ho. destruct (K7 e He Ho) as [[X|X] _]; discriminate X.
    + intros _. apply K8; reflexivity.
  - (* PRan *)
    destruct ok.
    + assert (Hcase : t_postings th = [] \/ exists p0 r0, t_postings th = p0 :: r0)
        by (destruct (t_postings th); eauto).
      destruct Hcase as [E|(p0 & r0 & E)]; rewrite E in H.
      * injection H as <-. apply e4_inv_unlock_step; auto; rewrite Hpc; discriminate.
      * destruct (rq_dry (t_req th)) eqn:Ed; injection H as <-.
        -- e4_mv HI Hok Hpc; [intros x _ Hx; exact Hx | rewrite Ed; discriminate].
        -- e4_mv HI Hok Hpc. intros x _ Hx; exact Hx.
    + injection H as <-. apply e4_inv_unlock_step; auto; rewrite Hpc; discriminate.
  - (* PAppendEnter *)
    destruct (v_cs s) as [c|] eqn:Ecs; [discriminate|].
    destruct (is_tx_kind (rq_kind (t_req th))) eqn:Ek; injection H as <-.
    + e4_mv HI Hok Hpc. intros x _ Hx; congruence.
    + (* metadata write: the entry is built *)
      eapply e4_inv_upd with (t := t);
        [exact HI | reflexivity | reflexivity | reflexivity | apply Nat.le_succ_diag_r | apply incl_refl
        | apply (i_locks _ HI) | reflexivity | intros x _ Hx; congruence | ].
      pose proof (i_uid _ HI) as Iu.
      e4_mk Hok Hpc.
      * intros _ X; congruence.
      * intros _ X; congruence.
      * intros _ e He. injection He as <-. unfold build_entry; cbn [e_owner e_postings e_unb e_uid u_uid of_state].
        rewrite Ek. repeat split; auto. exact (e4_fresh_uid s HI).
      * reflexivity.
      * intros e He Ho. destruct (K7 e He Ho) as [[X|X] _]; discriminate X.
  - (* PTxid *)
    destruct (rq_dry (t_req th)) eqn:Ed; injection H as <-.
    + e4_mv HI Hok Hpc. intros x _ Hx; exact Hx.
    + eapply e4_inv_upd with (t := t);
        [exact HI | reflexivity | reflexivity | reflexivity | apply Nat.le_succ_diag_r | apply incl_refl
        | apply (i_locks _ HI) | reflexivity | intros x _ Hx; exact Hx | ].
      pose proof (i_uid _ HI) as Iu.
      e4_mk Hok Hpc.
      * intros _. apply K1; reflexivity.
      * intros _ Htx _. apply K4; auto. intros e0 He0. rewrite (K8 eq_refl) in He0. discriminate.
      * intros _ e He. injection He as <-.
        split; [|split; [cbn; lia | exact (e4_fresh_uid s HI)]].
        split; [reflexivity|]. split; [reflexivity|]. split; [exact Ed|].
        unfold build_entry; cbn [e_owner e_postings e_unb e_uid u_uid of_state].
        destruct (is_tx_kind (rq_kind (t_req th))) eqn:Ek; [right | left; reflexivity].
        repeat split; auto.
      * intros _. apply K6. rewrite Ed. reflexivity.
      * intros e He Ho. destruct (K7 e He Ho) as [[X|X] _]; discriminate X.
  - (* PChained *)
    destruct (t_entry th) as [e|] eqn:Hent; [|discriminate]. injection H as <-.
    eapply (e4_inv_append s _ t th e HI Hth Hpc Hent); try reflexivity.
    + unfold e4_inflight. e4_red. destruct (v_batch s) as [b|] eqn:Eb; cbn.
      * now rewrite app_assoc.
      * rewrite (i_bp _ HI Eb). reflexivity.
    + e4_red. destruct (v_batch s); discriminate.
  - (* PAppended *)
    injection H as <-. e4_mv HI Hok Hpc.
    intros x Hx Hc. exfalso. apply Hx.
    assert (v_cs s = Some t) by (apply (k_cs _ _ _ Hok); unfold e4_cs_pc; now rewrite Hpc). congruence.
  - (* PWait *)
    assert (Hown : e4_no_own s t -> e4_Inv (to_state (gen s) (set_th t (with_pc th PDone) (of_state s)))).
    { intros Hn. e4_up0 HI.
      apply e4_benign_ok; [right; right; right; left; reflexivity | exact Hn | discriminate | discriminate]. }
    destruct (rq_dry (t_req th)) eqn:Ed.
    + injection H as <-. apply Hown. intros e He Ho.
      destruct (k_own _ _ _ Hok e He Ho) as [_ (_ & _ & X & _)]. congruence.
    + destruct (t_entry th) as [e0|] eqn:Hent; [|discriminate].
      destruct (entry_persisted (persisted s) e0) eqn:Epers; [|discriminate]. injection H as <-.
      apply Hown. intros e He Ho. destruct (k_own _ _ _ Hok e He Ho) as [_ (_ & X & _)].
      assert (e0 = e) by congruence. subst e0.
      rewrite (e4_inflight_not_persisted s e HI He) in Epers. discriminate.
  - (* PDone *)
    destruct (is_tx_kind (rq_kind (t_req th))) eqn:Ek; injection H as <-.
    + apply e4_inv_unlock_step; auto; rewrite Hpc; discriminate.
    + e4_fin HI Hok Hpc.
  - (* PUnlocked *)
    destruct (covers (t_view th) (t_unb th) (t_postings th)).
    + assert (Hcase : t_postings th = [] \/ exists p0 r0, t_postings th = p0 :: r0)
        by (destruct (t_postings th); eauto).
      destruct Hcase as [E|(p0 & r0 & E)]; rewrite E in H; injection H as <-; e4_fin HI Hok Hpc.
    + injection H as <-; e4_fin HI Hok Hpc.
Qed.

(* ---- cancellation ------------------------------------------------------------------------------------------------ *)
(* [cancel] only sets the flag of one thread; the invariant does not read it *)
Lemma e4_inv_cancel s t s' : e4_Inv s -> cancel s t = Some s' -> e4_Inv s'.
Proof.
  intros HI H. unfold cancel in H.
  destruct (get_thread (threads s) t) as [th|] eqn:Hth; [|discriminate].
  destruct (negb (Nat.eqb (t_gen th) (gen s))); [discriminate|].
  destruct (pc_finished (t_pc th)); [discriminate|]. injection H as <-.
  e4_up0 HI. apply e4_thread_ok_cancelled. exact (i_th _ HI _ _ Hth).
Qed.

(* the queued lock intent gives up: a grant received meanwhile is released (+ FIFO recheck), otherwise only the
   queue changes; the thread finishes *)
Lemma e4_inv_resume_cancelled s t s' : e4_Inv s -> resume_cancelled s t = Some s' -> e4_Inv s'.
Proof.
  intros HI H. unfold resume_cancelled in H.
  destruct (get_thread (threads s) t) as [th|] eqn:Hth; [|discriminate].
  destruct (negb (Nat.eqb (t_gen th) (gen s))); [discriminate|].
  pose proof (i_th _ HI _ _ Hth) as Hok.
  destruct (t_pc th) eqn:Hpc; try discriminate.
  destruct (t_cancelled th); [|discriminate]. cbv zeta in H.
  destruct (t_granted th) eqn:Eg; injection H as <-.
  - unfold unlock. cbn [of_state u_queue u_threads u_locks u_persisted u_last u_lasttx u_pending
                        u_batch u_iks u_refs u_revs u_cs u_uid u_published].
    destruct (recheck (v_queue s) (threads s) (filter (fun h => negb (Nat.eqb (fst (fst h)) t)) (v_locks s)))
      as [[q' ths'] locks'] eqn:Hr.
    eapply (e4_inv_unlock_fin s _ t th _ q' ths' locks' HI Hr Hth); try reflexivity; try reflexivity; rewrite Hpc; discriminate.
  - unfold dequeue. e4_fin HI Hok Hpc.
Qed.

(* ---- transient store read failures ------------------------------------------------------------------------------ *)
(* the read of the region the thread would run next fails: before the locker the thread just finishes (it holds no
   table entry that the invariant speaks of and owns no in-flight entry); the SaveMeta case is the pc move of a
   metadata kind that [enter_exec] performs as well; at [PLocked] the thread gives its table entry back (release +
   FIFO recheck) and finishes in the same step, as the granted waiter that gives up does *)
Lemma e4_inv_resume_read_fail s t s' : e4_Inv s -> resume_read_fail s t = Some s' -> e4_Inv s'.
Proof.
  intros HI H. unfold resume_read_fail in H.
  destruct (get_thread (threads s) t) as [th|] eqn:Hth; [|discriminate].
  destruct (negb (Nat.eqb (t_gen th) (gen s))); [discriminate|].
  pose proof (i_th _ HI _ _ Hth) as Hok.
  cbv zeta in H. revert H.
  destruct (t_pc th) eqn:Hpc; intros H; cbv beta iota in H; try discriminate.
  - (* PRevTaken *) injection H as <-. e4_fin HI Hok Hpc.
  - (* PIkTaken *) injection H as <-. e4_fin HI Hok Hpc.
  - (* PIkLookup *)
    destruct hit as [e|]; [discriminate|].
    destruct (rq_kind (t_req th)) eqn:Ek; try discriminate.
    + (* create without reference: the compilation reads account metadata *)
      destruct (N.eqb (rq_ref (t_req th)) 0); [|discriminate]. injection H as <-. e4_fin HI Hok Hpc.
    + (* SaveMeta goes on as if the transaction had been found *)
      destruct (rq_target_tx (t_req th)); [|discriminate]. injection H as <-.
      e4_up0 HI. apply e4_benign_ok.
      * unfold e4_benign, e4_tx. e4_thr. rewrite Ek. right; right; right; right. split; [reflexivity|].
        destruct (rq_dry (t_req th)); auto.
      * eapply e4_no_own_pc; [exact Hok | rewrite Hpc; discriminate | rewrite Hpc; discriminate].
      * e4_thr. destruct (rq_dry (t_req th)); discriminate.
      * e4_thr. intros _. apply (k_pre _ _ _ Hok). rewrite Hpc; reflexivity.
    + (* DeleteMetadata answers not-found *)
      destruct (rq_target_tx (t_req th)); [|discriminate]. injection H as <-. e4_fin HI Hok Hpc.
  - (* PRefTaken *) injection H as <-. e4_fin HI Hok Hpc.
  - (* PRefLookup *)
    destruct hit; [discriminate|].
    destruct (rq_kind (t_req th)); try discriminate. injection H as <-. e4_fin HI Hok Hpc.
  - (* PLocked: the balance read under the locks fails *)
    destruct (needs_balance th); [|discriminate]. injection H as <-.
    unfold unlock. cbn [of_state u_queue u_threads u_locks u_persisted u_last u_lasttx u_pending
                        u_batch u_iks u_refs u_revs u_cs u_uid u_published].
    destruct (recheck (v_queue s) (threads s) (filter (fun h => negb (Nat.eqb (fst (fst h)) t)) (v_locks s)))
      as [[q' ths'] locks'] eqn:Hr.
    eapply (e4_inv_unlock_fin s _ t th _ q' ths' locks' HI Hr Hth); try reflexivity; try reflexivity; rewrite Hpc; discriminate.
Qed.

Lemma e4_inv_step s a s' : e4_Inv s -> step s a = Some s' -> e4_Inv s'.
Proof.
  intros HI H. destruct a; simpl in H.
  - eapply e4_inv_start; eauto.
  - eapply e4_inv_resume; eauto.
  - eapply e4_inv_persist; eauto.
  - destruct (v_batch s); [|discriminate]. injection H as <-. now apply e4_inv_crash.
  - injection H as <-. now apply e4_inv_crash.
  - eapply e4_inv_cancel; eauto.
  - eapply e4_inv_resume_cancelled; eauto.
  - eapply e4_inv_resume_read_fail; eauto.
  - injection H as <-. unfold close. now apply e4_inv_crash.
  - unfold close_ok in H. destruct (persist_ok s) as [s1|] eqn:P; [|discriminate]. injection H as <-.
    apply e4_inv_crash. eapply e4_inv_persist; eauto.
Qed.

Lemma e4_inv_init : e4_Inv init.
Proof.
  constructor; simpl.
  - exact I.
  - constructor.
  - intros e [].
  - reflexivity.
  - intros h h' [].
  - intros e [].
  - intros t th H; discriminate.
Qed.

Lemma e4_inv_run : forall acts s s', e4_Inv s -> run s acts = Some s' -> e4_Inv s'.
Proof.
  induction acts as [|a r IH]; intros s s' HI H; simpl in H.
  - injection H as <-. exact HI.
  - destruct (step s a) as [s1|] eqn:E; [|discriminate]. eapply IH; [|exact H]. eapply e4_inv_step; eauto.
Qed.

Theorem e4_reachable_inv s : reachable s -> e4_Inv s.
Proof. intros [acts H]. eapply e4_inv_run; [apply e4_inv_init | exact H]. Qed.

(* C02: the persisted log of every reachable state is serially valid *)
Theorem e4_serial : forall s, reachable s -> serially_valid (persisted s).
Proof. intros s H. apply i_sv. now apply e4_reachable_inv. Qed.
