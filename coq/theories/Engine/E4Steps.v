(* M2 / C02 — every transition of the engine LTS preserves the lock / visibility invariant. *)
From FL Require Import Engine.Model Engine.Spec Engine.E4Base Engine.E4Inv.
From Coq Require Import Lia.
Open Scope Z_scope.

Lemma e4_nodup_app_l {A} (l l' : list A) : NoDup (l ++ l') -> NoDup l.
Proof.
  induction l as [|x r IH]; simpl; intros H; [constructor|].
  inversion H; subst. constructor; auto. intro Hin; apply H2. apply in_or_app; auto.
Qed.

Lemma e4_nodup_snoc {A} (l : list A) x : NoDup l -> ~ In x l -> NoDup (l ++ [x]).
Proof.
  induction l as [|y r IH]; simpl; intros H Hn.
  - constructor; [auto | constructor].
  - inversion H; subst. constructor.
    + intro Hin. apply in_app_or in Hin. destruct Hin as [Hin|[->|[]]]; auto.
    + apply IH; auto.
Qed.

Lemma e4_viewed_locked p : e4_viewed_pc p = true -> e4_locked_pc p = true.
Proof. destruct p; simpl; auto. Qed.

(* an entry waiting in the batcher is not on disk *)
Lemma e4_inflight_not_persisted s e : e4_Inv s -> In e (e4_inflight s) -> entry_persisted (persisted s) e = false.
Proof.
  intros HI He. destruct (entry_persisted (persisted s) e) eqn:E; auto. exfalso.
  apply e4_entry_persisted_uid in E. apply in_map_iff in E. destruct E as [x [Ex Hx]].
  exact (e4_nodup_app_neq e_uid _ _ x e (i_nodup _ HI) Hx He Ex).
Qed.

(* an in-flight entry of another thread does not move the balance of an account that [t] holds for writing *)
Lemma e4_other_untouched s t th e' a :
  e4_Inv s -> e4_holds s t th -> In e' (e4_inflight s) -> e_owner e' <> t ->
  In a (writes_of (t_postings th)) -> e4_entry_delta a e' = 0.
Proof.
  intros HI Hh He Hn Ha.
  destruct (i_own _ HI e' He) as [thx Hx].
  pose proof (i_th _ HI _ _ Hx) as Kx.
  destruct (k_own _ _ _ Kx e' He eq_refl) as [_ (_ & _ & _ & D)].
  pose proof (e4_writes_non_world _ _ Ha) as Hw.
  destruct D as [D|(_ & D2 & _ & D4 & _)].
  - unfold e4_entry_delta. rewrite D. reflexivity.
  - apply (e4_entry_untouched a e' (t_postings thx)); auto.
    apply (i_locks _ HI _ _ Hh D4); simpl; auto.
Qed.

(* ---- the worker persists its batch ------------------------------------------------------------------------- *)
Lemma e4_inv_persist_gen s s' b :
  e4_Inv s -> v_batch s = Some b ->
  persisted s' = persisted s ++ b -> e4_inflight s' = v_pending s -> v_locks s' = v_locks s ->
  v_uid s' = v_uid s -> v_cs s' = v_cs s -> threads s' = threads s ->
  (v_batch s' = None -> v_pending s' = []) -> e4_Inv s'.
Proof.
  intros HI Eb Ep Ei El Eu Ec Et Hbp.
  pose proof HI as [Isv Ind Iu Ibp Il Io Ith].
  assert (Einf : e4_inflight s = b ++ v_pending s) by (unfold e4_inflight; now rewrite Eb).
  assert (Ea : e4_all s' = e4_all s).
  { unfold e4_all. rewrite Ep, Ei, Einf. now rewrite app_assoc. }
  assert (Hb : forall e, In e b -> In e (e4_inflight s)) by (intros; rewrite Einf; apply in_or_app; auto).
  (* a thread that holds its locks and has no entry in the batch sees the same balances on its write set *)
  assert (Hbal : forall t th l1, e4_thread_ok s t th -> e4_holds s t th -> incl l1 b ->
            (forall e, In e l1 -> e_owner e = t -> False) ->
            forall a, In a (writes_of (t_postings th)) -> balance_of (persisted s ++ l1) a = balance_of (persisted s) a).
  { intros t th l1 K Hh Hl Hno a Ha. apply e4_balance_untouched. intros e' He'.
    apply (e4_other_untouched s t th); auto. intro Ho. eapply Hno; eauto. }
  constructor.
  - (* serial validity of the extended disk *)
    rewrite Ep. unfold serially_valid. apply e4_sv_from_app. split; [exact Isv|]. simpl.
    rewrite <- (app_nil_r (persisted s)). apply e4_sv_from_split. simpl.
    intros l1 e l2 E _.
    assert (Heb : In e b) by (rewrite E; apply in_or_app; right; left; reflexivity).
    pose proof (Hb e Heb) as Hei.
    destruct (Io e Hei) as [th Hth]. pose proof (Ith _ _ Hth) as K.
    destruct (k_own _ _ _ K e Hei eq_refl) as [Hpc (_ & Hent & _ & D)].
    destruct D as [D|(Dtx & Dps & Dunb & Dh & Dcov)]; [rewrite D; reflexivity|].
    rewrite Dps, Dunb, <- Dcov. apply e4_covers_ext. intros a Ha.
    rewrite e4_view_of_get by (now apply e4_writes_in_reads).
    rewrite (Hbal (e_owner e) th l1 K Dh); auto.
    + symmetry. apply (k_view _ _ _ K); auto.
      * destruct Hpc as [-> | ->]; reflexivity.
      * intros e0 He0. rewrite Hent in He0. inversion He0; subst e0. now apply e4_inflight_not_persisted.
    + rewrite E. apply incl_appl, incl_refl.
    + intros e' He' Ho.
      assert (He'i : In e' (e4_inflight s)) by (apply Hb; rewrite E; apply in_or_app; auto).
      destruct (k_own _ _ _ K e' He'i Ho) as [_ (_ & Hent' & _)].
      rewrite Hent in Hent'. inversion Hent'; subst e'.
      unfold e4_all in Ind. rewrite Einf, E in Ind.
      replace (persisted s ++ (l1 ++ e :: l2) ++ v_pending s)
        with ((persisted s ++ l1) ++ (e :: l2 ++ v_pending s)) in Ind
        by (rewrite <- !app_assoc; reflexivity).
      apply (e4_nodup_app_neq e_uid _ _ e e Ind); auto.
      * apply in_or_app; auto.
      * left; reflexivity.
  - now rewrite Ea.
  - rewrite Ea, Eu. auto.
  - exact Hbp.
  - now rewrite El.
  - rewrite Ei, Et. intros e He. apply Io. rewrite Einf. apply in_or_app; auto.
  - rewrite Et. intros t th Hth. pose proof (Ith _ _ Hth) as K.
    destruct K as [K1 K2 K3 K4 K5 K6 K7 K8 K9].
    assert (Hfr : forall e, e4_entry_ok s t th e -> e4_entry_ok s' t th e).
    { intros e He. eapply e4_entry_ok_frame; eauto. intros; now rewrite El. }
    constructor; auto.
    + unfold e4_holds; rewrite El; auto.
    + unfold e4_holds; rewrite El; auto.
    + intros Hv Htx Hnp a Ha. rewrite Ep.
      assert (Hh : e4_holds s t th) by (apply K1; auto; now apply e4_viewed_locked).
      rewrite (Hbal t th b (Ith _ _ Hth) Hh); auto.
      * apply K4; auto. intros e He. specialize (Hnp e He). rewrite Ep in Hnp.
        eapply e4_entry_persisted_app; eauto.
      * apply incl_refl.
      * intros e' He' Ho. destruct (K7 e' (Hb e' He') Ho) as [_ (_ & Hent & _)].
        specialize (Hnp e' Hent). rewrite Ep in Hnp.
        rewrite e4_entry_persisted_in in Hnp; [discriminate|]. apply in_or_app; auto.
    + intros Hp e He. destruct (K5 Hp e He) as (A & B & C). rewrite Ea, Eu. auto.
    + rewrite Ec; auto.
    + rewrite Ei. intros e He Ho. assert (Hi : In e (e4_inflight s)) by (rewrite Einf; apply in_or_app; auto).
      destruct (K7 e Hi Ho); auto.
Qed.

Lemma e4_inv_persist s s' : e4_Inv s -> persist_ok s = Some s' -> e4_Inv s'.
Proof.
  intros HI H. unfold persist_ok in H. destruct (v_batch s) as [b|] eqn:Eb; [|discriminate].
  injection H as <-.
  eapply e4_inv_persist_gen; eauto; try reflexivity.
  unfold e4_inflight; cbn. destruct (v_pending s); [reflexivity | apply app_nil_r].
Qed.

(* ---- crash ---------------------------------------------------------------------------------------------------- *)
Definition e4_kill (th : thread) : thread :=
  match t_pc th with
  | PFinished => th
  | _ => {| t_req := t_req th; t_pc := PFinished; t_postings := t_postings th; t_unb := t_unb th;
            t_view := t_view th; t_entry := t_entry th; t_txid := t_txid th;
            t_granted := t_granted th; t_resp := Some RCrashed; t_gen := t_gen th;
            t_cancelled := t_cancelled th |}
  end.
Lemma e4_crash_threads s : threads (crash s) = map (fun p => (fst p, e4_kill (snd p))) (threads s).
Proof. reflexivity. Qed.
Lemma e4_kill_pc th : t_pc (e4_kill th) = PFinished.
Proof. unfold e4_kill. destruct (t_pc th) eqn:E; simpl; auto. Qed.

Lemma e4_inv_crash s : e4_Inv s -> e4_Inv (crash s).
Proof.
  intros [Isv Ind Iu Ibp Il Io Ith].
  assert (Ea : e4_all (crash s) = persisted s) by (unfold e4_all, e4_inflight; cbn; apply app_nil_r).
  constructor.
  - exact Isv.
  - rewrite Ea. unfold e4_all in Ind. rewrite map_app in Ind. eapply e4_nodup_app_l; eauto.
  - rewrite Ea. intros e He. apply Iu. unfold e4_all. apply in_or_app; auto.
  - reflexivity.
  - intros h h' [].
  - intros e [].
  - intros t th' H. rewrite e4_crash_threads, e4_get_map in H.
    destruct (get_thread (threads s) t) as [th|]; [|discriminate]. simpl in H. inversion H; subst th'.
    apply e4_benign_ok.
    + right; left. apply e4_kill_pc.
    + intros e [].
    + rewrite e4_kill_pc. discriminate.
    + rewrite e4_kill_pc. discriminate.
Qed.

(* ---- the chained entry is handed to the batcher ----------------------------------------------------------- *)
Lemma e4_inv_append s s' t th e :
  e4_Inv s -> get_thread (threads s) t = Some th -> t_pc th = PChained -> t_entry th = Some e ->
  persisted s' = persisted s -> e4_inflight s' = e4_inflight s ++ [e] -> v_batch s' <> None ->
  v_locks s' = v_locks s -> v_uid s' = v_uid s -> v_cs s' = v_cs s ->
  threads s' = set_thread (threads s) t (with_pc th PAppended) -> e4_Inv s'.
Proof.
  intros HI Hth Hpc Hent Ep Ei Hb El Eu Ec Et.
  pose proof HI as [Isv Ind Iu Ibp Il Io Ith].
  pose proof (Ith _ _ Hth) as K.
  destruct (k_chained _ _ _ K Hpc e Hent) as (Hok & Hlt & Hfresh).
  assert (Hcs : v_cs s = Some t) by (apply (k_cs _ _ _ K); unfold e4_cs_pc; now rewrite Hpc).
  assert (Ea : e4_all s' = e4_all s ++ [e]) by (unfold e4_all; now rewrite Ep, Ei, app_assoc).
  assert (Hfr : forall x thx e0, e4_entry_ok s x thx e0 -> e4_entry_ok s' x thx e0).
  { intros x thx e0 He. eapply e4_entry_ok_frame; eauto. intros; now rewrite El. }
  constructor.
  - now rewrite Ep.
  - rewrite Ea, map_app. simpl. apply e4_nodup_snoc; auto.
  - rewrite Ea, Eu. intros e0 He0. apply in_app_or in He0. destruct He0 as [He0|[<-|[]]]; auto.
  - intros; contradiction.
  - now rewrite El.
  - rewrite Ei, Et. intros e0 He0. apply in_app_or in He0.
    assert (Hex : forall x, (exists thx, get_thread (threads s) x = Some thx) ->
                   exists thx, get_thread (set_thread (threads s) t (with_pc th PAppended)) x = Some thx).
    { intros x [thx Hx]. destruct (Nat.eq_dec t x) as [<-|Hn].
      - eexists; apply e4_get_set_same.
      - rewrite e4_get_set_other; eauto. }
    apply Hex. destruct He0 as [He0|[<-|[]]]; auto.
    destruct Hok as [-> _]. eauto.
  - rewrite Et. intros x thx Hx. destruct (Nat.eq_dec t x) as [<-|Hn].
    + rewrite e4_get_set_same in Hx. inversion Hx; subst thx. clear Hx.
      destruct K as [K1 K2 K3 K4 K5 K6 K7 K8 K9]. rewrite Hpc in *.
      constructor; unfold e4_cs_pc, e4_tx, e4_holds in *; cbn [t_pc t_req t_postings t_unb t_view t_entry t_granted with_pc] in *;
        try (intros; discriminate).
      * rewrite El. intros _. apply K1. reflexivity.
      * rewrite Ep. intros _. apply K4. reflexivity.
      * intros _. now rewrite Ec.
      * rewrite Ei. intros e0 He0 Ho. split; auto. apply in_app_or in He0. destruct He0 as [He0|[<-|[]]].
        -- destruct (K7 e0 He0 Ho) as [[X|X] _]; discriminate.
        -- apply (Hfr t (with_pc th PAppended)). exact Hok.
    + rewrite e4_get_set_other in Hx; auto. pose proof (Ith _ _ Hx) as Kx.
      destruct Kx as [K1 K2 K3 K4 K5 K6 K7 K8 K9].
      constructor; auto.
      * unfold e4_holds; rewrite El; auto.
      * unfold e4_holds; rewrite El; auto.
      * rewrite Ep; auto.
      * intros Hp. exfalso. assert (v_cs s = Some x) by (apply K6; unfold e4_cs_pc; now rewrite Hp). congruence.
      * rewrite Ec. auto.
      * rewrite Ei. intros e0 He0 Ho. apply in_app_or in He0. destruct He0 as [He0|[<-|[]]].
        -- destruct (K7 e0 He0 Ho); auto.
        -- destruct Hok as [Ho' _]. congruence.
Qed.
