(* M2 / C02 (cancellation) — lock-table / queue hygiene of the engine LTS, with context cancellation.
   Self-contained: imports only the frozen Model.v / Spec.v.
   The invariant [e5_Inv] says that the lock table and the queue of lock intents are EXACTLY determined by the
   thread table: a tid is queued iff its thread waits (parked at "lock.enqueued", not granted), and
   (t, rs, ws) is in the table iff the thread of t holds its account locks (granted while queued, or anywhere
   between "locked" and "done" of a transaction request) with rs / ws the read / write set of its postings.
   Everything else (finished, crashed, answered ELockCancelled, metadata writes, requests before the lock) has
   neither a queue entry nor a table entry. *)
From FL Require Import Engine.Model Engine.Spec.
From Coq Require Import Lia.
Open Scope nat_scope.

(* ---- lists ---------------------------------------------------------------------------------------------- *)
Lemma e5_nodup_snoc {A} (l : list A) a : NoDup l -> ~ In a l -> NoDup (l ++ [a]).
Proof.
  induction l as [|b r IH]; simpl; intros N Hn.
  - constructor; auto; constructor.
  - inversion N as [|? ? Hb N']; subst. constructor.
    + intro Hin. apply in_app_or in Hin. destruct Hin as [Hin|[Hin|[]]]; [auto | subst; apply Hn; now left].
    + apply IH; auto.
Qed.

Lemma e5_nodup_filter {A} (p : A -> bool) l : NoDup l -> NoDup (filter p l).
Proof.
  induction l as [|b r IH]; simpl; intros N; [constructor|].
  inversion N as [|? ? Hb N']; subst. destruct (p b); auto. constructor; auto.
  intro Hin. apply filter_In in Hin. tauto.
Qed.

Lemma e5_nodup_map_filter {A B} (f : A -> B) (p : A -> bool) l :
  NoDup (map f l) -> NoDup (map f (filter p l)).
Proof.
  induction l as [|b r IH]; simpl; intros N; [constructor|].
  inversion N as [|? ? Hb N']; subst. destruct (p b); simpl; auto. constructor; auto.
  intro Hin. apply Hb. apply in_map_iff in Hin. destruct Hin as [x [E Hx]]. apply filter_In in Hx.
  apply in_map_iff. exists x; tauto.
Qed.

Lemma e5_in_remove t w q : In w (remove_nat t q) <-> In w q /\ w <> t.
Proof.
  unfold remove_nat. rewrite filter_In. split; intros [A B]; split; auto.
  - intro; subst. rewrite Nat.eqb_refl in B. discriminate.
  - apply negb_true_iff. apply Nat.eqb_neq. auto.
Qed.

Lemma e5_remove_notin t q : ~ In t q -> remove_nat t q = q.
Proof.
  induction q as [|a r IH]; simpl; intros Hn; auto.
  destruct (Nat.eqb t a) eqn:E; simpl.
  - apply Nat.eqb_eq in E. subst. exfalso; apply Hn; now left.
  - f_equal. apply IH. intro; apply Hn; now right.
Qed.

Lemma e5_remove_snoc t q : ~ In t q -> remove_nat t (q ++ [t]) = q.
Proof.
  intros Hn. unfold remove_nat. rewrite filter_app. simpl. rewrite Nat.eqb_refl. simpl.
  rewrite app_nil_r. apply e5_remove_notin; auto.
Qed.

(* ---- thread table (holds for every list, no uniqueness needed) ----------------------------------------- *)
Lemma e5_get_set l t th t' :
  get_thread (set_thread l t th) t' = if Nat.eqb t' t then Some th else get_thread l t'.
Proof.
  induction l as [|[u x] r IH]; simpl.
  - reflexivity.
  - destruct (Nat.eqb t u) eqn:E; simpl.
    + apply Nat.eqb_eq in E; subst u. destruct (Nat.eqb t' t); reflexivity.
    + rewrite IH. destruct (Nat.eqb t' u) eqn:E2; destruct (Nat.eqb t' t) eqn:E3; auto.
      apply Nat.eqb_eq in E2, E3. subst. rewrite Nat.eqb_refl in E. discriminate.
Qed.

Lemma e5_get_set_same l t th : get_thread (set_thread l t th) t = Some th.
Proof. rewrite e5_get_set. now rewrite Nat.eqb_refl. Qed.

Lemma e5_get_set_other l t th t' : t' <> t -> get_thread (set_thread l t th) t' = get_thread l t'.
Proof. intros Hn. rewrite e5_get_set. apply Nat.eqb_neq in Hn. now rewrite Hn. Qed.

Lemma e5_get_map (f : thread -> thread) l t :
  get_thread (map (fun p => (fst p, f (snd p))) l) t = option_map f (get_thread l t).
Proof. induction l as [|[u x] r IH]; simpl; auto. destruct (Nat.eqb t u); auto. Qed.

(* ---- the lock standing of a thread -------------------------------------------------------------------- *)
Inductive e5_status := E5Idle | E5Waiting | E5Holding (rs ws : list account).

Definition e5_hold (th : thread) : e5_status :=
  E5Holding (reads_of (t_postings th)) (writes_of (t_postings th)).

Definition e5_st (th : thread) : e5_status :=
  match t_pc th with
  | PEnqueued => if t_granted th then e5_hold th else E5Waiting
  | PLocked | PBalances | PRan _ => e5_hold th
  | PAppendEnter | PTxid | PChained | PAppended | PWait | PDone =>
      if is_tx_kind (rq_kind (t_req th)) then e5_hold th else E5Idle
  | _ => E5Idle
  end.

Definition e5_sto (ths : list (tid * thread)) (t : tid) : e5_status :=
  match get_thread ths t with Some th => e5_st th | None => E5Idle end.

Definition e5_tidof (h : tid * list account * list account) : tid := fst (fst h).

(* pcs only transaction requests (create / revert) visit *)
Definition e5_txpc (p : pc) : bool :=
  match p with PRefTaken | PRefLookup _ | PResolved | PEnqueued | PLocked | PBalances | PRan _ => true | _ => false end.
(* pcs before the lock request *)
Definition e5_pre (p : pc) : bool :=
  match p with
  | PStart | PRevBusy | PRevTaken | PRevRead _ _ | PIkBusy | PIkTaken | PIkLookup _ | PRefBusy | PRefTaken
  | PRefLookup _ | PResolved => true
  | _ => false
  end.

Definition e5_tok (g : nat) (th : thread) : Prop :=
  (t_gen th <> g -> t_pc th = PFinished) /\
  (e5_txpc (t_pc th) = true -> is_tx_kind (rq_kind (t_req th)) = true) /\
  (e5_pre (t_pc th) = true -> t_granted th = false).

(* the invariant over the raw components; the tids in [X] are exempt (used in the middle of a step) *)
Record e5_P (X : tid -> Prop) (g : nat) (q : list tid) (ths : list (tid * thread))
            (locks : list (tid * list account * list account)) : Prop := {
  p_qnd : NoDup q;
  p_lnd : NoDup (map e5_tidof locks);
  p_qx : forall w, In w q -> ~ X w;
  p_lx : forall h, In h locks -> ~ X (e5_tidof h);
  p_q : forall w, ~ X w -> (In w q <-> e5_sto ths w = E5Waiting);
  p_l : forall t rs ws, ~ X t -> (In (t, rs, ws) locks <-> e5_sto ths t = E5Holding rs ws);
  p_th : forall t th, get_thread ths t = Some th -> e5_tok g th
}.

Definition e5_none : tid -> Prop := fun _ => False.
Definition e5_only (t : tid) : tid -> Prop := fun v => v = t.

Definition e5_Inv (s : state) : Prop := e5_P e5_none (gen s) (v_queue s) (threads s) (v_locks s).
Definition e5_Pu (g : nat) (u : upd) : Prop := e5_P e5_none g (u_queue u) (u_threads u) (u_locks u).

Lemma e5_Pu_inv g u : e5_Pu g u -> e5_Inv (to_state g u).
Proof. exact (fun H => H). Qed.
Lemma e5_inv_Pu s : e5_Inv s -> e5_Pu (gen s) (of_state s).
Proof. exact (fun H => H). Qed.

Lemma e5_sto_set ths t th x :
  e5_sto (set_thread ths t th) x = if Nat.eqb x t then e5_st th else e5_sto ths x.
Proof. unfold e5_sto. rewrite e5_get_set. destruct (Nat.eqb x t); reflexivity. Qed.

Lemma e5_no_tid_entry X g q ths locks t :
  e5_P X g q ths locks -> ~ X t -> (forall rs ws, e5_sto ths t <> E5Holding rs ws) -> ~ In t (map e5_tidof locks).
Proof.
  intros HP Hx Hn Hin. apply in_map_iff in Hin. destruct Hin as [[[t0 rs] ws] [E Hin]].
  unfold e5_tidof in E; simpl in E; subst t0. apply (Hn rs ws). apply (p_l _ _ _ _ _ HP); auto.
Qed.

(* ---- a thread is replaced by one of the same lock standing (or an exempt thread by anything) ---------- *)
Lemma e5_P_set X g q ths locks t th' :
  e5_P X g q ths locks -> (X t \/ e5_st th' = e5_sto ths t) -> e5_tok g th' ->
  e5_P X g q (set_thread ths t th') locks.
Proof.
  intros [Qn Ln Qx Lx Q L T] Hs Hk.
  assert (Hsame : forall v, ~ X v -> e5_sto (set_thread ths t th') v = e5_sto ths v).
  { intros v Hv. rewrite e5_sto_set. destruct (Nat.eqb v t) eqn:E; auto.
    apply Nat.eqb_eq in E; subst v. destruct Hs as [Hs|Hs]; [contradiction | auto]. }
  constructor; try assumption.
  - intros w Hw. rewrite Hsame; auto.
  - intros t0 rs ws Ht0. rewrite Hsame; auto.
  - intros t0 th0. rewrite e5_get_set. destruct (Nat.eqb t0 t); [intros H; inversion H; subst; auto | apply T].
Qed.

(* exemption of [t] can be dropped once it is idle *)
Lemma e5_P_unexempt g q ths locks t :
  e5_P (e5_only t) g q ths locks -> e5_sto ths t = E5Idle -> e5_P e5_none g q ths locks.
Proof.
  intros [Qn Ln Qx Lx Q L T] Hi. constructor; try assumption; unfold e5_none; try tauto.
  - intros w _. destruct (Nat.eq_dec w t) as [->|Hn].
    + split; [intro Hin; exfalso; exact (Qx t Hin eq_refl) | rewrite Hi; discriminate].
    + apply Q. exact Hn.
  - intros t0 rs ws _. destruct (Nat.eq_dec t0 t) as [->|Hn].
    + split; [intro Hin; exfalso; exact (Lx _ Hin eq_refl) | rewrite Hi; discriminate].
    + apply L. exact Hn.
Qed.

(* the table entries of [t] are dropped: [t] becomes exempt *)
Lemma e5_P_filter g q ths locks t :
  e5_P e5_none g q ths locks -> ~ In t q ->
  e5_P (e5_only t) g q ths (filter (fun h => negb (Nat.eqb (fst (fst h)) t)) locks).
Proof.
  intros [Qn Ln Qx Lx Q L T] Hnq. constructor; try assumption; unfold e5_only.
  - apply e5_nodup_map_filter; auto.
  - intros w Hw E; subst; auto.
  - intros h Hh E. apply filter_In in Hh. destruct Hh as [_ Hh]. cbv beta in Hh. unfold e5_tidof in E.
    apply negb_true_iff, Nat.eqb_neq in Hh. apply Hh. exact E.
  - intros w _. apply Q. unfold e5_none; tauto.
  - intros t0 rs ws Hn. rewrite filter_In. simpl. rewrite <- L by (unfold e5_none; tauto).
    apply Nat.eqb_neq in Hn. rewrite Hn. simpl. tauto.
Qed.

(* [t] leaves the queue: it becomes exempt *)
Lemma e5_P_dequeue g q ths locks t :
  e5_P e5_none g q ths locks -> ~ In t (map e5_tidof locks) ->
  e5_P (e5_only t) g (remove_nat t q) ths locks.
Proof.
  intros [Qn Ln Qx Lx Q L T] Hnl. constructor; try assumption; unfold e5_only.
  - apply e5_nodup_filter; auto.
  - intros w Hw. apply e5_in_remove in Hw. tauto.
  - intros h Hh E. apply Hnl. rewrite <- E. now apply in_map.
  - intros w Hn. rewrite e5_in_remove. rewrite <- Q by (unfold e5_none; tauto). tauto.
  - intros t0 rs ws _. apply L. unfold e5_none; tauto.
Qed.

(* an idle thread takes the locks *)
Lemma e5_P_lock g q ths locks t th' rs ws :
  e5_P e5_none g q ths locks -> e5_sto ths t = E5Idle -> e5_st th' = E5Holding rs ws -> e5_tok g th' ->
  e5_P e5_none g q (set_thread ths t th') (locks ++ [(t, rs, ws)]).
Proof.
  intros HP Hi Hs Hk. pose proof HP as [Qn Ln Qx Lx Q L T].
  assert (Hx : ~ e5_none t) by (unfold e5_none; tauto).
  constructor; try assumption; try (unfold e5_none; tauto).
  - rewrite map_app. simpl. apply e5_nodup_snoc; auto.
    apply (e5_no_tid_entry _ _ _ _ _ t HP Hx). intros; rewrite Hi; discriminate.
  - intros w _. rewrite e5_sto_set. destruct (Nat.eqb w t) eqn:E; [|apply Q; auto].
    apply Nat.eqb_eq in E; subst w. rewrite Hs. split; [|discriminate].
    intro Hin. apply Q in Hin; auto. rewrite Hi in Hin. discriminate.
  - intros t0 rs0 ws0 _. rewrite e5_sto_set. destruct (Nat.eqb t0 t) eqn:E.
    + apply Nat.eqb_eq in E; subst t0. rewrite Hs. split.
      * intro Hin. apply in_app_or in Hin. destruct Hin as [Hin|[Hin|[]]].
        -- apply L in Hin; auto. rewrite Hi in Hin. discriminate.
        -- inversion Hin; subst; auto.
      * intro H; inversion H; subst. apply in_or_app. right. now left.
    + rewrite <- L by auto. split.
      * intro Hin. apply in_app_or in Hin. destruct Hin as [Hin|[Hin|[]]]; auto.
        inversion Hin; subst. rewrite Nat.eqb_refl in E. discriminate.
      * intro Hin. apply in_or_app. now left.
  - intros t0 th0. rewrite e5_get_set. destruct (Nat.eqb t0 t); [intros H; inversion H; subst; auto | apply T].
Qed.

(* an idle thread queues *)
Lemma e5_P_enqueue g q ths locks t th' :
  e5_P e5_none g q ths locks -> e5_sto ths t = E5Idle -> e5_st th' = E5Waiting -> e5_tok g th' ->
  e5_P e5_none g (q ++ [t]) (set_thread ths t th') locks.
Proof.
  intros HP Hi Hs Hk. pose proof HP as [Qn Ln Qx Lx Q L T].
  assert (Hx : ~ e5_none t) by (unfold e5_none; tauto).
  assert (Hnq : ~ In t q) by (intro Hin; apply Q in Hin; auto; rewrite Hi in Hin; discriminate).
  constructor; try assumption; try (unfold e5_none; tauto).
  - apply e5_nodup_snoc; auto.
  - intros w _. rewrite e5_sto_set. destruct (Nat.eqb w t) eqn:E.
    + apply Nat.eqb_eq in E; subst w. rewrite Hs. split; auto. intros _. apply in_or_app. right. now left.
    + rewrite <- Q by auto. split.
      * intro Hin. apply in_app_or in Hin. destruct Hin as [Hin|[Hin|[]]]; auto.
        subst. rewrite Nat.eqb_refl in E. discriminate.
      * intro Hin. apply in_or_app. now left.
  - intros t0 rs0 ws0 _. rewrite e5_sto_set. destruct (Nat.eqb t0 t) eqn:E; [|apply L; auto].
    apply Nat.eqb_eq in E; subst t0. rewrite Hs. split; [|discriminate].
    intro Hin. apply L in Hin; auto. rewrite Hi in Hin. discriminate.
  - intros t0 th0. rewrite e5_get_set. destruct (Nat.eqb t0 t); [intros H; inversion H; subst; auto | apply T].
Qed.

(* ---- recheck -------------------------------------------------------------------------------------------- *)
Definition e5_grant (th : thread) : thread :=
  {| t_req := t_req th; t_pc := t_pc th; t_postings := t_postings th; t_unb := t_unb th;
     t_view := t_view th; t_entry := t_entry th; t_txid := t_txid th; t_granted := true;
     t_resp := t_resp th; t_gen := t_gen th; t_cancelled := t_cancelled th |}.

(* a waiting intent in the middle of the queue is granted: it leaves the queue and enters the table *)
Lemma e5_P_grant X g sk w rest ths locks thw :
  e5_P X g (sk ++ w :: rest) ths locks -> get_thread ths w = Some thw ->
  e5_P X g (sk ++ rest) (set_thread ths w (e5_grant thw))
       (locks ++ [(w, reads_of (t_postings thw), writes_of (t_postings thw))]).
Proof.
  intros HP Eg. pose proof HP as [Qn Ln Qx Lx Q L T].
  assert (Hin : In w (sk ++ w :: rest)) by (apply in_or_app; right; now left).
  assert (Hx : ~ X w) by (apply Qx; auto).
  assert (Hw : e5_sto ths w = E5Waiting) by (apply Q; auto).
  assert (Hst : e5_st thw = E5Waiting) by (unfold e5_sto in Hw; now rewrite Eg in Hw).
  assert (Hpc : t_pc thw = PEnqueued).
  { unfold e5_st, e5_hold in Hst. destruct (t_pc thw); try discriminate; auto;
    destruct (is_tx_kind (rq_kind (t_req thw))); discriminate. }
  assert (Hg : e5_st (e5_grant thw) = E5Holding (reads_of (t_postings thw)) (writes_of (t_postings thw))).
  { unfold e5_st. simpl. rewrite Hpc. reflexivity. }
  assert (Hnw : ~ In w (sk ++ rest)) by (eapply NoDup_remove_2; eauto).
  assert (Hmem : forall v, v <> w -> (In v (sk ++ rest) <-> In v (sk ++ w :: rest))).
  { intros v Hv. rewrite !in_app_iff. simpl. split; [tauto|]. intros [H|[H|H]]; auto. congruence. }
  constructor.
  - eapply NoDup_remove_1; eauto.
  - rewrite map_app. simpl. apply e5_nodup_snoc; auto.
    apply (e5_no_tid_entry _ _ _ _ _ w HP Hx). intros; rewrite Hw; discriminate.
  - intros v Hv. apply Qx. apply in_app_or in Hv. apply in_or_app. simpl. tauto.
  - intros h Hh. apply in_app_or in Hh. destruct Hh as [Hh|[Hh|[]]]; [auto | subst h; exact Hx].
  - intros v Hv. rewrite e5_sto_set. destruct (Nat.eqb v w) eqn:E.
    + apply Nat.eqb_eq in E; subst v. rewrite Hg. split; [tauto | discriminate].
    + apply Nat.eqb_neq in E. rewrite Hmem by auto. apply Q; auto.
  - intros t0 rs0 ws0 Ht0. rewrite e5_sto_set. destruct (Nat.eqb t0 w) eqn:E.
    + apply Nat.eqb_eq in E; subst t0. rewrite Hg. split.
      * intro H. apply in_app_or in H. destruct H as [H|[H|[]]].
        -- apply L in H; auto. rewrite Hw in H. discriminate.
        -- inversion H; subst; auto.
      * intro H; inversion H; subst. apply in_or_app. right. now left.
    + rewrite <- L by auto. split.
      * intro H. apply in_app_or in H. destruct H as [H|[H|[]]]; auto.
        inversion H; subst. rewrite Nat.eqb_refl in E. discriminate.
      * intro H. apply in_or_app. now left.
  - intros t0 th0. rewrite e5_get_set. destruct (Nat.eqb t0 w); [|apply T].
    intros H; inversion H; subst th0. destruct (T w thw Eg) as (A & B & C).
    unfold e5_tok. simpl. repeat split; auto. rewrite Hpc. discriminate.
Qed.

(* the FIFO pass preserves the invariant ([sk]: the intents the pass has already skipped) *)
Lemma e5_recheck_P X g : forall q sk ths locks q' ths' locks',
  recheck q ths locks = (q', ths', locks') -> e5_P X g (sk ++ q) ths locks -> e5_P X g (sk ++ q') ths' locks'.
Proof.
  induction q as [|w rest IH]; intros sk ths locks q' ths' locks' H HP; simpl in H.
  - inversion H; subst. exact HP.
  - destruct (get_thread ths w) as [thw|] eqn:Ew.
    + destruct (compatible (reads_of (t_postings thw)) (writes_of (t_postings thw)) locks) eqn:Ec.
      * eapply IH; [exact H|]. apply e5_P_grant; auto.
      * destruct (recheck rest ths locks) as [[q1 ths1] locks1] eqn:Er. inversion H; subst.
        specialize (IH (sk ++ [w]) ths locks q1 ths' locks' Er).
        rewrite <- !app_assoc in IH. simpl in IH. apply IH. exact HP.
    + exfalso. pose proof HP as [Qn Ln Qx Lx Q L T].
      assert (Hin : In w (sk ++ w :: rest)) by (apply in_or_app; right; now left).
      pose proof (Qx w Hin) as Hx. apply Q in Hin; auto. unfold e5_sto in Hin. rewrite Ew in Hin. discriminate.
Qed.

(* what the pass does to a single thread: nothing, or the grant flag (only for a queued tid) *)
Lemma e5_recheck_thread : forall q ths locks q' ths' locks',
  recheck q ths locks = (q', ths', locks') ->
  forall x, get_thread ths' x = get_thread ths x \/
            (In x q /\ exists th, get_thread ths x = Some th /\ get_thread ths' x = Some (e5_grant th)).
Proof.
  induction q as [|w rest IH]; intros ths locks q' ths' locks' H x; simpl in H.
  - inversion H; subst. now left.
  - destruct (get_thread ths w) as [thw|] eqn:Ew.
    + destruct (compatible (reads_of (t_postings thw)) (writes_of (t_postings thw)) locks) eqn:Ec.
      * destruct (IH _ _ _ _ _ H x) as [E|(Hin & th & E1 & E2)].
        -- rewrite E. rewrite e5_get_set. destruct (Nat.eqb x w) eqn:Exw; [|now left].
           apply Nat.eqb_eq in Exw; subst x. right. split; [now left|]. exists thw. split; auto.
        -- right. split; [now right|]. rewrite e5_get_set in E1. destruct (Nat.eqb x w) eqn:Exw.
           ++ apply Nat.eqb_eq in Exw; subst x. inversion E1; subst th. exists thw. split; auto.
           ++ exists th. split; auto.
      * destruct (recheck rest ths locks) as [[q1 ths1] locks1] eqn:Er. inversion H; subst.
        destruct (IH _ _ _ _ _ Er x) as [E|(Hin & th & E1 & E2)]; [now left|].
        right. split; [now right|]. exists th; auto.
    + destruct (IH _ _ _ _ _ H x) as [E|(Hin & th & E1 & E2)]; [now left|].
      right. split; [now right|]. exists th; auto.
Qed.

(* a holder (now parked at an idle pc) releases: table entries of [t] dropped, one FIFO pass *)
Lemma e5_P_release_set g q ths locks t thU q' ths' locks' :
  e5_P e5_none g q ths locks -> e5_sto ths t <> E5Waiting -> e5_st thU = E5Idle -> e5_tok g thU ->
  recheck q (set_thread ths t thU) (filter (fun h => negb (Nat.eqb (fst (fst h)) t)) locks) = (q', ths', locks') ->
  e5_P e5_none g q' ths' locks'.
Proof.
  intros HP Hnw Hi Hk Hr.
  assert (Hnq : ~ In t q).
  { intro Hin. apply Hnw. assert (Hx : ~ e5_none t) by (unfold e5_none; tauto).
    exact (proj1 (p_q _ _ _ _ _ HP t Hx) Hin). }
  apply (e5_recheck_P e5_none g q [] _ _ _ _ _ Hr). simpl.
  apply (e5_P_unexempt _ _ _ _ t).
  - apply e5_P_set; auto.
    + apply e5_P_filter; auto.
    + left. reflexivity.
  - rewrite e5_sto_set, Nat.eqb_refl. exact Hi.
Qed.

(* a granted waiter gives the grant back and finishes (the thread is overwritten after the pass) *)
Lemma e5_P_release_then_set g q ths locks t thF q' ths' locks' :
  e5_P e5_none g q ths locks -> e5_sto ths t <> E5Waiting -> e5_st thF = E5Idle -> e5_tok g thF ->
  recheck q ths (filter (fun h => negb (Nat.eqb (fst (fst h)) t)) locks) = (q', ths', locks') ->
  e5_P e5_none g q' (set_thread ths' t thF) locks'.
Proof.
  intros HP Hnw Hi Hk Hr.
  assert (Hnq : ~ In t q).
  { intro Hin. apply Hnw. assert (Hx : ~ e5_none t) by (unfold e5_none; tauto).
    exact (proj1 (p_q _ _ _ _ _ HP t Hx) Hin). }
  apply (e5_P_unexempt _ _ _ _ t).
  - apply e5_P_set; auto; [|left; reflexivity].
    apply (e5_recheck_P (e5_only t) g q [] _ _ _ _ _ Hr). simpl. apply e5_P_filter; auto.
  - rewrite e5_sto_set, Nat.eqb_refl. exact Hi.
Qed.

(* ---- the updates of a step --------------------------------------------------------------------------------- *)
Ltac e5_tok_tac := unfold e5_tok; simpl; repeat split; intros; try congruence; try discriminate; auto.

Lemma e5_tok_pcfin g th : t_pc th = PFinished -> e5_tok g th.
Proof. intros E. unfold e5_tok. rewrite E. simpl. repeat split; intros; auto; discriminate. Qed.

Lemma e5_st_pcfin th : t_pc th = PFinished -> e5_st th = E5Idle.
Proof. intros E. unfold e5_st. now rewrite E. Qed.

Lemma e5_Pu_set_th g u t th' :
  e5_Pu g u -> e5_st th' = e5_sto (u_threads u) t -> e5_tok g th' -> e5_Pu g (set_th t th' u).
Proof. intros HP Hs Hk. unfold e5_Pu, set_th; simpl. apply e5_P_set; auto. Qed.

Lemma e5_Pu_finish g u t th r a b c d :
  e5_Pu g u -> e5_sto (u_threads u) t = E5Idle -> e5_Pu g (finish t th r a b c d u).
Proof.
  intros HP Hi. unfold e5_Pu, finish; simpl. apply e5_P_set; [exact HP | | ].
  - right. rewrite Hi. reflexivity.
  - apply e5_tok_pcfin. reflexivity.
Qed.

Lemma e5_Pu_enter_exec g u t th :
  e5_Pu g u -> e5_sto (u_threads u) t = E5Idle -> t_gen th = g -> t_granted th = false ->
  e5_Pu g (enter_exec t th u).
Proof.
  intros HP Hi Hg Hgr. unfold enter_exec.
  destruct (is_tx_kind (rq_kind (t_req th))) eqn:Ek.
  - destruct (N.eqb (rq_ref (t_req th)) 0).
    + apply e5_Pu_set_th; [exact HP | rewrite Hi; reflexivity | e5_tok_tac].
    + destruct (mem_N (rq_ref (t_req th)) (u_refs u)).
      * apply e5_Pu_set_th; [exact HP | rewrite Hi; reflexivity | e5_tok_tac].
      * unfold e5_Pu; simpl. apply e5_P_set; [exact HP | right; rewrite Hi; reflexivity | e5_tok_tac].
  - assert (Hm : e5_Pu g (set_th t (with_pc th (if rq_dry (t_req th) then PWait else PAppendEnter)) u)).
    { apply e5_Pu_set_th; [exact HP | | ].
      - rewrite Hi. unfold e5_st. destruct (rq_dry (t_req th)); simpl; rewrite Ek; reflexivity.
      - destruct (rq_dry (t_req th)); e5_tok_tac. }
    destruct (rq_target_tx (t_req th)); auto.
    destruct (find_tx (u_persisted u) n); auto. apply e5_Pu_finish; auto.
Qed.

Lemma e5_Pu_enter_run g u t th :
  e5_Pu g u -> e5_sto (u_threads u) t = E5Idle -> t_gen th = g -> t_granted th = false ->
  e5_Pu g (enter_run t th u).
Proof.
  intros HP Hi Hg Hgr. unfold enter_run.
  destruct (N.eqb (rq_ik (t_req th)) 0); [apply e5_Pu_enter_exec; auto|].
  destruct (mem_N (rq_ik (t_req th)) (u_iks u)).
  - apply e5_Pu_set_th; [exact HP | rewrite Hi; reflexivity | e5_tok_tac].
  - unfold e5_Pu; simpl. apply e5_P_set; [exact HP | right; rewrite Hi; reflexivity | e5_tok_tac].
Qed.

Lemma e5_Pu_unlock_set g u t thU rq :
  e5_Pu g u -> e5_sto (u_threads u) t <> E5Waiting -> e5_st thU = E5Idle -> e5_tok g thU ->
  e5_Pu g (unlock t (release_ik rq (set_th t thU u))).
Proof.
  intros HP Hnw Hi Hk. unfold unlock. simpl.
  destruct (recheck (u_queue u) (set_thread (u_threads u) t thU)
                    (filter (fun h => negb (Nat.eqb (fst (fst h)) t)) (u_locks u))) as [[q' ths'] locks'] eqn:Er.
  unfold e5_Pu; simpl. eapply e5_P_release_set; eauto.
Qed.

Lemma e5_Pu_unlock_finish g u t th r a b c d :
  e5_Pu g u -> e5_sto (u_threads u) t <> E5Waiting -> e5_Pu g (finish t th r a b c d (unlock t u)).
Proof.
  intros HP Hnw. unfold unlock.
  destruct (recheck (u_queue u) (u_threads u)
                    (filter (fun h => negb (Nat.eqb (fst (fst h)) t)) (u_locks u))) as [[q' ths'] locks'] eqn:Er.
  unfold e5_Pu, finish; simpl. eapply e5_P_release_then_set; eauto.
  apply e5_tok_pcfin. reflexivity.
Qed.

Lemma e5_Pu_dequeue_finish g u t th r a b c d :
  e5_Pu g u -> e5_sto (u_threads u) t = E5Waiting -> e5_Pu g (finish t th r a b c d (dequeue t u)).
Proof.
  intros HP Hw. unfold e5_Pu, finish, dequeue; simpl.
  apply (e5_P_unexempt _ _ _ _ t).
  - apply e5_P_set; [|left; reflexivity | apply e5_tok_pcfin; reflexivity].
    apply e5_P_dequeue; auto.
    apply (e5_no_tid_entry e5_none g (u_queue u) (u_threads u) (u_locks u) t HP); [unfold e5_none; tauto|].
    intros; rewrite Hw; discriminate.
  - rewrite e5_sto_set, Nat.eqb_refl. reflexivity.
Qed.

(* ---- preservation ------------------------------------------------------------------------------------------- *)
Lemma e5_init : e5_Inv init.
Proof.
  unfold e5_Inv, init; simpl. constructor; simpl; try (constructor; fail); try tauto.
  - intros w _. split; [tauto | discriminate].
  - intros t rs ws _. split; [tauto | discriminate].
  - intros t th H. discriminate.
Qed.

Ltac e5_frame HI Hst Tk :=
  apply e5_Pu_inv; unfold e5_Pu; simpl;
  apply e5_P_set;
  [ exact HI
  | right; rewrite Hst; unfold e5_st, e5_hold; simpl; rewrite ?Tk by reflexivity; try reflexivity
  | e5_tok_tac ].

Lemma e5_resume_inv s t s' : e5_Inv s -> resume s t = Some s' -> e5_Inv s'.
Proof.
  intros HI H. unfold resume in H.
  destruct (get_thread (threads s) t) as [th|] eqn:Eg; [|discriminate].
  destruct (Nat.eqb (t_gen th) (gen s)) eqn:Egen; cbn [negb] in H; [|discriminate].
  apply Nat.eqb_eq in Egen.
  destruct (p_th _ _ _ _ _ HI t th Eg) as (Tg & Tk & Tp).
  assert (Hst : e5_sto (threads s) t = e5_st th) by (unfold e5_sto; now rewrite Eg).
  unfold e5_st in Hst. cbv beta iota zeta in H.
  destruct (t_pc th) eqn:Hpc; simpl in Tk, Tp, Hst; cbv beta iota zeta in H.
  - (* PStart *) discriminate.
  - (* PRevBusy *) injection H as <-. apply e5_Pu_inv, e5_Pu_finish; [exact HI | exact Hst].
  - (* PRevTaken *) injection H as <-. e5_frame HI Hst Tk.
  - (* PRevRead *)
    destruct found; cbn [negb] in H; cbv iota in H.
    + destruct reverted.
      * injection H as <-. apply e5_Pu_inv, e5_Pu_finish; [exact HI | exact Hst].
      * injection H as <-. apply e5_Pu_inv, e5_Pu_enter_run; [exact HI | exact Hst | exact Egen | reflexivity].
    + injection H as <-. apply e5_Pu_inv, e5_Pu_finish; [exact HI | exact Hst].
  - (* PIkBusy *) injection H as <-. apply e5_Pu_inv, e5_Pu_finish; [exact HI | exact Hst].
  - (* PIkTaken *) injection H as <-. e5_frame HI Hst Tk.
  - (* PIkLookup *)
    destruct hit as [e|].
    + (* replay of the request's own outcome / refusal of a reused key: both are a [finish] of an idle thread *)
      destruct (is_outcome_of (t_req th) e);
        injection H as <-; apply e5_Pu_inv, e5_Pu_finish; [exact HI | exact Hst | exact HI | exact Hst].
    + injection H as <-. apply e5_Pu_inv, e5_Pu_enter_exec; [exact HI | exact Hst | exact Egen | auto].
  - (* PRefBusy *) injection H as <-. apply e5_Pu_inv, e5_Pu_finish; [exact HI | exact Hst].
  - (* PRefTaken *) injection H as <-. e5_frame HI Hst Tk.
  - (* PRefLookup *)
    destruct hit.
    + injection H as <-. apply e5_Pu_inv, e5_Pu_finish; [exact HI | exact Hst].
    + injection H as <-. e5_frame HI Hst Tk.
  - (* PResolved *)
    destruct (compatible (reads_of (t_postings th)) (writes_of (t_postings th)) (v_locks s)).
    + injection H as <-. apply e5_Pu_inv. unfold e5_Pu; simpl.
      apply e5_P_lock; [exact HI | exact Hst | reflexivity | e5_tok_tac].
    + injection H as <-. apply e5_Pu_inv. unfold e5_Pu; simpl.
      apply e5_P_enqueue; [exact HI | exact Hst | | e5_tok_tac].
      unfold e5_st; simpl. rewrite Tp by reflexivity. reflexivity.
  - (* PEnqueued *)
    destruct (t_granted th) eqn:Egr; [|discriminate].
    injection H as <-. e5_frame HI Hst Tk.
  - (* PLocked *) injection H as <-. e5_frame HI Hst Tk.
  - (* PBalances *) injection H as <-. e5_frame HI Hst Tk.
  - (* PRan *)
    assert (Hnw : e5_sto (u_threads (of_state s)) t <> E5Waiting) by (simpl; rewrite Hst; discriminate).
    destruct ok.
    + destruct (t_postings th) eqn:Eps.
      * injection H as <-. apply e5_Pu_inv, e5_Pu_unlock_set; [exact HI | exact Hnw | reflexivity | e5_tok_tac].
      * destruct (rq_dry (t_req th)); injection H as <-; e5_frame HI Hst Tk; rewrite Eps; reflexivity.
    + injection H as <-. apply e5_Pu_inv, e5_Pu_unlock_set; [exact HI | exact Hnw | reflexivity | e5_tok_tac].
  - (* PAppendEnter *)
    destruct (v_cs s); [discriminate|].
    destruct (is_tx_kind (rq_kind (t_req th))) eqn:Ek; injection H as <-; e5_frame HI Hst Tk; rewrite Ek; reflexivity.
  - (* PTxid *)
    destruct (rq_dry (t_req th)); injection H as <-; e5_frame HI Hst Tk.
  - (* PChained *)
    destruct (t_entry th); [|discriminate]. injection H as <-. e5_frame HI Hst Tk.
  - (* PAppended *) injection H as <-. e5_frame HI Hst Tk.
  - (* PWait *)
    destruct (rq_dry (t_req th)).
    + injection H as <-. e5_frame HI Hst Tk.
    + destruct (t_entry th) as [e|]; [|discriminate].
      destruct (entry_persisted (persisted s) e); [|discriminate]. injection H as <-. e5_frame HI Hst Tk.
  - (* PDone *)
    destruct (is_tx_kind (rq_kind (t_req th))) eqn:Ek.
    + injection H as <-. apply e5_Pu_inv, e5_Pu_unlock_set; [exact HI | | reflexivity | e5_tok_tac].
      simpl. rewrite Hst. discriminate.
    + injection H as <-. apply e5_Pu_inv, e5_Pu_finish; [exact HI | exact Hst].
  - (* PUnlocked *)
    destruct (covers (t_view th) (t_unb th) (t_postings th)); [destruct (t_postings th)|];
      injection H as <-; apply e5_Pu_inv, e5_Pu_finish; solve [exact HI | exact Hst].
  - (* PFinished *) discriminate.
Qed.

Lemma e5_cancel_inv s t s' : e5_Inv s -> cancel s t = Some s' -> e5_Inv s'.
Proof.
  intros HI H. unfold cancel in H.
  destruct (get_thread (threads s) t) as [th|] eqn:Eg; [|discriminate].
  destruct (negb (Nat.eqb (t_gen th) (gen s))); [discriminate|].
  destruct (pc_finished (t_pc th)); [discriminate|].
  injection H as <-. apply e5_Pu_inv. unfold e5_Pu; simpl. apply e5_P_set; [exact HI | right | ].
  - unfold e5_sto. rewrite Eg. reflexivity.
  - exact (p_th _ _ _ _ _ HI t th Eg).
Qed.

Lemma e5_resume_cancelled_inv s t s' : e5_Inv s -> resume_cancelled s t = Some s' -> e5_Inv s'.
Proof.
  intros HI H. unfold resume_cancelled in H.
  destruct (get_thread (threads s) t) as [th|] eqn:Eg; [|discriminate].
  destruct (negb (Nat.eqb (t_gen th) (gen s))); [discriminate|].
  assert (Hst : e5_sto (threads s) t = e5_st th) by (unfold e5_sto; now rewrite Eg).
  unfold e5_st in Hst.
  destruct (t_pc th) eqn:Hpc; try discriminate.
  destruct (t_cancelled th); [|discriminate].
  destruct (t_granted th) eqn:Egr; injection H as <-; apply e5_Pu_inv.
  - apply e5_Pu_unlock_finish; [exact HI|]. simpl. rewrite Hst. discriminate.
  - apply e5_Pu_dequeue_finish; [exact HI | exact Hst].
Qed.

(* a transient failure of a store read of the write path ([AResumeReadFail t]): before the lock request the thread
   is idle (refusal exits; SaveMeta goes on as [enter_exec] does); at "locked" it holds: unlock, then finish *)
Lemma e5_resume_read_fail_inv s t s' : e5_Inv s -> resume_read_fail s t = Some s' -> e5_Inv s'.
Proof.
  intros HI H. unfold resume_read_fail in H.
  destruct (get_thread (threads s) t) as [th|] eqn:Eg; [|discriminate].
  destruct (Nat.eqb (t_gen th) (gen s)) eqn:Egen; cbn [negb] in H; [|discriminate].
  apply Nat.eqb_eq in Egen.
  destruct (p_th _ _ _ _ _ HI t th Eg) as (Tg & Tk & Tp).
  assert (Hst : e5_sto (threads s) t = e5_st th) by (unfold e5_sto; now rewrite Eg).
  unfold e5_st in Hst. cbv beta iota zeta in H.
  destruct (t_pc th) eqn:Hpc; simpl in Tk, Tp, Hst; cbv beta iota zeta in H; try discriminate.
  - (* PRevTaken *) injection H as <-. apply e5_Pu_inv, e5_Pu_finish; [exact HI | exact Hst].
  - (* PIkTaken *) injection H as <-. apply e5_Pu_inv, e5_Pu_finish; [exact HI | exact Hst].
  - (* PIkLookup *)
    destruct hit as [e|]; [discriminate|].
    destruct (rq_kind (t_req th)) eqn:Ek.
    + destruct (N.eqb (rq_ref (t_req th)) 0); [|discriminate].
      injection H as <-. apply e5_Pu_inv, e5_Pu_finish; [exact HI | exact Hst].
    + discriminate.
    + destruct (rq_target_tx (t_req th)); [|discriminate].
      injection H as <-. apply e5_Pu_inv, e5_Pu_set_th; [exact HI | | ].
      * simpl. rewrite Hst. unfold e5_st. destruct (rq_dry (t_req th)); simpl; rewrite Ek; reflexivity.
      * destruct (rq_dry (t_req th)); e5_tok_tac.
    + destruct (rq_target_tx (t_req th)); [|discriminate].
      injection H as <-. apply e5_Pu_inv, e5_Pu_finish; [exact HI | exact Hst].
  - (* PRefTaken *) injection H as <-. apply e5_Pu_inv, e5_Pu_finish; [exact HI | exact Hst].
  - (* PRefLookup *)
    destruct hit; [discriminate|].
    destruct (rq_kind (t_req th)); try discriminate.
    injection H as <-. apply e5_Pu_inv, e5_Pu_finish; [exact HI | exact Hst].
  - (* PLocked *)
    destruct (needs_balance th); [|discriminate].
    injection H as <-. apply e5_Pu_inv, e5_Pu_unlock_finish; [exact HI|]. simpl. rewrite Hst. discriminate.
Qed.

Lemma e5_start_inv s t rq s' : e5_Inv s -> start s t rq = Some s' -> e5_Inv s'.
Proof.
  intros HI H. unfold start in H.
  destruct (get_thread (threads s) t) as [th|] eqn:Eg; [discriminate|].
  assert (Hst : e5_sto (threads s) t = E5Idle) by (unfold e5_sto; now rewrite Eg).
  destruct (rq_kind rq) eqn:Ek.
  - injection H as <-. apply e5_Pu_inv, e5_Pu_enter_run; [exact HI | exact Hst | reflexivity | reflexivity].
  - destruct (mem_nat (rq_revert rq) (v_revs s)); injection H as <-; apply e5_Pu_inv; unfold e5_Pu; simpl;
      (apply e5_P_set; [exact HI | right; rewrite Hst; reflexivity | e5_tok_tac]).
  - injection H as <-. apply e5_Pu_inv, e5_Pu_enter_run; [exact HI | exact Hst | reflexivity | reflexivity].
  - injection H as <-. apply e5_Pu_inv, e5_Pu_enter_run; [exact HI | exact Hst | reflexivity | reflexivity].
Qed.

Lemma e5_persist_ok_inv s s' : e5_Inv s -> persist_ok s = Some s' -> e5_Inv s'.
Proof.
  intros HI H. unfold persist_ok in H. destruct (v_batch s); [|discriminate].
  injection H as <-. exact HI.
Qed.

Definition e5_crashf (th : thread) : thread :=
  match t_pc th with
  | PFinished => th
  | _ => {| t_req := t_req th; t_pc := PFinished; t_postings := t_postings th; t_unb := t_unb th;
            t_view := t_view th; t_entry := t_entry th; t_txid := t_txid th;
            t_granted := t_granted th; t_resp := Some RCrashed; t_gen := t_gen th; t_cancelled := t_cancelled th |}
  end.

Lemma e5_crashf_pc th : t_pc (e5_crashf th) = PFinished.
Proof. unfold e5_crashf. destruct (t_pc th) eqn:E; simpl; auto. Qed.

Lemma e5_crash_threads s : threads (crash s) = map (fun p => (fst p, e5_crashf (snd p))) (threads s).
Proof. reflexivity. Qed.

Lemma e5_crash_get s t :
  get_thread (threads (crash s)) t = option_map e5_crashf (get_thread (threads s) t).
Proof. rewrite e5_crash_threads. apply e5_get_map. Qed.

Lemma e5_crash_inv s : e5_Inv (crash s).
Proof.
  assert (Hi : forall w, e5_sto (threads (crash s)) w = E5Idle).
  { intros w. unfold e5_sto. rewrite e5_crash_get. destruct (get_thread (threads s) w); simpl; auto.
    apply e5_st_pcfin, e5_crashf_pc. }
  unfold e5_Inv. constructor.
  - simpl. constructor.
  - simpl. constructor.
  - simpl. tauto.
  - simpl. tauto.
  - intros w _. rewrite Hi. simpl. split; [tauto | discriminate].
  - intros t rs ws _. rewrite Hi. simpl. split; [tauto | discriminate].
  - intros t th. rewrite e5_crash_get. destruct (get_thread (threads s) t); simpl; [|discriminate].
    intros H; inversion H. apply e5_tok_pcfin, e5_crashf_pc.
Qed.

Lemma e5_step_inv s a s' : e5_Inv s -> step s a = Some s' -> e5_Inv s'.
Proof.
  intros HI H. destruct a; simpl in H.
  - eapply e5_start_inv; eauto.
  - eapply e5_resume_inv; eauto.
  - eapply e5_persist_ok_inv; eauto.
  - destruct (v_batch s); [|discriminate]. injection H as <-. apply e5_crash_inv.
  - injection H as <-. apply e5_crash_inv.
  - eapply e5_cancel_inv; eauto.
  - eapply e5_resume_cancelled_inv; eauto.
  - eapply e5_resume_read_fail_inv; eauto.
  - injection H as <-. unfold close. apply e5_crash_inv.
  - unfold close_ok in H. destruct (persist_ok s); [|discriminate]. injection H as <-. apply e5_crash_inv.
Qed.

(* a graceful shutdown, like a crash, leaves an empty lock table and an empty queue (the next commander boots from disk) *)
Lemma e5_close_empties s a s' :
  (a = AClose \/ a = ACloseOk) -> step s a = Some s' -> v_locks s' = [] /\ v_queue s' = [].
Proof.
  intros [-> | ->] H; simpl in H.
  - injection H as <-. split; reflexivity.
  - unfold close_ok in H. destruct (persist_ok s); [|discriminate]. injection H as <-. split; reflexivity.
Qed.

Lemma e5_run_inv : forall acts s s', e5_Inv s -> run s acts = Some s' -> e5_Inv s'.
Proof.
  induction acts as [|a r IH]; intros s s' HI H; simpl in H.
  - injection H as <-. exact HI.
  - destruct (step s a) as [s1|] eqn:Es; [|discriminate]. eapply IH; [|exact H]. eapply e5_step_inv; eauto.
Qed.

Lemma e5_reachable_inv s : reachable s -> e5_Inv s.
Proof. intros [acts H]. eapply e5_run_inv; [exact e5_init | exact H]. Qed.

(* ---- reading the invariant ------------------------------------------------------------------------------- *)
(* the pcs at which a request holds its account locks ([gr]: the grant flag, relevant while it is queued) *)
Definition e5_holds (p : pc) (gr : bool) : bool :=
  match p with
  | PEnqueued => gr
  | PLocked | PBalances | PRan _ | PAppendEnter | PTxid | PChained | PAppended | PWait | PDone => true
  | _ => false
  end.

Lemma e5_st_waiting th : e5_st th = E5Waiting <-> t_pc th = PEnqueued /\ t_granted th = false.
Proof.
  unfold e5_st, e5_hold. split.
  - destruct (t_pc th); try discriminate; try (destruct (is_tx_kind (rq_kind (t_req th))); discriminate).
    destruct (t_granted th); [discriminate | auto].
  - intros [-> ->]. reflexivity.
Qed.

Lemma e5_st_holding th rs ws : e5_st th = E5Holding rs ws ->
  rs = reads_of (t_postings th) /\ ws = writes_of (t_postings th) /\ e5_holds (t_pc th) (t_granted th) = true /\
  (e5_txpc (t_pc th) = false -> is_tx_kind (rq_kind (t_req th)) = true).
Proof.
  unfold e5_st, e5_hold. destruct (t_pc th); simpl; try discriminate;
    try (destruct (is_tx_kind (rq_kind (t_req th))); [|discriminate]);
    try (destruct (t_granted th); [|discriminate]);
    intros H; inversion H; repeat split; auto; intros; discriminate.
Qed.

Lemma e5_holding_st th :
  e5_holds (t_pc th) (t_granted th) = true -> is_tx_kind (rq_kind (t_req th)) = true -> e5_st th = e5_hold th.
Proof.
  unfold e5_st. intros H K. rewrite K. destruct (t_pc th); simpl in H; try discriminate; auto. now rewrite H.
Qed.

Lemma e5_not_none t : ~ e5_none t.
Proof. unfold e5_none; tauto. Qed.

Lemma e5_queue_is_waiting s w : e5_Inv s -> In w (v_queue s) ->
  exists th, get_thread (threads s) w = Some th /\ t_pc th = PEnqueued /\ t_granted th = false /\ t_gen th = gen s.
Proof.
  intros HI Hin. apply (p_q _ _ _ _ _ HI w (e5_not_none w)) in Hin. unfold e5_sto in Hin.
  destruct (get_thread (threads s) w) as [th|] eqn:Eg; [|discriminate].
  apply e5_st_waiting in Hin. destruct Hin as [Hpc Hgr]. exists th. repeat split; auto.
  destruct (p_th _ _ _ _ _ HI w th Eg) as (Tg & _ & _).
  destruct (Nat.eq_dec (t_gen th) (gen s)) as [E|E]; auto. apply Tg in E. congruence.
Qed.

Lemma e5_lock_has_holder s h : e5_Inv s -> In h (v_locks s) ->
  exists th, get_thread (threads s) (fst (fst h)) = Some th /\ t_gen th = gen s /\
             snd (fst h) = reads_of (t_postings th) /\ snd h = writes_of (t_postings th) /\
             e5_holds (t_pc th) (t_granted th) = true /\ is_tx_kind (rq_kind (t_req th)) = true.
Proof.
  intros HI Hin. destruct h as [[t rs] ws]. simpl.
  apply (p_l _ _ _ _ _ HI t rs ws (e5_not_none t)) in Hin. unfold e5_sto in Hin.
  destruct (get_thread (threads s) t) as [th|] eqn:Eg; [|discriminate].
  destruct (e5_st_holding _ _ _ Hin) as (A & B & C & D). exists th.
  destruct (p_th _ _ _ _ _ HI t th Eg) as (Tg & Tk & _).
  repeat split; auto.
  - destruct (Nat.eq_dec (t_gen th) (gen s)) as [E|E]; auto. apply Tg in E. rewrite E in C. discriminate.
  - destruct (e5_txpc (t_pc th)) eqn:Ex; auto.
Qed.

Lemma e5_unique s : e5_Inv s -> NoDup (v_queue s) /\ NoDup (map (fun h => fst (fst h)) (v_locks s)).
Proof. intros HI. split; [exact (p_qnd _ _ _ _ _ HI) | exact (p_lnd _ _ _ _ _ HI)]. Qed.

(* converse: what the thread table says is in the queue / in the table *)
Lemma e5_waiter_queued s t th : e5_Inv s -> get_thread (threads s) t = Some th ->
  t_pc th = PEnqueued -> t_granted th = false ->
  In t (v_queue s) /\ forall h, In h (v_locks s) -> fst (fst h) <> t.
Proof.
  intros HI Eg Hpc Hgr.
  assert (Hw : e5_sto (threads s) t = E5Waiting).
  { unfold e5_sto. rewrite Eg. apply e5_st_waiting. auto. }
  split.
  - apply (p_q _ _ _ _ _ HI t (e5_not_none t)). exact Hw.
  - intros [[t0 rs] ws] Hin E. simpl in E; subst t0.
    apply (p_l _ _ _ _ _ HI t rs ws (e5_not_none t)) in Hin. rewrite Hw in Hin. discriminate.
Qed.

Lemma e5_holder_in_table s t th : e5_Inv s -> get_thread (threads s) t = Some th ->
  e5_holds (t_pc th) (t_granted th) = true -> is_tx_kind (rq_kind (t_req th)) = true ->
  In (t, reads_of (t_postings th), writes_of (t_postings th)) (v_locks s) /\ ~ In t (v_queue s).
Proof.
  intros HI Eg Hh Hk.
  assert (Hs : e5_sto (threads s) t = e5_hold th).
  { unfold e5_sto. rewrite Eg. apply e5_holding_st; auto. }
  split.
  - apply (p_l _ _ _ _ _ HI t _ _ (e5_not_none t)). exact Hs.
  - intro Hin. apply (p_q _ _ _ _ _ HI t (e5_not_none t)) in Hin. rewrite Hs in Hin. discriminate.
Qed.

(* a granted waiter holds whatever its kind (only transaction requests queue: e5_tok) *)
Lemma e5_granted_in_table s t th : e5_Inv s -> get_thread (threads s) t = Some th ->
  t_pc th = PEnqueued -> t_granted th = true ->
  In (t, reads_of (t_postings th), writes_of (t_postings th)) (v_locks s) /\ ~ In t (v_queue s).
Proof.
  intros HI Eg Hpc Hgr. destruct (p_th _ _ _ _ _ HI t th Eg) as (_ & Tk & _).
  apply e5_holder_in_table; auto.
  - rewrite Hpc. exact Hgr.
  - apply Tk. rewrite Hpc. reflexivity.
Qed.

Lemma e5_idle_nothing s t : e5_Inv s -> e5_sto (threads s) t = E5Idle ->
  ~ In t (v_queue s) /\ (forall h, In h (v_locks s) -> fst (fst h) <> t).
Proof.
  intros HI Hi. split.
  - intro Hin. apply (p_q _ _ _ _ _ HI t (e5_not_none t)) in Hin. rewrite Hi in Hin. discriminate.
  - intros [[t0 rs] ws] Hin E. simpl in E; subst t0.
    apply (p_l _ _ _ _ _ HI t rs ws (e5_not_none t)) in Hin. rewrite Hi in Hin. discriminate.
Qed.

Lemma e5_finished_holds_no_lock s t th : e5_Inv s -> get_thread (threads s) t = Some th -> t_pc th = PFinished ->
  ~ In t (v_queue s) /\ (forall h, In h (v_locks s) -> fst (fst h) <> t).
Proof.
  intros HI Eg Hpc. apply e5_idle_nothing; auto. unfold e5_sto. rewrite Eg. now apply e5_st_pcfin.
Qed.

Lemma e5_old_generation_finished s t th : e5_Inv s -> get_thread (threads s) t = Some th ->
  t_gen th <> gen s -> t_pc th = PFinished.
Proof. intros HI Eg. exact (proj1 (p_th _ _ _ _ _ HI t th Eg)). Qed.

(* ---- the cancelled waiter ----------------------------------------------------------------------------------- *)
Lemma e5_cancelled_waiter_step s t th s' : e5_Inv s -> get_thread (threads s) t = Some th ->
  step s (AResumeCancelled t) = Some s' ->
  ~ In t (v_queue s') /\ (forall h, In h (v_locks s') -> fst (fst h) <> t) /\
  (t_granted th = false ->
     v_locks s' = v_locks s /\ v_queue s' = remove_nat t (v_queue s) /\
     forall u, u <> t -> get_thread (threads s') u = get_thread (threads s) u).
Proof.
  intros HI Eg H. simpl in H. pose proof (e5_resume_cancelled_inv _ _ _ HI H) as HI'.
  unfold resume_cancelled in H. rewrite Eg in H.
  destruct (negb (Nat.eqb (t_gen th) (gen s))); [discriminate|].
  destruct (t_pc th) eqn:Hpc; try discriminate.
  destruct (t_cancelled th); [|discriminate].
  injection H as H.
  assert (Hfin : exists thF, get_thread (threads s') t = Some thF /\ t_pc thF = PFinished).
  { rewrite <- H. unfold finish; simpl. rewrite e5_get_set_same. eexists; split; [reflexivity|reflexivity]. }
  destruct Hfin as (thF & EgF & HpcF).
  destruct (e5_finished_holds_no_lock _ _ _ HI' EgF HpcF) as [A B].
  split; [exact A|]. split; [exact B|].
  intros Hgr. rewrite Hgr in H. subst s'. simpl. split; [reflexivity|]. split; [reflexivity|].
  intros u Hu. apply e5_get_set_other. exact Hu.
Qed.

Lemma e5_enter_exec_pc t th u th1 :
  get_thread (u_threads (enter_exec t th u)) t = Some th1 -> t_pc th1 <> PEnqueued.
Proof.
  unfold enter_exec.
  destruct (is_tx_kind (rq_kind (t_req th)));
    [destruct (N.eqb (rq_ref (t_req th)) 0); [|destruct (mem_N (rq_ref (t_req th)) (u_refs u))]
    |destruct (rq_target_tx (t_req th)); [destruct (find_tx (u_persisted u) n)|]];
    simpl; rewrite e5_get_set_same; intros H; injection H as <-; simpl;
    try destruct (rq_dry (t_req th)); discriminate.
Qed.

Lemma e5_enter_run_pc t th u th1 :
  get_thread (u_threads (enter_run t th u)) t = Some th1 -> t_pc th1 <> PEnqueued.
Proof.
  unfold enter_run. destruct (N.eqb (rq_ik (t_req th)) 0); [apply e5_enter_exec_pc|].
  destruct (mem_N (rq_ik (t_req th)) (u_iks u)); simpl; rewrite e5_get_set_same; intros H; injection H as <-;
    simpl; discriminate.
Qed.

Lemma e5_unlock_set_pc t rq thU u th1 :
  get_thread (u_threads (unlock t (release_ik rq (set_th t thU u)))) t = Some th1 -> t_pc th1 = t_pc thU.
Proof.
  unfold unlock. simpl.
  destruct (recheck (u_queue u) (set_thread (u_threads u) t thU)
                    (filter (fun h => negb (Nat.eqb (fst (fst h)) t)) (u_locks u))) as [[q' ths'] locks'] eqn:Er.
  simpl. destruct (e5_recheck_thread _ _ _ _ _ _ Er t) as [E|(_ & th & E1 & E2)].
  - rewrite E, e5_get_set_same. intros H; injection H as <-. reflexivity.
  - rewrite e5_get_set_same in E1. injection E1 as <-. rewrite E2. intros H; injection H as <-. reflexivity.
Qed.

(* the only step of [resume] that parks a request at "lock.enqueued" *)
Lemma e5_resume_enqueues s t s1 th1 :
  resume s t = Some s1 -> get_thread (threads s1) t = Some th1 -> t_pc th1 = PEnqueued ->
  exists th, get_thread (threads s) t = Some th /\ t_pc th = PResolved /\ th1 = with_pc th PEnqueued /\
             v_locks s1 = v_locks s /\ v_queue s1 = v_queue s ++ [t] /\ gen s1 = gen s /\
             threads s1 = set_thread (threads s) t th1.
Proof.
  intros H H1 E1. unfold resume in H.
  destruct (get_thread (threads s) t) as [th|] eqn:Eg; [|discriminate].
  destruct (Nat.eqb (t_gen th) (gen s)) eqn:Egen; cbn [negb] in H; [|discriminate].
  cbv beta iota zeta in H.
  assert (Hfr : forall th', get_thread (set_thread (threads s) t th') t = Some th1 -> t_pc th' <> PEnqueued -> False).
  { intros th' Hg Hn. rewrite e5_get_set_same in Hg. injection Hg as <-. auto. }
  assert (Hex : forall th', get_thread (u_threads (enter_exec t th' (of_state s))) t = Some th1 -> False).
  { intros th' Hg. exact (e5_enter_exec_pc _ _ _ _ Hg E1). }
  assert (Hrun : forall th', get_thread (u_threads (enter_run t th' (of_state s))) t = Some th1 -> False).
  { intros th' Hg. exact (e5_enter_run_pc _ _ _ _ Hg E1). }
  assert (Hun : forall rq thU, get_thread (u_threads (unlock t (release_ik rq (set_th t thU (of_state s))))) t = Some th1 ->
                               t_pc thU <> PEnqueued -> False).
  { intros rq thU Hg Hn. apply e5_unlock_set_pc in Hg. congruence. }
  destruct (t_pc th) eqn:Hpc; cbv beta iota zeta in H; try discriminate;
    try (injection H as <-; exfalso; solve [ eapply Hfr; [exact H1 | simpl; discriminate]
                                           | eapply Hex; exact H1 | eapply Hrun; exact H1
                                           | eapply Hun; [exact H1 | simpl; discriminate] ]).
  - (* PRevRead *)
    destruct found; cbn [negb] in H; cbv iota in H; [destruct reverted|];
      injection H as <-; exfalso;
      solve [ eapply Hfr; [exact H1 | simpl; discriminate] | eapply Hrun; exact H1 ].
  - (* PIkLookup *)
    destruct hit as [e|].
    + destruct (is_outcome_of (t_req th) e);
        injection H as <-; exfalso; (eapply Hfr; [exact H1 | simpl; discriminate]).
    + injection H as <-; exfalso. eapply Hex; exact H1.
  - (* PRefLookup *)
    destruct hit; injection H as <-; exfalso; (eapply Hfr; [exact H1 | simpl; discriminate]).
  - (* PResolved *)
    destruct (compatible (reads_of (t_postings th)) (writes_of (t_postings th)) (v_locks s)).
    + injection H as <-; exfalso. eapply Hfr; [exact H1 | simpl; discriminate].
    + injection H as <-. simpl in H1. rewrite e5_get_set_same in H1. injection H1 as <-.
      exists th. repeat split; auto.
  - (* PEnqueued *)
    destruct (t_granted th); [|discriminate].
    injection H as <-; exfalso. eapply Hfr; [exact H1 | simpl; discriminate].
  - (* PRan *)
    destruct ok; [destruct (t_postings th); [|destruct (rq_dry (t_req th))]|];
      injection H as <-; exfalso;
      solve [ eapply Hfr; [exact H1 | simpl; discriminate] | eapply Hun; [exact H1 | simpl; discriminate] ].
  - (* PAppendEnter *)
    destruct (v_cs s); [discriminate|].
    destruct (is_tx_kind (rq_kind (t_req th))); injection H as <-; exfalso;
      (eapply Hfr; [exact H1 | simpl; discriminate]).
  - (* PTxid *)
    destruct (rq_dry (t_req th)); injection H as <-; exfalso; (eapply Hfr; [exact H1 | simpl; discriminate]).
  - (* PChained *)
    destruct (t_entry th); [|discriminate]. injection H as <-; exfalso.
    eapply Hfr; [exact H1 | simpl; discriminate].
  - (* PWait *)
    destruct (rq_dry (t_req th)); [|destruct (t_entry th) as [e|]; [destruct (entry_persisted (persisted s) e)|]];
      try discriminate; injection H as <-; exfalso; (eapply Hfr; [exact H1 | simpl; discriminate]).
  - (* PDone *)
    destruct (is_tx_kind (rq_kind (t_req th))); injection H as <-; exfalso;
      solve [ eapply Hfr; [exact H1 | simpl; discriminate] | eapply Hun; [exact H1 | simpl; discriminate] ].
  - (* PUnlocked *)
    destruct (covers (t_view th) (t_unb th) (t_postings th)); [destruct (t_postings th)|];
      injection H as <-; exfalso; (eapply Hfr; [exact H1 | simpl; discriminate]).
Qed.

Lemma e5_cancelled_waiter_as_if_never_queued s t s1 s2 s3 : e5_Inv s ->
  resume s t = Some s1 ->
  (exists th1, get_thread (threads s1) t = Some th1 /\ t_pc th1 = PEnqueued) ->
  cancel s1 t = Some s2 -> resume_cancelled s2 t = Some s3 ->
  v_locks s3 = v_locks s /\ v_queue s3 = v_queue s.
Proof.
  intros HI Hr (th1 & Eg1 & Hpc1) Hc Hrc.
  destruct (e5_resume_enqueues _ _ _ _ Hr Eg1 Hpc1) as (th & Eg & Hpc & Eth1 & El & Eq & Egen & Eths).
  destruct (p_th _ _ _ _ _ HI t th Eg) as (_ & _ & Tp).
  assert (Hgr : t_granted th1 = false) by (subst th1; simpl; apply Tp; rewrite Hpc; reflexivity).
  assert (Hnq : ~ In t (v_queue s)).
  { apply (e5_idle_nothing s t HI). unfold e5_sto. rewrite Eg. unfold e5_st. now rewrite Hpc. }
  unfold cancel in Hc. rewrite Eg1 in Hc.
  destruct (negb (Nat.eqb (t_gen th1) (gen s1))) eqn:Eg2; [discriminate|].
  rewrite Hpc1 in Hc. simpl in Hc. injection Hc as <-.
  unfold resume_cancelled in Hrc. simpl in Hrc. rewrite e5_get_set_same in Hrc. simpl in Hrc.
  rewrite Eg2, Hpc1, Hgr in Hrc. injection Hrc as <-. simpl.
  split; [exact El|]. rewrite Eq. apply e5_remove_snoc. exact Hnq.
Qed.

(* ---- the exact effect of the FIFO pass ------------------------------------------------------------------ *)
Lemma e5_mem_nat_in x l : mem_nat x l = true <-> In x l.
Proof.
  unfold mem_nat. rewrite existsb_exists. split.
  - intros [y [Hy E]]. apply Nat.eqb_eq in E. now subst.
  - intros H. exists x. split; auto. apply Nat.eqb_refl.
Qed.

Lemma e5_mem_nat_notin x l : ~ In x l -> mem_nat x l = false.
Proof. intros H. apply not_true_is_false. rewrite e5_mem_nat_in. exact H. Qed.

Definition e5_postings_of (ths : list (tid * thread)) (w : tid) : list posting :=
  match get_thread ths w with Some th => t_postings th | None => [] end.
Definition e5_entry_of (ths : list (tid * thread)) (w : tid) : tid * list account * list account :=
  (w, reads_of (e5_postings_of ths w), writes_of (e5_postings_of ths w)).

(* [G]: the intents the pass grants, in queue order. The queue keeps the others in order; the table gets
   exactly the entries of [G] appended in order; exactly the threads of [G] get the grant flag, nothing else
   of any thread changes *)
Lemma e5_recheck_shape : forall q ths locks q' ths' locks',
  recheck q ths locks = (q', ths', locks') -> NoDup q ->
  (forall w, In w q -> exists th, get_thread ths w = Some th) ->
  exists G,
    locks' = locks ++ map (e5_entry_of ths) G /\
    q' = filter (fun w => negb (mem_nat w G)) q /\
    (forall w, In w G -> In w q) /\
    (forall x, get_thread ths' x =
               if mem_nat x G then option_map e5_grant (get_thread ths x) else get_thread ths x).
Proof.
  induction q as [|w rest IH]; intros ths locks q' ths' locks' H Nd Hth; simpl in H.
  - inversion H; subst. exists []. simpl. rewrite app_nil_r. repeat split; auto.
  - destruct (Hth w (or_introl eq_refl)) as [thw Ew]. rewrite Ew in H.
    inversion Nd as [|? ? Hnw Nd']; subst.
    destruct (compatible (reads_of (t_postings thw)) (writes_of (t_postings thw)) locks) eqn:Ec.
    + destruct (IH _ _ _ _ _ H Nd') as (G & EL & EQ & HG & HT).
      { intros v Hv. rewrite e5_get_set. destruct (Nat.eqb v w); eauto. apply Hth. now right. }
      assert (HnG : ~ In w G) by (intro Hin; apply Hnw; auto).
      exists (w :: G). split; [|split; [|split]].
      * rewrite EL. rewrite <- app_assoc. simpl. f_equal. f_equal.
        -- unfold e5_entry_of, e5_postings_of. rewrite Ew. reflexivity.
        -- apply map_ext_in. intros v Hv. unfold e5_entry_of, e5_postings_of. rewrite e5_get_set.
           destruct (Nat.eqb v w) eqn:E; auto. apply Nat.eqb_eq in E; subst. contradiction.
      * unfold mem_nat. simpl. rewrite Nat.eqb_refl. simpl. rewrite EQ. apply filter_ext_in.
        intros v Hv. destruct (Nat.eqb v w) eqn:E; simpl; auto. apply Nat.eqb_eq in E; subst; contradiction.
      * intros v [<-|Hv]; [now left | right; auto].
      * intros x. rewrite HT. rewrite e5_get_set. unfold mem_nat at 2. simpl.
        destruct (Nat.eqb x w) eqn:E; simpl; [|reflexivity].
        apply Nat.eqb_eq in E; subst x. rewrite (e5_mem_nat_notin _ _ HnG). rewrite Ew. reflexivity.
    + destruct (recheck rest ths locks) as [[q1 ths1] locks1] eqn:Er. inversion H; subst.
      destruct (IH _ _ _ _ _ Er Nd') as (G & EL & EQ & HG & HT).
      { intros v Hv. apply Hth. now right. }
      assert (HnG : ~ In w G) by (intro Hin; apply Hnw; auto).
      exists G. split; [exact EL|]. split; [|split; [|exact HT]].
      * simpl. rewrite (e5_mem_nat_notin _ _ HnG). simpl. rewrite EQ. reflexivity.
      * intros v Hv. right. auto.
Qed.

(* in a reachable state the side conditions hold: every release ([unlock t]) therefore acts as described *)
Lemma e5_unlock_shape s t : e5_Inv s ->
  exists G,
    v_locks (to_state (gen s) (unlock t (of_state s))) =
      filter (fun h => negb (Nat.eqb (fst (fst h)) t)) (v_locks s) ++ map (e5_entry_of (threads s)) G /\
    v_queue (to_state (gen s) (unlock t (of_state s))) = filter (fun w => negb (mem_nat w G)) (v_queue s) /\
    (forall w, In w G -> In w (v_queue s)) /\
    (forall x, get_thread (threads (to_state (gen s) (unlock t (of_state s)))) x =
               if mem_nat x G then option_map e5_grant (get_thread (threads s) x) else get_thread (threads s) x).
Proof.
  intros HI. unfold unlock. simpl.
  destruct (recheck (v_queue s) (threads s) (filter (fun h => negb (Nat.eqb (fst (fst h)) t)) (v_locks s)))
    as [[q' ths'] locks'] eqn:Er.
  simpl. apply (e5_recheck_shape _ _ _ _ _ _ Er).
  - exact (p_qnd _ _ _ _ _ HI).
  - intros w Hw. destruct (e5_queue_is_waiting s w HI Hw) as (th & E & _). eauto.
Qed.

(* ---- the failed store read ([AResumeReadFail t]) ------------------------------------------------------------- *)
(* normal form of the step: either the thread is overwritten by an idle one and table / queue are untouched
   (every pc but "locked"), or it is the release-then-finish of a holder parked at "locked" *)
Lemma e5_read_fail_cases s t th s' :
  get_thread (threads s) t = Some th -> resume_read_fail s t = Some s' ->
  (t_pc th <> PLocked /\
   exists thN, threads s' = set_thread (threads s) t thN /\ e5_st thN = E5Idle /\
               v_locks s' = v_locks s /\ v_queue s' = v_queue s) \/
  (t_pc th = PLocked /\
   s' = to_state (gen s) (finish t th (RErr EStoreRead) false true true true (unlock t (of_state s)))).
Proof.
  intros Eg H. unfold resume_read_fail in H. rewrite Eg in H.
  destruct (negb (Nat.eqb (t_gen th) (gen s))); [discriminate|].
  cbv beta iota zeta in H.
  destruct (t_pc th) eqn:Hpc; try discriminate.
  - (* PRevTaken *) left. split; [discriminate|]. injection H as <-. eexists. repeat split.
  - (* PIkTaken *) left. split; [discriminate|]. injection H as <-. eexists. repeat split.
  - (* PIkLookup *)
    left. split; [discriminate|].
    destruct hit as [e|]; [discriminate|].
    destruct (rq_kind (t_req th)) eqn:Ek.
    + destruct (N.eqb (rq_ref (t_req th)) 0); [|discriminate]. injection H as <-. eexists. repeat split.
    + discriminate.
    + destruct (rq_target_tx (t_req th)); [|discriminate]. injection H as <-. eexists.
      split; [reflexivity|]. split; [|split; reflexivity].
      unfold e5_st. destruct (rq_dry (t_req th)); simpl; rewrite Ek; reflexivity.
    + destruct (rq_target_tx (t_req th)); [|discriminate]. injection H as <-. eexists. repeat split.
  - (* PRefTaken *) left. split; [discriminate|]. injection H as <-. eexists. repeat split.
  - (* PRefLookup *)
    left. split; [discriminate|].
    destruct hit; [discriminate|]. destruct (rq_kind (t_req th)); try discriminate.
    injection H as <-. eexists. repeat split.
  - (* PLocked *)
    right. split; [reflexivity|].
    destruct (needs_balance th); [|discriminate]. injection H as <-. reflexivity.
Qed.

(* after a failed read nothing of [t] is in table or queue; unless the failing read was the balance read under the
   locks, table, queue and every other thread are untouched *)
Lemma e5_read_failed_step s t th s' : e5_Inv s -> get_thread (threads s) t = Some th ->
  step s (AResumeReadFail t) = Some s' ->
  ~ In t (v_queue s') /\ (forall h, In h (v_locks s') -> fst (fst h) <> t) /\
  (t_pc th <> PLocked ->
     v_locks s' = v_locks s /\ v_queue s' = v_queue s /\
     forall u, u <> t -> get_thread (threads s') u = get_thread (threads s) u).
Proof.
  intros HI Eg H. change (resume_read_fail s t = Some s') in H.
  pose proof (e5_resume_read_fail_inv _ _ _ HI H) as HI'.
  pose proof (e5_read_fail_cases _ _ _ _ Eg H) as Hc.
  assert (Hidle : e5_sto (threads s') t = E5Idle).
  { destruct Hc as [(_ & thN & Et & Hi & _)|(_ & ->)].
    - unfold e5_sto. rewrite Et, e5_get_set_same. exact Hi.
    - unfold e5_sto, finish; simpl. rewrite e5_get_set_same. reflexivity. }
  destruct (e5_idle_nothing _ _ HI' Hidle) as [A B]. split; [exact A|]. split; [exact B|].
  intros Hn. destruct Hc as [(_ & thN & Et & _ & El & Eq)|(Hpc & _)]; [|contradiction].
  split; [exact El|]. split; [exact Eq|].
  intros u Hu. rewrite Et. apply e5_get_set_other. exact Hu.
Qed.

(* the balance read under the locks fails: table, queue and every other thread are exactly those after a release
   by [t] ([unlock t]: DefaultLocker.unlock + the FIFO pass); [t] itself is finished with the read error *)
Lemma e5_read_failed_is_release s t th s' : get_thread (threads s) t = Some th -> t_pc th = PLocked ->
  step s (AResumeReadFail t) = Some s' ->
  v_locks s' = v_locks (to_state (gen s) (unlock t (of_state s))) /\
  v_queue s' = v_queue (to_state (gen s) (unlock t (of_state s))) /\
  (forall x, x <> t -> get_thread (threads s') x = get_thread (threads (to_state (gen s) (unlock t (of_state s)))) x) /\
  exists thF, get_thread (threads s') t = Some thF /\ t_pc thF = PFinished /\ t_resp thF = Some (RErr EStoreRead) /\
              t_entry thF = t_entry th.
Proof.
  intros Eg Hpc H. change (resume_read_fail s t = Some s') in H.
  destruct (e5_read_fail_cases _ _ _ _ Eg H) as [(Hn & _)|(_ & ->)]; [contradiction|].
  split; [reflexivity|]. split; [reflexivity|]. split.
  - intros x Hx. unfold finish; simpl. apply e5_get_set_other. exact Hx.
  - unfold finish; simpl. rewrite e5_get_set_same. eexists. repeat split.
Qed.

Lemma e5_read_failed_release_shape s t th s' : e5_Inv s -> get_thread (threads s) t = Some th -> t_pc th = PLocked ->
  step s (AResumeReadFail t) = Some s' ->
  exists G,
    v_locks s' = filter (fun h => negb (Nat.eqb (fst (fst h)) t)) (v_locks s) ++ map (e5_entry_of (threads s)) G /\
    v_queue s' = filter (fun w => negb (mem_nat w G)) (v_queue s) /\
    (forall w, In w G -> In w (v_queue s)) /\ ~ In t G /\
    (forall x, x <> t -> get_thread (threads s') x =
               if mem_nat x G then option_map e5_grant (get_thread (threads s) x) else get_thread (threads s) x) /\
    exists thF, get_thread (threads s') t = Some thF /\ t_pc thF = PFinished /\ t_resp thF = Some (RErr EStoreRead).
Proof.
  intros HI Eg Hpc H.
  destruct (e5_read_failed_is_release _ _ _ _ Eg Hpc H) as (El & Eq & Et & thF & EF & HF & HR & _).
  destruct (e5_unlock_shape s t HI) as (G & GL & GQ & GI & GT).
  exists G. split; [rewrite El; exact GL|]. split; [rewrite Eq; exact GQ|]. split; [exact GI|]. split.
  - intro Hin. apply GI in Hin. apply (p_q _ _ _ _ _ HI t (e5_not_none t)) in Hin.
    unfold e5_sto in Hin. rewrite Eg in Hin. unfold e5_st in Hin. rewrite Hpc in Hin. discriminate.
  - split.
    + intros x Hx. rewrite Et by exact Hx. apply GT.
    + exists thF. auto.
Qed.

(* ---- schedules for the non-vacuity examples (Properties/C02_cancel.v) ------------------------------------- *)
Definition e5_cr0 (ps : list posting) : request :=
  {| rq_kind := KCreate; rq_ik := 0%N; rq_ref := 0%N; rq_dry := false; rq_postings := ps; rq_unb := false;
     rq_revert := 0; rq_target_tx := None; rq_meta := 0%N |}.
(* request 0 funds account 1 with 100 and completes *)
Definition e5_fund : list action :=
  [AStart 0 (e5_cr0 [(0%N, 1%N, 100%Z)])] ++ repeat (AResume 0) 8 ++ [APersistOk] ++ repeat (AResume 0) 3.
Definition e5_rq1 : request := e5_cr0 [(1%N, 2%N, 40%Z)].
(* request 2 carries an idempotency key and a reference: both must be released when it gives up *)
Definition e5_rq2 : request :=
  {| rq_kind := KCreate; rq_ik := 7%N; rq_ref := 9%N; rq_dry := false; rq_postings := [(1%N, 3%N, 100%Z)];
     rq_unb := false; rq_revert := 0; rq_target_tx := None; rq_meta := 0%N |}.
Definition e5_rq3 : request := e5_cr0 [(1%N, 4%N, 50%Z)].
(* request 1 holds the locks of accounts 1, 2; request 2 is about to ask for its locks (parked at "resolved") *)
Definition e5_sched_pre : list action :=
  e5_fund ++ [AStart 1 e5_rq1; AStart 2 e5_rq2; AResume 1] ++ repeat (AResume 2) 4.
(* request 1 runs from "locked" to the release of its locks (persisted in between) *)
Definition e5_hold1_done : list action := repeat (AResume 1) 6 ++ [APersistOk] ++ repeat (AResume 1) 3.
(* (a) request 2 queues, is cancelled and gives up at once *)
Definition e5_ex_a : list action := e5_sched_pre ++ [AResume 2; ACancel 2; AResumeCancelled 2].
(* (b) request 2 queues, is cancelled; request 1 completes and grants it; only then it notices the cancellation *)
Definition e5_ex_b_granted : list action := e5_sched_pre ++ [AResume 2; ACancel 2] ++ e5_hold1_done.
Definition e5_ex_b : list action := e5_ex_b_granted ++ [AResumeCancelled 2].
(* (c) requests 2 and 3 queue behind 1; 1 completes: the pass grants 2 only; 2 is cancelled and gives up: its
   release re-checks the queue and grants 3, which then runs to completion *)
Definition e5_ex_c_queued : list action := e5_sched_pre ++ [AResume 2; AStart 3 e5_rq3; AResume 3].
Definition e5_ex_c_granted2 : list action := e5_ex_c_queued ++ e5_hold1_done.
Definition e5_ex_c_granted3 : list action := e5_ex_c_granted2 ++ [ACancel 2; AResumeCancelled 2].
Definition e5_ex_c_done : list action :=
  e5_ex_c_granted3 ++ repeat (AResume 3) 7 ++ [APersistOk] ++ repeat (AResume 3) 4 ++ [AResume 1].

Definition e5_show (o : option state) :=
  option_map (fun s => (v_locks s, v_queue s, v_iks s, v_refs s,
                        map (fun p => (fst p, t_pc (snd p), t_resp (snd p), t_granted (snd p))) (threads s))) o.
Definition e5_lq (o : option state) := option_map (fun s => (v_locks s, v_queue s)) o.

(* store read failures: request 1 (1 -> 2, 100) is parked at "locked" holding accounts 1, 2; request 2 (key 7,
   reference 9, 1 -> 3) is queued behind it *)
Definition e5_sp1 : request := e5_cr0 [(1%N, 2%N, 100%Z)].
Definition e5_rf_queued : list action :=
  e5_fund ++ [AStart 1 e5_sp1; AStart 2 e5_rq2; AResume 1] ++ repeat (AResume 2) 5.
(* request 1 holds; request 2 has just taken its key (parked at "ik.taken"): its key lookup fails *)
Definition e5_rf_ik : list action := e5_fund ++ [AStart 1 e5_sp1; AStart 2 e5_rq2; AResume 1].
(* a SaveMeta (key 5) on the missing transaction 7, parked at "ik.lookup" (miss) while request 1 holds *)
Definition e5_sm : request :=
  {| rq_kind := KSaveMeta; rq_ik := 5%N; rq_ref := 0%N; rq_dry := false; rq_postings := []; rq_unb := false;
     rq_revert := 0; rq_target_tx := Some 7; rq_meta := 0%N |}.
Definition e5_rf_sm : list action := e5_fund ++ [AStart 1 e5_sp1; AResume 1; AStart 3 e5_sm; AResume 3].
