(* M2 — the write path of internal/engine/command (commander.go, context.go, reference.go, lock.go as used here),
   utils/batching and utils/job, as an executable labelled transition system.
   One thread per request; a thread moves from one verifhook yield point of the real code to the next
   ([AResume]); the batch worker is parked inside Store.InsertLogs until [APersistOk] / [APersistFail];
   [ACrash] abandons the commander generation and re-initialises from the persisted log.
   [ACancel t] cancels the context of request t: the write path consults it in one place only, the wait for
   the account locks (DefaultLocker.Lock, parked at "lock.enqueued"): [AResumeCancelled t] is the ctx.Done()
   branch of that select (when the intent has been granted AND the context is done the Go runtime may take
   either branch: both [AResume t] and [AResumeCancelled t] are enabled).
   [AResumeReadFail t]: the region thread t runs next performs a store read, and that read fails with a transient
   error (not a not-found error): what the code does then, up to the return of the API call, is ONE transition
   (the yield point that follows a failed read decides nothing and holds nothing new: see [resume_read_fail]).
   [AClose] / [ACloseOk]: graceful shutdown of the commander (Batcher.Close), see [close].
   The store answers every read from the persisted log (as the SQL projection is specified to, C04).
   Requests are posting-mode transactions over one asset (general scripts reduce to them by C01/C09),
   reverts, and metadata writes. Models the tree WITH the engine repairs. Definitions only. *)
From Coq Require Export List ZArith Bool NArith Arith.
Export ListNotations.
Open Scope Z_scope.

Definition tid := nat.
Definition account := N.
Definition world : account := 0%N.
Definition posting := (account * account * Z)%type.   (* source, destination, amount *)

Inductive kind := KCreate | KRevert | KSaveMeta | KDelMeta.

Record request := {
  rq_kind : kind;
  rq_ik : N;                      (* idempotency key, 0 = none *)
  rq_ref : N;                     (* transaction reference, 0 = none (create only) *)
  rq_dry : bool;
  rq_postings : list posting;     (* create *)
  rq_unb : bool;                  (* create: sources allow unbounded overdraft; revert: force *)
  rq_revert : nat;                (* revert: id of the transaction to revert *)
  rq_target_tx : option nat;      (* metadata write: on transaction id / on an account (None) *)
  rq_meta : N                     (* metadata write: what is written where -- an interned name of (target type, target
                                     id, metadata map) / (target type, target id, key); 0 for transactions *)
}.

(* a log entry; [e_uid] is a ghost serial number, [e_prev] the uid of the entry whose hash went into this
   entry's hash (ChainLog(previous)): the hash chain is "e_prev = uid of the entry stored just before" *)
Record entry := {
  e_id : nat;
  e_uid : nat;
  e_prev : option nat;
  e_kind : kind;
  e_txid : option nat;
  e_postings : list posting;
  e_ref : N;
  e_ik : N;
  e_reverts : option nat;
  e_owner : tid;
  e_unb : bool;   (* ghost: the script grants its sources unbounded overdraft / the revert is forced *)
  e_meta : N      (* metadata entry: target and content ([rq_meta] of the request that wrote it); 0 otherwise *)
}.

Inductive eclass := EIkBusy | EConflict | ENotFound | EAlreadyReverted | ERevertOccurring | EInsufficient
                  | ENoPostings | EKeyReused
                  | ELockCancelled    (* the request's context was done while it waited for its account locks *)
                  | EStoreRead        (* a store read of the write path failed (transient error, not "not found") *)
                  | ECompilationFailed. (* exec's ErrCompilationFailed; here: ResolveResources could not read account metadata *)
Inductive response := ROk (txid : option nat) | RErr (e : eclass) | RCrashed.

Inductive pc :=
| PStart
| PRevBusy | PRevTaken | PRevRead (found reverted : bool)
| PIkBusy | PIkTaken | PIkLookup (hit : option entry)
| PRefBusy | PRefTaken | PRefLookup (hit : bool)
| PResolved | PEnqueued | PLocked | PBalances | PRan (ok : bool)
| PAppendEnter | PTxid | PChained | PAppended | PWait | PDone | PUnlocked
| PFinished.

Record thread := {
  t_req : request;
  t_pc : pc;
  t_postings : list posting;      (* effective postings (create: the request's; revert: the reversed ones) *)
  t_unb : bool;
  t_view : list (account * Z);    (* balances read under the locks *)
  t_entry : option entry;         (* the log entry it built *)
  t_txid : option nat;
  t_granted : bool;               (* lock granted by a releaser while it was queued *)
  t_resp : option response;
  t_gen : nat;
  t_cancelled : bool              (* the request's context.Context is done (the caller went away / timed out) *)
}.

Record event := { ev_tid : tid; ev_kind : kind; ev_txid : option nat; ev_reverted : option nat;
                  ev_persisted : nat (* entries on disk when published *) }.

Record state := {
  persisted : list entry;            (* the disk: survives crashes *)
  (* volatile commander state *)
  v_last : option (nat * nat);       (* lastLog: (id, uid) *)
  v_lasttx : option nat;             (* lastTXID; None = -1 *)
  v_pending : list entry;            (* batcher queue *)
  v_batch : option (list entry);     (* the worker is inside InsertLogs with this batch *)
  v_iks : list N; v_refs : list N; v_revs : list nat;           (* referencer *)
  v_locks : list (tid * list account * list account);            (* holders: read set, write set *)
  v_queue : list tid;                (* lock intents, FIFO *)
  v_cs : option tid;                 (* inside the append critical section *)
  v_uid : nat;                       (* ghost: next serial number *)
  gen : nat;
  threads : list (tid * thread);
  published : list event
}.

(* ---- the store: functions of the persisted log ------------------------------------------------------- *)
Definition delta (a : account) (p : posting) : Z :=
  let '(s, d, amt) := p in (if N.eqb d a then amt else 0) - (if N.eqb s a then amt else 0).
Definition balance_of (log : list entry) (a : account) : Z :=
  fold_left (fun acc e => fold_left (fun acc p => acc + delta a p) (e_postings e) acc) log 0.
Definition find_by_ik (log : list entry) (k : N) : option entry := find (fun e => N.eqb (e_ik e) k) log.
Definition has_ref (log : list entry) (r : N) : bool := existsb (fun e => N.eqb (e_ref e) r) log.
Definition find_tx (log : list entry) (id : nat) : option entry :=
  find (fun e => match e_txid e with Some t => Nat.eqb t id | None => false end) log.
Definition is_reverted (log : list entry) (id : nat) : bool :=
  existsb (fun e => match e_reverts e with Some t => Nat.eqb t id | None => false end) log.
Definition last_entry (log : list entry) : option (nat * nat) :=
  match rev log with e :: _ => Some (e_id e, e_uid e) | [] => None end.
Definition last_txid (log : list entry) : option nat :=
  fold_left (fun acc e => match e_txid e with Some t => Some t | None => acc end) log None.

(* ---- locks ---------------------------------------------------------------------------------------------- *)
Definition mem_acc (a : account) (l : list account) : bool := existsb (N.eqb a) l.
Definition held_reads (locks : list (tid * list account * list account)) : list account :=
  flat_map (fun h => snd (fst h)) locks.
Definition held_writes (locks : list (tid * list account * list account)) : list account :=
  flat_map (fun h => snd h) locks.
Definition compatible (reads writes : list account) (locks : list (tid * list account * list account)) : bool :=
  forallb (fun a => negb (mem_acc a (held_writes locks))) reads &&
  forallb (fun a => negb (mem_acc a (held_reads locks)) && negb (mem_acc a (held_writes locks))) writes.

Definition non_world (l : list account) : list account := filter (fun a => negb (N.eqb a world)) l.
Definition reads_of (ps : list posting) : list account :=
  non_world (flat_map (fun p => [fst (fst p); snd (fst p)]) ps).
Definition writes_of (ps : list posting) : list account := non_world (map (fun p => fst (fst p)) ps).

(* ---- script decision (posting mode): every non-world source covers its posting, earlier credits count ---- *)
Fixpoint view_get (v : list (account * Z)) (a : account) : Z :=
  match v with [] => 0 | (b, z) :: r => if N.eqb a b then z else view_get r a end.
Definition view_add (v : list (account * Z)) (a : account) (d : Z) : list (account * Z) :=
  (a, view_get v a + d) :: v.
Fixpoint covers (v : list (account * Z)) (unb : bool) (ps : list posting) : bool :=
  match ps with
  | [] => true
  | (s, d, amt) :: r =>
      let ok := N.eqb s world || unb || (amt <=? Z.max 0 (view_get v s)) in
      ok && covers (view_add (view_add v s (- amt)) d amt) unb r
  end.

(* ---- thread table ------------------------------------------------------------------------------------- *)
Fixpoint get_thread (l : list (tid * thread)) (t : tid) : option thread :=
  match l with [] => None | (u, th) :: r => if Nat.eqb t u then Some th else get_thread r t end.
Fixpoint set_thread (l : list (tid * thread)) (t : tid) (th : thread) : list (tid * thread) :=
  match l with
  | [] => [(t, th)]
  | (u, x) :: r => if Nat.eqb t u then (t, th) :: r else (u, x) :: set_thread r t th
  end.

Definition with_pc (th : thread) (p : pc) : thread :=
  {| t_req := t_req th; t_pc := p; t_postings := t_postings th; t_unb := t_unb th; t_view := t_view th;
     t_entry := t_entry th; t_txid := t_txid th; t_granted := t_granted th; t_resp := t_resp th; t_gen := t_gen th; t_cancelled := t_cancelled th |}.

Record upd := {  (* the parts of the state a step changes; the rest is copied *)
  u_persisted : list entry; u_last : option (nat * nat); u_lasttx : option nat; u_pending : list entry;
  u_batch : option (list entry); u_iks : list N; u_refs : list N; u_revs : list nat;
  u_locks : list (tid * list account * list account); u_queue : list tid; u_cs : option tid; u_uid : nat;
  u_threads : list (tid * thread); u_published : list event
}.
Definition of_state (s : state) : upd :=
  {| u_persisted := persisted s; u_last := v_last s; u_lasttx := v_lasttx s; u_pending := v_pending s;
     u_batch := v_batch s; u_iks := v_iks s; u_refs := v_refs s; u_revs := v_revs s; u_locks := v_locks s;
     u_queue := v_queue s; u_cs := v_cs s; u_uid := v_uid s; u_threads := threads s; u_published := published s |}.
Definition to_state (g : nat) (u : upd) : state :=
  {| persisted := u_persisted u; v_last := u_last u; v_lasttx := u_lasttx u; v_pending := u_pending u;
     v_batch := u_batch u; v_iks := u_iks u; v_refs := u_refs u; v_revs := u_revs u; v_locks := u_locks u;
     v_queue := u_queue u; v_cs := u_cs u; v_uid := u_uid u; gen := g; threads := u_threads u;
     published := u_published u |}.

Definition remove_N (x : N) (l : list N) : list N := filter (fun y => negb (N.eqb x y)) l.
Definition remove_nat (x : nat) (l : list nat) : list nat := filter (fun y => negb (Nat.eqb x y)) l.
Definition mem_N (x : N) (l : list N) : bool := existsb (N.eqb x) l.
Definition mem_nat (x : nat) (l : list nat) : bool := existsb (Nat.eqb x) l.

(* release of the account locks of [t], then the single FIFO pass of recheck: every queued intent that is
   compatible with the table (including what the pass has granted so far) is granted and leaves the queue *)
Fixpoint recheck (queue : list tid) (ths : list (tid * thread)) (locks : list (tid * list account * list account))
  : list tid * list (tid * thread) * list (tid * list account * list account) :=
  match queue with
  | [] => ([], ths, locks)
  | w :: rest =>
      match get_thread ths w with
      | None => recheck rest ths locks
      | Some th =>
          let rs := reads_of (t_postings th) in
          let ws := writes_of (t_postings th) in
          if compatible rs ws locks then
            let th' := {| t_req := t_req th; t_pc := t_pc th; t_postings := t_postings th; t_unb := t_unb th;
                          t_view := t_view th; t_entry := t_entry th; t_txid := t_txid th; t_granted := true;
                          t_resp := t_resp th; t_gen := t_gen th; t_cancelled := t_cancelled th |} in
            recheck rest (set_thread ths w th') (locks ++ [(w, rs, ws)])
          else
            let '(q, ths', locks') := recheck rest ths locks in (w :: q, ths', locks')
      end
  end.
Definition unlock (t : tid) (u : upd) : upd :=
  let locks := filter (fun h => negb (Nat.eqb (fst (fst h)) t)) (u_locks u) in
  let '(q, ths, locks') := recheck (u_queue u) (u_threads u) locks in
  {| u_persisted := u_persisted u; u_last := u_last u; u_lasttx := u_lasttx u; u_pending := u_pending u;
     u_batch := u_batch u; u_iks := u_iks u; u_refs := u_refs u; u_revs := u_revs u; u_locks := locks';
     u_queue := q; u_cs := u_cs u; u_uid := u_uid u; u_threads := ths; u_published := u_published u |}.

(* the end of a request: the response is recorded and the reservations named by the flags are released
   (a request must only release what it took itself) *)
Definition finish (t : tid) (th : thread) (r : response) (publish rel_ik rel_ref rel_rev : bool) (u : upd) : upd :=
  let rq := t_req th in
  let ev := {| ev_tid := t; ev_kind := rq_kind rq;
               ev_txid := match r with ROk x => x | _ => None end;
               ev_reverted := match rq_kind rq with KRevert => Some (rq_revert rq) | _ => None end;
               ev_persisted := length (u_persisted u) |} in
  let th' := {| t_req := rq; t_pc := PFinished; t_postings := t_postings th; t_unb := t_unb th; t_view := t_view th;
                t_entry := t_entry th; t_txid := t_txid th; t_granted := t_granted th; t_resp := Some r;
                t_gen := t_gen th; t_cancelled := t_cancelled th |} in
  {| u_persisted := u_persisted u; u_last := u_last u; u_lasttx := u_lasttx u; u_pending := u_pending u;
     u_batch := u_batch u;
     u_iks := if rel_ik && negb (N.eqb (rq_ik rq) 0) then remove_N (rq_ik rq) (u_iks u) else u_iks u;
     u_refs := if rel_ref && negb (N.eqb (rq_ref rq) 0) then remove_N (rq_ref rq) (u_refs u) else u_refs u;
     u_revs := if rel_rev then match rq_kind rq with KRevert => remove_nat (rq_revert rq) (u_revs u) | _ => u_revs u end
               else u_revs u;
     u_locks := u_locks u; u_queue := u_queue u; u_cs := u_cs u; u_uid := u_uid u;
     u_threads := set_thread (u_threads u) t th';
     u_published := if publish then u_published u ++ [ev] else u_published u |}.

(* run's deferred release of the idempotency key happens before the completions (account unlock, reference) *)
Definition release_ik (rq : request) (u : upd) : upd :=
  {| u_persisted := u_persisted u; u_last := u_last u; u_lasttx := u_lasttx u; u_pending := u_pending u;
     u_batch := u_batch u;
     u_iks := if N.eqb (rq_ik rq) 0 then u_iks u else remove_N (rq_ik rq) (u_iks u);
     u_refs := u_refs u; u_revs := u_revs u; u_locks := u_locks u; u_queue := u_queue u; u_cs := u_cs u;
     u_uid := u_uid u; u_threads := u_threads u; u_published := u_published u |}.

Definition set_th (t : tid) (th : thread) (u : upd) : upd :=
  {| u_persisted := u_persisted u; u_last := u_last u; u_lasttx := u_lasttx u; u_pending := u_pending u;
     u_batch := u_batch u; u_iks := u_iks u; u_refs := u_refs u; u_revs := u_revs u; u_locks := u_locks u;
     u_queue := u_queue u; u_cs := u_cs u; u_uid := u_uid u; u_threads := set_thread (u_threads u) t th;
     u_published := u_published u |}.

Definition is_tx_kind (k : kind) : bool := match k with KCreate | KRevert => true | _ => false end.

(* executionContext.run: idempotency key *)
Definition enter_exec (t : tid) (th : thread) (u : upd) : upd :=
  let rq := t_req th in
  if is_tx_kind (rq_kind rq) then
    if N.eqb (rq_ref rq) 0 then set_th t (with_pc th PResolved) u
    else if mem_N (rq_ref rq) (u_refs u) then set_th t (with_pc th PRefBusy) u
    else
      let u1 := set_th t (with_pc th PRefTaken) u in
      {| u_persisted := u_persisted u1; u_last := u_last u1; u_lasttx := u_lasttx u1; u_pending := u_pending u1;
         u_batch := u_batch u1; u_iks := u_iks u1; u_refs := rq_ref rq :: u_refs u1; u_revs := u_revs u1;
         u_locks := u_locks u1; u_queue := u_queue u1; u_cs := u_cs u1; u_uid := u_uid u1;
         u_threads := u_threads u1; u_published := u_published u1 |}
  else
    (* metadata write: a transaction target must exist *)
    match rq_target_tx rq with
    | Some id =>
        match find_tx (u_persisted u) id with
        | None => finish t th (RErr ENotFound) false true false false u
        | Some _ => set_th t (with_pc th (if rq_dry rq then PWait else PAppendEnter)) u
        end
    | None => set_th t (with_pc th (if rq_dry rq then PWait else PAppendEnter)) u
    end.

Definition enter_run (t : tid) (th : thread) (u : upd) : upd :=
  let rq := t_req th in
  if N.eqb (rq_ik rq) 0 then enter_exec t th u
  else if mem_N (rq_ik rq) (u_iks u) then set_th t (with_pc th PIkBusy) u
  else
    let u1 := set_th t (with_pc th PIkTaken) u in
    {| u_persisted := u_persisted u1; u_last := u_last u1; u_lasttx := u_lasttx u1; u_pending := u_pending u1;
       u_batch := u_batch u1; u_iks := rq_ik rq :: u_iks u1; u_refs := u_refs u1; u_revs := u_revs u1;
       u_locks := u_locks u1; u_queue := u_queue u1; u_cs := u_cs u1; u_uid := u_uid u1;
       u_threads := u_threads u1; u_published := u_published u1 |}.

Definition swap_rev (ps : list posting) : list posting := map (fun p => (snd (fst p), fst (fst p), snd p)) (rev ps).

Definition next_nat (o : option nat) : nat := match o with Some n => S n | None => O end.

(* the entry a thread chains *)
Definition build_entry (t : tid) (th : thread) (u : upd) : entry :=
  let rq := t_req th in
  {| e_id := match u_last u with Some (i, _) => S i | None => O end;
     e_uid := u_uid u;
     e_prev := match u_last u with Some (_, x) => Some x | None => None end;
     e_kind := rq_kind rq;
     e_txid := t_txid th;
     e_postings := if is_tx_kind (rq_kind rq) then t_postings th else [];
     e_ref := if is_tx_kind (rq_kind rq) then rq_ref rq else 0%N;
     e_ik := rq_ik rq;
     e_reverts := match rq_kind rq with KRevert => Some (rq_revert rq) | _ => None end;
     e_owner := t;
     e_unb := t_unb th;
     e_meta := if is_tx_kind (rq_kind rq) then 0%N else rq_meta rq |}.

(* executionContext.run: the log stored under the request's idempotency key is answered again only when it IS the
   outcome of this request -- CreateTransaction: a new-transaction log; RevertTransaction: a revert log of the same
   transaction; SaveMeta / DeleteMetadata: a log of the same kind with the same target and the same metadata / key *)
Definition is_outcome_of (rq : request) (e : entry) : bool :=
  match rq_kind rq, e_kind e with
  | KCreate, KCreate => true
  | KRevert, KRevert => match e_reverts e with Some x => Nat.eqb x (rq_revert rq) | None => false end
  | KSaveMeta, KSaveMeta | KDelMeta, KDelMeta => N.eqb (e_meta e) (rq_meta rq)
  | _, _ => false
  end.

Definition entry_persisted (log : list entry) (e : entry) : bool := existsb (fun x => Nat.eqb (e_uid x) (e_uid e)) log.

(* one scheduling step of thread [t] from its current yield point to the next; None = not enabled *)
Definition resume (s : state) (t : tid) : option state :=
  match get_thread (threads s) t with
  | None => None
  | Some th =>
      if negb (Nat.eqb (t_gen th) (gen s)) then None else
      let u := of_state s in
      let rq := t_req th in
      let ok (u' : upd) := Some (to_state (gen s) u') in
      match t_pc th with
      | PStart | PFinished => None
      | PRevBusy => ok (finish t th (RErr ERevertOccurring) false false false false u)
      | PRevTaken =>
          let found := find_tx (persisted s) (rq_revert rq) in
          ok (set_th t (with_pc th (PRevRead (match found with Some _ => true | None => false end)
                                             (is_reverted (persisted s) (rq_revert rq)))) u)
      | PRevRead found reverted =>
          if negb found then ok (finish t th (RErr ENotFound) false false false true u)
          else if reverted then ok (finish t th (RErr EAlreadyReverted) false false false true u)
          else
            let ps := match find_tx (persisted s) (rq_revert rq) with Some e => swap_rev (e_postings e) | None => [] end in
            let th' := {| t_req := rq; t_pc := t_pc th; t_postings := ps; t_unb := rq_unb rq; t_view := t_view th;
                          t_entry := t_entry th; t_txid := t_txid th; t_granted := false; t_resp := None; t_gen := t_gen th; t_cancelled := t_cancelled th |} in
            ok (enter_run t th' u)
      | PIkBusy => ok (finish t th (RErr EIkBusy) false false false true u)
      | PIkTaken => ok (set_th t (with_pc th (PIkLookup (find_by_ik (persisted s) (rq_ik rq)))) u)
      | PIkLookup (Some e) =>
          (* replay: the stored outcome is answered again (and published again when not a dry run); a key that
             stored the outcome of ANOTHER request is refused (ErrIdempotencyKeyReused): nothing is executed, written
             or published; the deferred functions release the key and, for a revert, its reservation *)
          if is_outcome_of rq e
          then ok (finish t th (ROk (e_txid e)) (negb (rq_dry rq)) true false true u)
          else ok (finish t th (RErr EKeyReused) false true false true u)
      | PIkLookup None => ok (enter_exec t th u)
      | PRefBusy => ok (finish t th (RErr EConflict) false true false true u)
      | PRefTaken => ok (set_th t (with_pc th (PRefLookup (has_ref (persisted s) (rq_ref rq)))) u)
      | PRefLookup true => ok (finish t th (RErr EConflict) false true true true u)
      | PRefLookup false => ok (set_th t (with_pc th PResolved) u)
      | PResolved =>
          let rs := reads_of (t_postings th) in
          let ws := writes_of (t_postings th) in
          if compatible rs ws (v_locks s) then
            let u1 := set_th t (with_pc th PLocked) u in
            ok {| u_persisted := u_persisted u1; u_last := u_last u1; u_lasttx := u_lasttx u1; u_pending := u_pending u1;
                  u_batch := u_batch u1; u_iks := u_iks u1; u_refs := u_refs u1; u_revs := u_revs u1;
                  u_locks := u_locks u1 ++ [(t, rs, ws)]; u_queue := u_queue u1; u_cs := u_cs u1; u_uid := u_uid u1;
                  u_threads := u_threads u1; u_published := u_published u1 |}
          else
            let u1 := set_th t (with_pc th PEnqueued) u in
            ok {| u_persisted := u_persisted u1; u_last := u_last u1; u_lasttx := u_lasttx u1; u_pending := u_pending u1;
                  u_batch := u_batch u1; u_iks := u_iks u1; u_refs := u_refs u1; u_revs := u_revs u1;
                  u_locks := u_locks u1; u_queue := u_queue u1 ++ [t]; u_cs := u_cs u1; u_uid := u_uid u1;
                  u_threads := u_threads u1; u_published := u_published u1 |}
      | PEnqueued => if t_granted th then ok (set_th t (with_pc th PLocked) u) else None
      | PLocked =>
          let accs := reads_of (t_postings th) in
          let th' := {| t_req := rq; t_pc := PBalances; t_postings := t_postings th; t_unb := t_unb th;
                        t_view := map (fun a => (a, balance_of (persisted s) a)) accs;
                        t_entry := t_entry th; t_txid := t_txid th; t_granted := t_granted th; t_resp := None;
                        t_gen := t_gen th; t_cancelled := t_cancelled th |} in
          ok (set_th t th' u)
      | PBalances =>
          ok (set_th t (with_pc th (PRan (covers (t_view th) (t_unb th) (t_postings th)))) u)
      | PRan false => ok (unlock t (release_ik rq (set_th t (with_pc th PUnlocked) u)))
      | PRan true =>
          match t_postings th with
          | [] => ok (unlock t (release_ik rq (set_th t (with_pc th PUnlocked) u)))
          | _ =>
              if rq_dry rq then
                let th' := {| t_req := rq; t_pc := PTxid; t_postings := t_postings th; t_unb := t_unb th; t_view := t_view th;
                              t_entry := t_entry th; t_txid := Some (next_nat (v_lasttx s)); t_granted := t_granted th;
                              t_resp := None; t_gen := t_gen th; t_cancelled := t_cancelled th |} in
                ok (set_th t th' u)
              else ok (set_th t (with_pc th PAppendEnter) u)
          end
      | PAppendEnter =>
          match v_cs s with
          | Some _ => None
          | None =>
              if is_tx_kind (rq_kind rq) then
                let id := next_nat (v_lasttx s) in
                let th' := {| t_req := rq; t_pc := PTxid; t_postings := t_postings th; t_unb := t_unb th; t_view := t_view th;
                              t_entry := t_entry th; t_txid := Some id; t_granted := t_granted th; t_resp := None;
                              t_gen := t_gen th; t_cancelled := t_cancelled th |} in
                let u1 := set_th t th' u in
                ok {| u_persisted := u_persisted u1; u_last := u_last u1; u_lasttx := Some id; u_pending := u_pending u1;
                      u_batch := u_batch u1; u_iks := u_iks u1; u_refs := u_refs u1; u_revs := u_revs u1;
                      u_locks := u_locks u1; u_queue := u_queue u1; u_cs := Some t; u_uid := u_uid u1;
                      u_threads := u_threads u1; u_published := u_published u1 |}
              else
                (* metadata writes have no "txid" yield point: the next one is "chained" *)
                let e := build_entry t th u in
                let th' := {| t_req := rq; t_pc := PChained; t_postings := t_postings th; t_unb := t_unb th; t_view := t_view th;
                              t_entry := Some e; t_txid := None; t_granted := t_granted th; t_resp := None; t_gen := t_gen th; t_cancelled := t_cancelled th |} in
                let u1 := set_th t th' u in
                ok {| u_persisted := u_persisted u1; u_last := Some (e_id e, e_uid e); u_lasttx := u_lasttx u1;
                      u_pending := u_pending u1; u_batch := u_batch u1; u_iks := u_iks u1; u_refs := u_refs u1;
                      u_revs := u_revs u1; u_locks := u_locks u1; u_queue := u_queue u1; u_cs := Some t;
                      u_uid := S (u_uid u1); u_threads := u_threads u1; u_published := u_published u1 |}
          end
      | PTxid =>
          if rq_dry rq then ok (set_th t (with_pc th PWait) u)
          else
            let e := build_entry t th u in
            let th' := {| t_req := rq; t_pc := PChained; t_postings := t_postings th; t_unb := t_unb th; t_view := t_view th;
                          t_entry := Some e; t_txid := t_txid th; t_granted := t_granted th; t_resp := None; t_gen := t_gen th; t_cancelled := t_cancelled th |} in
            let u1 := set_th t th' u in
            ok {| u_persisted := u_persisted u1; u_last := Some (e_id e, e_uid e); u_lasttx := u_lasttx u1;
                  u_pending := u_pending u1; u_batch := u_batch u1; u_iks := u_iks u1; u_refs := u_refs u1;
                  u_revs := u_revs u1; u_locks := u_locks u1; u_queue := u_queue u1; u_cs := u_cs u1;
                  u_uid := S (u_uid u1); u_threads := u_threads u1; u_published := u_published u1 |}
      | PChained =>
          match t_entry th with
          | None => None
          | Some e =>
              let u1 := set_th t (with_pc th PAppended) u in
              (* Batcher.Append: a free worker takes the entry at once, otherwise it queues *)
              ok {| u_persisted := u_persisted u1; u_last := u_last u1; u_lasttx := u_lasttx u1;
                    u_pending := match u_batch u1 with None => u_pending u1 | Some _ => u_pending u1 ++ [e] end;
                    u_batch := match u_batch u1 with None => Some [e] | Some b => Some b end;
                    u_iks := u_iks u1; u_refs := u_refs u1; u_revs := u_revs u1; u_locks := u_locks u1;
                    u_queue := u_queue u1; u_cs := u_cs u1; u_uid := u_uid u1; u_threads := u_threads u1;
                    u_published := u_published u1 |}
          end
      | PAppended =>
          let u1 := set_th t (with_pc th PWait) u in
          ok {| u_persisted := u_persisted u1; u_last := u_last u1; u_lasttx := u_lasttx u1; u_pending := u_pending u1;
                u_batch := u_batch u1; u_iks := u_iks u1; u_refs := u_refs u1; u_revs := u_revs u1;
                u_locks := u_locks u1; u_queue := u_queue u1; u_cs := None; u_uid := u_uid u1;
                u_threads := u_threads u1; u_published := u_published u1 |}
      | PWait =>
          if rq_dry rq then ok (set_th t (with_pc th PDone) u)
          else match t_entry th with
               | Some e => if entry_persisted (persisted s) e then ok (set_th t (with_pc th PDone) u) else None
               | None => None
               end
      | PDone =>
          if is_tx_kind (rq_kind rq) then ok (unlock t (release_ik rq (set_th t (with_pc th PUnlocked) u)))
          else ok (finish t th (ROk None) (negb (rq_dry rq)) true false false u)
      | PUnlocked =>
          match t_pc th, t_txid th with
          | _, _ =>
              (* which way did we get here: a refused script, or a completed write / preview *)
              if covers (t_view th) (t_unb th) (t_postings th) then
                match t_postings th with
                | [] => ok (finish t th (RErr ENoPostings) false false true true u)
                | _ => ok (finish t th (ROk (t_txid th)) (negb (rq_dry rq)) false true true u)
                end
              else ok (finish t th (RErr EInsufficient) false false true true u)
          end
      end
  end.

(* ---- cancellation of a request's context ---------------------------------------------------------------- *)
Definition pc_finished (p : pc) : bool := match p with PFinished => true | _ => false end.

Definition with_cancelled (th : thread) : thread :=
  {| t_req := t_req th; t_pc := t_pc th; t_postings := t_postings th; t_unb := t_unb th; t_view := t_view th;
     t_entry := t_entry th; t_txid := t_txid th; t_granted := t_granted th; t_resp := t_resp th; t_gen := t_gen th;
     t_cancelled := true |}.

(* the caller cancels the context of a running request: by itself this changes nothing but the flag *)
Definition cancel (s : state) (t : tid) : option state :=
  match get_thread (threads s) t with
  | None => None
  | Some th =>
      if negb (Nat.eqb (t_gen th) (gen s)) then None else
      if pc_finished (t_pc th) then None else
      Some (to_state (gen s) (set_th t (with_cancelled th) (of_state s)))
  end.

(* lock.go, intents.RemoveValue(intent): a waiter that was not granted leaves the queue; no recheck *)
Definition dequeue (t : tid) (u : upd) : upd :=
  {| u_persisted := u_persisted u; u_last := u_last u; u_lasttx := u_lasttx u; u_pending := u_pending u;
     u_batch := u_batch u; u_iks := u_iks u; u_refs := u_refs u; u_revs := u_revs u; u_locks := u_locks u;
     u_queue := remove_nat t (u_queue u); u_cs := u_cs u; u_uid := u_uid u; u_threads := u_threads u;
     u_published := u_published u |}.

(* DefaultLocker.Lock, the ctx.Done() branch of the select a queued intent waits in: under the locker mutex the
   intent either finds itself granted meanwhile (it gives the accounts back and re-checks the queue, exactly as a
   release does) or removes itself from the queue; Lock returns the context error, exec wraps it, run returns it:
   its deferred functions release the idempotency key, then the completions registered so far (the reference; the
   account unlock is not registered yet), then RevertTransaction's deferred release of the revert reservation.
   No yield point parks in between: one step. Nothing was built, nothing is written, nothing is published. *)
Definition resume_cancelled (s : state) (t : tid) : option state :=
  match get_thread (threads s) t with
  | None => None
  | Some th =>
      if negb (Nat.eqb (t_gen th) (gen s)) then None else
      match t_pc th with
      | PEnqueued =>
          if t_cancelled th then
            let u := of_state s in
            let u1 := if t_granted th then unlock t u else dequeue t u in
            Some (to_state (gen s) (finish t th (RErr ELockCancelled) false true true true u1))
          else None
      | _ => None
      end
  end.

(* ---- transient failures of the store reads of the write path ----------------------------------------------- *)
(* Machine.ResolveBalances reads the balance of every bounded non-world source (NeededBalances; world is answered
   without a read, a source with unbounded overdraft needs none) *)
Definition needs_balance (th : thread) : bool :=
  negb (t_unb th) && existsb (fun p => negb (N.eqb (fst (fst p)) world)) (t_postings th).

(* thread [t] is parked before a region that reads the store, and the (first) read of that region fails.
   - "revert.taken": GetTransaction fails: RevertTransaction returns the error; its deferred function releases the
     revert reservation (nothing else is held yet).
   - "ik.taken": ReadLogWithIdempotencyKey fails: run returns the error; deferred: the key is released; the completions
     are empty; for a revert, RevertTransaction then releases its reservation. The reference has not been taken.
   - "ref.taken": GetTransactionByReference fails: exec's executor returns the error; run releases the key, complete()
     releases the reference (registered), then the revert reservation.
   - "ik.lookup" (miss) of a metadata write on a TRANSACTION: GetTransaction fails. DeleteMetadata answers its
     transaction-not-found error for ANY error (nothing written). SaveMeta only looks for the not-found error and
     IGNORES any other: it goes on and writes the metadata entry although the transaction could not be read
     (modelled as the code is: the request proceeds exactly as if the transaction had been found).
   - "ik.lookup" (miss, no reference) / "ref.lookup" (miss) of a create: the script is compiled and ResolveResources
     reads the metadata of accounts named through meta(): a failure is answered ErrCompilationFailed; key and
     reference are released. (The model does not know which scripts read metadata: enabled for every create; the
     trace validation only offers it for the requests whose script does, [ec_meta_readers].)
   - "locked": ResolveBalances fails on its first GetBalance: exec returns the error; run releases the key, complete()
     runs the unlock completion (release + FIFO re-check of the queue) and releases the reference; then the revert
     reservation. The yield point "unlocked" inside the completion decides nothing: one transition.
   Nothing is built, handed to the batcher or published in any of the failing cases. *)
Definition resume_read_fail (s : state) (t : tid) : option state :=
  match get_thread (threads s) t with
  | None => None
  | Some th =>
      if negb (Nat.eqb (t_gen th) (gen s)) then None else
      let u := of_state s in
      let rq := t_req th in
      let ok (u' : upd) := Some (to_state (gen s) u') in
      match t_pc th with
      | PRevTaken => ok (finish t th (RErr EStoreRead) false false false true u)
      | PIkTaken => ok (finish t th (RErr EStoreRead) false true false true u)
      | PRefTaken => ok (finish t th (RErr EStoreRead) false true true true u)
      | PIkLookup None =>
          match rq_kind rq with
          | KCreate => if N.eqb (rq_ref rq) 0 then ok (finish t th (RErr ECompilationFailed) false true false true u) else None
          | KRevert => None
          | KSaveMeta =>
              match rq_target_tx rq with
              | Some _ => ok (set_th t (with_pc th (if rq_dry rq then PWait else PAppendEnter)) u)
              | None => None
              end
          | KDelMeta =>
              match rq_target_tx rq with
              | Some _ => ok (finish t th (RErr ENotFound) false true false false u)
              | None => None
              end
          end
      | PRefLookup false =>
          match rq_kind rq with
          | KCreate => ok (finish t th (RErr ECompilationFailed) false true true true u)
          | _ => None
          end
      | PLocked =>
          if needs_balance th then ok (finish t th (RErr EStoreRead) false true true true (unlock t u)) else None
      | _ => None
      end
  end.

Definition start (s : state) (t : tid) (rq : request) : option state :=
  match get_thread (threads s) t with
  | Some _ => None
  | None =>
      let th := {| t_req := rq; t_pc := PStart; t_postings := rq_postings rq; t_unb := rq_unb rq; t_view := [];
                   t_entry := None; t_txid := None; t_granted := false; t_resp := None; t_gen := gen s; t_cancelled := false |} in
      let u := of_state s in
      match rq_kind rq with
      | KRevert =>
          if mem_nat (rq_revert rq) (v_revs s) then Some (to_state (gen s) (set_th t (with_pc th PRevBusy) u))
          else
            let u1 := set_th t (with_pc th PRevTaken) u in
            Some (to_state (gen s)
              {| u_persisted := u_persisted u1; u_last := u_last u1; u_lasttx := u_lasttx u1; u_pending := u_pending u1;
                 u_batch := u_batch u1; u_iks := u_iks u1; u_refs := u_refs u1; u_revs := rq_revert rq :: u_revs u1;
                 u_locks := u_locks u1; u_queue := u_queue u1; u_cs := u_cs u1; u_uid := u_uid u1;
                 u_threads := u_threads u1; u_published := u_published u1 |})
      | _ => Some (to_state (gen s) (enter_run t th u))
      end
  end.

(* the worker finishes InsertLogs successfully: the batch is on disk, the next batch (if any) is taken *)
Definition persist_ok (s : state) : option state :=
  match v_batch s with
  | None => None
  | Some b =>
      let u := of_state s in
      Some (to_state (gen s)
        {| u_persisted := persisted s ++ b; u_last := u_last u; u_lasttx := u_lasttx u; u_pending := [];
           u_batch := match v_pending s with [] => None | p => Some p end;
           u_iks := u_iks u; u_refs := u_refs u; u_revs := u_revs u; u_locks := u_locks u; u_queue := u_queue u;
           u_cs := u_cs u; u_uid := u_uid u; u_threads := u_threads u; u_published := u_published u |})
  end.

(* the process dies (kill, or InsertLogs failed and the runner panicked); a new commander initialises from disk *)
Definition crash (s : state) : state :=
  {| persisted := persisted s; v_last := last_entry (persisted s); v_lasttx := last_txid (persisted s);
     v_pending := []; v_batch := None; v_iks := []; v_refs := []; v_revs := []; v_locks := []; v_queue := [];
     v_cs := None; v_uid := v_uid s; gen := S (gen s);
     threads := map (fun p => (fst p,
                   match t_pc (snd p) with
                   | PFinished => snd p
                   | _ => {| t_req := t_req (snd p); t_pc := PFinished; t_postings := t_postings (snd p); t_unb := t_unb (snd p);
                             t_view := t_view (snd p); t_entry := t_entry (snd p); t_txid := t_txid (snd p);
                             t_granted := t_granted (snd p); t_resp := Some RCrashed; t_gen := t_gen (snd p); t_cancelled := t_cancelled (snd p) |}
                   end)) (threads s);
     published := published s |}.

(* ---- graceful shutdown: Commander.Close() = Batcher.Close() = job.Runner.Close() ------------------------------------
   The stop branch of Runner.Run: close(jobs); StopAndWait(); close(terminatedJobs); close(done); return.
   The worker that is inside the store call finishes it (StopAndWait): the batch is written, or the write fails (the
   worker's panic is recovered into jobsErrors, which nobody reads any more). Either way the job's Terminated() callbacks
   are NOT run (the job goes into terminatedJobs, closed unread): nobody of that batch is acknowledged by the close.
   Entries still queued in the batcher are never handed to the store and never acknowledged. Requests parked anywhere
   stay parked for ever: the generation is over, exactly as after a crash; the next commander initialises from the disk.
   [AClose]: nothing is in the store call, or its write fails: state-wise this IS [crash].
   [ACloseOk]: a batch is inside the store call and its write succeeds, then the generation ends: this IS the
   composition of [persist_ok] and [crash] (the batch [persist_ok] would hand to the worker next is dropped by the crash,
   as the close drops the queue). No acknowledgement and no event results from a close. *)
Definition close (s : state) : state := crash s.
Definition close_ok (s : state) : option state :=
  match persist_ok s with Some s' => Some (crash s') | None => None end.

Inductive action := AStart (t : tid) (rq : request) | AResume (t : tid) | APersistOk | APersistFail | ACrash
                  | ACancel (t : tid) | AResumeCancelled (t : tid) | AResumeReadFail (t : tid)
                  | AClose | ACloseOk.

Definition step (s : state) (a : action) : option state :=
  match a with
  | AStart t rq => start s t rq
  | AResume t => resume s t
  | APersistOk => persist_ok s
  | APersistFail => match v_batch s with Some _ => Some (crash s) | None => None end
  | ACrash => Some (crash s)
  | ACancel t => cancel s t
  | AResumeCancelled t => resume_cancelled s t
  | AResumeReadFail t => resume_read_fail s t
  | AClose => Some (close s)
  | ACloseOk => close_ok s
  end.

Fixpoint run (s : state) (acts : list action) : option state :=
  match acts with
  | [] => Some s
  | a :: r => match step s a with Some s' => run s' r | None => None end
  end.

Definition init : state :=
  {| persisted := []; v_last := None; v_lasttx := None; v_pending := []; v_batch := None; v_iks := []; v_refs := [];
     v_revs := []; v_locks := []; v_queue := []; v_cs := None; v_uid := O; gen := O; threads := []; published := [] |}.
