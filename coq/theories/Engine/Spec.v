(* M2 — what the engine properties say, as predicates over reachable states of Engine/Model.v.
   "Reachable" quantifies over every finite action sequence: any number of requests of any kind, any
   interleaving of their steps, any batch composition, store failures and crashes at every point.
   Definitions only. *)
From FL Require Export Engine.Model.
Open Scope Z_scope.

Definition reachable (s : state) : Prop := exists acts, run init acts = Some s.

(* ---- C05: gap-free hash chain ------------------------------------------------------------------------- *)
Definition ids_contiguous (log : list entry) : Prop :=
  forall i e, nth_error log i = Some e -> e_id e = i.
(* each entry's hash was computed over the hash of the entry stored just before it (uids stand for hashes) *)
Definition chain_linked (log : list entry) : Prop :=
  forall i e, nth_error log i = Some e ->
    e_prev e = match i with O => None | S j => option_map e_uid (nth_error log j) end.
Fixpoint txids_of (log : list entry) : list nat :=
  match log with
  | [] => []
  | e :: r => match e_txid e with Some t => t :: txids_of r | None => txids_of r end
  end.
Definition txids_contiguous (log : list entry) : Prop := txids_of log = seq 0 (length (txids_of log)).
Definition chain_ok (log : list entry) : Prop := ids_contiguous log /\ chain_linked log /\ txids_contiguous log.

(* ---- C06: acknowledged means persisted; rejected means no trace ------------------------------------------ *)
Definition same_kind (a b : kind) : bool :=
  match a, b with KCreate, KCreate | KRevert, KRevert | KSaveMeta, KSaveMeta | KDelMeta, KDelMeta => true | _, _ => false end.
(* the entry a successful response stands for: built by the request itself, or (replay) found under its key *)
Definition answers (t : tid) (th : thread) (x : option nat) (e : entry) : Prop :=
  e_txid e = x /\ same_kind (e_kind e) (rq_kind (t_req th)) = true /\
  (e_owner e = t \/ (rq_ik (t_req th) <> 0%N /\ e_ik e = rq_ik (t_req th))).
Definition ack_persisted (s : state) : Prop :=
  forall t th x, get_thread (threads s) t = Some th -> t_resp th = Some (ROk x) -> rq_dry (t_req th) = false ->
    exists e, In e (persisted s) /\ answers t th x e.
Definition error_no_trace (s : state) : Prop :=
  forall t th err, get_thread (threads s) t = Some th -> t_resp th = Some (RErr err) ->
    forall e, In e (persisted s) -> e_owner e <> t.
Definition preview_no_trace (s : state) : Prop :=
  forall t th, get_thread (threads s) t = Some th -> rq_dry (t_req th) = true ->
    forall e, In e (persisted s) -> e_owner e <> t.
(* no entry that no request produced; one entry per request at most *)
Definition no_orphan (s : state) : Prop :=
  forall e, In e (persisted s) ->
    exists th, get_thread (threads s) (e_owner e) = Some th /\ t_entry th = Some e /\
               rq_dry (t_req th) = false /\ same_kind (e_kind e) (rq_kind (t_req th)) = true.
Definition one_entry_per_request (s : state) : Prop :=
  NoDup (map e_uid (persisted s)) /\ NoDup (map e_owner (persisted s)).
(* a request whose process died before persistence left nothing: crashed threads own an entry only if it had
   been persisted before the crash -- equivalently, entries are only ever added by [APersistOk] of the batch
   of the living generation; stated as: every persisted entry was in a batch that [persist_ok] wrote *)

(* ---- C07 / C10 / C11: at most once ---------------------------------------------------------------------------- *)
Definition count_where (f : entry -> bool) (log : list entry) : nat := length (filter f log).
Definition ik_once (log : list entry) : Prop :=
  forall k, k <> 0%N -> (count_where (fun e => N.eqb (e_ik e) k) log <= 1)%nat.
Definition ref_once (log : list entry) : Prop :=
  forall r, r <> 0%N -> (count_where (fun e => N.eqb (e_ref e) r) log <= 1)%nat.
Definition revert_once (log : list entry) : Prop :=
  forall id, (count_where (fun e => match e_reverts e with Some x => Nat.eqb x id | None => false end) log <= 1)%nat.
(* every success carrying key k answers the outcome of that single entry *)
Definition ik_same_outcome (s : state) : Prop :=
  forall t th x e, get_thread (threads s) t = Some th -> t_resp th = Some (ROk x) -> rq_dry (t_req th) = false ->
    rq_ik (t_req th) <> 0%N -> In e (persisted s) -> e_ik e = rq_ik (t_req th) -> e_txid e = x.
(* a loser of the reference race answers conflict and leaves no entry (error_no_trace) *)

(* ---- C16: events --------------------------------------------------------------------------------------------- *)
Definition event_matches (ev : event) (e : entry) : Prop :=
  same_kind (e_kind e) (ev_kind ev) = true /\ e_txid e = ev_txid ev /\
  (ev_kind ev = KRevert -> e_reverts e = ev_reverted ev).
Definition events_after_persist (s : state) : Prop :=
  forall ev, In ev (published s) ->
    (ev_persisted ev <= length (persisted s))%nat /\
    exists e, In e (firstn (ev_persisted ev) (persisted s)) /\ event_matches ev e /\
              (e_owner e = ev_tid ev \/ (e_ik e <> 0%N /\
                 exists th, get_thread (threads s) (ev_tid ev) = Some th /\ rq_ik (t_req th) = e_ik e)).
Definition events_at_least_once (s : state) : Prop :=
  forall t th x, get_thread (threads s) t = Some th -> t_resp th = Some (ROk x) -> rq_dry (t_req th) = false ->
    exists ev, In ev (published s) /\ ev_tid ev = t.
Definition no_event_for_preview (s : state) : Prop :=
  forall ev th, In ev (published s) -> get_thread (threads s) (ev_tid ev) = Some th -> rq_dry (t_req th) = false.

(* ---- C02: the committed history is serially valid ------------------------------------------------------------- *)
(* replaying the log in order, every transaction entry is covered by the balances the entries before it produce *)
Definition view_of (log : list entry) (ps : list posting) : list (account * Z) :=
  map (fun a => (a, balance_of log a)) (reads_of ps).
Fixpoint serially_valid_from (before : list entry) (rest : list entry) : Prop :=
  match rest with
  | [] => True
  | e :: r => covers (view_of before (e_postings e)) (e_unb e) (e_postings e) = true /\
              serially_valid_from (before ++ [e]) r
  end.
Definition serially_valid (log : list entry) : Prop := serially_valid_from [] log.
(* two requests racing for the same funds are never both in the log when together they exceed what is available:
   a corollary of [serially_valid] *)

(* ---- C14: a preview is a stutter step --------------------------------------------------------------------- *)
(* the sequential driver: a request is started and run to completion, persisting whenever it waits *)
Fixpoint drive (fuel : nat) (s : state) (t : tid) : state :=
  match fuel with
  | O => s
  | S k =>
      match get_thread (threads s) t with
      | Some th =>
          match t_pc th with
          | PFinished => s
          | _ => match resume s t with
                 | Some s' => drive k s' t
                 | None => match persist_ok s with Some s' => drive k s' t | None => s end
                 end
          end
      | None => s
      end
  end.
Definition submit (s : state) (t : tid) (rq : request) : state :=
  match start s t rq with Some s' => drive 64 s' t | None => s end.
Fixpoint submit_all (s : state) (l : list (tid * request)) : state :=
  match l with [] => s | (t, rq) :: r => submit_all (submit s t rq) r end.
(* everything later requests, restarts and readers can observe *)
Record observable := { ob_disk : list entry; ob_last : option (nat * nat); ob_lasttx : option nat;
                       ob_pending : list entry; ob_batch : option (list entry); ob_iks : list N; ob_refs : list N;
                       ob_revs : list nat; ob_locks : list (tid * list account * list account); ob_queue : list tid;
                       ob_cs : option tid; ob_events : list event }.
Definition observe (s : state) : observable :=
  {| ob_disk := persisted s; ob_last := v_last s; ob_lasttx := v_lasttx s; ob_pending := v_pending s;
     ob_batch := v_batch s; ob_iks := v_iks s; ob_refs := v_refs s; ob_revs := v_revs s; ob_locks := v_locks s;
     ob_queue := v_queue s; ob_cs := v_cs s; ob_events := published s |}.
Definition quiescent (s : state) : Prop :=
  v_pending s = [] /\ v_batch s = None /\ v_iks s = [] /\ v_refs s = [] /\ v_revs s = [] /\ v_locks s = [] /\
  v_queue s = [] /\ v_cs s = None /\
  forall t th, get_thread (threads s) t = Some th -> t_pc th = PFinished.
