(* M3 — model of internal/engine/command/lock.go (DefaultLocker) with the FIFO of
   libs/collectionutils/linked_list.go. Definitions only; proofs are in Lock/Proofs.v, the property
   theorems in Properties/C15.v.

   The lock manager is an executable labelled transition system [step : bool -> state -> action -> option state].
   One action is one region of lock.go executed under the locker mutex (or one outcome of the waiter's [select]):

     ALock R W c   Lock(ctx, Accounts{Read: R, Write: W}) up to the fast-path return or up to the enqueue;
                   [c] = the caller's context is already cancelled when Lock is called
     ARelease i    the unlock function returned to request [i]: intent.unlock + the single-pass recheck
     ACancel i     the context of request [i] is cancelled (environment)
     AWake i b     the [select] of waiter [i] returns; [b = true] is the [<-ctx.Done()] branch, [b = false] the
                   [<-intent.acquired] branch. When both channels are ready EITHER branch is enabled (Go semantics).
     AAbort i      the code of the [<-ctx.Done()] branch: under the mutex, give back what was granted meanwhile or
                   leave the queue; Lock returns an error

   The boolean [fx] selects the code of the [<-ctx.Done()] branch: [true] = the repaired code (this tree),
   [false] = the code before "fix: lock" (RemoveValue only; a grant that coincides with the cancellation is lost).

   Requests are numbered in order of arrival (0, 1, 2, ...). Accounts are [N]. *)
From Coq Require Export List Bool Arith NArith.
Export ListNotations.

Notation acct := N (only parsing).

(* readLocks (account -> count; a key is present iff its count is positive) and writeLocks (a set) *)
Record table := { t_rd : acct -> nat; t_wr : acct -> bool }.
Definition empty_table : table := {| t_rd := fun _ => 0; t_wr := fun _ => false |}.

Definition updn (f : acct -> nat) (a : acct) (v : nat) : acct -> nat := fun x => if N.eqb x a then v else f x.
Definition updb (f : acct -> bool) (a : acct) (v : bool) : acct -> bool := fun x => if N.eqb x a then v else f x.
Definition upd {A} (f : nat -> A) (i : nat) (v : A) : nat -> A := fun j => if Nat.eqb j i then v else f j.

Definition mem (a : acct) (l : list acct) : bool := existsb (N.eqb a) l.

(* lockIntent.tryLock, first half: the whole request is checked against the held accounts *)
Definition compat (T : table) (R W : list acct) : bool :=
  forallb (fun a => negb (t_wr T a)) R
  && forallb (fun a => Nat.eqb (t_rd T a) 0 && negb (t_wr T a)) W.

(* tryLock, second half: all accounts are taken (one count per occurrence in Read) *)
Fixpoint inc_all (f : acct -> nat) (l : list acct) : acct -> nat :=
  match l with [] => f | a :: l' => inc_all (updn f a (S (f a))) l' end.
Fixpoint set_all (g : acct -> bool) (l : list acct) (v : bool) : acct -> bool :=
  match l with [] => g | a :: l' => set_all (updb g a v) l' v end.
Definition take (T : table) (R W : list acct) : table :=
  {| t_rd := inc_all (t_rd T) R; t_wr := set_all (t_wr T) W true |}.

(* lockIntent.unlock: [None] is the nil dereference of `chain.readLocks[account]` on an absent key *)
Fixpoint dec_all (f : acct -> nat) (l : list acct) : option (acct -> nat) :=
  match l with
  | [] => Some f
  | a :: l' => match f a with O => None | S n => dec_all (updn f a n) l' end
  end.
Definition untake (T : table) (R W : list acct) : option table :=
  match dec_all (t_rd T) R with
  | None => None
  | Some f => Some {| t_rd := f; t_wr := set_all (t_wr T) W false |}
  end.

(* control state of one Lock call *)
Inductive status :=
| Idle          (* not issued yet *)
| Waiting       (* in the queue, blocked in the select *)
| Granted       (* recheck took the accounts and closed [acquired]; the waiter has not run yet *)
| Aborting      (* the select took <-ctx.Done(); still in the queue, nothing granted *)
| AbortGranted  (* the select took <-ctx.Done() and the intent has been granted (before or after the select) *)
| Holding       (* Lock returned the unlock function *)
| Released      (* the unlock function was called *)
| Failed.       (* Lock returned an error *)

(* [r_held] is a ghost: tryLock took the accounts of this intent and unlock has not given them back *)
Record req := { r_rd : list acct; r_wr : list acct; r_st : status; r_held : bool; r_ctx : bool }.
Definition idle_req : req := {| r_rd := []; r_wr := []; r_st := Idle; r_held := false; r_ctx := false |}.

Definition set_st (r : req) (s : status) (h : bool) : req :=
  {| r_rd := r_rd r; r_wr := r_wr r; r_st := s; r_held := h; r_ctx := r_ctx r |}.
Definition set_ctx (r : req) : req :=
  {| r_rd := r_rd r; r_wr := r_wr r; r_st := r_st r; r_held := r_held r; r_ctx := true |}.

(* close(intent.acquired) after a successful tryLock inside recheck *)
Definition grant (r : req) : req :=
  match r_st r with
  | Waiting => set_st r Granted true
  | Aborting => set_st r AbortGranted true
  | _ => r
  end.

(* [grants]: the intents granted by the last action, in the order recheck granted them (what the
   "lock.grant" yield point reports); [panicked]: unlock dereferenced an absent read count *)
Record state := { tbl : table; rq : nat -> req; queue : list nat; next : nat;
                  grants : list nat; panicked : bool }.

Definition init : state :=
  {| tbl := empty_table; rq := fun _ => idle_req; queue := []; next := 0; grants := []; panicked := false |}.

(* recheck: ONE pass over the queue, front to back; a waiter whose whole request is compatible with the table
   as it stands at that moment takes its accounts and leaves the queue. Returns the table, the requests,
   the waiters left in the queue (order kept) and the waiters granted (in order). *)
Fixpoint recheck (T : table) (f : nat -> req) (q : list nat) : table * (nat -> req) * list nat * list nat :=
  match q with
  | [] => (T, f, [], [])
  | i :: q' =>
      let r := f i in
      if compat T (r_rd r) (r_wr r) then
        let '(T', f', rem, gr) := recheck (take T (r_rd r) (r_wr r)) (upd f i (grant r)) q' in
        (T', f', rem, i :: gr)
      else
        let '(T', f', rem, gr) := recheck T f q' in
        (T', f', i :: rem, gr)
  end.

(* LinkedList.RemoveValue: the first node holding the value *)
Fixpoint remove_first (i : nat) (l : list nat) : list nat :=
  match l with
  | [] => []
  | j :: l' => if Nat.eqb i j then l' else j :: remove_first i l'
  end.

(* intent.unlock + recheck under the mutex; request [i] ends in status [fin] *)
Definition do_unlock (s : state) (i : nat) (fin : status) : state :=
  let r := rq s i in
  match untake (tbl s) (r_rd r) (r_wr r) with
  | None => {| tbl := tbl s; rq := rq s; queue := queue s; next := next s; grants := []; panicked := true |}
  | Some T1 =>
      let '(T2, f2, rem, gr) := recheck T1 (upd (rq s) i (set_st r fin false)) (queue s) in
      {| tbl := T2; rq := f2; queue := rem; next := next s; grants := gr; panicked := false |}
  end.

Inductive action :=
| ALock (R W : list acct) (cancelled : bool)
| ARelease (i : nat)
| ACancel (i : nat)
| AWake (i : nat) (ctx_branch : bool)
| AAbort (i : nat).

Definition with_rq (s : state) (f : nat -> req) : state :=
  {| tbl := tbl s; rq := f; queue := queue s; next := next s; grants := []; panicked := panicked s |}.

Definition step (fx : bool) (s : state) (a : action) : option state :=
  if panicked s then None else
  match a with
  | ALock R W c =>
      let i := next s in
      if compat (tbl s) R W then
        Some {| tbl := take (tbl s) R W;
                rq := upd (rq s) i {| r_rd := R; r_wr := W; r_st := Holding; r_held := true; r_ctx := c |};
                queue := queue s; next := S i; grants := []; panicked := false |}
      else
        Some {| tbl := tbl s;
                rq := upd (rq s) i {| r_rd := R; r_wr := W; r_st := Waiting; r_held := false; r_ctx := c |};
                queue := queue s ++ [i]; next := S i; grants := []; panicked := false |}
  | ARelease i =>
      match r_st (rq s i) with
      | Holding => Some (do_unlock s i Released)
      | _ => None
      end
  | ACancel i =>
      match r_st (rq s i) with
      | Idle => None
      | _ => Some (with_rq s (upd (rq s) i (set_ctx (rq s i))))
      end
  | AWake i b =>
      let r := rq s i in
      if b then
        if r_ctx r then
          match r_st r with
          | Waiting => Some (with_rq s (upd (rq s) i (set_st r Aborting (r_held r))))
          | Granted => Some (with_rq s (upd (rq s) i (set_st r AbortGranted (r_held r))))
          | _ => None
          end
        else None
      else
        match r_st r with
        | Granted => Some (with_rq s (upd (rq s) i (set_st r Holding (r_held r))))
        | _ => None
        end
  | AAbort i =>
      let r := rq s i in
      match r_st r with
      | Aborting =>
          Some {| tbl := tbl s; rq := upd (rq s) i (set_st r Failed (r_held r));
                  queue := remove_first i (queue s); next := next s; grants := []; panicked := false |}
      | AbortGranted =>
          if fx then Some (do_unlock s i Failed)
          else (* before the repair: RemoveValue finds nothing, the error is returned, the accounts stay taken *)
            Some (with_rq s (upd (rq s) i (set_st r Failed (r_held r))))
      | _ => None
      end
  end.

Fixpoint run (fx : bool) (s : state) (acts : list action) : option state :=
  match acts with
  | [] => Some s
  | a :: rest => match step fx s a with None => None | Some s' => run fx s' rest end
  end.

(* ---- vocabulary of the property statements ----------------------------------------------------------- *)

(* two requests conflict: some account is written by one and read or written by the other *)
Definition conflicts_s (R1 W1 R2 W2 : list acct) : Prop :=
  exists a, (In a W1 /\ (In a R2 \/ In a W2)) \/ (In a W2 /\ (In a R1 \/ In a W1)).
Definition conflicts (r1 r2 : req) : Prop := conflicts_s (r_rd r1) (r_wr r1) (r_rd r2) (r_wr r2).

(* what holder [r] contributes to the read count of [a] *)
Definition hrd (a : acct) (r : req) : nat := if r_held r then count_occ N.eq_dec (r_rd r) a else 0.
Fixpoint sum_rd (a : acct) (f : nat -> req) (n : nat) : nat :=
  match n with O => 0 | S k => hrd a (f k) + sum_rd a f k end.

Definition owns (s : status) : bool :=
  match s with Granted | AbortGranted | Holding => true | _ => false end.
Definition inq (s : status) : bool := match s with Waiting | Aborting => true | _ => false end.
Definition abortish (s : status) : bool := match s with Aborting | AbortGranted | Failed => true | _ => false end.

(* [g] stands before [w] in the queue [q] *)
Definition before (q : list nat) (g w : nat) : Prop := exists l1 l2 l3, q = l1 ++ g :: l2 ++ w :: l3.
Definition memn (i : nat) (l : list nat) : bool := existsb (Nat.eqb i) l.

(* ---- correspondence: one observed trace of the real DefaultLocker ------------------------------------- *)
(* per action what the harness saw: fast path or enqueue for a Lock call, the intents granted by a recheck *)
Inductive sobs := OFast | OQueued | OGrants (l : list nat) | OSkip.

Definition status_eqb (a b : status) : bool :=
  match a, b with
  | Idle, Idle | Waiting, Waiting | Granted, Granted | Aborting, Aborting | AbortGranted, AbortGranted
  | Holding, Holding | Released, Released | Failed, Failed => true
  | _, _ => false
  end.

Fixpoint list_eqb {A} (eqb : A -> A -> bool) (l1 l2 : list A) : bool :=
  match l1, l2 with
  | [], [] => true
  | x :: r1, y :: r2 => eqb x y && list_eqb eqb r1 r2
  | _, _ => false
  end.

Definition obs_ok (a : action) (s s' : state) (o : sobs) : bool :=
  match a, o with
  | ALock _ _ _, OFast => status_eqb (r_st (rq s' (next s))) Holding
  | ALock _ _ _, OQueued => status_eqb (r_st (rq s' (next s))) Waiting
  | ARelease _, OGrants l => list_eqb Nat.eqb (grants s') l
  | AAbort _, OGrants l => list_eqb Nat.eqb (grants s') l
  | ACancel _, OSkip => true
  | AWake _ _, OSkip => true
  | _, _ => false
  end.

(* replay of an observed trace: every action must be enabled in the model and produce what was observed *)
Fixpoint replay (s : state) (tr : list (action * sobs)) : option state :=
  match tr with
  | [] => Some s
  | (a, o) :: rest =>
      match step true s a with
      | None => None
      | Some s' => if obs_ok a s s' o then replay s' rest else None
      end
  end.

Fixpoint statuses (f : nat -> req) (n : nat) : list status :=
  match n with O => [] | S k => statuses f k ++ [r_st (f k)] end.

(* does the table hold nothing on the given accounts *)
Definition table_free (T : table) (accts : list acct) : bool :=
  forallb (fun a => Nat.eqb (t_rd T a) 0 && negb (t_wr T a)) accts.

(* a case: the trace, the final status of every request as the harness saw it, the accounts used, and whether
   the harness found every account free at the end (all requests finished) *)
Definition check_case (c : list (action * sobs) * list status * list acct * bool) : bool :=
  let '(tr, fin, accts, free) := c in
  match replay init tr with
  | None => false
  | Some s =>
      Nat.eqb (next s) (length fin)
      && list_eqb status_eqb (statuses (rq s) (next s)) fin
      && Bool.eqb (table_free (tbl s) accts) free
      && negb (panicked s)
  end.

Fixpoint bad_cases {A} (chk : A -> bool) (n : nat) (l : list A) : list nat :=
  match l with
  | [] => []
  | c :: r => if chk c then bad_cases chk (S n) r else n :: bad_cases chk (S n) r
  end.
