(* Proofs about the lock manager model (Lock/Model.v): an invariant of every reachable state of the repaired
   code ([step true]) and its consequences. The property theorems of Properties/C15.v are closed by these lemmas. *)
From Coq Require Import Lia.
From FL Require Import Lock.Model.

(* ---- functions with update ---------------------------------------------------------------------------- *)
Lemma upd_same {A} (f : nat -> A) i v : upd f i v i = v.
Proof. unfold upd. now rewrite Nat.eqb_refl. Qed.
Lemma upd_other {A} (f : nat -> A) i j v : j <> i -> upd f i v j = f j.
Proof. intros H. unfold upd. destruct (Nat.eqb_spec j i); congruence. Qed.

Lemma mem_In a l : mem a l = true <-> In a l.
Proof.
  unfold mem. rewrite existsb_exists. split.
  - intros [x [Hx E]]. apply N.eqb_eq in E. now subst.
  - intros H. exists a. split; [assumption | apply N.eqb_refl].
Qed.
Lemma mem_nIn a l : mem a l = false <-> ~ In a l.
Proof. rewrite <- mem_In. destruct (mem a l); split; congruence. Qed.

Lemma memn_In i l : memn i l = true <-> In i l.
Proof.
  unfold memn. rewrite existsb_exists. split.
  - intros [x [Hx E]]. apply Nat.eqb_eq in E. now subst.
  - intros H. exists i. split; [assumption | apply Nat.eqb_refl].
Qed.

Lemma inc_all_spec l : forall f a, inc_all f l a = f a + count_occ N.eq_dec l a.
Proof.
  induction l as [|x l IH]; intros f a; cbn [inc_all].
  - cbn. lia.
  - rewrite IH. unfold updn. destruct (N.eqb_spec a x) as [->|Hn].
    + rewrite count_occ_cons_eq by reflexivity. lia.
    + rewrite count_occ_cons_neq by congruence. lia.
Qed.

Lemma set_all_spec l : forall g v a, set_all g l v a = if mem a l then v else g a.
Proof.
  induction l as [|x l IH]; intros g v a; cbn [set_all].
  - reflexivity.
  - rewrite IH. unfold mem. cbn [existsb]. fold (mem a l). unfold updb.
    destruct (mem a l); [now rewrite orb_true_r|]. rewrite orb_false_r. reflexivity.
Qed.

Lemma dec_all_spec l : forall f, (forall a, count_occ N.eq_dec l a <= f a) ->
  exists f', dec_all f l = Some f' /\ forall a, f' a + count_occ N.eq_dec l a = f a.
Proof.
  induction l as [|x l IH]; intros f H; cbn [dec_all].
  - exists f. split; [reflexivity|]. intros a. cbn. lia.
  - pose proof (H x) as Hx. rewrite count_occ_cons_eq in Hx by reflexivity.
    destruct (f x) as [|n] eqn:Efx; [lia|].
    destruct (IH (updn f x n)) as [f' [E Hf']].
    + intros a. unfold updn. destruct (N.eqb_spec a x) as [->|Hn]; [lia|].
      specialize (H a). rewrite count_occ_cons_neq in H by congruence. exact H.
    + exists f'. split; [exact E|]. intros a. pose proof (Hf' a) as Ha. unfold updn in Ha.
      destruct (N.eqb_spec a x) as [Eax|Hn].
      * subst a. rewrite count_occ_cons_eq by reflexivity. lia.
      * rewrite count_occ_cons_neq by congruence. exact Ha.
Qed.

(* ---- the lock table ----------------------------------------------------------------------------------- *)
Lemma compat_spec T R W : compat T R W = true <->
  (forall a, In a R -> t_wr T a = false) /\ (forall a, In a W -> t_rd T a = 0 /\ t_wr T a = false).
Proof.
  unfold compat. rewrite andb_true_iff, !forallb_forall. split.
  - intros [H1 H2]. split.
    + intros a Ha. apply H1 in Ha. now apply negb_true_iff in Ha.
    + intros a Ha. apply H2 in Ha. apply andb_true_iff in Ha. destruct Ha as [Ha Hb].
      apply Nat.eqb_eq in Ha. apply negb_true_iff in Hb. auto.
  - intros [H1 H2]. split.
    + intros a Ha. apply negb_true_iff. auto.
    + intros a Ha. destruct (H2 a Ha) as [Hx Hy]. rewrite Hx, Hy. reflexivity.
Qed.

Lemma take_rd T R W a : t_rd (take T R W) a = t_rd T a + count_occ N.eq_dec R a.
Proof. unfold take. cbn [t_rd]. apply inc_all_spec. Qed.
Lemma take_wr T R W a : t_wr (take T R W) a = if mem a W then true else t_wr T a.
Proof. unfold take. cbn [t_wr]. apply set_all_spec. Qed.

Definition tle (T T' : table) : Prop :=
  forall a, t_rd T a <= t_rd T' a /\ (t_wr T a = true -> t_wr T' a = true).
Lemma tle_refl T : tle T T.
Proof. intros a. split; auto. Qed.
Lemma tle_trans T1 T2 T3 : tle T1 T2 -> tle T2 T3 -> tle T1 T3.
Proof. intros H1 H2 a. destruct (H1 a), (H2 a). split; [lia | auto]. Qed.
Lemma tle_take T R W : tle T (take T R W).
Proof.
  intros a. rewrite take_rd, take_wr. split; [lia|]. intros H. now destruct (mem a W).
Qed.
(* taking accounts only ever makes a request less compatible *)
Lemma compat_anti T T' R W : tle T T' -> compat T' R W = true -> compat T R W = true.
Proof.
  intros Hle H. apply compat_spec in H. destruct H as [H1 H2]. apply compat_spec. split.
  - intros a Ha. specialize (H1 a Ha). destruct (Hle a) as [_ Hw].
    destruct (t_wr T a); [|reflexivity]. rewrite Hw in H1 by reflexivity. discriminate.
  - intros a Ha. destruct (H2 a Ha) as [Hx Hy]. destruct (Hle a) as [Hr Hw]. split; [lia|].
    destruct (t_wr T a); [|reflexivity]. rewrite Hw in Hy by reflexivity. discriminate.
Qed.
Lemma incompat_mono T T' R W : tle T T' -> compat T R W = false -> compat T' R W = false.
Proof.
  intros Hle H. destruct (compat T' R W) eqn:E; [|reflexivity].
  apply (compat_anti _ _ _ _ Hle) in E. congruence.
Qed.

Lemma count_pos_In (l : list acct) a : In a l <-> count_occ N.eq_dec l a > 0.
Proof. apply count_occ_In. Qed.

Lemma conflicts_s_sym R1 W1 R2 W2 : conflicts_s R1 W1 R2 W2 -> conflicts_s R2 W2 R1 W1.
Proof. intros [a H]. exists a. tauto. Qed.

(* a request compatible with T but no longer after (R, W) was taken conflicts with (R, W) *)
Lemma compat_take_conflict T R W R' W' :
  compat T R' W' = true -> compat (take T R W) R' W' = false -> conflicts_s R W R' W'.
Proof.
  intros H1 H2. apply compat_spec in H1. destruct H1 as [Hr Hw].
  unfold compat in H2. apply andb_false_iff in H2. destruct H2 as [H2|H2].
  - (* some read account of the request is now write-locked *)
    assert (exists a, In a R' /\ t_wr (take T R W) a = true) as [a [Ha Hx]].
    { clear -H2. induction R' as [|x l IH]; cbn in H2; [discriminate|].
      apply andb_false_iff in H2. destruct H2 as [H2|H2].
      - exists x. split; [now left|]. now apply negb_false_iff in H2.
      - destruct (IH H2) as [a [Ha Hx]]. exists a. split; [now right | exact Hx]. }
    rewrite take_wr in Hx. destruct (mem a W) eqn:Em.
    + apply mem_In in Em. exists a. left. auto.
    + rewrite (Hr a Ha) in Hx. discriminate.
  - assert (exists a, In a W' /\ (t_rd (take T R W) a <> 0 \/ t_wr (take T R W) a = true)) as [a [Ha Hx]].
    { clear -H2. induction W' as [|x l IH]; cbn in H2; [discriminate|].
      apply andb_false_iff in H2. destruct H2 as [H2|H2].
      - exists x. split; [now left|]. apply andb_false_iff in H2. destruct H2 as [H2|H2].
        + left. now apply Nat.eqb_neq in H2.
        + right. now apply negb_false_iff in H2.
      - destruct (IH H2) as [a [Ha Hx]]. exists a. split; [now right | exact Hx]. }
    destruct (Hw a Ha) as [Hx0 Hy0]. rewrite take_rd, take_wr in Hx. destruct Hx as [Hx|Hx].
    + assert (count_occ N.eq_dec R a > 0) as Hc by lia. apply count_pos_In in Hc.
      exists a. right. auto.
    + destruct (mem a W) eqn:Em.
      * apply mem_In in Em. exists a. left. auto.
      * congruence.
Qed.

(* ---- sums of the holders' read sets -------------------------------------------------------------------- *)
Lemma sum_ext a f g n : (forall i, i < n -> hrd a (f i) = hrd a (g i)) -> sum_rd a f n = sum_rd a g n.
Proof.
  induction n as [|n IH]; intros H; cbn [sum_rd]; [reflexivity|].
  rewrite H by lia. rewrite IH; [reflexivity|]. intros i Hi. apply H. lia.
Qed.
Lemma sum_upd_ge a f i r n : n <= i -> sum_rd a (upd f i r) n = sum_rd a f n.
Proof. intros H. apply sum_ext. intros j Hj. rewrite upd_other by lia. reflexivity. Qed.
Lemma sum_upd a f i r n : i < n -> sum_rd a (upd f i r) n + hrd a (f i) = sum_rd a f n + hrd a r.
Proof.
  induction n as [|n IH]; intros H; [lia|]. cbn [sum_rd].
  destruct (Nat.eq_dec i n) as [->|Hn].
  - rewrite upd_same, sum_upd_ge by lia. lia.
  - rewrite upd_other by congruence. assert (i < n) as Hi by lia. specialize (IH Hi). lia.
Qed.
Lemma sum_term_le a f n i : i < n -> hrd a (f i) <= sum_rd a f n.
Proof.
  induction n as [|n IH]; intros H; [lia|]. cbn [sum_rd].
  destruct (Nat.eq_dec i n) as [->|Hn]; [lia|]. assert (i < n) as Hi by lia. specialize (IH Hi). lia.
Qed.
Lemma sum_pos a f n : sum_rd a f n <> 0 -> exists i, i < n /\ hrd a (f i) <> 0.
Proof.
  induction n as [|n IH]; cbn [sum_rd]; intros H; [congruence|].
  destruct (Nat.eq_dec (hrd a (f n)) 0) as [E|E].
  - destruct IH as [i [Hi Hx]]; [lia|]. exists i. split; [lia|exact Hx].
  - exists n. split; [lia|exact E].
Qed.
Lemma sum_extend a f n n' : n <= n' -> (forall j, n <= j -> hrd a (f j) = 0) -> sum_rd a f n' = sum_rd a f n.
Proof.
  intros Hle H. induction Hle as [|m Hle IH]; [reflexivity|]. cbn [sum_rd]. rewrite H by lia. exact IH.
Qed.

(* ---- the invariant ------------------------------------------------------------------------------------ *)
Record Core (T : table) (f : nat -> req) (Q : list nat) (n : nat) : Prop := {
  c_nodup : NoDup Q;
  c_queue : forall i, In i Q <-> inq (r_st (f i)) = true;
  c_held : forall i, r_held (f i) = owns (r_st (f i));
  c_idle : forall i, n <= i -> r_st (f i) = Idle;
  c_rd : forall a, t_rd T a = sum_rd a f n;
  c_wr : forall a, t_wr T a = true <-> exists i, r_held (f i) = true /\ In a (r_wr (f i));
  c_excl : forall i j, i <> j -> r_held (f i) = true -> r_held (f j) = true -> ~ conflicts (f i) (f j);
  c_ctx : forall i, abortish (r_st (f i)) = true -> r_ctx (f i) = true }.

Lemma core_held_lt T f Q n i : Core T f Q n -> r_held (f i) = true -> i < n.
Proof.
  intros C H. destruct (le_lt_dec n i) as [Hle|Hlt]; [|exact Hlt].
  rewrite (c_held _ _ _ _ C), (c_idle _ _ _ _ C i Hle) in H. discriminate.
Qed.
Lemma core_nheld_ge T f Q n i : Core T f Q n -> n <= i -> r_held (f i) = false.
Proof. intros C H. rewrite (c_held _ _ _ _ C), (c_idle _ _ _ _ C i H). reflexivity. Qed.

Lemma hrd_In a r : r_held r = true -> In a (r_rd r) -> hrd a r > 0.
Proof. intros H Ha. unfold hrd. rewrite H. now apply count_pos_In. Qed.

(* a request compatible with the table conflicts with no holder ... *)
Lemma compat_no_conflict T f Q n R W j :
  Core T f Q n -> compat T R W = true -> r_held (f j) = true ->
  ~ conflicts_s R W (r_rd (f j)) (r_wr (f j)).
Proof.
  intros C Hc Hj [a Ha]. apply compat_spec in Hc. destruct Hc as [Hr Hw].
  assert (In a (r_wr (f j)) -> t_wr T a = true) as Hwj.
  { intros Hin. apply (c_wr _ _ _ _ C). exists j. auto. }
  destruct Ha as [[Ha [Hb|Hb]]|[Ha [Hb|Hb]]].
  - destruct (Hw a Ha) as [Hz _]. rewrite (c_rd _ _ _ _ C) in Hz.
    pose proof (sum_term_le a f n j (core_held_lt _ _ _ _ _ C Hj)) as Hle.
    pose proof (hrd_In a (f j) Hj Hb). lia.
  - destruct (Hw a Ha) as [_ Hz]. rewrite Hwj in Hz by assumption. discriminate.
  - specialize (Hr a Hb). rewrite Hwj in Hr by assumption. discriminate.
  - destruct (Hw a Hb) as [_ Hz]. rewrite Hwj in Hz by assumption. discriminate.
Qed.

(* ... and a request incompatible with the table conflicts with some holder *)
Lemma incompat_conflict T f Q n R W :
  Core T f Q n -> compat T R W = false ->
  exists j, r_held (f j) = true /\ conflicts_s R W (r_rd (f j)) (r_wr (f j)).
Proof.
  intros C H. unfold compat in H. apply andb_false_iff in H. destruct H as [H|H].
  - assert (exists a, In a R /\ t_wr T a = true) as [a [Ha Hx]].
    { clear -H. induction R as [|x l IH]; cbn in H; [discriminate|].
      apply andb_false_iff in H. destruct H as [H|H].
      - exists x. split; [now left|]. now apply negb_false_iff in H.
      - destruct (IH H) as [a [Ha Hx]]. exists a. split; [now right | exact Hx]. }
    apply (c_wr _ _ _ _ C) in Hx. destruct Hx as [j [Hj Hin]]. exists j. split; [exact Hj|].
    exists a. right. auto.
  - assert (exists a, In a W /\ (t_rd T a <> 0 \/ t_wr T a = true)) as [a [Ha Hx]].
    { clear -H. induction W as [|x l IH]; cbn in H; [discriminate|].
      apply andb_false_iff in H. destruct H as [H|H].
      - exists x. split; [now left|]. apply andb_false_iff in H. destruct H as [H|H].
        + left. now apply Nat.eqb_neq in H.
        + right. now apply negb_false_iff in H.
      - destruct (IH H) as [a [Ha Hx]]. exists a. split; [now right | exact Hx]. }
    destruct Hx as [Hx|Hx].
    + rewrite (c_rd _ _ _ _ C) in Hx. apply sum_pos in Hx. destruct Hx as [j [Hj Hx]].
      unfold hrd in Hx. destruct (r_held (f j)) eqn:Eh; [|congruence].
      exists j. split; [exact Eh|]. exists a. left. split; [exact Ha|]. left.
      apply count_pos_In. lia.
    + apply (c_wr _ _ _ _ C) in Hx. destruct Hx as [j [Hj Hin]]. exists j. split; [exact Hj|].
      exists a. left. auto.
Qed.

Lemma owns_not_inq s : owns s = true -> inq s = false.
Proof. destruct s; cbn; congruence. Qed.

Lemma core_sum_extend T f Q n n' a : Core T f Q n -> n <= n' -> sum_rd a f n' = sum_rd a f n.
Proof.
  intros C H. apply sum_extend; [exact H|]. intros j Hj. unfold hrd.
  now rewrite (core_nheld_ge _ _ _ _ _ C Hj).
Qed.

(* G1: request [i] changes, but not in what it contributes to the table *)
Lemma core_nochange T f Q n i r' Q' n' :
  Core T f Q n -> n <= n' -> i < n' ->
  r_held r' = r_held (f i) ->
  (r_held r' = true -> r_rd r' = r_rd (f i) /\ r_wr r' = r_wr (f i)) ->
  r_held r' = owns (r_st r') ->
  (abortish (r_st r') = true -> r_ctx r' = true) ->
  NoDup Q' -> (forall j, In j Q' <-> inq (r_st (upd f i r' j)) = true) ->
  Core T (upd f i r') Q' n'.
Proof.
  intros C Hn Hi Hh Hsets Hown Hctx Hnd HQ.
  assert (forall j, r_held (upd f i r' j) = true ->
            r_held (f j) = true /\ r_rd (upd f i r' j) = r_rd (f j) /\ r_wr (upd f i r' j) = r_wr (f j)) as Hsame.
  { intros j. unfold upd. destruct (Nat.eqb_spec j i) as [->|Hne]; [|auto].
    intros Hx. destruct (Hsets Hx). split; [congruence|auto]. }
  assert (forall j, r_held (f j) = true ->
            r_held (upd f i r' j) = true /\ r_rd (upd f i r' j) = r_rd (f j) /\ r_wr (upd f i r' j) = r_wr (f j)) as Hsame'.
  { intros j. unfold upd. destruct (Nat.eqb_spec j i) as [->|Hne]; [|auto].
    intros Hx. assert (r_held r' = true) as Hy by congruence. destruct (Hsets Hy). auto. }
  constructor.
  - exact Hnd.
  - exact HQ.
  - intros j. unfold upd. destruct (Nat.eqb_spec j i) as [->|Hne]; [exact Hown | apply (c_held _ _ _ _ C)].
  - intros j Hj. rewrite upd_other by lia. apply (c_idle _ _ _ _ C). lia.
  - intros a. rewrite (c_rd _ _ _ _ C), <- (core_sum_extend _ _ _ _ n' a C Hn).
    apply sum_ext. intros j _. unfold hrd.
    destruct (r_held (f j)) eqn:E1.
    + destruct (Hsame' j E1) as [E2 [E3 _]]. now rewrite E2, E3.
    + destruct (r_held (upd f i r' j)) eqn:E2; [|reflexivity].
      destruct (Hsame j E2) as [E3 _]. congruence.
  - intros a. rewrite (c_wr _ _ _ _ C). split; intros [j [Hj Hin]].
    + destruct (Hsame' j Hj) as [E2 [_ E3]]. exists j. now rewrite E2, E3.
    + destruct (Hsame j Hj) as [E2 [_ E3]]. exists j. now rewrite <- E3.
  - intros j1 j2 Hne H1 H2. destruct (Hsame j1 H1) as [A1 [A2 A3]]. destruct (Hsame j2 H2) as [B1 [B2 B3]].
    unfold conflicts. rewrite A2, A3, B2, B3. apply (c_excl _ _ _ _ C); assumption.
  - intros j. unfold upd. destruct (Nat.eqb_spec j i) as [->|Hne]; [exact Hctx | apply (c_ctx _ _ _ _ C)].
Qed.

(* G2: request [i], which held nothing, takes its accounts after a successful tryLock *)
Lemma core_take T f Q n i r' Q' n' :
  Core T f Q n -> n <= n' -> i < n' ->
  r_held (f i) = false -> r_held r' = true -> owns (r_st r') = true ->
  compat T (r_rd r') (r_wr r') = true ->
  (abortish (r_st r') = true -> r_ctx r' = true) ->
  NoDup Q' -> (forall j, In j Q' <-> inq (r_st (upd f i r' j)) = true) ->
  Core (take T (r_rd r') (r_wr r')) (upd f i r') Q' n'.
Proof.
  intros C Hn Hi Hnh Hh Hown Hc Hctx Hnd HQ.
  constructor.
  - exact Hnd.
  - exact HQ.
  - intros j. unfold upd. destruct (Nat.eqb_spec j i) as [->|Hne]; [congruence | apply (c_held _ _ _ _ C)].
  - intros j Hj. rewrite upd_other by lia. apply (c_idle _ _ _ _ C). lia.
  - intros a. rewrite take_rd, (c_rd _ _ _ _ C), <- (core_sum_extend _ _ _ _ n' a C Hn).
    pose proof (sum_upd a f i r' n' Hi) as Hs. unfold hrd in Hs. rewrite Hnh, Hh in Hs. lia.
  - intros a. rewrite take_wr. split.
    + destruct (mem a (r_wr r')) eqn:Em.
      * intros _. exists i. rewrite upd_same. split; [exact Hh | now apply mem_In].
      * intros Hx. apply (c_wr _ _ _ _ C) in Hx. destruct Hx as [j [Hj Hin]].
        assert (j <> i) as Hne by congruence. exists j. rewrite upd_other by exact Hne. auto.
    + intros [j [Hj Hin]]. destruct (Nat.eq_dec j i) as [Eji|Hne].
      * subst j. rewrite upd_same in Hin. apply mem_In in Hin. now rewrite Hin.
      * rewrite upd_other in Hj, Hin by exact Hne.
        destruct (mem a (r_wr r')); [reflexivity|]. apply (c_wr _ _ _ _ C). exists j. auto.
  - intros j1 j2 Hne H1 H2. unfold conflicts.
    destruct (Nat.eq_dec j1 i) as [E1|N1]; destruct (Nat.eq_dec j2 i) as [E2|N2].
    + congruence.
    + subst j1. rewrite upd_same. rewrite upd_other in H2 |- * by exact N2.
      apply (compat_no_conflict _ _ _ _ _ _ j2 C Hc H2).
    + subst j2. rewrite upd_same. rewrite upd_other in H1 |- * by exact N1.
      intros Hx. apply conflicts_s_sym in Hx. revert Hx. apply (compat_no_conflict _ _ _ _ _ _ j1 C Hc H1).
    + rewrite (upd_other f i j1 r' N1) in *. rewrite (upd_other f i j2 r' N2) in *.
      apply (c_excl _ _ _ _ C); assumption.
  - intros j. unfold upd. destruct (Nat.eqb_spec j i) as [->|Hne]; [exact Hctx | apply (c_ctx _ _ _ _ C)].
Qed.

(* G3: holder [i] gives its accounts back (intent.unlock never dereferences an absent count) *)
Lemma core_unlock T f Q n i fin :
  Core T f Q n -> r_held (f i) = true -> owns fin = false -> inq fin = false ->
  (abortish fin = true -> r_ctx (f i) = true) ->
  exists T1, untake T (r_rd (f i)) (r_wr (f i)) = Some T1 /\
             Core T1 (upd f i (set_st (f i) fin false)) Q n.
Proof.
  intros C Hh Hown Hinq Hctx.
  pose proof (core_held_lt _ _ _ _ _ C Hh) as Hi.
  destruct (dec_all_spec (r_rd (f i)) (t_rd T)) as [f' [E Hf']].
  { intros a. rewrite (c_rd _ _ _ _ C). pose proof (sum_term_le a f n i Hi) as Hle.
    unfold hrd in Hle. rewrite Hh in Hle. exact Hle. }
  unfold untake. rewrite E. eexists. split; [reflexivity|].
  set (r' := set_st (f i) fin false).
  constructor.
  - apply (c_nodup _ _ _ _ C).
  - intros j. unfold upd. destruct (Nat.eqb_spec j i) as [->|Hne]; [|apply (c_queue _ _ _ _ C)].
    cbn [r' set_st r_st]. rewrite Hinq. rewrite (c_queue _ _ _ _ C).
    rewrite (c_held _ _ _ _ C) in Hh. now rewrite (owns_not_inq _ Hh).
  - intros j. unfold upd. destruct (Nat.eqb_spec j i) as [->|Hne]; [|apply (c_held _ _ _ _ C)].
    cbn [r' set_st r_st r_held]. now rewrite Hown.
  - intros j Hj. rewrite upd_other by lia. apply (c_idle _ _ _ _ C). exact Hj.
  - intros a. cbn [t_rd]. pose proof (sum_upd a f i r' n Hi) as Hs. unfold hrd in Hs.
    cbn [r' set_st r_held] in Hs. rewrite Hh in Hs. specialize (Hf' a). rewrite (c_rd _ _ _ _ C) in Hf'. lia.
  - intros a. cbn [t_wr]. rewrite set_all_spec. split.
    + destruct (mem a (r_wr (f i))) eqn:Em; [discriminate|]. intros Hx.
      apply (c_wr _ _ _ _ C) in Hx. destruct Hx as [j [Hj Hin]].
      assert (j <> i) as Hne. { intros ->. apply mem_nIn in Em. contradiction. }
      exists j. rewrite upd_other by exact Hne. auto.
    + intros [j [Hj Hin]]. destruct (Nat.eq_dec j i) as [Eji|Hne].
      * subst j. rewrite upd_same in Hj. cbn [r' set_st r_held] in Hj. discriminate.
      * rewrite upd_other in Hj, Hin by exact Hne. destruct (mem a (r_wr (f i))) eqn:Em.
        -- exfalso. apply mem_In in Em. apply (c_excl _ _ _ _ C j i Hne Hj Hh). exists a. left. auto.
        -- apply (c_wr _ _ _ _ C). exists j. auto.
  - intros j1 j2 Hne H1 H2. unfold conflicts.
    destruct (Nat.eq_dec j1 i) as [E1|N1];
      [subst j1; rewrite upd_same in H1; cbn [r' set_st r_held] in H1; discriminate|].
    destruct (Nat.eq_dec j2 i) as [E2|N2];
      [subst j2; rewrite upd_same in H2; cbn [r' set_st r_held] in H2; discriminate|].
    rewrite (upd_other f i j1 r' N1) in *. rewrite (upd_other f i j2 r' N2) in *.
    apply (c_excl _ _ _ _ C); assumption.
  - intros j. unfold upd. destruct (Nat.eqb_spec j i) as [->|Hne]; [|apply (c_ctx _ _ _ _ C)].
    cbn [r' set_st r_st r_ctx]. exact Hctx.
Qed.

(* ---- queue bookkeeping --------------------------------------------------------------------------------- *)
Lemma queue_same T f Q n i r' :
  Core T f Q n -> inq (r_st r') = inq (r_st (f i)) ->
  forall j, In j Q <-> inq (r_st (upd f i r' j)) = true.
Proof.
  intros C H j. rewrite (c_queue _ _ _ _ C). unfold upd.
  destruct (Nat.eqb_spec j i) as [->|Hne]; [now rewrite H | reflexivity].
Qed.

Lemma remove_first_In i l : NoDup l -> forall j, In j (remove_first i l) <-> j <> i /\ In j l.
Proof.
  induction l as [|x l IH]; intros Hnd j; cbn [remove_first].
  - cbn. tauto.
  - inversion Hnd as [|? ? Hx Hl]; subst. destruct (Nat.eqb_spec i x) as [->|Hne].
    + cbn. split.
      * intros Hj. split; [|now right]. intros ->. contradiction.
      * intros [Hj [Hk|Hk]]; [congruence | exact Hk].
    + cbn. rewrite (IH Hl). split.
      * intros [Hj|[Hj Hk]]; [subst; split; [congruence | now left] | split; [exact Hj | now right]].
      * intros [Hj [Hk|Hk]]; [now left | right; auto].
Qed.
Lemma remove_first_NoDup i l : NoDup l -> NoDup (remove_first i l).
Proof.
  induction l as [|x l IH]; intros Hnd; cbn [remove_first]; [constructor|].
  inversion Hnd as [|? ? Hx Hl]; subst. destruct (Nat.eqb_spec i x) as [->|Hne]; [exact Hl|].
  constructor; [|apply IH; exact Hl]. intros Hin. apply (remove_first_In i l Hl) in Hin. tauto.
Qed.

Lemma inq_not_owns s : inq s = true -> owns s = false.
Proof. destruct s; cbn; congruence. Qed.
Lemma inq_not_idle s : inq s = true -> s <> Idle.
Proof. destruct s; cbn; congruence. Qed.

Lemma core_inq_lt T f Q n i : Core T f Q n -> In i Q -> i < n.
Proof.
  intros C H. apply (c_queue _ _ _ _ C) in H. destruct (le_lt_dec n i) as [Hle|Hlt]; [|exact Hlt].
  rewrite (c_idle _ _ _ _ C i Hle) in H. discriminate.
Qed.

Lemma grant_facts r : inq (r_st r) = true ->
  r_held (grant r) = true /\ owns (r_st (grant r)) = true /\ inq (r_st (grant r)) = false /\
  r_ctx (grant r) = r_ctx r /\ (abortish (r_st (grant r)) = true -> abortish (r_st r) = true).
Proof. unfold grant. destruct (r_st r) eqn:E; cbn; intros H; try discriminate; rewrite ?E; auto. Qed.
Lemma grant_rd r : r_rd (grant r) = r_rd r.
Proof. unfold grant. destruct (r_st r); reflexivity. Qed.
Lemma grant_wr r : r_wr (grant r) = r_wr r.
Proof. unfold grant. destruct (r_st r); reflexivity. Qed.

(* one grant inside recheck *)
Lemma core_grant T f pre i q n :
  Core T f (pre ++ i :: q) n -> compat T (r_rd (f i)) (r_wr (f i)) = true ->
  Core (take T (r_rd (f i)) (r_wr (f i))) (upd f i (grant (f i))) (pre ++ q) n.
Proof.
  intros C Hc.
  assert (In i (pre ++ i :: q)) as Hin by (apply in_or_app; right; now left).
  pose proof (core_inq_lt _ _ _ _ _ C Hin) as Hi.
  pose proof Hin as Hq. apply (c_queue _ _ _ _ C) in Hq.
  destruct (grant_facts _ Hq) as [G1 [G2 [G3 [G4 G5]]]].
  rewrite <- (grant_rd (f i)), <- (grant_wr (f i)).
  apply core_take with (Q := pre ++ i :: q) (n := n); auto.
  - rewrite (c_held _ _ _ _ C). now apply inq_not_owns.
  - now rewrite grant_rd, grant_wr.
  - intros Ha. rewrite G4. apply (c_ctx _ _ _ _ C). auto.
  - apply NoDup_remove_1 with (a := i). apply (c_nodup _ _ _ _ C).
  - intros j. pose proof (NoDup_remove_2 _ _ _ (c_nodup _ _ _ _ C)) as Hni.
    unfold upd. destruct (Nat.eqb_spec j i) as [->|Hne].
    + rewrite G3. split; [intros Hx; contradiction | discriminate].
    + rewrite <- (c_queue _ _ _ _ C). rewrite !in_app_iff. cbn [In]. split; [tauto|].
      intros [Hx|[Hx|Hx]]; [tauto | congruence | tauto].
Qed.

Lemma recheck_inv q : forall T f pre n T' f' rem gr,
  Core T f (pre ++ q) n ->
  (forall j, In j pre -> compat T (r_rd (f j)) (r_wr (f j)) = false) ->
  recheck T f q = (T', f', rem, gr) ->
  Core T' f' (pre ++ rem) n /\
  (forall j, In j (pre ++ rem) -> compat T' (r_rd (f' j)) (r_wr (f' j)) = false).
Proof.
  induction q as [|i q IH]; intros T f pre n T' f' rem gr C Hpre H; cbn [recheck] in H.
  - inversion H; subst. rewrite app_nil_r in *. auto.
  - destruct (compat T (r_rd (f i)) (r_wr (f i))) eqn:Ec.
    + destruct (recheck (take T (r_rd (f i)) (r_wr (f i))) (upd f i (grant (f i))) q)
        as [[[T2 f2] rem2] gr2] eqn:E.
      inversion H; subst. apply (IH _ _ pre n _ _ _ gr2 (core_grant _ _ _ _ _ _ C Ec)); [|exact E].
      intros j Hj. pose proof (NoDup_remove_2 _ _ _ (c_nodup _ _ _ _ C)) as Hni.
      assert (j <> i) as Hne. { intros ->. apply Hni. apply in_or_app. now left. }
      rewrite upd_other by exact Hne. apply (incompat_mono T); [apply tle_take | auto].
    + destruct (recheck T f q) as [[[T2 f2] rem2] gr2] eqn:E. inversion H; subst.
      specialize (IH T f (pre ++ [i]) n T' f' rem2 gr).
      rewrite <- !app_assoc in IH. cbn [app] in IH. apply IH; [exact C| |exact E].
      intros j Hj. apply in_app_or in Hj. destruct Hj as [Hj|[->|[]]]; auto.
Qed.

(* ---- the invariant of reachable states ------------------------------------------------------------------ *)
Record Inv (s : state) : Prop := {
  i_core : Core (tbl s) (rq s) (queue s) (next s);
  i_prog : forall i, In i (queue s) -> compat (tbl s) (r_rd (rq s i)) (r_wr (rq s i)) = false;
  i_nopanic : panicked s = false }.

Lemma inv_init : Inv init.
Proof.
  constructor; [constructor| |reflexivity]; cbn.
  - constructor.
  - intros i. split; [tauto | discriminate].
  - reflexivity.
  - reflexivity.
  - reflexivity.
  - intros a. split; [discriminate|]. intros [i [H _]]. discriminate.
  - intros i j _ H. discriminate.
  - discriminate.
  - tauto.
Qed.

Lemma NoDup_snoc (l : list nat) x : NoDup l -> ~ In x l -> NoDup (l ++ [x]).
Proof.
  induction l as [|y l IH]; intros Hnd Hx; cbn.
  - constructor; [tauto | constructor].
  - inversion Hnd as [|? ? Hy Hl]; subst. constructor.
    + rewrite in_app_iff. cbn. intros [H|[H|[]]]; [contradiction|]. subst. apply Hx. now left.
    + apply IH; [exact Hl|]. intros H. apply Hx. now right.
Qed.

Lemma inv_do_unlock s i fin :
  Inv s -> r_held (rq s i) = true -> owns fin = false -> inq fin = false ->
  (abortish fin = true -> r_ctx (rq s i) = true) -> Inv (do_unlock s i fin).
Proof.
  intros I Hh Ho Hq Hc. unfold do_unlock.
  destruct (core_unlock _ _ _ _ i fin (i_core _ I) Hh Ho Hq Hc) as [T1 [E C1]]. rewrite E.
  destruct (recheck T1 (upd (rq s) i (set_st (rq s i) fin false)) (queue s)) as [[[T2 f2] rem] gr] eqn:Er.
  destruct (recheck_inv (queue s) T1 _ [] (next s) T2 f2 rem gr C1) as [C2 P2]; [intros j [] | exact Er |].
  constructor; cbn; auto.
Qed.

Lemma inv_relabel s i r' :
  Inv s -> r_st (rq s i) <> Idle ->
  r_rd r' = r_rd (rq s i) -> r_wr r' = r_wr (rq s i) -> r_held r' = r_held (rq s i) ->
  inq (r_st r') = inq (r_st (rq s i)) -> owns (r_st r') = owns (r_st (rq s i)) ->
  (abortish (r_st r') = true -> r_ctx r' = true) ->
  Inv (with_rq s (upd (rq s) i r')).
Proof.
  intros I Hni Hrd Hwr Hh Hq Ho Hc. pose proof (i_core _ I) as C.
  assert (i < next s) as Hi.
  { destruct (le_lt_dec (next s) i) as [Hle|Hlt]; [|exact Hlt]. elim Hni. apply (c_idle _ _ _ _ C). exact Hle. }
  constructor; cbn.
  - apply core_nochange with (Q := queue s) (n := next s); auto.
    + rewrite Hh, Ho. apply (c_held _ _ _ _ C).
    + apply (c_nodup _ _ _ _ C).
    + apply (queue_same _ _ _ _ _ _ C Hq).
  - intros j Hj. pose proof (i_prog _ I j Hj) as Hp. unfold upd.
    destruct (Nat.eqb_spec j i) as [->|Hne]; [now rewrite Hrd, Hwr | exact Hp].
  - apply (i_nopanic _ I).
Qed.

Lemma inv_step s a s' : Inv s -> step true s a = Some s' -> Inv s'.
Proof.
  intros I H. pose proof (i_core _ I) as C. unfold step in H. rewrite (i_nopanic _ I) in H.
  destruct a as [R W c|i|i|i b|i].
  - (* Lock *)
    set (n := next s) in *.
    assert (forall j, In j (queue s) -> j <> n) as Hlt.
    { intros j Hj. pose proof (core_inq_lt _ _ _ _ _ C Hj). unfold n. lia. }
    destruct (compat (tbl s) R W) eqn:Ec; inversion H; subst; clear H.
    + constructor; cbn; [| |reflexivity].
      * set (r' := {| r_rd := R; r_wr := W; r_st := Holding; r_held := true; r_ctx := c |}).
        change (take (tbl s) R W) with (take (tbl s) (r_rd r') (r_wr r')).
        apply core_take with (Q := queue s) (n := n); auto.
        -- apply (core_nheld_ge _ _ _ _ _ C). unfold n. lia.
        -- cbn. discriminate.
        -- apply (c_nodup _ _ _ _ C).
        -- intros j. unfold upd. destruct (Nat.eqb_spec j n) as [->|Hne]; [|apply (c_queue _ _ _ _ C)].
           cbn. split; [intros Hj; elim (Hlt _ Hj); reflexivity | discriminate].
      * intros j Hj. rewrite upd_other by (apply Hlt; exact Hj).
        apply (incompat_mono (tbl s)); [apply tle_take | apply (i_prog _ I j Hj)].
    + constructor; cbn; [| |reflexivity].
      * set (r' := {| r_rd := R; r_wr := W; r_st := Waiting; r_held := false; r_ctx := c |}).
        apply core_nochange with (Q := queue s) (n := n); auto.
        -- cbn. symmetry. apply (core_nheld_ge _ _ _ _ _ C). unfold n. lia.
        -- cbn. discriminate.
        -- cbn. discriminate.
        -- apply NoDup_snoc; [apply (c_nodup _ _ _ _ C)|]. intros Hj. elim (Hlt _ Hj). reflexivity.
        -- intros j. rewrite in_app_iff. cbn [In]. unfold upd. destruct (Nat.eqb_spec j n) as [->|Hne].
           ++ cbn. split; auto.
           ++ rewrite <- (c_queue _ _ _ _ C). split; [intros [Hj|[Hj|[]]]; [exact Hj | congruence] | auto].
      * intros j Hj. apply in_app_or in Hj. destruct Hj as [Hj|[<-|[]]].
        -- rewrite upd_other by (apply Hlt; exact Hj). apply (i_prog _ I j Hj).
        -- rewrite upd_same. cbn. exact Ec.
  - (* release *)
    destruct (r_st (rq s i)) eqn:Es; try discriminate. inversion H; subst; clear H.
    apply inv_do_unlock; auto.
    + rewrite (c_held _ _ _ _ C), Es. reflexivity.
    + cbn. discriminate.
  - (* cancel *)
    assert (r_st (rq s i) <> Idle) as Hni by (destruct (r_st (rq s i)); congruence).
    assert (s' = with_rq s (upd (rq s) i (set_ctx (rq s i)))) as -> by (destruct (r_st (rq s i)); congruence).
    apply inv_relabel; auto.
  - (* wake *)
    destruct b.
    + destruct (r_ctx (rq s i)) eqn:Ex; [|discriminate].
      destruct (r_st (rq s i)) eqn:Es; try discriminate; inversion H; subst; clear H;
        apply inv_relabel; auto; cbn; rewrite ?Es; auto; discriminate.
    + destruct (r_st (rq s i)) eqn:Es; try discriminate; inversion H; subst; clear H.
      apply inv_relabel; auto; cbn; rewrite ?Es; auto; discriminate.
  - (* abort *)
    destruct (r_st (rq s i)) eqn:Es; try discriminate; inversion H; subst; clear H.
    + (* nothing was granted: leave the queue *)
      assert (In i (queue s)) as Hin by (apply (c_queue _ _ _ _ C); now rewrite Es).
      pose proof (core_inq_lt _ _ _ _ _ C Hin) as Hi.
      assert (r_held (rq s i) = false) as Hh by (rewrite (c_held _ _ _ _ C), Es; reflexivity).
      constructor; cbn; [| |reflexivity].
      * apply core_nochange with (Q := queue s) (n := next s); auto.
        -- intros _. cbn. apply (c_ctx _ _ _ _ C). now rewrite Es.
        -- apply remove_first_NoDup. apply (c_nodup _ _ _ _ C).
        -- intros j. rewrite (remove_first_In i _ (c_nodup _ _ _ _ C)). unfold upd.
           destruct (Nat.eqb_spec j i) as [->|Hne].
           ++ cbn. split; [tauto | discriminate].
           ++ rewrite (c_queue _ _ _ _ C). tauto.
      * intros j Hj. apply (remove_first_In i _ (c_nodup _ _ _ _ C)) in Hj. destruct Hj as [Hne Hj].
        rewrite upd_other by exact Hne. apply (i_prog _ I j Hj).
    + (* granted meanwhile: give the accounts back *)
      apply inv_do_unlock; auto.
      * rewrite (c_held _ _ _ _ C), Es. reflexivity.
      * intros _. apply (c_ctx _ _ _ _ C). now rewrite Es.
Qed.

Lemma inv_run acts : forall s s', Inv s -> run true s acts = Some s' -> Inv s'.
Proof.
  induction acts as [|a acts IH]; intros s s' I H; cbn [run] in H.
  - inversion H; subst. exact I.
  - destruct (step true s a) as [s1|] eqn:E; [|discriminate]. apply (IH s1); [|exact H].
    apply (inv_step s a); assumption.
Qed.

Lemma inv_reachable acts s : run true init acts = Some s -> Inv s.
Proof. apply inv_run. apply inv_init. Qed.

(* ---- recheck: one FIFO pass ---------------------------------------------------------------------------- *)
Lemma upd_grant_sets f i j :
  r_rd (upd f i (grant (f i)) j) = r_rd (f j) /\ r_wr (upd f i (grant (f i)) j) = r_wr (f j).
Proof. unfold upd. destruct (Nat.eqb_spec j i) as [->|Hne]; [now rewrite grant_rd, grant_wr | auto]. Qed.

Lemma recheck_sets q : forall T f T' f' rem gr, recheck T f q = (T', f', rem, gr) ->
  forall j, r_rd (f' j) = r_rd (f j) /\ r_wr (f' j) = r_wr (f j).
Proof.
  induction q as [|i q IH]; intros T f T' f' rem gr H j; cbn [recheck] in H.
  - inversion H; subst. auto.
  - destruct (compat T (r_rd (f i)) (r_wr (f i))).
    + destruct (recheck (take T (r_rd (f i)) (r_wr (f i))) (upd f i (grant (f i))) q)
        as [[[T2 f2] rem2] gr2] eqn:E. inversion H; subst.
      destruct (IH _ _ _ _ _ _ E j) as [A B]. destruct (upd_grant_sets f i j) as [A' B']. split; congruence.
    + destruct (recheck T f q) as [[[T2 f2] rem2] gr2] eqn:E. inversion H; subst. apply (IH _ _ _ _ _ _ E).
Qed.

Lemma recheck_gr_sub q : forall T f T' f' rem gr, recheck T f q = (T', f', rem, gr) ->
  forall g, In g gr -> In g q.
Proof.
  induction q as [|i q IH]; intros T f T' f' rem gr H g Hg; cbn [recheck] in H.
  - inversion H; subst. exact Hg.
  - destruct (compat T (r_rd (f i)) (r_wr (f i))).
    + destruct (recheck (take T (r_rd (f i)) (r_wr (f i))) (upd f i (grant (f i))) q)
        as [[[T2 f2] rem2] gr2] eqn:E. inversion H; subst.
      destruct Hg as [->|Hg]; [now left | right; apply (IH _ _ _ _ _ _ E g Hg)].
    + destruct (recheck T f q) as [[[T2 f2] rem2] gr2] eqn:E. inversion H; subst.
      right. apply (IH _ _ _ _ _ _ E g Hg).
Qed.

Lemma before_cons q x g w : before q g w -> before (x :: q) g w.
Proof. intros [l1 [l2 [l3 E]]]. exists (x :: l1), l2, l3. now rewrite E. Qed.

(* a waiter passed over by the pass was incompatible with the table the pass started from, or conflicts with
   a waiter that stood BEFORE it in the queue and was granted in this pass *)
Lemma recheck_fifo q : forall T f T' f' rem gr, recheck T f q = (T', f', rem, gr) ->
  forall w, In w q ->
    In w gr \/ compat T (r_rd (f w)) (r_wr (f w)) = false \/
    exists g, before q g w /\ In g gr /\ conflicts (f g) (f w).
Proof.
  induction q as [|i q IH]; intros T f T' f' rem gr H w Hw; cbn [recheck] in H; [destruct Hw|].
  destruct (compat T (r_rd (f i)) (r_wr (f i))) eqn:Ec.
  - destruct (recheck (take T (r_rd (f i)) (r_wr (f i))) (upd f i (grant (f i))) q)
      as [[[T2 f2] rem2] gr2] eqn:E. inversion H; subst.
    destruct (Nat.eq_dec w i) as [->|Hne]; [left; now left|].
    destruct Hw as [Hw|Hw]; [congruence|].
    destruct (IH _ _ _ _ _ _ E w Hw) as [Ha|[Hb|[g [Hg1 [Hg2 Hg3]]]]].
    + left. now right.
    + rewrite upd_other in Hb by exact Hne.
      destruct (compat T (r_rd (f w)) (r_wr (f w))) eqn:Ew; [|right; now left].
      right. right. exists i. split; [|split; [now left|]].
      * destruct (in_split _ _ Hw) as [l2 [l3 Eq]]. exists [], l2, l3. now rewrite Eq.
      * apply (compat_take_conflict _ _ _ _ _ Ew Hb).
    + right. right. exists g. split; [now apply before_cons|split; [now right|]].
      unfold conflicts in *. destruct (upd_grant_sets f i g) as [A B]. destruct (upd_grant_sets f i w) as [A' B'].
      now rewrite A, B, A', B' in Hg3.
  - destruct (recheck T f q) as [[[T2 f2] rem2] gr2] eqn:E. inversion H; subst.
    destruct (Nat.eq_dec w i) as [->|Hne]; [right; now left|].
    destruct Hw as [Hw|Hw]; [congruence|].
    destruct (IH _ _ _ _ _ _ E w Hw) as [Ha|[Hb|[g [Hg1 [Hg2 Hg3]]]]]; auto.
    right. right. exists g. split; [now apply before_cons | auto].
Qed.

(* the pass splits the queue into the granted and the remaining waiters, both in queue order *)
Lemma recheck_partition q : forall T f T' f' rem gr, recheck T f q = (T', f', rem, gr) -> NoDup q ->
  rem = filter (fun w => negb (memn w gr)) q /\ gr = filter (fun w => memn w gr) q.
Proof.
  induction q as [|i q IH]; intros T f T' f' rem gr H Hnd; cbn [recheck] in H.
  - inversion H; subst. auto.
  - inversion Hnd as [|? ? Hi Hq]; subst.
    destruct (compat T (r_rd (f i)) (r_wr (f i))).
    + destruct (recheck (take T (r_rd (f i)) (r_wr (f i))) (upd f i (grant (f i))) q)
        as [[[T2 f2] rem2] gr2] eqn:E. inversion H; subst.
      destruct (IH _ _ _ _ _ _ E Hq) as [A B].
      assert (memn i (i :: gr2) = true) as Hii by (apply memn_In; now left).
      cbn [filter]. rewrite Hii. cbn [negb].
      assert (forall w, In w q -> memn w (i :: gr2) = memn w gr2) as Hm.
      { intros w Hw. unfold memn. cbn [existsb]. destruct (Nat.eqb_spec w i) as [->|Hne]; [contradiction|reflexivity]. }
      split.
      * rewrite A. apply filter_ext_in. intros w Hw. now rewrite Hm.
      * f_equal. rewrite B at 1. apply filter_ext_in. intros w Hw. now rewrite Hm.
    + destruct (recheck T f q) as [[[T2 f2] rem2] gr2] eqn:E. inversion H; subst.
      destruct (IH _ _ _ _ _ _ E Hq) as [A B]. cbn [filter].
      assert (memn i gr = false) as Hm.
      { destruct (memn i gr) eqn:Em; [|reflexivity]. apply memn_In in Em.
        elim Hi. apply (recheck_gr_sub _ _ _ _ _ _ _ E i Em). }
      rewrite Hm. cbn [negb]. split; [now f_equal | exact B].
Qed.

Definition fifo_spec (s : state) (i : nat) (s' : state) : Prop :=
  queue s' = filter (fun w => negb (memn w (grants s'))) (queue s) /\
  grants s' = filter (fun w => memn w (grants s')) (queue s) /\
  forall w, In w (queue s) ->
    In w (grants s') \/
    (exists h, h <> i /\ r_held (rq s h) = true /\ conflicts (rq s h) (rq s w)) \/
    (exists g, before (queue s) g w /\ In g (grants s') /\ conflicts (rq s g) (rq s w)).

Lemma do_unlock_fifo s i fin :
  Inv s -> r_held (rq s i) = true -> owns fin = false -> inq fin = false ->
  (abortish fin = true -> r_ctx (rq s i) = true) -> fifo_spec s i (do_unlock s i fin).
Proof.
  intros I Hh Ho Hq Hc. unfold do_unlock, fifo_spec.
  destruct (core_unlock _ _ _ _ i fin (i_core _ I) Hh Ho Hq Hc) as [T1 [E C1]]. rewrite E.
  set (f1 := upd (rq s) i (set_st (rq s i) fin false)) in *.
  destruct (recheck T1 f1 (queue s)) as [[[T2 f2] rem] gr] eqn:Er. cbn [queue grants].
  pose proof (c_nodup _ _ _ _ (i_core _ I)) as Hnd.
  destruct (recheck_partition _ _ _ _ _ _ _ Er Hnd) as [A B].
  split; [exact A|]. split; [exact B|].
  assert (forall j, r_rd (f1 j) = r_rd (rq s j) /\ r_wr (f1 j) = r_wr (rq s j)) as Hs.
  { intros j. unfold f1, upd. destruct (Nat.eqb_spec j i) as [->|Hne]; auto. }
  intros w Hw. destruct (recheck_fifo _ _ _ _ _ _ _ Er w Hw) as [Ha|[Hb|[g [Hg1 [Hg2 Hg3]]]]].
  - now left.
  - right. left. destruct (incompat_conflict _ _ _ _ _ _ C1 Hb) as [h [Hh1 Hh2]].
    assert (h <> i) as Hne. { intros ->. unfold f1 in Hh1. rewrite upd_same in Hh1. discriminate. }
    exists h. split; [exact Hne|]. unfold f1 in Hh1. rewrite upd_other in Hh1 by exact Hne.
    split; [exact Hh1|]. unfold conflicts. apply conflicts_s_sym.
    destruct (Hs h) as [A1 A2]. destruct (Hs w) as [B1 B2]. now rewrite <- A1, <- A2, <- B1, <- B2.
  - right. right. exists g. split; [exact Hg1|]. split; [exact Hg2|].
    unfold conflicts in *. destruct (Hs g) as [A1 A2]. destruct (Hs w) as [B1 B2].
    now rewrite <- A1, <- A2, <- B1, <- B2.
Qed.

(* ---- the lemmas behind the property theorems ----------------------------------------------------------- *)
Lemma lock_exclusion acts s : run true init acts = Some s ->
  forall i j, i <> j -> r_held (rq s i) = true -> r_held (rq s j) = true -> ~ conflicts (rq s i) (rq s j).
Proof. intros H. apply (c_excl _ _ _ _ (i_core _ (inv_reachable _ _ H))). Qed.

Lemma lock_table_exact acts s : run true init acts = Some s ->
  (forall i, r_held (rq s i) = owns (r_st (rq s i))) /\
  (forall i, r_held (rq s i) = true -> i < next s) /\
  (forall a, t_rd (tbl s) a = sum_rd a (rq s) (next s)) /\
  (forall a, t_wr (tbl s) a = true <-> exists i, r_held (rq s i) = true /\ In a (r_wr (rq s i))).
Proof.
  intros H. pose proof (i_core _ (inv_reachable _ _ H)) as C. split; [|split; [|split]].
  - apply (c_held _ _ _ _ C).
  - intros i Hi. apply (core_held_lt _ _ _ _ _ C Hi).
  - apply (c_rd _ _ _ _ C).
  - apply (c_wr _ _ _ _ C).
Qed.

Lemma sum_zero a f n : (forall i, r_held (f i) = false) -> sum_rd a f n = 0.
Proof. intros H. induction n as [|n IH]; cbn [sum_rd]; [reflexivity|]. unfold hrd. now rewrite H, IH. Qed.

Lemma lock_no_leak acts s : run true init acts = Some s ->
  (forall i, r_held (rq s i) = false) -> forall a, t_rd (tbl s) a = 0 /\ t_wr (tbl s) a = false.
Proof.
  intros H Hn a. destruct (lock_table_exact _ _ H) as [_ [_ [Hr Hw]]]. split.
  - rewrite Hr. now apply sum_zero.
  - destruct (t_wr (tbl s) a) eqn:E; [|reflexivity]. apply Hw in E. destruct E as [i [Hi _]].
    rewrite Hn in Hi. discriminate.
Qed.

Lemma lock_progress acts s : run true init acts = Some s ->
  (forall i, In i (queue s) <-> (r_st (rq s i) = Waiting \/ r_st (rq s i) = Aborting)) /\
  (forall i, In i (queue s) -> compat (tbl s) (r_rd (rq s i)) (r_wr (rq s i)) = false) /\
  (forall i, In i (queue s) -> exists j, r_held (rq s j) = true /\ conflicts (rq s j) (rq s i)).
Proof.
  intros H. pose proof (inv_reachable _ _ H) as I. pose proof (i_core _ I) as C. split; [|split].
  - intros i. rewrite (c_queue _ _ _ _ C). destruct (r_st (rq s i)); cbn; split; intros Hx;
      try discriminate; auto; destruct Hx; discriminate.
  - apply (i_prog _ I).
  - intros i Hi. destruct (incompat_conflict _ _ _ _ _ _ C (i_prog _ I i Hi)) as [j [Hj Hc]].
    exists j. split; [exact Hj|]. apply conflicts_s_sym. exact Hc.
Qed.

Lemma lock_cancel acts s : run true init acts = Some s ->
  forall i, r_st (rq s i) = Failed ->
    r_held (rq s i) = false /\ ~ In i (queue s) /\ r_ctx (rq s i) = true.
Proof.
  intros H i Hf. pose proof (i_core _ (inv_reachable _ _ H)) as C. split; [|split].
  - rewrite (c_held _ _ _ _ C), Hf. reflexivity.
  - rewrite (c_queue _ _ _ _ C), Hf. discriminate.
  - apply (c_ctx _ _ _ _ C). now rewrite Hf.
Qed.

Lemma lock_no_panic acts s : run true init acts = Some s -> panicked s = false.
Proof. intros H. apply (i_nopanic _ (inv_reachable _ _ H)). Qed.

Lemma lock_fifo acts s i a s' : run true init acts = Some s ->
  (a = ARelease i \/ (a = AAbort i /\ r_st (rq s i) = AbortGranted)) ->
  step true s a = Some s' -> fifo_spec s i s'.
Proof.
  intros H Ha Hs. pose proof (inv_reachable _ _ H) as I. pose proof (i_core _ I) as C.
  unfold step in Hs. rewrite (i_nopanic _ I) in Hs. destruct Ha as [->|[-> Es]].
  - destruct (r_st (rq s i)) eqn:Es; try discriminate. inversion Hs; subst.
    apply do_unlock_fifo; auto.
    + rewrite (c_held _ _ _ _ C), Es. reflexivity.
    + cbn. discriminate.
  - rewrite Es in Hs. inversion Hs; subst. apply do_unlock_fifo; auto.
    + rewrite (c_held _ _ _ _ C), Es. reflexivity.
    + intros _. apply (c_ctx _ _ _ _ C). now rewrite Es.
Qed.

(* before the repair: once a request has failed while holding, it holds for ever *)
Lemma recheck_other q : forall T f T' f' rem gr, recheck T f q = (T', f', rem, gr) ->
  forall j, inq (r_st (f j)) = false -> f' j = f j.
Proof.
  induction q as [|i q IH]; intros T f T' f' rem gr H j Hj; cbn [recheck] in H.
  - inversion H; subst. reflexivity.
  - destruct (compat T (r_rd (f i)) (r_wr (f i))).
    + destruct (recheck (take T (r_rd (f i)) (r_wr (f i))) (upd f i (grant (f i))) q)
        as [[[T2 f2] rem2] gr2] eqn:E. inversion H; subst.
      assert (upd f i (grant (f i)) j = f j) as Hu.
      { unfold upd. destruct (Nat.eqb_spec j i) as [->|Hne]; [|reflexivity].
        unfold grant. destruct (r_st (f i)); try reflexivity; discriminate. }
      rewrite <- Hu. apply (IH _ _ _ _ _ _ E). now rewrite Hu.
    + destruct (recheck T f q) as [[[T2 f2] rem2] gr2] eqn:E. inversion H; subst. apply (IH _ _ _ _ _ _ E j Hj).
Qed.

Lemma do_unlock_next s j fin : next (do_unlock s j fin) = next s.
Proof.
  unfold do_unlock. destruct (untake (tbl s) (r_rd (rq s j)) (r_wr (rq s j))); [|reflexivity].
  destruct (recheck t (upd (rq s) j (set_st (rq s j) fin false)) (queue s)) as [[[T2 f2] rem] gr]. reflexivity.
Qed.

Definition leaked (s : state) (i : nat) : Prop :=
  i < next s /\ r_st (rq s i) = Failed /\ r_held (rq s i) = true.

Lemma leak_step fx s a s' i : step fx s a = Some s' -> leaked s i -> leaked s' i.
Proof.
  intros H [Hi [Hf Hh]]. unfold leaked.
  assert (forall j fin, r_st (rq s j) <> Failed -> leaked (do_unlock s j fin) i) as Hun.
  { intros j fin Hj. unfold leaked. rewrite do_unlock_next. split; [exact Hi|].
    unfold do_unlock. destruct (untake (tbl s) (r_rd (rq s j)) (r_wr (rq s j))); [|cbn; auto].
    destruct (recheck t (upd (rq s) j (set_st (rq s j) fin false)) (queue s)) as [[[T2 f2] rem] gr] eqn:Er.
    cbn [rq]. assert (i <> j) as Hne by congruence.
    rewrite (recheck_other _ _ _ _ _ _ _ Er i); rewrite upd_other by exact Hne; [auto | now rewrite Hf]. }
  assert (forall j r', r_st (rq s j) <> Failed -> leaked (with_rq s (upd (rq s) j r')) i) as Hup.
  { intros j r' Hj. unfold leaked. cbn. assert (i <> j) as Hne by congruence.
    rewrite upd_other by exact Hne. auto. }
  unfold step in H. destruct (panicked s); [discriminate|].
  destruct a as [R W c|j|j|j b|j].
  - assert (i <> next s) as Hne by lia.
    destruct (compat (tbl s) R W); inversion H; subst; cbn [rq next]; rewrite upd_other by exact Hne;
      (split; [lia | auto]).
  - destruct (r_st (rq s j)) eqn:Es; try discriminate. inversion H; subst. apply Hun. congruence.
  - destruct (Nat.eq_dec j i) as [->|Hne].
    + rewrite Hf in H. inversion H; subst. cbn. rewrite upd_same. cbn. auto.
    + assert (s' = with_rq s (upd (rq s) j (set_ctx (rq s j)))) as -> by (destruct (r_st (rq s j)); congruence).
      cbn. rewrite upd_other by congruence. auto.
  - destruct b.
    + destruct (r_ctx (rq s j)); [|discriminate].
      destruct (r_st (rq s j)) eqn:Es; try discriminate; inversion H; subst; apply Hup; congruence.
    + destruct (r_st (rq s j)) eqn:Es; try discriminate; inversion H; subst; apply Hup; congruence.
  - destruct (r_st (rq s j)) eqn:Es; try discriminate.
    + inversion H; subst. cbn. assert (i <> j) as Hne by congruence. rewrite upd_other by exact Hne. auto.
    + destruct fx; inversion H; subst; [apply Hun | apply Hup]; congruence.
Qed.

Lemma leak_forever fx acts : forall s s' i, run fx s acts = Some s' -> leaked s i -> leaked s' i.
Proof.
  induction acts as [|a acts IH]; intros s s' i H L; cbn [run] in H.
  - inversion H; subst. exact L.
  - destruct (step fx s a) as [s1|] eqn:E; [|discriminate]. apply (IH s1 s' i H). apply (leak_step _ _ _ _ _ E L).
Qed.
