(* M9 — model of the log codec: internal/log.go (Log, ChainedLog, the payloads, MarshalJSON/UnmarshalJSON,
   HydrateLog, ComputeHash, ChainLog, ChainLogs), internal/transaction.go + posting.go (JSON shape of a
   transaction), internal/time.go (text form of a timestamp, abstract), and the read path of
   internal/storage/ledgerstore/logs.go (Logs row, ToCore).
   Definitions only; proofs are in LogCodec/Proofs.v, property theorems in Properties/C13.v.

   JSON is modelled as a value with ordered objects. What encoding/json does between a value and its bytes
   (escaping, number printing) is a function of the value: [render] in the codec below, about which the
   theorems assume nothing. A concrete [render_go] (Go's compact encoder, HTML escaping on) is defined at the
   end and is used only by the correspondence check, to compare the bytes fed to SHA-256 exactly.

   Go maps (metadata) are association lists; [canon] is the key-sorted, duplicate-free form in which
   encoding/json emits a map (keys in byte order) — of_json builds it whatever the member order of the
   object read (PostgreSQL's jsonb reorders object members). *)
From Coq Require Export List Bool ZArith String Ascii.
From Coq Require Import DecimalString.
Export ListNotations.

(* ---- JSON values ------------------------------------------------------------------------------------ *)
Inductive json :=
| JNull
| JBool (b : bool)
| JNum (z : Z)               (* an integer literal *)
| JLit (s : string)          (* any other number literal (fraction / exponent), kept as its text *)
| JStr (s : string)
| JArr (l : list json)
| JObj (m : list (string * json)).

(* outcome of a decoding: value, returned error, or a Go panic *)
Inductive res (A : Type) := Ok (a : A) | Err | Panic.
Arguments Ok {A} a. Arguments Err {A}. Arguments Panic {A}.
Definition bind {A B} (r : res A) (f : A -> res B) : res B :=
  match r with Ok a => f a | Err => Err | Panic => Panic end.
Notation "'do' x <- r ; k" := (bind r (fun x => k)) (at level 200, x name, r at level 100, k at level 200).

Fixpoint mapM {A B} (f : A -> res B) (l : list A) : res (list B) :=
  match l with
  | [] => Ok []
  | x :: r => do y <- f x; do ys <- mapM f r; Ok (y :: ys)
  end.

(* member lookup as the Go decoder sees it: a later duplicate overrides an earlier one *)
Fixpoint get (k : string) (m : list (string * json)) : option json :=
  match m with
  | [] => None
  | (k', v) :: r => match get k r with Some x => Some x | None => if String.eqb k k' then Some v else None end
  end.

(* ---- Go maps as canonical association lists --------------------------------------------------------- *)
Definition str_ltb (a b : string) : bool := match String.compare a b with Lt => true | _ => false end.

(* insert into a key-sorted list; an existing binding is kept *)
Fixpoint ins {V} (k : string) (v : V) (l : list (string * V)) : list (string * V) :=
  match l with
  | [] => [(k, v)]
  | (k', v') :: r =>
      match String.compare k k' with
      | Lt => (k, v) :: (k', v') :: r
      | Eq => (k', v') :: r
      | Gt => (k', v') :: ins k v r
      end
  end.
(* the last binding of a key wins, as when the decoder fills a map member by member *)
Definition canon {V} (l : list (string * V)) : list (string * V) :=
  fold_right (fun kv acc => ins (fst kv) (snd kv) acc) [] l.

Definition second {V W} (f : V -> W) (kv : string * V) : string * W := (fst kv, f (snd kv)).

(* ---- the codec: what the model does not define -------------------------------------------------------- *)
(* T: timestamps as held in memory (ledger.Time after Now()/ParseTime: rounded to the microsecond, with
      their zone); tfmt = Time.MarshalJSON text (Format RFC3339Nano), tparse = ParseTime; tutc = Time.UTC.
   Hs: hash values ([]byte); henc/hdec = the base64 text encoding/json uses for []byte.
   render: encoding/json's bytes for a JSON value.  H: SHA-256. *)
Record codec := {
  T : Type; Hs : Type;
  tfmt : T -> string; tparse : string -> option T; tutc : T -> T;
  henc : Hs -> string; hdec : string -> option Hs;
  render : json -> string;
  H : string -> Hs
}.
(* the only assumptions ever made about a codec (SHA-256 and render: none) *)
Definition codec_ok (c : codec) : Prop :=
  (forall t, tparse c (tfmt c t) = Some t) /\ (forall h, hdec c (henc c h) = Some h).

(* which tree: the two repairs of log.go *)
Record variant := { v_delmeta : bool   (* HydrateLog knows DELETE_METADATA and its payload decodes its target *);
                    v_bigid : bool     (* a transaction target id is read as a big.Int (before: ParseUint 64) *) }.
Definition fixed := {| v_delmeta := true; v_bigid := true |}.
Definition legacy := {| v_delmeta := false; v_bigid := false |}.

(* ---- constant strings ------------------------------------------------------------------------------- *)
Definition s_ACCOUNT := "ACCOUNT"%string.
Definition s_TRANSACTION := "TRANSACTION"%string.
Definition s_SET := "SET_METADATA"%string.
Definition s_NEW := "NEW_TRANSACTION"%string.
Definition s_REV := "REVERTED_TRANSACTION"%string.
Definition s_DEL := "DELETE_METADATA"%string.
Definition k_source := "source"%string.
Definition k_destination := "destination"%string.
Definition k_amount := "amount"%string.
Definition k_asset := "asset"%string.
Definition k_postings := "postings"%string.
Definition k_metadata := "metadata"%string.
Definition k_timestamp := "timestamp"%string.
Definition k_reference := "reference"%string.
Definition k_id := "id"%string.
Definition k_reverted := "reverted"%string.
Definition k_transaction := "transaction"%string.
Definition k_accountMetadata := "accountMetadata"%string.
Definition k_revertedTransactionID := "revertedTransactionID"%string.
Definition k_targetType := "targetType"%string.
Definition k_targetId := "targetId"%string.
Definition k_key := "key"%string.
Definition k_type := "type"%string.
Definition k_data := "data"%string.
Definition k_date := "date"%string.
Definition k_idempotencyKey := "idempotencyKey"%string.
Definition k_hash := "hash"%string.

(* strings.ToUpper, ASCII part *)
Definition upper_ascii (c : ascii) : ascii :=
  let n := nat_of_ascii c in if (97 <=? n)%nat && (n <=? 122)%nat then ascii_of_nat (n - 32) else c.
Fixpoint upper (s : string) : string :=
  match s with EmptyString => EmptyString | String c r => String (upper_ascii c) (upper r) end.

Definition two64 : Z := 18446744073709551616%Z.
Definition in_u64 (z : Z) : bool := (0 <=? z)%Z && (z <? two64)%Z.

Section WithCodec.
Variable c : codec.

(* ---- the data: what the system writes ----------------------------------------------------------------- *)
Definition meta := option (list (string * string)).   (* metadata.Metadata; None = nil map (JSON null) *)
Definition ameta := option (list (string * meta)).    (* AccountMetadata = map[string]metadata.Metadata *)

Record posting := { p_src : string; p_dst : string; p_amount : Z; p_asset : string }.

(* ledger.Transaction = TransactionData{postings, metadata, timestamp, reference} + id + reverted *)
Record tx := { t_postings : option (list posting);   (* None = nil slice (JSON null) *)
                t_meta : meta; t_time : T c; t_ref : string; t_id : Z; t_reverted : bool }.

(* targetType + targetId of the metadata payloads: account address, or transaction id (a big.Int) *)
Inductive target := TAccount (a : string) | TTx (id : Z).

(* Log.Type + Log.Data: the five payload shapes (set/delete x account/transaction, new, reverted) *)
Inductive payload :=
| PNewTx (t : tx) (am : ameta)
| PReverted (rid : Z) (t : tx)
| PSetMeta (tg : target) (m : meta)
| PDelMeta (tg : target) (key : string).

Record log := { l_payload : payload; l_date : T c; l_ik : string }.
Record entry := { e_log : log; e_id : Z; e_hash : option (Hs c) }.   (* ChainedLog *)

Inductive kind := KSet | KNew | KRev | KDel.
Definition kind_of (p : payload) : kind :=
  match p with PNewTx _ _ => KNew | PReverted _ _ => KRev | PSetMeta _ _ => KSet | PDelMeta _ _ => KDel end.
Definition kind_name (k : kind) : string :=
  match k with KSet => s_SET | KNew => s_NEW | KRev => s_REV | KDel => s_DEL end.
(* LogTypeFromString; None = panic(invalid log type) *)
Definition kind_of_string (s : string) : option kind :=
  if String.eqb s s_SET then Some KSet else if String.eqb s s_NEW then Some KNew
  else if String.eqb s s_REV then Some KRev else if String.eqb s s_DEL then Some KDel else None.

(* ---- normal form: maps in canonical order ------------------------------------------------------------- *)
Definition norm_meta (m : meta) : meta := option_map (@canon string) m.
Definition norm_ameta (am : ameta) : ameta := option_map (fun l => map (second norm_meta) (canon l)) am.
Definition norm_tx (t : tx) : tx :=
  {| t_postings := t_postings t; t_meta := norm_meta (t_meta t); t_time := t_time t; t_ref := t_ref t;
     t_id := t_id t; t_reverted := t_reverted t |}.
Definition norm_payload (p : payload) : payload :=
  match p with
  | PNewTx t am => PNewTx (norm_tx t) (norm_ameta am)
  | PReverted rid t => PReverted rid (norm_tx t)
  | PSetMeta tg m => PSetMeta tg (norm_meta m)
  | PDelMeta tg k => PDelMeta tg k
  end.
Definition norm_log (l : log) : log := {| l_payload := norm_payload (l_payload l); l_date := l_date l; l_ik := l_ik l |}.
Definition norm (e : entry) : entry := {| e_log := norm_log (e_log e); e_id := e_id e; e_hash := e_hash e |}.

(* ---- to_json: json.Marshal, field by field ------------------------------------------------------------ *)
Definition meta_json (m : meta) : json :=
  match m with None => JNull | Some l => JObj (map (second JStr) (canon l)) end.
Definition ameta_json (am : ameta) : json :=
  match am with None => JNull | Some l => JObj (map (second meta_json) (canon l)) end.
Definition posting_json (p : posting) : json :=
  JObj [(k_source, JStr (p_src p)); (k_destination, JStr (p_dst p)); (k_amount, JNum (p_amount p)); (k_asset, JStr (p_asset p))].
Definition tx_json (t : tx) : json :=
  JObj ([(k_postings, match t_postings t with None => JNull | Some ps => JArr (map posting_json ps) end); (k_metadata, meta_json (t_meta t));
         (k_timestamp, JStr (tfmt c (t_time t)))]
        ++ (if String.eqb (t_ref t) EmptyString then [] else [(k_reference, JStr (t_ref t))])   (* omitempty *)
        ++ [(k_id, JNum (t_id t)); (k_reverted, JBool (t_reverted t))]).
Definition target_type (tg : target) : string := match tg with TAccount _ => s_ACCOUNT | TTx _ => s_TRANSACTION end.
Definition target_id_json (tg : target) : json := match tg with TAccount a => JStr a | TTx z => JNum z end.
Definition payload_json (p : payload) : json :=
  match p with
  | PNewTx t am => JObj [(k_transaction, tx_json t); (k_accountMetadata, ameta_json am)]
  | PReverted rid t => JObj [(k_revertedTransactionID, JNum rid); (k_transaction, tx_json t)]
  | PSetMeta tg m => JObj [(k_targetType, JStr (target_type tg)); (k_targetId, target_id_json tg); (k_metadata, meta_json m)]
  | PDelMeta tg k => JObj [(k_targetType, JStr (target_type tg)); (k_targetId, target_id_json tg); (k_key, JStr k)]
  end.
Definition hash_json (h : option (Hs c)) : json := match h with None => JNull | Some x => JStr (henc c x) end.
(* json.Marshal(ChainedLog): the embedded Log's fields, then id, hash (Projected is json:"-") *)
Definition to_json (e : entry) : json :=
  let l := e_log e in
  JObj [(k_type, JStr (kind_name (kind_of (l_payload l)))); (k_data, payload_json (l_payload l));
        (k_date, JStr (tfmt c (l_date l))); (k_idempotencyKey, JStr (l_ik l));
        (k_id, JNum (e_id e)); (k_hash, hash_json (e_hash e))].

(* ---- of_json: ChainedLog.UnmarshalJSON + HydrateLog ---------------------------------------------------- *)
(* Exact on what to_json produces, whatever the order of object members; on other documents it is a
   conservative reading (an absent or null member whose Go zero value the model cannot express is Err). *)
Definition str_field (k : string) (m : list (string * json)) : res string :=
  match get k m with None | Some JNull => Ok EmptyString | Some (JStr s) => Ok s | Some _ => Err end.
Definition num_field (k : string) (m : list (string * json)) : res Z :=
  match get k m with Some (JNum z) => Ok z | _ => Err end.
Definition time_field (k : string) (m : list (string * json)) : res (T c) :=
  match get k m with
  | Some (JStr s) => match tparse c s with Some t => Ok t | None => Err end
  | _ => Err
  end.

Definition of_meta (j : option json) : res meta :=
  match j with
  | None | Some JNull => Ok None
  | Some (JObj ms) =>
      do l <- mapM (fun kv => match snd kv with JStr s => Ok (fst kv, s) | JNull => Ok (fst kv, EmptyString) | _ => Err end) ms;
      Ok (Some (canon l))
  | Some _ => Err
  end.
Definition of_ameta (j : option json) : res ameta :=
  match j with
  | None | Some JNull => Ok None
  | Some (JObj ms) =>
      do l <- mapM (fun kv => do m <- of_meta (Some (snd kv)); Ok (fst kv, m)) ms;
      Ok (Some (canon l))
  | Some _ => Err
  end.
Definition of_posting (j : json) : res posting :=
  match j with
  | JObj m =>
      do s <- str_field k_source m; do d <- str_field k_destination m;
      do a <- num_field k_amount m; do x <- str_field k_asset m;
      Ok {| p_src := s; p_dst := d; p_amount := a; p_asset := x |}
  | _ => Err
  end.
Definition of_tx (j : option json) : res tx :=
  match j with
  | Some (JObj m) =>
      do ps <- match get k_postings m with
               | Some (JArr l) => do ps <- mapM of_posting l; Ok (Some ps)
               | None | Some JNull => Ok None
               | Some _ => Err
               end;
      do md <- of_meta (get k_metadata m);
      do ts <- time_field k_timestamp m;
      do rf <- str_field k_reference m;
      do id <- num_field k_id m;
      do rv <- match get k_reverted m with Some (JBool b) => Ok b | None | Some JNull => Ok false | Some _ => Err end;
      Ok {| t_postings := ps; t_meta := md; t_time := ts; t_ref := rf; t_id := id; t_reverted := rv |}
  | _ => Err
  end.

(* SetMetadataLogPayload.UnmarshalJSON (and, in the repaired tree, DeleteMetadataLogPayload.UnmarshalJSON):
   switch strings.ToUpper(targetType) { ACCOUNT: string; TRANSACTION: integer; default: panic } *)
Definition of_target (v : variant) (m : list (string * json)) : res target :=
  do tt <- str_field k_targetType m;
  let u := upper tt in
  if String.eqb u s_ACCOUNT then
    match get k_targetId m with Some (JStr a) => Ok (TAccount a) | _ => Err end
  else if String.eqb u s_TRANSACTION then
    match get k_targetId m with
    | Some (JNum z) => if v_bigid v || in_u64 z then Ok (TTx z) else Err     (* strconv.ParseUint(_, 10, 64) *)
    | _ => Err
    end
  else Panic.

(* HydrateLog: the type switch on the payload kind *)
Definition hydrate (v : variant) (k : kind) (j : json) : res payload :=
  match k with
  | KNew => match j with
            | JObj m => do t <- of_tx (get k_transaction m); do am <- of_ameta (get k_accountMetadata m); Ok (PNewTx t am)
            | _ => Err end
  | KRev => match j with
            | JObj m => do rid <- num_field k_revertedTransactionID m; do t <- of_tx (get k_transaction m); Ok (PReverted rid t)
            | _ => Err end
  | KSet => match j with
            | JObj m => do md <- of_meta (get k_metadata m); do tg <- of_target v m; Ok (PSetMeta tg md)
            | _ => Err end
  | KDel => if v_delmeta v then
              match j with
              | JObj m => do key <- str_field k_key m; do tg <- of_target v m; Ok (PDelMeta tg key)
              | _ => Err end
            else Panic                                     (* default: panic("unknown type " + ...) *)
  end.

Definition of_json (v : variant) (j : json) : res entry :=
  match j with
  | JObj m =>
      do k <- match get k_type m with
              | Some (JStr s) => match kind_of_string s with Some k => Ok k | None => Panic end
              | None => Ok KSet                             (* zero LogType *)
              | Some JNull => Panic                         (* LogTypeFromString("") *)
              | Some _ => Err
              end;
      do d <- time_field k_date m;
      do ik <- str_field k_idempotencyKey m;
      do id <- num_field k_id m;
      do h <- match get k_hash m with
              | Some (JStr s) => match hdec c s with Some h => Ok (Some h) | None => Err end
              | None | Some JNull => Ok None
              | Some _ => Err
              end;
      do p <- match get k_data m with Some dj => hydrate v k dj | None => Err end;
      Ok {| e_log := {| l_payload := p; l_date := d; l_ik := ik |}; e_id := id; e_hash := h |}
  | _ => Err
  end.

(* ---- the stored row (ledgerstore.Logs) and Logs.ToCore -------------------------------------------------- *)
Record row := { r_type : string; r_data : json; r_date : T c; r_ik : string; r_id : Z; r_hash : option (Hs c) }.
(* InsertLogs: type name, json.Marshal(Data) into the jsonb column, date, key, id, hash *)
Definition to_row (e : entry) : row :=
  let l := e_log e in
  {| r_type := kind_name (kind_of (l_payload l)); r_data := payload_json (l_payload l); r_date := l_date l;
     r_ik := l_ik l; r_id := e_id e; r_hash := e_hash e |}.
(* ToCore panics when HydrateLog returns an error, and when the type column is unknown *)
Definition of_row (v : variant) (r : row) : res entry :=
  match kind_of_string (r_type r) with
  | None => Panic
  | Some k =>
      match hydrate v k (r_data r) with
      | Ok p => Ok {| e_log := {| l_payload := p; l_date := tutc c (r_date r); l_ik := r_ik r |};
                      e_id := r_id r; e_hash := r_hash r |}
      | _ => Panic
      end
  end.

(* ---- hashing: ComputeHash / ChainLog / ChainLogs --------------------------------------------------------- *)
(* What json.NewEncoder(digest) is given: previous.Hash when there is a previous entry, then the entry itself
   as it is at that moment: id 0, hash null. *)
Definition hash_input_json (prev : option entry) (l : log) : list json :=
  (match prev with None => [] | Some p => [hash_json (e_hash p)] end)
  ++ [to_json {| e_log := l; e_id := 0; e_hash := None |}].
Definition nl : string := String (ascii_of_nat 10) EmptyString.
Definition encode_lines (r : json -> string) (js : list json) : string :=
  fold_right (fun j acc => append (r j) (append nl acc)) EmptyString js.
Definition hash_input (prev : option entry) (l : log) : string := encode_lines (render c) (hash_input_json prev l).

Definition chain_log (prev : option entry) (l : log) : entry :=
  {| e_log := l;
     e_id := match prev with None => 0 | Some p => e_id p + 1 end;
     e_hash := Some (H c (hash_input prev l)) |}.
Fixpoint chain_logs (prev : option entry) (ls : list log) : list entry :=
  match ls with
  | [] => []
  | l :: r => let e := chain_log prev l in e :: chain_logs (Some e) r
  end.

(* re-verification of a chain read back: re-chaining the content of every entry over its predecessor gives
   the entry itself (same id, same hash) *)
Fixpoint verified (prev : option entry) (es : list entry) : Prop :=
  match es with
  | [] => True
  | e :: r => chain_log prev (e_log e) = e /\ verified (Some e) r
  end.

End WithCodec.


(* ---- Go's encoder on a JSON value (compact, escapeHTML on) — used by the correspondence only ------------- *)
Definition hex_digit (n : nat) : ascii := ascii_of_nat (if (n <? 10)%nat then 48 + n else 87 + n).
Definition s1 (a : ascii) : string := String a EmptyString.
Definition bs (n : nat) : ascii := ascii_of_nat n.
Definition esc_u00 (n : nat) : string :=
  String (bs 92) (String (bs 117) (String (bs 48) (String (bs 48) (String (hex_digit (n / 16)) (String (hex_digit (n mod 16)) EmptyString))))).
Definition esc2 (a : ascii) : string := String (bs 92) (String a EmptyString).
(* appendString of encoding/json/encode.go on valid UTF-8 *)
Fixpoint esc_string (s : string) : string :=
  match s with
  | EmptyString => EmptyString
  | String a r =>
      let n := nat_of_ascii a in
      match n, r with
      | 226, String b (String d r') =>
          if (nat_of_ascii b =? 128)%nat && ((nat_of_ascii d =? 168)%nat || (nat_of_ascii d =? 169)%nat)
          then append (String (bs 92) (String (bs 117) (String (bs 50) (String (bs 48) (String (bs 50)
                        (String (hex_digit (nat_of_ascii d - 160)) EmptyString)))))) (esc_string r')
          else String a (esc_string r)
      | _, _ =>
          if (n =? 34)%nat || (n =? 92)%nat then append (esc2 a) (esc_string r)
          else if (n =? 8)%nat then append (esc2 (bs 98)) (esc_string r)
          else if (n =? 12)%nat then append (esc2 (bs 102)) (esc_string r)
          else if (n =? 10)%nat then append (esc2 (bs 110)) (esc_string r)
          else if (n =? 13)%nat then append (esc2 (bs 114)) (esc_string r)
          else if (n =? 9)%nat then append (esc2 (bs 116)) (esc_string r)
          else if (n <? 32)%nat || (n =? 60)%nat || (n =? 62)%nat || (n =? 38)%nat then append (esc_u00 n) (esc_string r)
          else String a (esc_string r)
      end
  end.
Definition quote (s : string) : string := String (bs 34) (append (esc_string s) (s1 (bs 34))).
Definition z_dec (z : Z) : string := NilZero.string_of_int (Z.to_int z).

Fixpoint render_go (j : json) : string :=
  match j with
  | JNull => "null"%string
  | JBool true => "true"%string
  | JBool false => "false"%string
  | JNum z => z_dec z
  | JLit s => s
  | JStr s => quote s
  | JArr l =>
      append "["%string (append
        ((fix go (first : bool) (l : list json) : string :=
            match l with
            | [] => EmptyString
            | x :: r => append (if first then EmptyString else ","%string) (append (render_go x) (go false r))
            end) true l) "]"%string)
  | JObj m =>
      append "{"%string (append
        ((fix go (first : bool) (m : list (string * json)) : string :=
            match m with
            | [] => EmptyString
            | (k, x) :: r => append (if first then EmptyString else ","%string)
                               (append (quote k) (append ":"%string (append (render_go x) (go false r))))
            end) true m) "}"%string)
  end.

(* ---- the text codec: times and hashes are their own text; used to run the model on observed data -------- *)
Definition text_codec : codec :=
  {| T := string; Hs := string; tfmt := fun s => s; tparse := fun s => Some s; tutc := fun s => s;
     henc := fun s => s; hdec := fun s => Some s; render := render_go; H := fun s => s |}.

(* ---- boolean equalities for the correspondence ---------------------------------------------------------- *)
Fixpoint list_eqb {A} (eqb : A -> A -> bool) (l1 l2 : list A) : bool :=
  match l1, l2 with
  | [], [] => true
  | x :: r1, y :: r2 => eqb x y && list_eqb eqb r1 r2
  | _, _ => false
  end.
Definition opt_eqb {A} (eqb : A -> A -> bool) (a b : option A) : bool :=
  match a, b with Some x, Some y => eqb x y | None, None => true | _, _ => false end.
Definition pair_eqb {A B} (ea : A -> A -> bool) (eb : B -> B -> bool) (x y : A * B) : bool :=
  ea (fst x) (fst y) && eb (snd x) (snd y).

Fixpoint json_eqb (a b : json) : bool :=
  match a, b with
  | JNull, JNull => true
  | JBool x, JBool y => Bool.eqb x y
  | JNum x, JNum y => Z.eqb x y
  | JLit x, JLit y => String.eqb x y
  | JStr x, JStr y => String.eqb x y
  | JArr l1, JArr l2 =>
      (fix go (l1 l2 : list json) : bool :=
         match l1, l2 with
         | [], [] => true
         | x :: r1, y :: r2 => json_eqb x y && go r1 r2
         | _, _ => false
         end) l1 l2
  | JObj m1, JObj m2 =>
      (fix go (m1 m2 : list (string * json)) : bool :=
         match m1, m2 with
         | [], [] => true
         | (k1, x) :: r1, (k2, y) :: r2 => String.eqb k1 k2 && json_eqb x y && go r1 r2
         | _, _ => false
         end) m1 m2
  | _, _ => false
  end.

Definition tc := text_codec.
Definition meta_eqb (a b : meta) : bool := opt_eqb (list_eqb (pair_eqb String.eqb String.eqb)) a b.
Definition ameta_eqb (a b : ameta) : bool := opt_eqb (list_eqb (pair_eqb String.eqb meta_eqb)) a b.
Definition posting_eqb (a b : posting) : bool :=
  String.eqb (p_src a) (p_src b) && String.eqb (p_dst a) (p_dst b) && Z.eqb (p_amount a) (p_amount b)
  && String.eqb (p_asset a) (p_asset b).
Definition tx_eqb (a b : tx tc) : bool :=
  opt_eqb (list_eqb posting_eqb) (t_postings tc a) (t_postings tc b) && meta_eqb (t_meta tc a) (t_meta tc b)
  && String.eqb (t_time tc a) (t_time tc b) && String.eqb (t_ref tc a) (t_ref tc b)
  && Z.eqb (t_id tc a) (t_id tc b) && Bool.eqb (t_reverted tc a) (t_reverted tc b).
Definition target_eqb (a b : target) : bool :=
  match a, b with
  | TAccount x, TAccount y => String.eqb x y
  | TTx x, TTx y => Z.eqb x y
  | _, _ => false
  end.
Definition payload_eqb (a b : payload tc) : bool :=
  match a, b with
  | PNewTx _ t am, PNewTx _ t' am' => tx_eqb t t' && ameta_eqb am am'
  | PReverted _ r t, PReverted _ r' t' => Z.eqb r r' && tx_eqb t t'
  | PSetMeta _ g m, PSetMeta _ g' m' => target_eqb g g' && meta_eqb m m'
  | PDelMeta _ g k, PDelMeta _ g' k' => target_eqb g g' && String.eqb k k'
  | _, _ => false
  end.
Definition entry_eqb (a b : entry tc) : bool :=
  payload_eqb (l_payload tc (e_log tc a)) (l_payload tc (e_log tc b))
  && String.eqb (l_date tc (e_log tc a)) (l_date tc (e_log tc b))
  && String.eqb (l_ik tc (e_log tc a)) (l_ik tc (e_log tc b))
  && Z.eqb (e_id tc a) (e_id tc b) && opt_eqb String.eqb (e_hash tc a) (e_hash tc b).
Definition is_panic {A} (r : res A) : bool := match r with Panic => true | _ => false end.
Definition is_err {A} (r : res A) : bool := match r with Err => true | _ => false end.

(* constructors at the text codec, for the cases written by the harness *)
Definition mk_tx (ps : option (list posting)) (m : meta) (ts rf : string) (id : Z) (rv : bool) : tx tc :=
  {| t_postings := ps; t_meta := m; t_time := ts : T tc; t_ref := rf; t_id := id; t_reverted := rv |}.
Definition mk_entry (p : payload tc) (d ik : string) (id : Z) (h : option string) : entry tc :=
  {| e_log := {| l_payload := p; l_date := d : T tc; l_ik := ik |}; e_id := id; e_hash := h : option (Hs tc) |}.
Definition res_eqb {A} (eqb : A -> A -> bool) (a b : res A) : bool :=
  match a, b with Ok x, Ok y => eqb x y | Err, Err => true | Panic, Panic => true | _, _ => false end.

(* ---- one observed case ----------------------------------------------------------------------------------- *)
(* The entry [cs_entry] is what the real ChainLog produced over a predecessor whose hash is [cs_prev]
   (times as their RFC3339Nano text, hashes as base64 text). Observed on the real code:
   cs_json      json.Marshal(entry), parsed generically (members in order);
   cs_dec       json.Unmarshal of those bytes into a ChainedLog (value / error / panic);
   cs_rowdata   the data column as PostgreSQL's jsonb returns it (members reordered);
   cs_rowdec    Logs.ToCore on the stored row;
   cs_hashin    the bytes json.NewEncoder writes for (previous.Hash, entry with id 0 and hash null), whose
                SHA-256 the harness has compared with the stored hash. *)
Record case := {
  cs_prev : option string;
  cs_entry : entry tc;
  cs_json : json;
  cs_dec : res (entry tc);
  cs_rowdata : json;
  cs_rowdec : res (entry tc);
  cs_hashin : string
}.

(* what the harness writes: a decoding outcome equal to the entry itself is abbreviated *)
Inductive dec := DSame | DOk (e : entry tc) | DErr | DPanic.
Definition dec_res (e : entry tc) (d : dec) : res (entry tc) :=
  match d with DSame => Ok e | DOk e' => Ok e' | DErr => Err | DPanic => Panic end.
Definition mk_case (prev : option string) (e : entry tc) (j : json) (d : dec) (rd : json) (rdec : dec) (hin : string) : case :=
  {| cs_prev := prev; cs_entry := e; cs_json := j; cs_dec := dec_res e d; cs_rowdata := rd; cs_rowdec := dec_res e rdec;
     cs_hashin := hin |}.

Definition prev_of (h : option string) : option (entry tc) :=
  match h with
  | None => None
  | Some x => Some {| e_log := {| l_payload := PDelMeta tc (TAccount EmptyString) EmptyString; l_date := EmptyString; l_ik := EmptyString |};
                      e_id := 0; e_hash := Some x |}
  end.

Definition check_case (k : case) : bool :=
  let e := cs_entry k in
  json_eqb (to_json tc e) (cs_json k)
  && res_eqb entry_eqb (of_json tc fixed (cs_json k)) (cs_dec k)
  && res_eqb entry_eqb
       (of_row tc fixed {| r_type := r_type tc (to_row tc e); r_data := cs_rowdata k; r_date := l_date tc (e_log tc e);
                           r_ik := l_ik tc (e_log tc e); r_id := e_id tc e; r_hash := e_hash tc e |})
       (cs_rowdec k)
  && String.eqb (hash_input tc (prev_of (cs_prev k)) (e_log tc e)) (cs_hashin k).

Fixpoint bad_cases {A} (chk : A -> bool) (n : nat) (l : list A) : list nat :=
  match l with
  | [] => []
  | c :: r => if chk c then bad_cases chk (S n) r else n :: bad_cases chk (S n) r
  end.

Fixpoint bytes_to_string (l : list nat) : string :=
  match l with [] => EmptyString | n :: r => String (ascii_of_nat n) (bytes_to_string r) end.
