(* The decoders of the log codec do not depend on the order of object members: PostgreSQL's jsonb column returns the
   members of every object in its own order (key length, then bytes), not in the order encoding/json wrote them.
   [jperm a b]: b is a with the members of any of its objects permuted. *)
From FL Require Import LogCodec.Model LogCodec.Proofs.
From Coq Require Import Permutation OrderedTypeEx.

Inductive jperm : json -> json -> Prop :=
| jp_null : jperm JNull JNull
| jp_bool : forall b, jperm (JBool b) (JBool b)
| jp_num : forall z, jperm (JNum z) (JNum z)
| jp_lit : forall s, jperm (JLit s) (JLit s)
| jp_str : forall s, jperm (JStr s) (JStr s)
| jp_arr : forall l l', Forall2 jperm l l' -> jperm (JArr l) (JArr l')
| jp_obj : forall m m1 m', Forall2 (fun a b => fst a = fst b /\ jperm (snd a) (snd b)) m m1 -> Permutation m1 m' ->
                           jperm (JObj m) (JObj m').

(* ---- lookup in an object with distinct keys ------------------------------------------------------------------- *)
Lemma get_none : forall k m, ~ In k (map fst m) -> get k m = None.
Proof.
  intros k m. induction m as [|[k' v] r IH]; intros Hn; [reflexivity|]. cbn [get].
  rewrite IH by (intros Hi; apply Hn; right; exact Hi).
  destruct (String.eqb_spec k k') as [->|Hne]; [|reflexivity]. exfalso. apply Hn. left. reflexivity.
Qed.

Lemma get_in : forall k v m, NoDup (map fst m) -> In (k, v) m -> get k m = Some v.
Proof.
  intros k v m. induction m as [|[k' v'] r IH]; intros Hnd Hin; [destruct Hin|].
  cbn [map fst] in Hnd. inversion Hnd as [|? ? Hnotin Hnd']; subst. cbn [get]. destruct Hin as [Heq|Hin].
  - injection Heq as -> ->. rewrite get_none by exact Hnotin. rewrite String.eqb_refl. reflexivity.
  - rewrite (IH Hnd' Hin). reflexivity.
Qed.

Lemma get_some_in : forall k v m, get k m = Some v -> In (k, v) m.
Proof.
  intros k v m. induction m as [|[k' v'] r IH]; cbn [get]; [discriminate|].
  destruct (get k r) as [x|] eqn:Hg.
  - intros Heq. injection Heq as ->. right. apply IH. reflexivity.
  - destruct (String.eqb_spec k k') as [->|Hne]; [|discriminate]. intros Heq. injection Heq as ->. left. reflexivity.
Qed.

Lemma get_none_notin : forall k m, get k m = None -> ~ In k (map fst m).
Proof.
  intros k m. induction m as [|[k' v'] r IH]; cbn [get map fst]; [intros _ []|].
  destruct (get k r) as [x|] eqn:Hg; [discriminate|].
  destruct (String.eqb_spec k k') as [->|Hne]; [discriminate|]. intros _ [Heq|Hin]; [congruence|]. exact (IH eq_refl Hin).
Qed.

Lemma forall2_keys : forall (R : json -> json -> Prop) (m m1 : list (string * json)),
  Forall2 (fun a b => fst a = fst b /\ R (snd a) (snd b)) m m1 -> map fst m1 = map fst m.
Proof. induction 1 as [|a b l l' [Hk _] _ IH]; cbn [map]; [reflexivity|]. rewrite IH, Hk. reflexivity. Qed.

Lemma forall2_in : forall (R : json -> json -> Prop) (m m1 : list (string * json)) k v,
  Forall2 (fun a b => fst a = fst b /\ R (snd a) (snd b)) m m1 -> In (k, v) m -> exists v', In (k, v') m1 /\ R v v'.
Proof.
  induction 1 as [|[ka va] [kb vb] l l' [Hk Hr] _ IH]; intros Hin; [destruct Hin|]. cbn [fst snd] in *. destruct Hin as [Heq|Hin].
  - injection Heq as -> ->. subst kb. exists vb. split; [left; reflexivity|exact Hr].
  - destruct (IH Hin) as (v' & Hi & Hr'). exists v'. split; [right; exact Hi|exact Hr'].
Qed.

(* what a decoder sees of a permuted object *)
Lemma get_jperm : forall m m1 m' k,
  NoDup (map fst m) ->
  Forall2 (fun a b => fst a = fst b /\ jperm (snd a) (snd b)) m m1 -> Permutation m1 m' ->
  match get k m with
  | Some v => exists v', get k m' = Some v' /\ jperm v v'
  | None => get k m' = None
  end.
Proof.
  intros m m1 m' k Hnd Hf Hp.
  assert (Hk1 : map fst m1 = map fst m) by (eapply forall2_keys; exact Hf).
  assert (Hnd' : NoDup (map fst m')).
  { eapply Permutation_NoDup; [apply Permutation_map; exact Hp|]. rewrite Hk1. exact Hnd. }
  destruct (get k m) as [v|] eqn:Hg.
  - apply get_some_in in Hg. destruct (forall2_in _ _ _ _ _ Hf Hg) as (v' & Hi & Hr).
    exists v'. split; [|exact Hr]. apply get_in; [exact Hnd'|]. eapply Permutation_in; [exact Hp|exact Hi].
  - apply get_none. intros Hi. apply get_none_notin in Hg. apply Hg. rewrite <- Hk1.
    eapply Permutation_in; [apply Permutation_sym, Permutation_map; exact Hp|exact Hi].
Qed.

(* ---- key-sorted lists: strict order, uniqueness ------------------------------------------------------------------ *)
Lemma cmp_lt_trans : forall a b d, String.compare a b = Lt -> String.compare b d = Lt -> String.compare a d = Lt.
Proof.
  intros a b d H1 H2. apply String_as_OT.cmp_lt. eapply String_as_OT.lt_trans; apply String_as_OT.cmp_lt; eassumption.
Qed.
Lemma cmp_lt_irrefl : forall a, String.compare a a <> Lt.
Proof. intros a Hc. assert (He : String.compare a a = Eq) by (apply String_as_OT.cmp_eq; reflexivity). congruence. Qed.

Lemma sorted_all_gt : forall V k (v : V) r, sorted ((k, v) :: r) -> Forall (fun kv => String.compare k (fst kv) = Lt) r.
Proof.
  intros V k v r. revert k v. induction r as [|[k' v'] r IH]; intros k v [Hh Hs]; constructor.
  - exact Hh.
  - cbn [hd_gt] in Hh. specialize (IH k' v' Hs). eapply Forall_impl; [|exact IH].
    intros kv Hlt. eapply cmp_lt_trans; eassumption.
Qed.

Lemma sorted_nodup : forall V (l : list (string * V)), sorted l -> NoDup (map fst l).
Proof.
  intros V l. induction l as [|[k v] r IH]; intros Hs; cbn [map fst]; constructor.
  - intros Hin. apply in_map_iff in Hin. destruct Hin as (kv & Hk & Hin).
    pose proof (sorted_all_gt _ _ _ _ Hs) as Hall. rewrite Forall_forall in Hall. specialize (Hall kv Hin).
    rewrite Hk in Hall. exact (cmp_lt_irrefl _ Hall).
  - apply IH. exact (proj2 Hs).
Qed.

Lemma sorted_perm_eq : forall V (l1 l2 : list (string * V)), sorted l1 -> sorted l2 -> Permutation l1 l2 -> l1 = l2.
Proof.
  intros V l1. induction l1 as [|[k1 v1] r1 IH]; intros l2 Hs1 Hs2 Hp.
  - apply Permutation_nil in Hp. subst. reflexivity.
  - destruct l2 as [|[k2 v2] r2]; [apply Permutation_sym, Permutation_nil in Hp; discriminate|].
    pose proof (sorted_all_gt _ _ _ _ Hs1) as A1. pose proof (sorted_all_gt _ _ _ _ Hs2) as A2.
    rewrite Forall_forall in A1, A2.
    assert (H12 : In (k1, v1) ((k2, v2) :: r2)) by (eapply Permutation_in; [exact Hp|left; reflexivity]).
    assert (H21 : In (k2, v2) ((k1, v1) :: r1)) by (eapply Permutation_in; [apply Permutation_sym; exact Hp|left; reflexivity]).
    assert (Heq : (k1, v1) = (k2, v2)).
    { destruct H12 as [E|I12]; [symmetry; exact E|]. destruct H21 as [E|I21]; [exact E|].
      specialize (A2 _ I12). specialize (A1 _ I21). cbn [fst] in *.
      exfalso. exact (cmp_lt_irrefl _ (cmp_lt_trans _ _ _ A1 A2)). }
    injection Heq as -> ->. f_equal. apply IH; [exact (proj2 Hs1)|exact (proj2 Hs2)|].
    eapply Permutation_cons_inv. exact Hp.
Qed.

Lemma ins_perm : forall V k (v : V) l, ~ In k (map fst l) -> Permutation (ins k v l) ((k, v) :: l).
Proof.
  intros V k v l. induction l as [|[k' v'] r IH]; intros Hn; cbn [ins]; [apply Permutation_refl|].
  destruct (String.compare k k') eqn:Hc.
  - exfalso. apply Hn. left. cbn [fst]. symmetry. apply String_as_OT.cmp_eq. exact Hc.
  - apply Permutation_refl.
  - eapply Permutation_trans; [apply perm_skip, IH|apply perm_swap]. intros Hi. apply Hn. right. exact Hi.
Qed.

Lemma canon_perm_self : forall V (l : list (string * V)), NoDup (map fst l) -> Permutation (canon l) l.
Proof.
  intros V l. induction l as [|[k v] r IH]; intros Hnd; [apply Permutation_refl|].
  cbn [map fst] in Hnd. inversion Hnd as [|? ? Hnotin Hnd']; subst.
  unfold canon. cbn [fold_right fst snd]. fold (canon r).
  eapply Permutation_trans; [apply ins_perm|apply perm_skip, IH; exact Hnd'].
  intros Hi. apply Hnotin. eapply Permutation_in; [apply Permutation_map, IH; exact Hnd'|exact Hi].
Qed.

Lemma canon_perm : forall V (l l' : list (string * V)), NoDup (map fst l) -> Permutation l l' -> canon l' = canon l.
Proof.
  intros V l l' Hnd Hp.
  assert (Hnd' : NoDup (map fst l')) by (eapply Permutation_NoDup; [apply Permutation_map; exact Hp|exact Hnd]).
  apply sorted_perm_eq; try apply canon_sorted.
  eapply Permutation_trans; [apply canon_perm_self; exact Hnd'|].
  eapply Permutation_trans; [apply Permutation_sym; exact Hp|apply Permutation_sym, canon_perm_self; exact Hnd].
Qed.

(* ---- mapM and permutations ---------------------------------------------------------------------------------------- *)
Lemma mapM_perm : forall A B (f : A -> res B) (m1 m' : list A), Permutation m1 m' ->
  forall l1, mapM f m1 = Ok l1 -> exists l', mapM f m' = Ok l' /\ Permutation l1 l'.
Proof.
  intros A B f m1 m' Hp. induction Hp as [|x l l' Hp IH|x y l|l l' l'' Hp1 IH1 Hp2 IH2]; intros l1 Hm.
  - exists l1. split; [exact Hm|apply Permutation_refl].
  - cbn [mapM] in *. destruct (f x) as [b| |]; cbn [bind] in *; try discriminate.
    destruct (mapM f l) as [bs| |]; cbn [bind] in *; try discriminate. injection Hm as <-.
    destruct (IH bs eq_refl) as (l2 & -> & Hp2). exists (b :: l2). split; [reflexivity|apply perm_skip; exact Hp2].
  - cbn [mapM] in *. destruct (f y) as [b| |]; cbn [bind] in *; try discriminate.
    destruct (f x) as [a| |]; cbn [bind] in *; try discriminate.
    destruct (mapM f l) as [bs| |]; cbn [bind] in *; try discriminate. injection Hm as <-.
    exists (a :: b :: bs). split; [reflexivity|apply perm_swap].
  - destruct (IH1 _ Hm) as (l2 & H2 & P2). destruct (IH2 _ H2) as (l3 & H3 & P3).
    exists l3. split; [exact H3|eapply Permutation_trans; eassumption].
Qed.

Lemma mapM_forall2 : forall A B C (f : A -> res C) (g : B -> res C) (R : A -> B -> Prop) l l',
  Forall2 R l l' -> (forall a b, R a b -> g b = f a) -> mapM g l' = mapM f l.
Proof.
  induction 1 as [|a b l l' Hr _ IH]; intros Hfg; [reflexivity|]. cbn [mapM]. rewrite (Hfg _ _ Hr), (IH Hfg). reflexivity.
Qed.

(* ---- the decoders on permuted documents ---------------------------------------------------------------------------- *)
Lemma jperm_str : forall s j, jperm (JStr s) j -> j = JStr s. Proof. intros s j Hp. inversion Hp. reflexivity. Qed.
Lemma jperm_num : forall z j, jperm (JNum z) j -> j = JNum z. Proof. intros z j Hp. inversion Hp. reflexivity. Qed.
Lemma jperm_bool : forall b j, jperm (JBool b) j -> j = JBool b. Proof. intros b j Hp. inversion Hp. reflexivity. Qed.
Lemma jperm_null : forall j, jperm JNull j -> j = JNull. Proof. intros j Hp. inversion Hp. reflexivity. Qed.

Fixpoint nodupb (l : list string) : bool :=
  match l with [] => true | k :: r => negb (existsb (String.eqb k) r) && nodupb r end.
Lemma nodupb_sound : forall l, nodupb l = true -> NoDup l.
Proof.
  induction l as [|k r IH]; cbn [nodupb]; intros Hb; constructor; apply andb_prop in Hb; destruct Hb as [H1 H2].
  - intros Hin. apply negb_true_iff in H1. assert (Hex : existsb (String.eqb k) r = true).
    { apply existsb_exists. exists k. split; [exact Hin|apply String.eqb_refl]. }
    congruence.
  - exact (IH H2).
Qed.

(* the view a decoder has of a permuted struct object: every member of the original is found, permuted itself *)
Definition view (m m' : list (string * json)) : Prop :=
  forall k, match get k m with
            | Some v => exists v', get k m' = Some v' /\ jperm v v'
            | None => get k m' = None
            end.
Lemma jperm_obj_view : forall m j, nodupb (map fst m) = true -> jperm (JObj m) j -> exists m', j = JObj m' /\ view m m'.
Proof.
  intros m j Hnd Hp. inversion Hp as [| | | | | |? m1 m' Hf Hpm]; subst. exists m'. split; [reflexivity|].
  intros k. eapply get_jperm; eauto using nodupb_sound.
Qed.

Ltac lookup k m :=
  match m with
  | (k, ?v) :: _ => v
  | _ :: ?r => lookup k r
  end.
Ltac member V k v' Hg Hp :=
  let H := fresh in pose proof (V k) as H; cbv beta in H;
  match type of H with
  | match get k ?m with _ => _ end => let v := lookup k m in change (get k m) with (Some v) in H
  end; cbv beta iota in H; destruct H as (v' & Hg & Hp).

Section Order.
Variable c : codec.
Hypothesis Hok : codec_ok c.

Lemma of_meta_perm : forall md j, jperm (meta_json md) j -> of_meta (Some j) = Ok (norm_meta md).
Proof.
  intros [l|] j Hp; cbn [meta_json] in Hp; [|apply jperm_null in Hp; subst; reflexivity].
  inversion Hp as [| | | | | |? m1 m' Hf Hpm]; subst.
  assert (Hm1 : m1 = map (second JStr) (canon l)).
  { clear Hpm Hp. revert m1 Hf. generalize (canon l). intros l0. induction l0 as [|[k v] r IH]; intros m1 Hf; inversion Hf as [|? [k' v'] ? ? [Hk Hv] Hr]; subst; [reflexivity|].
    cbn [second fst snd map] in *. subst k'. apply jperm_str in Hv. subst v'. f_equal. apply IH. exact Hr. }
  subst m1. cbn [of_meta].
  pose (f := fun kv : string * json => match snd kv with JStr s => Ok (fst kv, s) | JNull => Ok (fst kv, EmptyString) | _ => Err end).
  assert (H1 : mapM f (map (second JStr) (canon l)) = Ok (canon l)).
  { rewrite (mapM_map _ _ _ (second JStr) f (fun kv => kv)); [rewrite map_id; reflexivity|]. intros [k v]. reflexivity. }
  destruct (mapM_perm _ _ f _ _ Hpm _ H1) as (l' & Hl' & Hpl). fold f. rewrite Hl'. cbn [bind norm_meta option_map].
  rewrite (canon_perm _ (canon l) l'); [rewrite canon_idem; reflexivity| |exact Hpl].
  apply sorted_nodup, canon_sorted.
Qed.

Lemma of_ameta_perm : forall am j, jperm (ameta_json am) j -> of_ameta (Some j) = Ok (norm_ameta am).
Proof.
  intros [l|] j Hp; cbn [ameta_json] in Hp; [|apply jperm_null in Hp; subst; reflexivity].
  inversion Hp as [| | | | | |? m1 m' Hf Hpm]; subst. cbn [of_ameta].
  pose (g := fun kv : string * json => do m <- of_meta (Some (snd kv)); Ok (fst kv, m)).
  assert (H1 : mapM g m1 = Ok (map (second norm_meta) (canon l))).
  { clear Hpm Hp. revert m1 Hf. generalize (canon l). intros l0. induction l0 as [|[k v] r IH]; intros m1 Hf; inversion Hf as [|? [k' v'] ? ? [Hk Hv] Hr]; subst; [reflexivity|].
    cbn [second fst snd map mapM] in *. subst k'. unfold g at 1. cbn [fst snd]. rewrite (of_meta_perm _ _ Hv). cbn [bind].
    rewrite (IH _ Hr). reflexivity. }
  destruct (mapM_perm _ _ g _ _ Hpm _ H1) as (l' & Hl' & Hpl). fold g. rewrite Hl'. cbn [bind norm_ameta option_map].
  assert (Hs : sorted (map (second norm_meta) (canon l))) by (apply sorted_map_second, canon_sorted).
  rewrite (canon_perm _ _ l' (sorted_nodup _ _ Hs) Hpl). rewrite sorted_canon_id by exact Hs. reflexivity.
Qed.

Lemma of_posting_perm : forall p j, jperm (posting_json p) j -> of_posting j = Ok p.
Proof.
  intros [s d a x] j Hp. apply jperm_obj_view in Hp; [|reflexivity]. destruct Hp as (m' & -> & V).
  unfold of_posting, str_field, num_field.
  member V k_source v1 G1 P1. member V k_destination v2 G2 P2. member V k_amount v3 G3 P3. member V k_asset v4 G4 P4.
  apply jperm_str in P1, P2, P4. apply jperm_num in P3. subst.
  rewrite G1, G2, G3, G4. reflexivity.
Qed.

Lemma of_postings_perm : forall ps l', Forall2 jperm (map posting_json ps) l' -> mapM of_posting l' = Ok ps.
Proof.
  intros ps. induction ps as [|p r IH]; intros l' Hf; inversion Hf as [|? j ? l2 Hj Hr]; subst; [reflexivity|].
  cbn [mapM]. rewrite (of_posting_perm _ _ Hj). cbn [bind]. rewrite (IH _ Hr). reflexivity.
Qed.

Lemma of_tx_perm : forall t j, jperm (tx_json c t) j -> of_tx c (Some j) = Ok (norm_tx c t).
Proof.
  intros [ps md ts rf id rv] j Hp. unfold tx_json in Hp. cbn [t_postings t_meta t_time t_ref t_id t_reverted] in Hp.
  unfold of_tx, norm_tx, time_field, str_field, num_field. cbn [t_postings t_meta t_time t_ref t_id t_reverted].
  destruct (String.eqb rf EmptyString) eqn:Hrf; [apply String.eqb_eq in Hrf; subst rf|]; cbn [app] in Hp;
    (apply jperm_obj_view in Hp; [|reflexivity]); destruct Hp as (m' & -> & V);
    member V k_postings v1 G1 P1; member V k_metadata v2 G2 P2; member V k_timestamp v3 G3 P3;
    member V k_id v5 G5 P5; member V k_reverted v6 G6 P6;
    apply jperm_str in P3; apply jperm_num in P5; apply jperm_bool in P6; subst;
    rewrite G1, G2, G3, G5, G6.
  - pose proof (V k_reference) as G4. cbv beta in G4.
    match type of G4 with match ?g with _ => _ end => let x := eval cbv in g in change g with x in G4 end.
    cbv beta iota in G4. rewrite G4.
    destruct ps as [ps|].
    + inversion P1 as [| | | | |? l' Hf|]; subst. rewrite (of_postings_perm _ _ Hf). cbn [bind].
      rewrite (of_meta_perm _ _ P2). cbn [bind]. rewrite (proj1 Hok). reflexivity.
    + apply jperm_null in P1. subst. cbn [bind]. rewrite (of_meta_perm _ _ P2). cbn [bind]. rewrite (proj1 Hok). reflexivity.
  - member V k_reference v4 G4 P4. apply jperm_str in P4. subst. rewrite G4.
    destruct ps as [ps|].
    + inversion P1 as [| | | | |? l' Hf|]; subst. rewrite (of_postings_perm _ _ Hf). cbn [bind].
      rewrite (of_meta_perm _ _ P2). cbn [bind]. rewrite (proj1 Hok). reflexivity.
    + apply jperm_null in P1. subst. cbn [bind]. rewrite (of_meta_perm _ _ P2). cbn [bind]. rewrite (proj1 Hok). reflexivity.
Qed.

Lemma hydrate_perm : forall p j, jperm (payload_json c p) j -> hydrate c fixed (kind_of c p) j = Ok (norm_payload c p).
Proof.
  intros [t am|rid t|tg m|tg k] j Hp; cbn [payload_json kind_of] in *;
    (apply jperm_obj_view in Hp; [|reflexivity]); destruct Hp as (m' & -> & V);
    cbn [hydrate v_delmeta fixed norm_payload].
  - member V k_transaction v1 G1 P1. member V k_accountMetadata v2 G2 P2. rewrite G1, G2.
    rewrite (of_tx_perm _ _ P1). cbn [bind]. rewrite (of_ameta_perm _ _ P2). reflexivity.
  - unfold num_field. member V k_revertedTransactionID v1 G1 P1. member V k_transaction v2 G2 P2.
    apply jperm_num in P1. subst. rewrite G1, G2. cbn [bind]. rewrite (of_tx_perm _ _ P2). reflexivity.
  - member V k_metadata v1 G1 P1. rewrite G1, (of_meta_perm _ _ P1). cbn [bind].
    unfold of_target, str_field. member V k_targetType v2 G2 P2. member V k_targetId v3 G3 P3.
    apply jperm_str in P2. subst. rewrite G2. cbn [bind].
    destruct tg as [a|z]; cbn [target_type target_id_json] in *;
      [apply jperm_str in P3|apply jperm_num in P3]; subst; rewrite G3; reflexivity.
  - unfold str_field at 1. member V k_key v1 G1 P1. apply jperm_str in P1. subst. rewrite G1. cbn [bind].
    unfold of_target, str_field. member V k_targetType v2 G2 P2. member V k_targetId v3 G3 P3.
    apply jperm_str in P2. subst. rewrite G2. cbn [bind].
    destruct tg as [a|z]; cbn [target_type target_id_json] in *;
      [apply jperm_str in P3|apply jperm_num in P3]; subst; rewrite G3; reflexivity.
Qed.

(* the stored row read back, whatever the member order of the data column *)
Lemma of_row_perm : forall e data, tutc c (l_date c (e_log c e)) = l_date c (e_log c e) ->
  jperm (r_data c (to_row c e)) data ->
  of_row c fixed {| r_type := r_type c (to_row c e); r_data := data; r_date := r_date c (to_row c e);
                    r_ik := r_ik c (to_row c e); r_id := r_id c (to_row c e); r_hash := r_hash c (to_row c e) |} = Ok (norm c e).
Proof.
  intros [[p d ik] id h] data Hutc Hp. unfold to_row, of_row, norm, norm_log in *.
  cbn [e_log e_id e_hash l_payload l_date l_ik r_type r_data r_date r_ik r_id r_hash] in *.
  rewrite kind_roundtrip, (hydrate_perm _ _ Hp), Hutc. reflexivity.
Qed.

(* and the JSON document of a whole entry *)
Lemma of_json_perm : forall e j, jperm (to_json c e) j -> of_json c fixed j = Ok (norm c e).
Proof.
  intros [[p d ik] id h] j Hp. unfold to_json in Hp. cbn [e_log e_id e_hash l_payload l_date l_ik] in Hp.
  apply jperm_obj_view in Hp; [|reflexivity]. destruct Hp as (m' & -> & V).
  unfold of_json, norm, norm_log, time_field, str_field, num_field. cbn [e_log e_id e_hash l_payload l_date l_ik].
  member V k_type v1 G1 P1. member V k_data v2 G2 P2. member V k_date v3 G3 P3. member V k_idempotencyKey v4 G4 P4.
  member V k_id v5 G5 P5. member V k_hash v6 G6 P6.
  apply jperm_str in P1, P3, P4. apply jperm_num in P5. subst.
  rewrite G1, G2, G3, G4, G5, G6. cbv beta iota. rewrite kind_roundtrip. cbn [bind]. rewrite (proj1 Hok). cbn [bind].
  destruct h as [x|]; cbn [hash_json] in P6; [apply jperm_str in P6|apply jperm_null in P6]; subst;
    [rewrite (proj2 Hok)|]; cbn [bind]; rewrite (hydrate_perm _ _ P2); reflexivity.
Qed.

End Order.

Lemma jperm_refl : forall j, jperm j j.
Proof.
  fix IH 1. intros [| b | z | s | s | l | m]; try constructor.
  - induction l as [|x r IHr]; constructor; [apply IH|exact IHr].
  - apply jp_obj with (m1 := m); [|apply Permutation_refl].
    induction m as [|[k v] r IHr]; constructor; [split; [reflexivity|apply IH]|exact IHr].
Qed.
