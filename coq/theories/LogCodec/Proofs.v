(* Lemmas about the log codec model (LogCodec/Model.v). The property theorems are in Properties/C13.v. *)
From FL Require Import LogCodec.Model.
From Coq Require Import Lia.

(* ---- canonical association lists ---------------------------------------------------------------------- *)
Definition hd_gt {V} (k : string) (l : list (string * V)) : Prop :=
  match l with [] => True | (k', _) :: _ => String.compare k k' = Lt end.
Fixpoint sorted {V} (l : list (string * V)) : Prop :=
  match l with [] => True | (k, _) :: r => hd_gt k r /\ sorted r end.

Lemma compare_gt_lt : forall a b, String.compare a b = Gt -> String.compare b a = Lt.
Proof. intros a b Hc. rewrite String.compare_antisym, Hc. reflexivity. Qed.

Lemma ins_hd_gt : forall V k0 k (v : V) l, hd_gt k0 l -> String.compare k0 k = Lt -> hd_gt k0 (ins k v l).
Proof.
  intros V k0 k v l Hl Hk. destruct l as [|[k' v'] r]; cbn [ins hd_gt]; [exact Hk|].
  destruct (String.compare k k'); cbn [hd_gt]; auto.
Qed.

Lemma ins_sorted : forall V k (v : V) l, sorted l -> sorted (ins k v l).
Proof.
  intros V k v l. induction l as [|[k' v'] r IH]; intros Hs; cbn [ins sorted hd_gt]; [auto|].
  destruct Hs as [Hh Hr].
  destruct (String.compare k k') eqn:Hc; cbn [sorted hd_gt].
  - auto.
  - auto.
  - split; [apply ins_hd_gt; auto using compare_gt_lt | auto].
Qed.

Lemma canon_sorted : forall V (l : list (string * V)), sorted (canon l).
Proof.
  intros V l. induction l as [|[k v] r IH]; cbn [canon fold_right fst snd sorted]; [exact I|].
  apply ins_sorted. exact IH.
Qed.

Lemma sorted_canon_id : forall V (l : list (string * V)), sorted l -> canon l = l.
Proof.
  intros V l. induction l as [|[k v] r IH]; intros Hs; [reflexivity|].
  destruct Hs as [Hh Hr]. unfold canon in *. cbn [fold_right fst snd]. rewrite (IH Hr).
  destruct r as [|[k' v'] r']; [reflexivity|]. cbn [ins hd_gt] in *. rewrite Hh. reflexivity.
Qed.

Lemma canon_idem : forall V (l : list (string * V)), canon (canon l) = canon l.
Proof. intros. apply sorted_canon_id, canon_sorted. Qed.

Lemma sorted_map_second : forall V W (f : V -> W) (l : list (string * V)), sorted l -> sorted (map (second f) l).
Proof.
  intros V W f l. induction l as [|[k v] r IH]; intros Hs; cbn [map sorted second fst snd]; [exact I|].
  destruct Hs as [Hh Hr]. split; [|auto].
  destruct r as [|[k' v'] r']; cbn [map hd_gt second fst snd] in *; auto.
Qed.

Lemma second_eta : forall V (kv : string * V), (fst kv, snd kv) = kv.
Proof. intros V [k v]. reflexivity. Qed.

(* ---- mapM ----------------------------------------------------------------------------------------------- *)
Lemma mapM_map : forall A B C (f : A -> B) (g : B -> res C) (h : A -> C) (l : list A),
  (forall x, g (f x) = Ok (h x)) -> mapM g (map f l) = Ok (map h l).
Proof.
  intros A B C f g h l Hg. induction l as [|x r IH]; cbn [map mapM]; [reflexivity|].
  rewrite Hg. cbn [bind]. rewrite IH. reflexivity.
Qed.

(* ---- constants -------------------------------------------------------------------------------------------- *)
Lemma upper_account : upper s_ACCOUNT = s_ACCOUNT. Proof. reflexivity. Qed.
Lemma upper_transaction : upper s_TRANSACTION = s_TRANSACTION. Proof. reflexivity. Qed.
Lemma kind_roundtrip : forall k, kind_of_string (kind_name k) = Some k.
Proof. destruct k; reflexivity. Qed.

Section Proofs.
Variable c : codec.
Hypothesis Hok : codec_ok c.

Let parse_fmt : forall t, tparse c (tfmt c t) = Some t := proj1 Hok.
Let dec_enc : forall h, hdec c (henc c h) = Some h := proj2 Hok.

(* ---- metadata ----------------------------------------------------------------------------------------------- *)
Lemma of_meta_json : forall m, of_meta (Some (meta_json m)) = Ok (norm_meta m).
Proof.
  intros [l|]; [|reflexivity]. cbn [meta_json of_meta norm_meta option_map].
  rewrite (mapM_map _ _ _ (second JStr) _ (fun kv => kv)).
  - cbn [bind]. rewrite map_id, canon_idem. reflexivity.
  - intros [k v]. reflexivity.
Qed.

Lemma meta_json_norm : forall m, meta_json (norm_meta m) = meta_json m.
Proof. intros [l|]; [|reflexivity]. cbn [norm_meta option_map meta_json]. rewrite canon_idem. reflexivity. Qed.

Lemma norm_meta_idem : forall m, norm_meta (norm_meta m) = norm_meta m.
Proof. intros [l|]; [|reflexivity]. cbn [norm_meta option_map]. rewrite canon_idem. reflexivity. Qed.

Lemma of_ameta_json : forall am, of_ameta (Some (ameta_json am)) = Ok (norm_ameta am).
Proof.
  intros [l|]; [|reflexivity]. cbn [ameta_json of_ameta norm_ameta option_map].
  rewrite (mapM_map _ _ _ (second meta_json) _ (second norm_meta)).
  - cbn [bind]. rewrite sorted_canon_id; [reflexivity|]. apply sorted_map_second, canon_sorted.
  - intros [k v]. unfold second; cbn [fst snd]. rewrite of_meta_json. reflexivity.
Qed.

Lemma ameta_json_norm : forall am, ameta_json (norm_ameta am) = ameta_json am.
Proof.
  intros [l|]; [|reflexivity]. cbn [norm_ameta option_map ameta_json].
  rewrite sorted_canon_id by (apply sorted_map_second, canon_sorted).
  rewrite map_map. f_equal. apply map_ext. intros [k v]. unfold second; cbn [fst snd]. rewrite meta_json_norm. reflexivity.
Qed.

Lemma norm_ameta_idem : forall am, norm_ameta (norm_ameta am) = norm_ameta am.
Proof.
  intros [l|]; [|reflexivity]. cbn [norm_ameta option_map]. f_equal.
  rewrite sorted_canon_id by (apply sorted_map_second, canon_sorted).
  rewrite map_map. apply map_ext. intros [k v]. unfold second; cbn [fst snd]. rewrite norm_meta_idem. reflexivity.
Qed.

(* ---- postings, transaction ------------------------------------------------------------------------------ *)
Lemma of_posting_json : forall p, of_posting (posting_json p) = Ok p.
Proof. intros [s d a x]. reflexivity. Qed.

Lemma of_postings_json : forall ps, mapM of_posting (map posting_json ps) = Ok ps.
Proof.
  intros ps. rewrite (mapM_map _ _ _ posting_json of_posting (fun p => p)); [rewrite map_id; reflexivity|].
  exact of_posting_json.
Qed.

Lemma of_tx_json : forall t, of_tx c (Some (tx_json c t)) = Ok (norm_tx c t).
Proof.
  intros [ps md ts rf id rv]. unfold tx_json, of_tx, norm_tx. cbn [t_postings t_meta t_time t_ref t_id t_reverted].
  destruct (String.eqb rf EmptyString) eqn:Hrf; [apply String.eqb_eq in Hrf; subst rf|];
    cbn [app];
    (destruct ps as [ps|];
     [ change (get k_postings _) with (Some (JArr (map posting_json ps))); cbv beta iota;
       rewrite of_postings_json
     | change (get k_postings _) with (Some JNull); cbv beta iota ]);
    cbn [bind];
    change (get k_metadata _) with (Some (meta_json md)); rewrite of_meta_json; cbn [bind];
    unfold time_field; change (get k_timestamp _) with (Some (JStr (tfmt c ts))); cbv beta iota;
    rewrite parse_fmt; cbn [bind]; reflexivity.
Qed.

Lemma tx_json_norm : forall t, tx_json c (norm_tx c t) = tx_json c t.
Proof. intros t. unfold tx_json, norm_tx. cbn [t_postings t_meta t_time t_ref t_id t_reverted]. rewrite meta_json_norm. reflexivity. Qed.

(* ---- payloads ------------------------------------------------------------------------------------------------ *)
Lemma of_target_set : forall tg md,
  of_target fixed [(k_targetType, JStr (target_type tg)); (k_targetId, target_id_json tg); (k_metadata, md)] = Ok tg.
Proof. intros [a|z] md; reflexivity. Qed.
Lemma of_target_del : forall tg k,
  of_target fixed [(k_targetType, JStr (target_type tg)); (k_targetId, target_id_json tg); (k_key, k)] = Ok tg.
Proof. intros [a|z] k; reflexivity. Qed.

Lemma hydrate_payload_json : forall p, hydrate c fixed (kind_of c p) (payload_json c p) = Ok (norm_payload c p).
Proof.
  intros [t am|rid t|tg m|tg k]; cbn [kind_of payload_json hydrate norm_payload v_delmeta fixed].
  - change (get k_transaction _) with (Some (tx_json c t)). rewrite of_tx_json. cbn [bind].
    change (get k_accountMetadata _) with (Some (ameta_json am)). rewrite of_ameta_json. reflexivity.
  - change (get k_transaction _) with (Some (tx_json c t)). rewrite of_tx_json. reflexivity.
  - change (get k_metadata _) with (Some (meta_json m)). rewrite of_meta_json. cbn [bind].
    rewrite of_target_set. reflexivity.
  - rewrite of_target_del. reflexivity.
Qed.

Lemma payload_json_norm : forall p, payload_json c (norm_payload c p) = payload_json c p.
Proof.
  intros [t am|rid t|tg m|tg k]; cbn [payload_json norm_payload];
    rewrite ?tx_json_norm, ?ameta_json_norm, ?meta_json_norm; reflexivity.
Qed.
Lemma kind_of_norm : forall p, kind_of c (norm_payload c p) = kind_of c p.
Proof. intros [t am|rid t|tg m|tg k]; reflexivity. Qed.

(* ---- entries: the JSON path ------------------------------------------------------------------------------------ *)
Lemma of_json_to_json : forall e, of_json c fixed (to_json c e) = Ok (norm c e).
Proof.
  intros [[p d ik] id h]. unfold to_json, of_json, norm, norm_log. cbn [e_log e_id e_hash l_payload l_date l_ik].
  change (get k_type _) with (Some (JStr (kind_name (kind_of c p)))). cbv beta iota.
  rewrite kind_roundtrip. cbn [bind].
  unfold time_field. change (get k_date _) with (Some (JStr (tfmt c d))). cbv beta iota. rewrite parse_fmt. cbn [bind].
  change (str_field k_idempotencyKey _) with (@Ok string ik). cbn [bind].
  change (num_field k_id _) with (@Ok Z id). cbn [bind].
  change (get k_hash _) with (Some (hash_json c h)).
  change (get k_data _) with (Some (payload_json c p)).
  destruct h as [x|]; cbn [hash_json]; [rewrite dec_enc|]; cbn [bind]; rewrite hydrate_payload_json; reflexivity.
Qed.

Lemma to_json_norm : forall e, to_json c (norm c e) = to_json c e.
Proof.
  intros [[p d ik] id h]. unfold to_json, norm, norm_log. cbn [e_log e_id e_hash l_payload l_date l_ik].
  rewrite payload_json_norm, kind_of_norm. reflexivity.
Qed.

Lemma norm_idem : forall e, norm c (norm c e) = norm c e.
Proof.
  intros [[p d ik] id h]. unfold norm, norm_log. cbn [e_log e_id e_hash l_payload l_date l_ik]. do 2 f_equal.
  destruct p as [t am|rid t|tg m|tg k]; cbn [norm_payload]; try reflexivity.
  - destruct t; unfold norm_tx; cbn. rewrite norm_meta_idem, norm_ameta_idem. reflexivity.
  - destruct t; unfold norm_tx; cbn. rewrite norm_meta_idem. reflexivity.
  - rewrite norm_meta_idem. reflexivity.
Qed.

(* ---- entries: the stored row ------------------------------------------------------------------------------------ *)
Lemma of_row_to_row : forall e, tutc c (l_date c (e_log c e)) = l_date c (e_log c e) ->
  of_row c fixed (to_row c e) = Ok (norm c e).
Proof.
  intros [[p d ik] id h] Hutc. unfold to_row, of_row, norm, norm_log in *.
  cbn [e_log e_id e_hash l_payload l_date l_ik r_type r_data r_date r_ik r_id r_hash] in *.
  rewrite kind_roundtrip, hydrate_payload_json, Hutc. reflexivity.
Qed.

(* ---- hashing ------------------------------------------------------------------------------------------------------ *)
Lemma hash_input_norm : forall prev l,
  hash_input c (option_map (norm c) prev) (norm_log c l) = hash_input c prev l.
Proof.
  intros prev l. unfold hash_input, hash_input_json. f_equal. f_equal.
  - destruct prev as [p|]; reflexivity.
  - f_equal. exact (to_json_norm {| e_log := l; e_id := 0; e_hash := None |}).
Qed.

Lemma chain_log_norm : forall prev l,
  chain_log c (option_map (norm c) prev) (norm_log c l) = norm c (chain_log c prev l).
Proof.
  intros prev l. unfold chain_log. rewrite hash_input_norm. unfold norm. cbn [e_log e_id e_hash].
  f_equal. destruct prev as [p|]; reflexivity.
Qed.

Definition readback (e : entry c) : res (entry c) := of_json c fixed (to_json c e).
Definition readback_opt (p : option (entry c)) : res (option (entry c)) :=
  match p with None => Ok None | Some e => do e' <- readback e; Ok (Some e') end.

Lemma readback_opt_norm : forall p, readback_opt p = Ok (option_map (norm c) p).
Proof. intros [e|]; [|reflexivity]. unfold readback_opt, readback. rewrite of_json_to_json. reflexivity. Qed.

Lemma rehash : forall prev l,
  exists e', readback (chain_log c prev l) = Ok e' /\
             e_hash c e' = e_hash c (chain_log c prev l) /\ e_id c e' = e_id c (chain_log c prev l) /\
             forall prev', readback_opt prev = Ok prev' -> chain_log c prev' (e_log c e') = e'.
Proof.
  intros prev l. exists (norm c (chain_log c prev l)). unfold readback. rewrite of_json_to_json.
  repeat split. intros prev' Hp. rewrite readback_opt_norm in Hp. injection Hp as <-.
  change (e_log c (norm c (chain_log c prev l))) with (norm_log c l). apply chain_log_norm.
Qed.

Lemma chain_readback : forall ls prev,
  mapM readback (chain_logs c prev ls) = Ok (map (norm c) (chain_logs c prev ls)) /\
  verified c (option_map (norm c) prev) (map (norm c) (chain_logs c prev ls)).
Proof.
  induction ls as [|l r IH]; intros prev; cbn [chain_logs mapM map verified]; [auto|].
  destruct (IH (Some (chain_log c prev l))) as [IH1 IH2]. split.
  - unfold readback at 1. rewrite of_json_to_json. cbn [bind]. rewrite IH1. reflexivity.
  - split; [|exact IH2].
    change (e_log c (norm c (chain_log c prev l))) with (norm_log c l). apply chain_log_norm.
Qed.

Lemma chain_hashes : forall ls prev,
  map (e_hash c) (map (norm c) (chain_logs c prev ls)) = map (e_hash c) (chain_logs c prev ls).
Proof. intros. rewrite map_map. apply map_ext. intros e. reflexivity. Qed.

Lemma chain : forall ls,
  exists es', mapM readback (chain_logs c None ls) = Ok es' /\ verified c None es' /\
              map (e_hash c) es' = map (e_hash c) (chain_logs c None ls) /\
              map (e_id c) es' = map (e_id c) (chain_logs c None ls).
Proof.
  intros ls. exists (map (norm c) (chain_logs c None ls)).
  destruct (chain_readback ls None) as [H1 H2]. repeat split; auto using chain_hashes.
  rewrite map_map. apply map_ext. reflexivity.
Qed.

(* the same through the stored rows, for logs dated in UTC (every log the commander writes is dated Now()) *)
Lemma chain_rows : forall ls, Forall (fun l => tutc c (l_date c l) = l_date c l) ls ->
  forall prev, mapM (fun e => of_row c fixed (to_row c e)) (chain_logs c prev ls) = Ok (map (norm c) (chain_logs c prev ls)).
Proof.
  induction 1 as [|l r Hl Hr IH]; intros prev; cbn [chain_logs mapM map]; [reflexivity|].
  rewrite of_row_to_row by exact Hl. cbn [bind]. rewrite IH. reflexivity.
Qed.

End Proofs.

(* ---- the tree before the repairs --------------------------------------------------------------------------------- *)
Definition sample_time : string := "2023-01-01T00:00:00Z"%string.
Definition del_entry (tg : target) : entry text_codec :=
  chain_log text_codec None {| l_payload := PDelMeta text_codec tg "k"%string; l_date := sample_time; l_ik := EmptyString |}.
Definition setmeta_entry (tg : target) : entry text_codec :=
  chain_log text_codec None {| l_payload := PSetMeta text_codec tg (Some []); l_date := sample_time; l_ik := EmptyString |}.

(* stated through booleans so that vm_compute evaluates the decoders and never has to normalise the codec itself *)
Lemma legacy_delmeta_panics :
  is_panic (of_json text_codec legacy (to_json text_codec (del_entry (TAccount "acc"%string)))) = true /\
  is_panic (of_json text_codec legacy (to_json text_codec (del_entry (TTx 1)))) = true /\
  is_panic (of_row text_codec legacy (to_row text_codec (del_entry (TAccount "acc"%string)))) = true /\
  res_eqb entry_eqb (of_json text_codec fixed (to_json text_codec (del_entry (TTx 1)))) (Ok (del_entry (TTx 1))) = true.
Proof. vm_compute. auto. Qed.

Lemma legacy_bigid_fails :
  is_err (of_json text_codec legacy (to_json text_codec (setmeta_entry (TTx two64)))) = true /\
  is_panic (of_row text_codec legacy (to_row text_codec (setmeta_entry (TTx two64)))) = true /\
  res_eqb entry_eqb (of_json text_codec legacy (to_json text_codec (setmeta_entry (TTx (two64 - 1)))))
                    (Ok (setmeta_entry (TTx (two64 - 1)))) = true /\
  res_eqb entry_eqb (of_json text_codec fixed (to_json text_codec (setmeta_entry (TTx two64))))
                    (Ok (setmeta_entry (TTx two64))) = true.
Proof. vm_compute. auto. Qed.

Lemma text_codec_ok : codec_ok text_codec.
Proof. split; reflexivity. Qed.
