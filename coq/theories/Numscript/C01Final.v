(* C01 — end-to-end corollaries: the floor against the store balances ResolveBalances read, the pipeline
   statement over [sem_pipeline], the rejection theorems. *)
From FL Require Import Numscript.C01Spec Numscript.C01Funding Numscript.C01Inv Numscript.C01Proofs.
From Coq Require Import Lia.
Open Scope Z_scope.

(* ---- the floor (all scripts, all variable environments, all balance tables) ------------------------------- *)
Theorem sem_floor : forall sc ve b extra r,
  sem sc ve b extra = SOk r -> floor_ok (grant sc ve) (init b) (res_posts r).
Proof. intros. eapply sem_floor_and_tracked; eauto. Qed.

(* every part of every posting comes from an (account, asset) pair of the initial table *)
Theorem sem_sources_tracked : forall sc ve b extra r,
  sem sc ve b extra = SOk r -> Forall (fun p => tracked_in b (p_src p) (p_asset p)) (res_posts r).
Proof. intros. eapply sem_floor_and_tracked; eauto. Qed.

(* ---- ResolveBalances yields a snapshot of the store -------------------------------------------------------- *)
Lemma needed_assets_snapshot : forall vals s a assets b b',
  snapshot_of s b -> needed_assets vals s a assets b = Done b' -> snapshot_of s b'.
Proof.
  intros vals s a assets. induction assets as [|x_a rest IH]; intros b b' S H; cbn [needed_assets] in H.
  - inversion H; subst. exact S.
  - destruct (asset_of_value (nth_error vals x_a)) as [x| |]; cbn [bind] in H; try discriminate.
    eapply IH; [|exact H]. intros a' x' z Hg. rewrite bal_get_set in Hg.
    destruct (N.eqb a' a && N.eqb x' x) eqn:K; [|apply S; exact Hg].
    apply key_eq in K. destruct K; subst a' x'. inversion Hg; subst. reflexivity.
Qed.

Lemma resolve_balances_snapshot : forall vals s needed b b',
  snapshot_of s b -> resolve_balances needed vals s b = Done b' -> snapshot_of s b'.
Proof.
  intros vals s needed. induction needed as [|[acc_a assets] rest IH]; intros b b' S H; cbn [resolve_balances] in H.
  - inversion H; subst. exact S.
  - destruct (as_account (nth_error vals acc_a)) as [a| |]; cbn [bind] in H; try discriminate.
    destruct (needed_assets vals s a assets b) as [b1| |] eqn:E; cbn [bind] in H; try discriminate.
    eapply IH; [|exact H]. eapply needed_assets_snapshot; eauto.
Qed.

Lemma snapshot_nil : forall s, snapshot_of s [].
Proof. intros s a x z H. discriminate. Qed.

(* ---- the floor against the store --------------------------------------------------------------------------- *)
Lemma floor_ok_ext : forall g b0 b1 ps, floor_ok g b0 ps ->
  (forall p, In p ps -> p_src p <> world -> b0 (p_src p) (p_asset p) = b1 (p_src p) (p_asset p)) ->
  floor_ok g b1 ps.
Proof.
  intros g b0 b1 ps F E l1 p l2 EQ W. specialize (F l1 p l2 EQ W).
  unfold running in *. rewrite <- E; auto. subst ps. apply in_or_app. right. left. reflexivity.
Qed.

Theorem sem_floor_store : forall sc ve b extra r s,
  sem sc ve b extra = SOk r -> snapshot_of s b ->
  floor_ok (grant sc ve) (store_balance s) (res_posts r).
Proof.
  intros sc ve b extra r s H S. destruct (sem_floor_and_tracked _ _ _ _ _ H) as [F T].
  eapply floor_ok_ext; [exact F|]. intros p Hin W. rewrite Forall_forall in T. specialize (T p Hin).
  unfold tracked_in in T. unfold init, mbz.
  destruct (bal_get b (p_src p) (p_asset p)) as [z|] eqn:EB; [|congruence].
  rewrite (S _ _ _ EB). destruct (N.eqb (p_src p) world) eqn:EW; [apply N.eqb_eq in EW; congruence|reflexivity].
Qed.

(* the pipeline of Corr.v: resolve resources, fill balance() variables, ResolveBalances, then [sem] *)
Theorem sem_pipeline_floor : forall sc p vars s extra r,
  sem_pipeline sc p vars s extra = Done r ->
  exists vs rr vals b,
    vars = Some vs /\
    resolve_resources (p_res p) vs s {| r_vals := []; r_involved := []; r_pending := [] |} = Done rr /\
    fill_pending (r_pending rr) s (r_vals rr) = Done vals /\
    resolve_balances (p_needed p) vals s [] = Done b /\
    sem sc (venv_of p vals) b extra = SOk r /\
    snapshot_of s b /\
    floor_ok (grant sc (venv_of p vals)) (store_balance s) (res_posts r) /\
    floor_ok (grant sc (venv_of p vals)) (init b) (res_posts r) /\
    Forall (fun q => tracked_in b (p_src q) (p_asset q)) (res_posts r).
Proof.
  intros sc p vars s extra r H. unfold sem_pipeline in H. destruct vars as [vs|]; [|discriminate].
  destruct (resolve_resources (p_res p) vs s _) as [rr| |] eqn:E1; cbn [bind] in H; try discriminate.
  destruct (fill_pending (r_pending rr) s (r_vals rr)) as [vals| |] eqn:E2; cbn [bind] in H; try discriminate.
  destruct (resolve_balances (p_needed p) vals s []) as [b| |] eqn:E3; cbn [bind] in H; try discriminate.
  destruct (sem sc (venv_of p vals) b extra) as [res|] eqn:E4; [|discriminate]. inversion H; subst res.
  pose proof (resolve_balances_snapshot _ _ _ _ _ (snapshot_nil s) E3) as S.
  exists vs, rr, vals, b. repeat split; auto.
  - eapply sem_floor_store; eauto.
  - eapply sem_floor; eauto.
  - eapply sem_sources_tracked; eauto.
Qed.

(* ---- rejection --------------------------------------------------------------------------------------------- *)
(* by typing: an error outcome carries no result, hence no postings *)
Theorem sem_reject : forall sc ve b extra,
  sem sc ve b extra = SErr EInsufficient -> forall r, sem sc ve b extra <> SOk r.
Proof. intros sc ve b extra H r. rewrite H. discriminate. Qed.

Lemma take_single : forall A a w n, 0 <= w -> 0 <= n ->
  (take {| f_asset := A; f_parts := [(a, w)] |} n = None <-> w < n).
Proof.
  intros A a w n Hw Hn. unfold take; cbn [f_parts f_asset take_loop].
  destruct (0 <? n) eqn:E1.
  - apply Z.ltb_lt in E1. destruct (n <? w) eqn:E2.
    + apply Z.ltb_lt in E2. cbn. split; [discriminate|lia].
    + apply Z.ltb_ge in E2. cbn. destruct (n - w =? 0) eqn:E3.
      * apply Z.eqb_eq in E3. split; [discriminate|lia].
      * apply Z.eqb_neq in E3. split; [lia|reflexivity].
  - apply Z.ltb_ge in E1. assert (n = 0) by lia. subst. cbn. split; [discriminate|lia].
Qed.

Lemma do_repay_err : forall st f e, do_repay st f = SErr e -> e = EResolveOther.
Proof. intros st f e H. unfold do_repay in H. destruct (repay _ _ _); inversion H; reflexivity. Qed.

(* a single-source send without overdraft is refused for lack of funds exactly when the balance is short *)
Theorem sem_reject_exact : forall vars ea ed A n a d ve b extra z,
  eval_account ve ea = SOk a -> is_world_lit ea = false -> eval_account ve ed = SOk d ->
  bal_get b a A = Some z -> 0 <= n ->
  sem {| s_vars := vars;
         s_stmts := [StSend (SendMon (ELitMonetary (ELitAsset A) n)) (VSrc (SAccount ea OvNone)) (DAccount ed)] |}
      ve b extra = SErr EInsufficient
  <-> Z.max 0 z < n.
Proof.
  intros vars ea ed A n a d ve b extra z Ea Ew Ed EB Hn.
  unfold sem; cbn [s_stmts sem_stmts sem_stmt]. unfold sem_send.
  cbn [lead_asset eval_monetary eval sbind sem_source fallback_of]. rewrite Ea, Ew. cbn [sbind].
  unfold withdraw_all; cbn [s_bals]. rewrite EB.
  set (w := Z.max 0 z).
  assert (Hw : 0 <= w) by (unfold w; lia).
  assert (EF : exists st1, (if 0 <? z + 0
                 then Some ({| f_asset := A; f_parts := [(a, z + 0)] |}, bal_set b a A (- 0))
                 else Some ({| f_asset := A; f_parts := [(a, 0)] |}, b))
               = Some ({| f_asset := A; f_parts := [(a, w)] |}, st1)).
  { destruct (0 <? z + 0) eqn:E0.
    - apply Z.ltb_lt in E0. assert (W1 : w = z + 0) by (unfold w; lia). rewrite W1. eauto.
    - apply Z.ltb_ge in E0. assert (W0 : w = 0) by (unfold w; lia). rewrite W0. eauto. }
  destruct EF as [b1 EF]. rewrite EF. cbn [sbind]. unfold take_from. cbn [f_asset]. rewrite N.eqb_refl. cbn [negb].
  pose proof (take_single A a w n Hw Hn) as TS.
  destruct (take {| f_asset := A; f_parts := [(a, w)] |} n) as [[res rem]|] eqn:ET.
  - (* funds suffice: whatever happens next, it is not "insufficient funds" *)
    assert (NL : ~ w < n) by (intros L; apply TS in L; discriminate).
    split; [|intros L; contradiction]. intros H. exfalso.
    assert (Gf : fgood (fun _ _ => True) {| f_asset := A; f_parts := [(a, w)] |}).
    { unfold fgood; cbn. repeat constructor. cbn. exact Hw. }
    destruct (take_good _ _ _ _ _ Gf ET) as [Gres _].
    match type of H with context [do_repay ?s0 rem] => destruct (do_repay s0 rem) as [st1|e1] eqn:ER end;
      cbn [sbind] in H; [|apply do_repay_err in ER; subst; discriminate].
    cbn [sem_dest] in H. destruct (take_total_some _ _ Gres) as (r2 & m2 & ET2). rewrite ET2 in H.
    rewrite Ed in H. cbn [sbind] in H.
    match type of H with context [do_repay ?s0 m2] => destruct (do_repay s0 m2) as [st2|e2] eqn:ER2 end;
      cbn [sbind] in H; [|apply do_repay_err in ER2; subst; discriminate].
    unfold sem_finish in H. match type of H with (if ?c then _ else _) = _ => destruct c end; discriminate.
  - cbn [sbind]. split; [intros _; apply TS; reflexivity|reflexivity].
Qed.
