(* C01 — lemmas about the funding primitives (Funding.v) and the balance table (VM.v) used by the floor proof:
   what an account holds inside a funding ([pa], [hp], [held]) is preserved by take / take_max / concat / assemble /
   reverse; parts stay non-negative and keep their accounts. Local copies (prefix-free, file-local use). *)
From FL Require Import Numscript.C01Spec.
From Coq Require Import Lia.
Open Scope Z_scope.

(* ---- what account [a] holds in a list of parts / a funding of asset [s] / a list of fundings ----------- *)
Fixpoint pa (a : account) (ps : list part) : Z :=
  match ps with [] => 0 | p :: r => (if N.eqb (fst p) a then snd p else 0) + pa a r end.
Definition hp (a : account) (s : asset) (f : funding) : Z :=
  if N.eqb (f_asset f) s then pa a (f_parts f) else 0.
Fixpoint held (a : account) (s : asset) (fs : list funding) : Z :=
  match fs with [] => 0 | f :: r => hp a s f + held a s r end.

(* a part is good: non-negative amount, account satisfying T *)
Definition pgood (T : account -> Prop) (p : part) : Prop := 0 <= snd p /\ T (fst p).

Lemma pa_app : forall a l1 l2, pa a (l1 ++ l2) = pa a l1 + pa a l2.
Proof. induction l1; intros; cbn [pa app]; [reflexivity|rewrite IHl1; lia]. Qed.

Lemma pa_rev : forall a l, pa a (rev l) = pa a l.
Proof. induction l; cbn [rev pa]; [reflexivity|]. rewrite pa_app, IHl. cbn [pa]. lia. Qed.

Lemma pa_nonneg : forall T a l, Forall (pgood T) l -> 0 <= pa a l.
Proof.
  induction 1 as [|p l [Hp _] _ IH]; cbn [pa]; [lia|]. destruct (N.eqb (fst p) a); lia.
Qed.

Lemma total_parts_nonneg : forall T l, Forall (pgood T) l -> 0 <= total_parts l.
Proof. induction 1 as [|p l [Hp _] _ IH]; cbn [total_parts fold_right]; [lia|]. fold (total_parts l). lia. Qed.

Lemma pa_le_total : forall T a l, Forall (pgood T) l -> pa a l <= total_parts l.
Proof.
  induction 1 as [|p l [Hp _] _ IH]; cbn [pa total_parts fold_right]; [lia|]. fold (total_parts l).
  destruct (N.eqb (fst p) a); lia.
Qed.

Lemma held_app : forall a s l1 l2, held a s (l1 ++ l2) = held a s l1 + held a s l2.
Proof. induction l1; intros; cbn [held app]; [reflexivity|rewrite IHl1; lia]. Qed.

(* ---- take_loop / take / take_max ---------------------------------------------------------------------- *)
Lemma take_loop_pa : forall a ps rem t r m, take_loop rem ps = (t, r, m) -> pa a t + pa a r = pa a ps.
Proof.
  induction ps as [|[a0 amt] rest IH]; intros rem t r m H; cbn [take_loop] in H.
  - inversion H; subst; reflexivity.
  - destruct (0 <? rem) eqn:E1.
    + destruct (rem <? amt) eqn:E2.
      * inversion H; subst. cbn [pa fst snd]. destruct (N.eqb a0 a); lia.
      * destruct (take_loop (rem - amt) rest) as [[t1 r1] m1] eqn:E3. inversion H; subst.
        cbn [pa fst snd]. specialize (IH _ _ _ _ E3). lia.
    + inversion H; subst. cbn [pa]. lia.
Qed.

Lemma take_loop_good : forall T ps rem t r m, Forall (pgood T) ps -> take_loop rem ps = (t, r, m) ->
  Forall (pgood T) t /\ Forall (pgood T) r.
Proof.
  induction ps as [|[a0 amt] rest IH]; intros rem t r m G H; cbn [take_loop] in H.
  - inversion H; subst; split; constructor.
  - inversion G as [|? ? [G1 G2] G3]; subst. cbn [fst snd] in *.
    destruct (0 <? rem) eqn:E1.
    + destruct (rem <? amt) eqn:E2.
      * inversion H; subst. apply Z.ltb_lt in E1. apply Z.ltb_lt in E2.
        split; repeat constructor; cbn [fst snd]; auto; lia.
      * destruct (take_loop (rem - amt) rest) as [[t1 r1] m1] eqn:E3. inversion H; subst.
        destruct (IH _ _ _ _ G3 E3) as [I1 I2]. split; auto. constructor; auto. split; auto.
    + inversion H; subst. split; [constructor|exact G].
Qed.

(* taking the total of non-negative parts always succeeds *)
Lemma take_loop_total : forall T ps, Forall (pgood T) ps ->
  exists t r, take_loop (total_parts ps) ps = (t, r, 0).
Proof.
  induction ps as [|[a0 amt] rest IH]; intros G.
  - exists [], []. reflexivity.
  - inversion G as [|? ? [G1 _] G3]; subst. cbn [fst snd] in *.
    pose proof (total_parts_nonneg _ _ G3) as Hn.
    cbn [total_parts fold_right snd]. fold (total_parts rest). cbn [take_loop].
    destruct (0 <? amt + total_parts rest) eqn:E1.
    + destruct (amt + total_parts rest <? amt) eqn:E2; [apply Z.ltb_lt in E2; lia|].
      replace (amt + total_parts rest - amt) with (total_parts rest) by lia.
      destruct (IH G3) as (t & r & E). rewrite E. eauto.
    + apply Z.ltb_ge in E1. replace (amt + total_parts rest) with 0 by lia. eauto.
Qed.

Definition fgood (Tr : account -> asset -> Prop) (f : funding) : Prop :=
  Forall (pgood (fun a => Tr a (f_asset f))) (f_parts f).

Lemma hp_nonneg : forall Tr a s f, fgood Tr f -> 0 <= hp a s f.
Proof. intros. unfold hp. destruct (N.eqb (f_asset f) s); [eapply pa_nonneg; eauto|lia]. Qed.

Lemma held_nonneg : forall Tr a s fs, Forall (fgood Tr) fs -> 0 <= held a s fs.
Proof. induction 1; cbn [held]; [lia|]. pose proof (hp_nonneg _ a s _ H). lia. Qed.

Lemma total_nonneg : forall Tr f, fgood Tr f -> 0 <= total f.
Proof. intros. eapply total_parts_nonneg; eauto. Qed.

Lemma take_hp : forall f n res rem, take f n = Some (res, rem) ->
  forall a s, hp a s res + hp a s rem = hp a s f.
Proof.
  intros f n res rem H a s. unfold take in H.
  destruct (take_loop n (f_parts f)) as [[t r] m] eqn:E.
  destruct (m =? 0); [|discriminate]. inversion H; subst; clear H.
  unfold hp; cbn [f_asset f_parts]. destruct (N.eqb (f_asset f) s); [|reflexivity].
  rewrite pa_app. pose proof (take_loop_pa a _ _ _ _ _ E) as P.
  match goal with |- pa a ?z + _ + _ = _ => assert (Z0 : pa a z = 0) end.
  { clear P E. destruct (f_parts f) as [|[a0 x] ?]; [reflexivity|].
    destruct (n =? 0) eqn:En; [|reflexivity]. apply Z.eqb_eq in En. subst.
    cbn [pa fst snd]. destruct (N.eqb a0 a); reflexivity. }
  lia.
Qed.

Lemma take_good : forall Tr f n res rem, fgood Tr f -> take f n = Some (res, rem) -> fgood Tr res /\ fgood Tr rem.
Proof.
  intros Tr f n res rem G H. unfold take in H.
  destruct (take_loop n (f_parts f)) as [[t r] m] eqn:E.
  destruct (m =? 0); [|discriminate]. inversion H; subst; clear H.
  destruct (take_loop_good _ _ _ _ _ _ G E) as [G1 G2].
  unfold fgood; cbn [f_asset f_parts]. split; [|exact G2].
  apply Forall_app. split; [|exact G1].
  unfold fgood in G. destruct (f_parts f) as [|[a0 x] ?]; [constructor|].
  destruct (n =? 0) eqn:En; [|constructor]. apply Z.eqb_eq in En. subst.
  inversion G as [|? ? [_ G0] _]; subst. repeat constructor; auto. cbn; lia.
Qed.

Lemma take_asset : forall f n res rem, take f n = Some (res, rem) -> f_asset res = f_asset f /\ f_asset rem = f_asset f.
Proof.
  intros f n res rem H. unfold take in H.
  destruct (take_loop n (f_parts f)) as [[t r] m]. destruct (m =? 0); [|discriminate].
  inversion H; subst; auto.
Qed.

Lemma take_total_some : forall Tr f, fgood Tr f -> exists res rem, take f (total f) = Some (res, rem).
Proof.
  intros Tr f G. unfold take, total. destruct (take_loop_total _ _ G) as (t & r & E). rewrite E.
  cbn. eauto.
Qed.

Lemma take_max_hp : forall f n res rem, take_max f n = (res, rem) ->
  forall a s, hp a s res + hp a s rem = hp a s f.
Proof.
  intros f n res rem H a s. unfold take_max in H.
  destruct (take_loop n (f_parts f)) as [[t r] m] eqn:E. inversion H; subst; clear H.
  unfold hp; cbn [f_asset f_parts]. destruct (N.eqb (f_asset f) s); [|reflexivity].
  exact (take_loop_pa a _ _ _ _ _ E).
Qed.

Lemma take_max_good : forall Tr f n res rem, fgood Tr f -> take_max f n = (res, rem) -> fgood Tr res /\ fgood Tr rem.
Proof.
  intros Tr f n res rem G H. unfold take_max in H.
  destruct (take_loop n (f_parts f)) as [[t r] m] eqn:E. inversion H; subst; clear H.
  exact (take_loop_good _ _ _ _ _ _ G E).
Qed.

(* ---- concat / assemble / reverse ----------------------------------------------------------------------- *)
Lemma concat_parts_cons2 : forall p q r l2, concat_parts (p :: q :: r) l2 = p :: concat_parts (q :: r) l2.
Proof. intros [a x] q r l2. reflexivity. Qed.

Lemma concat_parts_pa : forall a l1 l2, pa a (concat_parts l1 l2) = pa a l1 + pa a l2.
Proof.
  induction l1 as [|[a0 x] r1 IH]; intros l2; [reflexivity|].
  destruct r1 as [|q r1'].
  - cbn [concat_parts]. destruct l2 as [|[b y] r2]; [cbn [pa]; lia|].
    destruct (N.eqb a0 b) eqn:E.
    + apply N.eqb_eq in E. subst. cbn [pa fst snd]. destruct (N.eqb b a); lia.
    + cbn [pa fst snd]. lia.
  - rewrite concat_parts_cons2. cbn [pa]. rewrite IH. cbn [pa]. lia.
Qed.

Lemma concat_parts_good : forall T l1 l2, Forall (pgood T) l1 -> Forall (pgood T) l2 -> Forall (pgood T) (concat_parts l1 l2).
Proof.
  induction l1 as [|[a0 x] r1 IH]; intros l2 G1 G2; [exact G2|].
  inversion G1 as [|? ? [Gx Ga] Gr]; subst. cbn [fst snd] in *.
  destruct r1 as [|q r1'].
  - cbn [concat_parts]. destruct l2 as [|[b y] r2]; [exact G1|].
    inversion G2 as [|? ? [Gy Gb] Gr2]; subst. cbn [fst snd] in *.
    destruct (N.eqb a0 b) eqn:E.
    + constructor; auto. split; cbn [fst snd]; auto. lia.
    + constructor; auto. split; auto.
  - rewrite concat_parts_cons2. constructor; [split; auto|]. apply IH; auto.
Qed.

Definition sum_pa (a : account) (fs : list funding) : Z := fold_right (fun f z => pa a (f_parts f) + z) 0 fs.

Lemma fold_concat_pa : forall a fs acc,
  pa a (fold_left (fun acc f => concat_parts acc (f_parts f)) fs acc) = pa a acc + sum_pa a fs.
Proof.
  induction fs as [|f fs IH]; intros acc; cbn [fold_left sum_pa fold_right]; [lia|].
  rewrite IH, concat_parts_pa. fold (sum_pa a fs). lia.
Qed.

Lemma fold_concat_good : forall T fs acc, Forall (pgood T) acc -> Forall (fun f => Forall (pgood T) (f_parts f)) fs ->
  Forall (pgood T) (fold_left (fun acc f => concat_parts acc (f_parts f)) fs acc).
Proof.
  induction fs as [|f fs IH]; intros acc Ga Gf; cbn [fold_left]; [exact Ga|].
  inversion Gf; subst. apply IH; auto. apply concat_parts_good; auto.
Qed.

Lemma held_same_asset : forall a s x fs, Forall (fun f => f_asset f = x) fs ->
  held a s fs = if N.eqb x s then sum_pa a fs else 0.
Proof.
  induction 1 as [|f fs Hf _ IH]; cbn [held sum_pa fold_right]; [destruct (N.eqb x s); reflexivity|].
  fold (sum_pa a fs). unfold hp. rewrite Hf, IH. destruct (N.eqb x s); lia.
Qed.

Lemma assemble_spec : forall fs r, assemble fs = SOk r ->
  Forall (fun f => f_asset f = f_asset r) fs /\
  f_parts r = fold_left (fun acc f => concat_parts acc (f_parts f)) fs [].
Proof.
  intros fs r H. unfold assemble in H. destruct (rev fs) as [|last ?]; [discriminate|].
  destruct (forallb (fun f => N.eqb (f_asset f) (f_asset last)) fs) eqn:E; [|discriminate].
  inversion H; subst; clear H. cbn [f_asset f_parts]. split; [|reflexivity].
  apply Forall_forall. intros f Hin. rewrite forallb_forall in E. apply N.eqb_eq. auto.
Qed.

Lemma assemble_held : forall fs r, assemble fs = SOk r -> forall a s, hp a s r = held a s fs.
Proof.
  intros fs r H a s. destruct (assemble_spec _ _ H) as [HA HP].
  rewrite (held_same_asset a s _ _ HA). unfold hp. rewrite HP, fold_concat_pa. cbn [pa].
  destruct (N.eqb (f_asset r) s); lia.
Qed.

Lemma assemble_good : forall Tr fs r, assemble fs = SOk r -> Forall (fgood Tr) fs -> fgood Tr r.
Proof.
  intros Tr fs r H G. destruct (assemble_spec _ _ H) as [HA HP].
  unfold fgood. rewrite HP. apply fold_concat_good; [constructor|].
  rewrite Forall_forall in *. intros f Hin. specialize (G f Hin). specialize (HA f Hin).
  unfold fgood in G. rewrite HA in G. exact G.
Qed.

Lemma freverse_hp : forall a s f, hp a s (freverse f) = hp a s f.
Proof. intros. unfold hp, freverse; cbn [f_asset f_parts]. rewrite pa_rev. reflexivity. Qed.

Lemma freverse_good : forall Tr f, fgood Tr f -> fgood Tr (freverse f).
Proof. intros Tr f G. unfold fgood, freverse in *; cbn [f_asset f_parts]. apply Forall_rev. exact G. Qed.

(* ---- the balance table ---------------------------------------------------------------------------------- *)
Lemma bal_get_set : forall b a s z a' s',
  bal_get (bal_set b a s z) a' s' = if N.eqb a' a && N.eqb s' s then Some z else bal_get b a' s'.
Proof.
  induction b as [|[[a1 s1] z1] b IH]; intros a s z a' s'; cbn [bal_set bal_get].
  - reflexivity.
  - destruct (N.eqb a a1 && N.eqb s s1) eqn:E.
    + apply andb_true_iff in E. destruct E as [E1 E2]. apply N.eqb_eq in E1. apply N.eqb_eq in E2. subst.
      cbn [bal_get]. destruct (N.eqb a' a1 && N.eqb s' s1); reflexivity.
    + cbn [bal_get]. rewrite IH.
      destruct (N.eqb a' a1 && N.eqb s' s1) eqn:E2; [|reflexivity].
      apply andb_true_iff in E2. destruct E2 as [E3 E4]. apply N.eqb_eq in E3. apply N.eqb_eq in E4.
      rewrite E3, E4, (N.eqb_sym a1 a), (N.eqb_sym s1 s), E. reflexivity.
Qed.

Lemma mbz_set : forall b a s z a' s',
  mbz (bal_set b a s z) a' s' = if N.eqb a' a && N.eqb s' s then z else mbz b a' s'.
Proof. intros. unfold mbz. rewrite bal_get_set. destruct (N.eqb a' a && N.eqb s' s); reflexivity. Qed.

Lemma has_account_get : forall b a s z, bal_get b a s = Some z -> bal_has_account b a = true.
Proof.
  induction b as [|[[a1 s1] z1] b IH]; intros a s z H; cbn [bal_get] in H; [discriminate|].
  cbn [bal_has_account existsb fst]. destruct (N.eqb a a1); [reflexivity|]. cbn [andb orb] in *.
  exact (IH _ _ _ H).
Qed.

Lemma get_has_account : forall b a, bal_has_account b a = true -> exists s z, bal_get b a s = Some z.
Proof.
  induction b as [|[[a1 s1] z1] b IH]; intros a H; cbn [bal_has_account existsb fst] in H; [discriminate|].
  destruct (N.eqb a a1) eqn:E.
  - exists s1, z1. cbn [bal_get]. rewrite E, N.eqb_refl. reflexivity.
  - cbn [orb] in H. destruct (IH _ H) as (s & z & G). exists s, z. cbn [bal_get]. rewrite E. exact G.
Qed.
