(* C01 — the invariant of the floor proof and its preservation by the machine primitives
   (withdraw_all, withdraw_always, repay, credit/send). *)
From FL Require Import Numscript.C01Spec Numscript.C01Funding.
From Coq Require Import Lia.
Open Scope Z_scope.

(* n is at most the (possibly unbounded) grant g *)
Definition ole (n : Z) (g : option Z) : Prop := match g with None => True | Some m => n <= m end.

(* ---- grants ------------------------------------------------------------------------------------------- *)
Lemma upto_max_ge : forall a s e m, m <= upto_max a s e m.
Proof. intros a s [a'|a' s' n] m; cbn [upto_max]; [lia|]. destruct (N.eqb a a' && N.eqb s s'); lia. Qed.

Lemma grant_of_unb : forall G a s, In (GUnb a) G -> grant_of G a s = None.
Proof.
  intros G a s H. unfold grant_of.
  assert (E : existsb (is_unb a) G = true).
  { apply existsb_exists. exists (GUnb a). split; [exact H|]. cbn. apply N.eqb_refl. }
  rewrite E. reflexivity.
Qed.

Lemma grant_of_upto : forall G a s n, In (GUpTo a s n) G -> ole n (grant_of G a s).
Proof.
  intros G a s n H. unfold grant_of. destruct (existsb (is_unb a) G); cbn [ole]; [exact I|].
  induction G as [|e G IH]; [destruct H|]. cbn [fold_right]. destruct H as [H|H].
  - subst e. cbn [upto_max]. rewrite !N.eqb_refl. cbn [andb]. lia.
  - specialize (IH H). pose proof (upto_max_ge a s e (fold_right (upto_max a s) 0 G)). lia.
Qed.

Lemma grant_of_nonneg : forall G a s, ole 0 (grant_of G a s).
Proof.
  intros G a s. unfold grant_of. destruct (existsb (is_unb a) G); cbn [ole]; [exact I|].
  induction G as [|e G IH]; cbn [fold_right]; [lia|].
  pose proof (upto_max_ge a s e (fold_right (upto_max a s) 0 G)). lia.
Qed.

(* ---- replay ------------------------------------------------------------------------------------------- *)
Definition mkp (d : account) (x : asset) (p : part) : posting :=
  {| p_src := fst p; p_dst := d; p_asset := x; p_amount := snd p |}.

Lemma delta_app : forall a s l1 l2, delta (l1 ++ l2) a s = delta l1 a s + delta l2 a s.
Proof. induction l1; intros; cbn [delta app]; [reflexivity|rewrite IHl1; lia]. Qed.

Lemma total_parts_cons : forall p ps, total_parts (p :: ps) = snd p + total_parts ps.
Proof. reflexivity. Qed.

Lemma delta_map : forall d x a s ps,
  delta (map (mkp d x) ps) a s =
  if N.eqb x s then (if N.eqb d a then total_parts ps else 0) - pa a ps else 0.
Proof.
  induction ps as [|p ps IH]; cbn [map delta].
  - destruct (N.eqb x s), (N.eqb d a); reflexivity.
  - rewrite IH, total_parts_cons. unfold p_delta, mkp; cbn [p_src p_dst p_asset p_amount pa].
    destruct (N.eqb x s), (N.eqb d a), (N.eqb (fst p) a); cbn [andb]; lia.
Qed.

Lemma floor_ok_nil : forall g b0, floor_ok g b0 [].
Proof. intros g b0 l1 p l2 H. destruct l1; discriminate. Qed.

Lemma floor_ok_app : forall g b0 ps new,
  floor_ok g b0 ps ->
  (forall l1 p l2, new = l1 ++ p :: l2 -> p_src p <> world ->
     within (p_amount p) (running b0 (ps ++ l1) (p_src p) (p_asset p)) (g (p_src p) (p_asset p))) ->
  floor_ok g b0 (ps ++ new).
Proof.
  intros g b0 ps new F N l1 p l2 E W.
  apply app_eq_app in E. destruct E as [l [[E1 E2]|[E1 E2]]].
  - (* ps = l1 ++ l, l ++ new = p :: l2 *)
    destruct l as [|q l].
    + cbn [app] in E2. rewrite app_nil_r in E1. subst l1.
      specialize (N [] p l2 (eq_sym E2) W). rewrite app_nil_r in N. exact N.
    + cbn [app] in E2. inversion E2; subst. eapply F; eauto.
  - subst l1. eapply N; eauto.
Qed.

(* ---- the invariant ------------------------------------------------------------------------------------ *)
Lemma pw_step : forall (m m' h h' r r' : Z) (ga : option Z),
  (m + h <= r /\ (0 < h -> ole (- m) ga)) ->
  m' + h' - r' <= m + h - r ->
  (0 < h' -> (0 < h /\ m <= m') \/ ole (- m') ga) ->
  m' + h' <= r' /\ (0 < h' -> ole (- m') ga).
Proof.
  intros m m' h h' r r' ga [I2 I3] D K. split; [lia|]. intros P. destruct (K P) as [[P1 P2]|Q]; [|exact Q].
  specialize (I3 P1). destruct ga; cbn [ole] in *; [lia|exact I].
Qed.

Section Invariant.
  Variable G : list gentry.
  Variable b0 : account -> asset -> Z.
  Variable Tr : account -> asset -> Prop.
  Local Notation g := (grant_of G).

  (* [bl]: current machine balances; [ps]: postings emitted so far; [fs]: the fundings currently alive
     (withdrawn and neither sent nor repaid) *)
  Record Inv (bl : balances) (ps : list posting) (fs : list funding) : Prop := mkInv {
    inv_good : Forall (fgood Tr) fs;
    inv_floor : floor_ok g b0 ps;
    inv_dom : forall a s, bal_get bl a s <> None -> Tr a s;
    inv_src : Forall (fun p => Tr (p_src p) (p_asset p)) ps;
    inv_pw : forall a s, a <> world ->
      mbz bl a s + held a s fs <= running b0 ps a s /\ (0 < held a s fs -> ole (- mbz bl a s) (g a s))
  }.

  Lemma Inv_change : forall bl ps fs fs', Inv bl ps fs -> Forall (fgood Tr) fs' ->
    (forall a s, held a s fs' = held a s fs) -> Inv bl ps fs'.
  Proof.
    intros bl ps fs fs' HI Gd E. constructor; try apply HI; auto.
    intros a s W. rewrite E. apply HI; auto.
  Qed.

  Lemma Inv_good_head : forall bl ps f fs, Inv bl ps (f :: fs) -> fgood Tr f.
  Proof. intros bl ps f fs HI. pose proof (inv_good _ _ _ HI) as Gd. inversion Gd; auto. Qed.

  Lemma Inv_good_tail : forall bl ps f fs, Inv bl ps (f :: fs) -> Forall (fgood Tr) fs.
  Proof. intros bl ps f fs HI. pose proof (inv_good _ _ _ HI) as Gd. inversion Gd; auto. Qed.

  (* hp of a one-part funding *)
  Lemma hp_single : forall a' s' a s x,
    hp a' s' {| f_asset := s; f_parts := [(a, x)] |} = if N.eqb a' a && N.eqb s' s then x else 0.
  Proof.
    intros. unfold hp; cbn [f_asset f_parts pa fst snd].
    rewrite (N.eqb_sym s s'), (N.eqb_sym a a'). destruct (N.eqb s' s), (N.eqb a' a); cbn [andb]; lia.
  Qed.

  Lemma key_eq : forall a' a s' s, N.eqb a' a && N.eqb s' s = true -> a' = a /\ s' = s.
  Proof. intros a' a s' s H. apply andb_true_iff in H. destruct H as [H1 H2]. split; apply N.eqb_eq; auto. Qed.

  Lemma mbz_get : forall bl a s z, bal_get bl a s = Some z -> mbz bl a s = z.
  Proof. intros bl a s z H. unfold mbz. rewrite H. reflexivity. Qed.

  (* OP_TAKE_ALL *)
  Lemma withdraw_all_inv : forall bl ps fs a s ov f bl',
    Inv bl ps fs -> withdraw_all bl a s ov = Some (f, bl') ->
    (a <> world -> ole ov (g a s)) ->
    Inv bl' ps (f :: fs).
  Proof.
    intros bl ps fs a s ov f bl' HI W C. unfold withdraw_all in W.
    destruct (bal_get bl a s) as [bal|] eqn:EB; [|discriminate].
    assert (Ta : Tr a s) by (apply (inv_dom _ _ _ HI); rewrite EB; discriminate).
    pose proof (mbz_get _ _ _ _ EB) as EM.
    destruct (0 <? bal + ov) eqn:E0; inversion W; subst f bl'; clear W.
    - apply Z.ltb_lt in E0. constructor; try apply HI.
      + constructor; [|apply HI]. unfold fgood; cbn [f_asset f_parts].
        repeat constructor; cbn [fst snd]; [lia|exact Ta].
      + intros a' s' Hn. rewrite bal_get_set in Hn. destruct (N.eqb a' a && N.eqb s' s) eqn:K.
        * apply key_eq in K. destruct K; subst. exact Ta.
        * apply (inv_dom _ _ _ HI); auto.
      + intros a' s' Hw. pose proof (inv_pw _ _ _ HI a' s' Hw) as P. cbn [held].
        rewrite mbz_set, hp_single. destruct (N.eqb a' a && N.eqb s' s) eqn:K.
        * apply key_eq in K. destruct K; subst a' s'. rewrite EM in P.
          eapply pw_step; [exact P|lia|]. intros _. right.
          replace (- - ov) with ov by lia. auto.
        * eapply pw_step; [exact P|lia|]. intros Q. left. lia.
    - constructor; try apply HI.
      + constructor; [|apply HI]. unfold fgood; cbn [f_asset f_parts].
        repeat constructor; cbn [fst snd]; [lia|exact Ta].
      + intros a' s' Hw. pose proof (inv_pw _ _ _ HI a' s' Hw) as P. cbn [held].
        rewrite hp_single. destruct (N.eqb a' a && N.eqb s' s); eapply pw_step; try exact P; try lia;
          intros Q; left; lia.
  Qed.

  (* OP_TAKE_ALWAYS: only on world or an account with an unbounded grant *)
  Lemma withdraw_always_inv : forall bl ps fs a s amt f bl',
    Inv bl ps fs -> withdraw_always bl a s amt = Some (f, bl') -> 0 <= amt ->
    (a = world \/ forall x, g a x = None) ->
    Inv bl' ps (f :: fs).
  Proof.
    intros bl ps fs a s amt f bl' HI W NN C. unfold withdraw_always in W.
    destruct (bal_get bl a s) as [bal|] eqn:EB; [|discriminate].
    assert (Ta : Tr a s) by (apply (inv_dom _ _ _ HI); rewrite EB; discriminate).
    pose proof (mbz_get _ _ _ _ EB) as EM.
    inversion W; subst f bl'; clear W. constructor; try apply HI.
    - constructor; [|apply HI]. unfold fgood; cbn [f_asset f_parts].
      repeat constructor; cbn [fst snd]; [lia|exact Ta].
    - intros a' s' Hn. rewrite bal_get_set in Hn. destruct (N.eqb a' a && N.eqb s' s) eqn:K.
      + apply key_eq in K. destruct K; subst. exact Ta.
      + apply (inv_dom _ _ _ HI); auto.
    - intros a' s' Hw. pose proof (inv_pw _ _ _ HI a' s' Hw) as P. cbn [held].
      rewrite mbz_set, hp_single. destruct (N.eqb a' a && N.eqb s' s) eqn:K.
      + apply key_eq in K. destruct K; subst a' s'. rewrite EM in P.
        destruct C as [C|C]; [contradiction|].
        eapply pw_step; [exact P|lia|]. intros _. right. rewrite C. exact I.
      + eapply pw_step; [exact P|lia|]. intros Q. left. lia.
  Qed.

  (* repay *)
  Lemma repay_mbz : forall s ps bl bl', repay bl s ps = Some bl' ->
    forall a' s', a' <> world -> mbz bl' a' s' = mbz bl a' s' + if N.eqb s s' then pa a' ps else 0.
  Proof.
    induction ps as [|[a amt] ps IH]; intros bl bl' H a' s' Hw; cbn [repay] in H.
    - inversion H; subst. cbn [pa]. destruct (N.eqb s s'); lia.
    - cbn [pa fst snd]. destruct (N.eqb a world) eqn:EW.
      + apply N.eqb_eq in EW. subst a. rewrite (IH _ _ H a' s' Hw).
        destruct (N.eqb world a') eqn:E; [apply N.eqb_eq in E; congruence|]. destruct (N.eqb s s'); lia.
      + destruct (bal_has_account bl a); [|discriminate].
        rewrite (IH _ _ H a' s' Hw), mbz_set. fold (mbz bl a s).
        rewrite (N.eqb_sym s s'), (N.eqb_sym a a').
        destruct (N.eqb a' a) eqn:E1, (N.eqb s' s) eqn:E2; cbn [andb]; try lia.
        apply N.eqb_eq in E1. apply N.eqb_eq in E2. subst. lia.
  Qed.

  Lemma repay_dom : forall s ps bl bl', repay bl s ps = Some bl' ->
    Forall (fun p => Tr (fst p) s) ps ->
    (forall a x, bal_get bl a x <> None -> Tr a x) -> forall a x, bal_get bl' a x <> None -> Tr a x.
  Proof.
    induction ps as [|[a amt] ps IH]; intros bl bl' H Gd D; cbn [repay] in H.
    - inversion H; subst. exact D.
    - inversion Gd as [|? ? G1 G2]; subst. cbn [fst] in G1. destruct (N.eqb a world).
      + eapply IH; eauto.
      + destruct (bal_has_account bl a); [|discriminate]. eapply IH; eauto.
        intros a' x Hn. rewrite bal_get_set in Hn. destruct (N.eqb a' a && N.eqb x s) eqn:K.
        * apply key_eq in K. destruct K; subst. exact G1.
        * auto.
  Qed.

  Lemma repay_inv : forall bl ps f fs bl',
    Inv bl ps (f :: fs) -> repay bl (f_asset f) (f_parts f) = Some bl' -> Inv bl' ps fs.
  Proof.
    intros bl ps f fs bl' HI R. pose proof (Inv_good_head _ _ _ _ HI) as Gf.
    pose proof (Inv_good_tail _ _ _ _ HI) as Gt.
    constructor; try apply HI; auto.
    - eapply repay_dom; [exact R| |apply HI].
      unfold fgood in Gf. eapply Forall_impl; [|exact Gf]. intros p [_ T]. exact T.
    - intros a s Hw. pose proof (inv_pw _ _ _ HI a s Hw) as P. cbn [held] in P.
      rewrite (repay_mbz _ _ _ _ R a s Hw). fold (hp a s f).
      pose proof (hp_nonneg _ a s _ Gf). pose proof (held_nonneg _ a s _ Gt).
      unfold hp in *. eapply pw_step; [exact P|lia|]. intros Q. left. lia.
  Qed.

  (* credit *)
  Lemma credit_mbz : forall bl d f a s, 0 <= total f ->
    mbz bl a s <= mbz (credit bl d f) a s /\
    mbz (credit bl d f) a s <= mbz bl a s + if N.eqb (f_asset f) s && N.eqb d a then total f else 0.
  Proof.
    intros bl d f a s NN. unfold credit. destruct (N.eqb d world).
    - destruct (N.eqb (f_asset f) s && N.eqb d a); lia.
    - destruct (bal_get bl d (f_asset f)) as [bal|] eqn:EB.
      + rewrite mbz_set. rewrite (N.eqb_sym a d), (N.eqb_sym s (f_asset f)).
        destruct (N.eqb d a) eqn:E1, (N.eqb (f_asset f) s) eqn:E2; cbn [andb]; try lia.
        apply N.eqb_eq in E1. apply N.eqb_eq in E2. subst. rewrite (mbz_get _ _ _ _ EB). lia.
      + destruct (N.eqb (f_asset f) s && N.eqb d a); lia.
  Qed.

  Lemma credit_dom : forall bl d f,
    (forall a x, bal_get bl a x <> None -> Tr a x) -> forall a x, bal_get (credit bl d f) a x <> None -> Tr a x.
  Proof.
    intros bl d f D a x. unfold credit. destruct (N.eqb d world); [apply D|].
    destruct (bal_get bl d (f_asset f)) as [bal|] eqn:EB; [|apply D].
    rewrite bal_get_set. destruct (N.eqb a d && N.eqb x (f_asset f)) eqn:K; [|apply D].
    apply key_eq in K. destruct K; subst. intros _. apply D. rewrite EB. discriminate.
  Qed.

  (* OP_SEND: the funding [f] leaves as postings to [d] *)
  Lemma send_inv : forall bl ps f fs d,
    Inv bl ps (f :: fs) ->
    Inv (credit bl d f) (ps ++ map (mkp d (f_asset f)) (f_parts f)) fs.
  Proof.
    intros bl ps f fs d HI. pose proof (Inv_good_head _ _ _ _ HI) as Gf.
    pose proof (Inv_good_tail _ _ _ _ HI) as Gt. pose proof (total_nonneg _ _ Gf) as TN.
    constructor.
    - exact Gt.
    - apply floor_ok_app; [apply HI|]. intros l1 p l2 E W.
      apply map_eq_app in E. destruct E as (q1 & q2' & EQ & E1 & E2).
      apply map_eq_cons in E2. destruct E2 as (q & q2 & EQ2 & Ep & E2). subst l1 p l2 q2'.
      cbn [mkp p_src p_asset p_amount] in *. destruct q as [a x]. cbn [fst snd] in *.
      pose proof (inv_pw _ _ _ HI a (f_asset f) W) as [I2 I3]. cbn [held] in I2, I3.
      unfold hp in I2, I3. rewrite N.eqb_refl in I2, I3. rewrite EQ in I2, I3.
      rewrite pa_app in I2, I3. cbn [pa fst snd] in I2, I3. rewrite N.eqb_refl in I2, I3.
      unfold fgood in Gf. rewrite EQ in Gf. apply Forall_app in Gf. destruct Gf as [G1 G2].
      inversion G2 as [|? ? [Gx _] G3]; subst. cbn [snd] in Gx.
      pose proof (pa_nonneg _ a _ G1). pose proof (pa_nonneg _ a _ G3).
      pose proof (total_parts_nonneg _ _ G1). pose proof (held_nonneg _ a (f_asset f) _ Gt).
      unfold running in *. rewrite delta_app, delta_map, N.eqb_refl.
      unfold within. destruct (grant_of G a (f_asset f)) as [n|]; [|exact I]. cbn [ole] in I3.
      destruct (Z.eq_dec x 0) as [->|NZ]; [lia|].
      assert (P : 0 < pa a q1 + (x + pa a q2) + held a (f_asset f) fs) by lia. specialize (I3 P).
      destruct (N.eqb d a); lia.
    - apply credit_dom. apply HI.
    - apply Forall_app. split; [apply HI|]. apply Forall_forall. intros p Hin.
      apply in_map_iff in Hin. destruct Hin as (q & Ep & Hq). subst p. cbn [mkp p_src p_asset].
      unfold fgood in Gf. rewrite Forall_forall in Gf. apply (Gf q Hq).
    - intros a s Hw. pose proof (inv_pw _ _ _ HI a s Hw) as P. cbn [held] in P.
      pose proof (credit_mbz bl d f a s TN) as [C1 C2].
      pose proof (hp_nonneg _ a s _ Gf). pose proof (held_nonneg _ a s _ Gt).
      unfold running in *. rewrite delta_app, delta_map.
      eapply pw_step; [exact P| |intros Q; left; lia].
      unfold hp in *. fold (total f). destruct (N.eqb (f_asset f) s), (N.eqb d a); cbn [andb] in *; lia.
  Qed.
End Invariant.
