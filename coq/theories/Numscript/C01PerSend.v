(* C01, strengthening — the floor PER SEND STATEMENT.
   [C01_floor] (C01Final.v) uses the overdraft granted by the whole script: an account named with
   `allowing unbounded overdraft` in ONE send is unconstrained in EVERY send. The source semantics enforces more:
   each send may only use the overdraft clauses written in that send, and what it may take is measured against the
   balance as it really stands when the send starts (initial table + all earlier postings; `save` only lowers the
   machine's view, so the real running balance is the right, and the stronger, reference).

   Here: the postings of a run are cut into one group per statement ([stmt_groups_with], executable: what each
   statement appended), and [groups_floor] asks for every group: a non-send statement appends nothing; a send's
   group satisfies [floor_ok] with the grants of THAT send only, on the balances [running b0 (all earlier groups)].
   [sem_floor_per_send] proves it for all scripts; [per_send_implies_floor] shows the per-script theorem follows.
   Proof: between two statements no funding is alive, and then the invariant [Inv] of C01Inv.v does not depend on the
   grant list any more (its grant-dependent half speaks about held fundings only). So the invariant can be re-based
   at every statement: new grant list (this send's), new base balances (the running balances), empty posting list;
   [sem_stmt_inv] is then reused unchanged. The re-basing needs one frame fact that the earlier development did not
   need: the semantics never looks at the postings emitted so far, it only appends ([sem_stmt_pp]). *)
From FL Require Import Numscript.C01Spec Numscript.C01Funding Numscript.C01Inv Numscript.C01Proofs.
From Coq Require Import Lia.
Open Scope Z_scope.

(* ---- specification ------------------------------------------------------------------------------------------ *)
(* the overdraft ONE statement grants: the clauses written in the sources of that send; nothing for other statements *)
Definition grant_send (ve : venv) (s : stmt) : account -> asset -> option Z := grant_of (stmt_grants ve s).

Definition is_send (s : stmt) : bool := match s with StSend _ _ _ => true | _ => false end.

(* a rule for one statement ([sem_stmt], or a variant of it for a witness) *)
Definition step := venv -> stmt -> sstate -> sres sstate.

(* what a statement appended to the posting list *)
Definition appended (st st1 : sstate) : list posting := skipn (length (s_posts st)) (s_posts st1).

(* the postings of a run, one group per statement *)
Fixpoint stmt_groups_with (stp : step) (ve : venv) (l : list stmt) (st : sstate) : sres (list (list posting)) :=
  match l with
  | [] => SOk []
  | s :: r =>
      sdo st1 <- stp ve s st;
      sdo gs <- stmt_groups_with stp ve r st1;
      SOk (appended st st1 :: gs)
  end.

(* [pre]: the postings of the statements before [l] *)
Fixpoint groups_floor (ve : venv) (b0 : account -> asset -> Z) (pre : list posting)
                      (l : list stmt) (gs : list (list posting)) : Prop :=
  match l, gs with
  | [], [] => True
  | s :: r, g :: gr =>
      (if is_send s then floor_ok (grant_send ve s) (running b0 pre) g else g = []) /\
      groups_floor ve b0 (pre ++ g) r gr
  | _, _ => False
  end.

Definition start (b : balances) : sstate :=
  {| s_bals := b; s_posts := []; s_txmeta := []; s_accmeta := []; s_printed := [] |}.

Definition per_send_floor_with (stp : step) (sc : script) (ve : venv) (b : balances) (ps : list posting) : Prop :=
  exists gs, stmt_groups_with stp ve (s_stmts sc) (start b) = SOk gs /\ concat gs = ps /\
             groups_floor ve (init b) [] (s_stmts sc) gs.
Definition per_send_floor := per_send_floor_with sem_stmt.

(* ---- the semantics only appends to the posting list ----------------------------------------------------------- *)
Definition pp (pre : list posting) (st : sstate) : sstate :=
  {| s_bals := s_bals st; s_posts := pre ++ s_posts st; s_txmeta := s_txmeta st; s_accmeta := s_accmeta st;
     s_printed := s_printed st |}.
Definition reset (st : sstate) : sstate :=
  {| s_bals := s_bals st; s_posts := []; s_txmeta := s_txmeta st; s_accmeta := s_accmeta st;
     s_printed := s_printed st |}.
Definition lift0 (pre : list posting) (r : sres sstate) : sres sstate :=
  match r with SOk st => SOk (pp pre st) | SErr e => SErr e end.
Definition lift1 {A} (pre : list posting) (r : sres (A * sstate)) : sres (A * sstate) :=
  match r with SOk (x, st) => SOk (x, pp pre st) | SErr e => SErr e end.

Lemma pp_reset : forall st, pp (s_posts st) (reset st) = st.
Proof. intros [b p t a r]. unfold pp, reset; cbn. rewrite app_nil_r. reflexivity. Qed.

Lemma do_repay_pp : forall pre st f, do_repay (pp pre st) f = lift0 pre (do_repay st f).
Proof. intros. unfold do_repay. cbn [pp s_bals]. destruct (repay (s_bals st) (f_asset f) (f_parts f)); reflexivity. Qed.

Lemma do_send_pp : forall pre st d f, do_send (pp pre st) d f = pp pre (do_send st d f).
Proof. intros. unfold do_send, pp; cbn. rewrite app_assoc. reflexivity. Qed.

Lemma take_from_pp : forall ve fb pre st f s amt,
  take_from ve fb (pp pre st) f s amt = lift1 pre (take_from ve fb st f s amt).
Proof.
  intros. unfold take_from. destruct fb as [fbe|].
  - destruct (amt <? 0); [reflexivity|]. destruct (negb (N.eqb (f_asset f) s)); [reflexivity|].
    destruct (take_max f amt) as [res rem]. rewrite do_repay_pp.
    destruct (do_repay st rem) as [st1|]; cbn [lift0 sbind]; [|reflexivity].
    destruct (eval_account ve fbe) as [a|]; cbn [sbind]; [|reflexivity]. cbn [pp s_bals].
    match goal with |- context [withdraw_always ?bb ?aa ?ss ?mm] =>
      destruct (withdraw_always bb aa ss mm) as [[extra bx]|]; [|reflexivity] end.
    destruct (assemble [res; extra]); reflexivity.
  - destruct (negb (N.eqb (f_asset f) s)); [reflexivity|].
    destruct (take f amt) as [[res rem]|]; [|reflexivity]. rewrite do_repay_pp.
    destruct (do_repay st rem); reflexivity.
Qed.

Section Frame.
  Variable ve : venv.
  Variable pre : list posting.

  Definition src_F (za : asset) (s : source) : Prop :=
    forall st, sem_source ve za s (pp pre st) = lift1 pre (sem_source ve za s st).

  Lemma src_loop_pp : forall za l, Forall (src_F za) l ->
    forall st, src_loop ve za l (pp pre st) = lift1 pre (src_loop ve za l st).
  Proof.
    intros za l HP. induction HP as [|s1 rest H1 _ IH]; intros st; cbn [src_loop]; [reflexivity|].
    rewrite H1. destruct (sem_source ve za s1 st) as [[f st1]|]; cbn [lift1 sbind]; [|reflexivity].
    rewrite IH. destruct (src_loop ve za rest st1) as [[fs st2]|]; reflexivity.
  Qed.

  Lemma sem_source_pp : forall za s, src_F za s.
  Proof.
    intros za s. induction s as [acc ov|m s IH|l IH] using source_ind2; intros st.
    - cbn [sem_source]. destruct (eval_account ve acc) as [a|]; cbn [sbind]; [|reflexivity].
      destruct (match ov with OvSpecific e => eval_monetary ve e | _ => SOk (za, 0) end) as [[oa oamt]|];
        cbn [sbind]; [|reflexivity].
      cbn [pp s_bals]. destruct (withdraw_all (s_bals st) a oa oamt) as [[f b]|]; reflexivity.
    - cbn [sem_source]. rewrite IH. destruct (sem_source ve za s st) as [[f st1]|]; cbn [lift1 sbind]; [|reflexivity].
      destruct (eval_monetary ve m) as [[ms mamt]|]; cbn [sbind]; [|reflexivity].
      destruct (mamt <? 0); [reflexivity|]. destruct (negb (N.eqb (f_asset f) ms)); [reflexivity|].
      destruct (take_max f mamt) as [res rem]. rewrite do_repay_pp.
      destruct (do_repay st1 rem) as [st2|]; cbn [lift0 sbind]; [|reflexivity].
      destruct (fallback_of s) as [fbe|]; [|reflexivity].
      destruct (eval_account ve fbe) as [a|]; cbn [sbind]; [|reflexivity]. cbn [pp s_bals].
      match goal with |- context [withdraw_always ?bb ?aa ?ss ?mm] =>
        destruct (withdraw_always bb aa ss mm) as [[extra bx]|]; [|reflexivity] end.
      destruct (assemble [res; extra]); reflexivity.
    - rewrite !sem_source_inorder_eq. rewrite (src_loop_pp za l IH).
      destruct (src_loop ve za l st) as [[fl st1]|]; cbn [lift1 sbind]; [|reflexivity].
      destruct (assemble fl); reflexivity.
  Qed.

  Definition dest_F (d : dest) : Prop :=
    forall f st, sem_dest ve d f (pp pre st) = lift1 pre (sem_dest ve d f st).
  Definition kod_F (k : kod) : Prop :=
    forall f st, sem_kod ve k f (pp pre st) = lift1 pre (sem_kod ve k f st).

  Lemma inorder_loop_pp : forall l, Forall (fun p : expr * kod => kod_F (snd p)) l ->
    forall f acc st, inorder_loop ve l f acc (pp pre st) = lift1 pre (inorder_loop ve l f acc st).
  Proof.
    intros l HP. induction HP as [|[amt_e k] rest Hk _ IH]; intros f acc st; cbn [inorder_loop]; [reflexivity|].
    cbn [snd] in Hk. destruct (eval_monetary ve amt_e) as [[ms mamt]|]; cbn [sbind]; [|reflexivity].
    destruct (mamt <? 0); [reflexivity|]. destruct (negb (N.eqb (f_asset f) ms)); [reflexivity|].
    destruct (take_max f mamt) as [res rem]. rewrite Hk.
    destruct (sem_kod ve k res st) as [[x st1]|]; cbn [lift1 sbind]; [|reflexivity].
    destruct (assemble [x; rem]) as [f'|]; cbn [sbind]; [|reflexivity]. apply IH.
  Qed.

  Lemma dallot_loop_pp : forall l, Forall (fun p : aportion * kod => kod_F (snd p)) l ->
    forall parts f st, dallot_loop ve l parts f (pp pre st) = lift1 pre (dallot_loop ve l parts f st).
  Proof.
    intros l HP. induction HP as [|[ap k] rest Hk _ IH]; intros parts f st; cbn [dallot_loop]; [reflexivity|].
    cbn [snd] in Hk. destruct parts as [|p ps]; [reflexivity|].
    destruct (take f p) as [[res rem]|]; [|reflexivity]. rewrite Hk.
    destruct (sem_kod ve k res st) as [[x st1]|]; cbn [lift1 sbind]; [|reflexivity].
    destruct (assemble [x; rem]) as [f'|]; cbn [sbind]; [|reflexivity]. apply IH.
  Qed.

  Lemma sem_dest_pp : forall d, dest_F d.
  Proof.
    apply (dest_ind2 dest_F kod_F).
    - intros e f st. cbn [sem_dest]. destruct (take f (total f)) as [[res rem]|]; [|reflexivity].
      destruct (eval_account ve e) as [a|]; cbn [sbind lift1]; [|reflexivity]. rewrite do_send_pp. reflexivity.
    - intros l k HL HK f st. rewrite !sem_dest_inorder_eq. rewrite (inorder_loop_pp l HL).
      destruct (inorder_loop ve l f 0 st) as [[[f1 kt] st1]|]; cbn [lift1 sbind]; [|reflexivity].
      destruct (take (freverse f1) kt) as [[res rem]|]; [|reflexivity]. rewrite HK.
      destruct (sem_kod ve k (freverse rem) st1) as [[x st2]|]; cbn [lift1 sbind]; [|reflexivity].
      destruct (assemble [x; freverse res]); reflexivity.
    - intros l HL f st. rewrite !sem_dest_allot_eq.
      destruct (make_allotment ve (map fst l)) as [al|]; cbn [sbind]; [|reflexivity].
      apply dallot_loop_pp. exact HL.
    - intros f st. reflexivity.
    - intros d HD f st. cbn [sem_kod]. apply HD.
  Qed.

  Lemma sallot_loop_pp : forall za ms l parts st,
    sallot_loop ve za ms l parts (pp pre st) = lift1 pre (sallot_loop ve za ms l parts st).
  Proof.
    intros za ms l. induction l as [|[ap s] rest IH]; intros parts st; cbn [sallot_loop]; [reflexivity|].
    destruct parts as [|p ps]; [reflexivity|]. rewrite sem_source_pp.
    destruct (sem_source ve za s st) as [[f st1]|]; cbn [lift1 sbind]; [|reflexivity].
    rewrite take_from_pp.
    destruct (take_from ve (fallback_of s) st1 f ms p) as [[r st2]|]; cbn [lift1 sbind]; [|reflexivity].
    rewrite IH. destruct (sallot_loop ve za ms rest ps st2) as [[rs st3]|]; reflexivity.
  Qed.

  Lemma send_tail_pp : forall d f st1,
    (sdo '(lo, st2) <- sem_dest ve d f (pp pre st1); do_repay st2 lo) =
    lift0 pre (sdo '(lo, st2) <- sem_dest ve d f st1; do_repay st2 lo).
  Proof.
    intros. rewrite sem_dest_pp. destruct (sem_dest ve d f st1) as [[lo st2]|]; cbn [lift1 sbind]; [|reflexivity].
    apply do_repay_pp.
  Qed.

  Lemma sem_send_pp : forall m src d st,
    sem_send ve m src d (pp pre st) = lift0 pre (sem_send ve m src d st).
  Proof.
    intros m src d st. destruct m as [e|ae], src as [s|l].
    - unfold sem_send. destruct (lead_asset ve e) as [za|]; cbn [sbind]; [|reflexivity].
      rewrite sem_source_pp. destruct (sem_source ve za s st) as [[f st1]|]; cbn [lift1 sbind]; [|reflexivity].
      destruct (eval_monetary ve e) as [[ms mamt]|]; cbn [sbind]; [|reflexivity].
      rewrite take_from_pp.
      destruct (take_from ve (fallback_of s) st1 f ms mamt) as [[r st2]|]; cbn [lift1 sbind]; [|reflexivity].
      apply send_tail_pp.
    - rewrite !sem_send_allot_eq.
      destruct (lead_asset ve e) as [za|]; cbn [sbind]; [|reflexivity].
      destruct (eval_monetary ve e) as [[ms mamt]|]; cbn [sbind]; [|reflexivity].
      destruct (make_allotment ve (map fst l)) as [al|]; cbn [sbind]; [|reflexivity].
      rewrite sallot_loop_pp.
      destruct (sallot_loop ve za ms l (allocate al mamt) st) as [[fl st1]|]; cbn [lift1 sbind]; [|reflexivity].
      destruct (assemble fl) as [r|]; cbn [sbind]; [|reflexivity].
      apply send_tail_pp.
    - unfold sem_send. destruct (eval_asset ve ae) as [za|]; cbn [sbind]; [|reflexivity].
      rewrite sem_source_pp. destruct (sem_source ve za s st) as [[f st1]|]; cbn [lift1 sbind]; [|reflexivity].
      apply send_tail_pp.
    - reflexivity.
  Qed.

  Lemma sem_save_pp : forall m acc st, sem_save ve m acc (pp pre st) = lift0 pre (sem_save ve m acc st).
  Proof.
    intros m acc st. unfold sem_save. destruct m as [e|ae].
    - destruct (eval_monetary ve e) as [[s amt]|]; cbn [sbind]; [|reflexivity].
      destruct (eval_account ve acc) as [a|]; cbn [sbind]; [|reflexivity].
      destruct (amt <? 0); [reflexivity|]. cbn [pp s_bals]. destruct (bal_get (s_bals st) a s); reflexivity.
    - destruct (eval_asset ve ae) as [s|]; cbn [sbind]; [|reflexivity].
      destruct (eval_account ve acc) as [a|]; cbn [sbind]; [|reflexivity].
      cbn [pp s_bals]. destruct (bal_get (s_bals st) a s) as [z|]; [|reflexivity]. destruct (0 <? z); reflexivity.
  Qed.

  Lemma sem_stmt_pp : forall s st, sem_stmt ve s (pp pre st) = lift0 pre (sem_stmt ve s st).
  Proof.
    intros s st. destruct s; cbn [sem_stmt].
    - destruct (eval ve e); reflexivity.
    - apply sem_save_pp.
    - destruct (eval ve v); reflexivity.
    - destruct (eval ve v); cbn [sbind]; [|reflexivity]. destruct (eval_account ve acc); reflexivity.
    - reflexivity.
    - apply sem_send_pp.
  Qed.
End Frame.

(* a statement run on a state whose posting list is [pre] = the same statement run on an empty posting list, with
   [pre] put in front of what it emitted *)
Lemma sem_stmt_frame : forall ve s st st',
  sem_stmt ve s st = SOk st' ->
  exists st0, sem_stmt ve s (reset st) = SOk st0 /\ st' = pp (s_posts st) st0.
Proof.
  intros ve s st st' H. pose proof (sem_stmt_pp ve (s_posts st) s (reset st)) as F.
  rewrite pp_reset, H in F. destruct (sem_stmt ve s (reset st)) as [st0|]; cbn [lift0] in F; [|discriminate].
  exists st0. split; [reflexivity|]. inversion F; reflexivity.
Qed.

Lemma sem_save_posts : forall ve m acc st st', sem_save ve m acc st = SOk st' -> s_posts st' = s_posts st.
Proof.
  intros ve m acc st st' H. unfold sem_save in H. destruct m as [e|ae].
  - destruct (eval_monetary ve e) as [[s amt]|]; cbn [sbind] in H; [|discriminate].
    destruct (eval_account ve acc) as [a|]; cbn [sbind] in H; [|discriminate].
    destruct (amt <? 0); [discriminate|].
    destruct (bal_get (s_bals st) a s); inversion H; reflexivity.
  - destruct (eval_asset ve ae) as [s|]; cbn [sbind] in H; [|discriminate].
    destruct (eval_account ve acc) as [a|]; cbn [sbind] in H; [|discriminate].
    destruct (bal_get (s_bals st) a s) as [z|]; [|inversion H; reflexivity].
    destruct (0 <? z); inversion H; reflexivity.
Qed.

Lemma nonsend_posts : forall ve s st st', is_send s = false -> sem_stmt ve s st = SOk st' -> s_posts st' = s_posts st.
Proof.
  intros ve s st st' NS H. destruct s; cbn [sem_stmt is_send] in *; try discriminate.
  - destruct (eval ve e); cbn [sbind] in H; [|discriminate]. inversion H; reflexivity.
  - eapply sem_save_posts; eauto.
  - destruct (eval ve v); cbn [sbind] in H; [|discriminate]. inversion H; reflexivity.
  - destruct (eval ve v); cbn [sbind] in H; [|discriminate].
    destruct (eval_account ve acc); cbn [sbind] in H; [|discriminate]. inversion H; reflexivity.
Qed.

(* ---- what holds between two statements (no funding alive): independent of any grant list --------------------- *)
Record Btw (b0 : account -> asset -> Z) (Tr : account -> asset -> Prop) (bl : balances) (ps : list posting) : Prop :=
  mkBtw {
    btw_dom : forall a s, bal_get bl a s <> None -> Tr a s;
    btw_src : Forall (fun p => Tr (p_src p) (p_asset p)) ps;
    (* the machine's view of a balance never exceeds the real running balance (`save` lowers the former only) *)
    btw_le : forall a s, a <> world -> mbz bl a s <= running b0 ps a s
  }.

Lemma running_running : forall b0 pre l a s, running (running b0 pre) l a s = running b0 (pre ++ l) a s.
Proof. intros. unfold running. rewrite delta_app. lia. Qed.

Lemma skipn_length_app : forall A (l1 l2 : list A), skipn (length l1) (l1 ++ l2) = l2.
Proof. induction l1; intros; cbn; auto. Qed.

(* one statement, started between two statements: the invariant of C01Inv.v re-based on the running balances,
   with the grants of this statement only *)
Lemma stmt_step : forall b0 Tr ve s st st',
  Btw b0 Tr (s_bals st) (s_posts st) -> sem_stmt ve s st = SOk st' ->
  exists new,
    s_posts st' = s_posts st ++ new /\
    floor_ok (grant_send ve s) (running b0 (s_posts st)) new /\
    (is_send s = false -> new = []) /\
    Btw b0 Tr (s_bals st') (s_posts st').
Proof.
  intros b0 Tr ve s st st' HB H.
  destruct (sem_stmt_frame _ _ _ _ H) as (st0 & E & ->).
  set (pre := s_posts st) in *.
  assert (I0 : InvS (stmt_grants ve s) (running b0 pre) Tr (reset st) []).
  { unfold InvS; cbn [reset s_bals s_posts]. constructor.
    - constructor.
    - apply floor_ok_nil.
    - apply HB.
    - constructor.
    - intros a x W. cbn [held]. pose proof (btw_le _ _ _ _ HB a x W) as L. fold pre in L.
      unfold running at 1. cbn [delta]. split; [lia|intros Q; lia]. }
  pose proof (sem_stmt_inv (stmt_grants ve s) (running b0 pre) Tr ve s _ _ (incl_refl _) I0 E) as I1.
  unfold InvS in I1. exists (s_posts st0). cbn [pp s_posts s_bals]. repeat split.
  - apply (inv_floor _ _ _ _ _ _ I1).
  - intros NS. apply (nonsend_posts _ _ _ _ NS E).
  - apply (inv_dom _ _ _ _ _ _ I1).
  - apply Forall_app. split; [apply HB|apply (inv_src _ _ _ _ _ _ I1)].
  - intros a x W. pose proof (inv_pw _ _ _ _ _ _ I1 a x W) as [L _]. cbn [held] in L.
    rewrite running_running in L. lia.
Qed.

Lemma stmts_groups : forall b0 Tr ve l st st',
  Btw b0 Tr (s_bals st) (s_posts st) -> sem_stmts ve l st = SOk st' ->
  exists gs,
    stmt_groups_with sem_stmt ve l st = SOk gs /\
    s_posts st' = s_posts st ++ concat gs /\
    groups_floor ve b0 (s_posts st) l gs /\
    Btw b0 Tr (s_bals st') (s_posts st').
Proof.
  intros b0 Tr ve l. induction l as [|s l IH]; intros st st' HB H; cbn [sem_stmts] in H.
  - inversion H; subst. exists []. cbn. rewrite app_nil_r. auto.
  - destruct (sem_stmt ve s st) as [st1|] eqn:E; cbn [sbind] in H; [|discriminate].
    destruct (stmt_step _ _ _ _ _ _ HB E) as (new & EP & FL & NS & HB1).
    destruct (IH _ _ HB1 H) as (gs & EG & EP2 & GF & HB2).
    exists (new :: gs). cbn [stmt_groups_with]. rewrite E; cbn [sbind]. rewrite EG; cbn [sbind].
    unfold appended. rewrite EP, skipn_length_app. split; [reflexivity|]. split; [|split; [|exact HB2]].
    + rewrite EP2, EP. cbn [concat]. rewrite app_assoc. reflexivity.
    + cbn [groups_floor]. split.
      * destruct (is_send s); [exact FL|apply NS; reflexivity].
      * rewrite <- EP. exact GF.
Qed.

Lemma Btw_start : forall b, Btw (init b) (tracked_in b) b [].
Proof.
  intros b. constructor.
  - intros a s Hn. exact Hn.
  - constructor.
  - intros a s _. unfold running, init. cbn [delta]. lia.
Qed.

(* THE THEOREM: for every script, variable environment and balance table *)
Theorem sem_floor_per_send : forall sc ve b extra r,
  sem sc ve b extra = SOk r -> per_send_floor sc ve b (res_posts r).
Proof.
  intros sc ve b extra r H. unfold sem in H. fold (start b) in H.
  destruct (sem_stmts ve (s_stmts sc) (start b)) as [st|] eqn:E; cbn [sbind] in H; [|discriminate].
  rewrite (sem_finish_posts _ _ _ H).
  destruct (stmts_groups (init b) (tracked_in b) ve _ (start b) _ (Btw_start b) E) as (gs & EG & EP & GF & _).
  exists gs. cbn [start s_posts app] in *. auto.
Qed.

(* the same from any state reached between two statements, e.g. for a suffix of a script: the reference balances
   are the real running ones, which a `save` does not touch *)
Theorem sem_stmts_floor_per_send : forall b0 Tr ve l st st',
  Btw b0 Tr (s_bals st) (s_posts st) -> sem_stmts ve l st = SOk st' ->
  exists gs, stmt_groups_with sem_stmt ve l st = SOk gs /\ s_posts st' = s_posts st ++ concat gs /\
             groups_floor ve b0 (s_posts st) l gs.
Proof.
  intros b0 Tr ve l st st' HB H. destruct (stmts_groups _ _ _ _ _ _ HB H) as (gs & A & B & C & _). eauto.
Qed.

(* ---- nothing is lost: the per-send floor implies the per-script floor ------------------------------------------ *)
Lemma existsb_incl : forall A (f : A -> bool) l1 l2, incl l1 l2 -> existsb f l1 = true -> existsb f l2 = true.
Proof.
  intros A f l1 l2 HI H. apply existsb_exists in H. destruct H as (x & Hin & Hx).
  apply existsb_exists. exists x. split; auto.
Qed.

Lemma upto_fold_le : forall a s G M, 0 <= M -> (forall n, In (GUpTo a s n) G -> n <= M) ->
  fold_right (upto_max a s) 0 G <= M.
Proof.
  intros a s G M M0 H. induction G as [|e G IH]; cbn [fold_right]; [exact M0|].
  assert (IH' : fold_right (upto_max a s) 0 G <= M) by (apply IH; intros n Hn; apply H; right; exact Hn).
  destruct e as [a'|a' s' n]; cbn [upto_max]; [exact IH'|].
  destruct (N.eqb a a' && N.eqb s s') eqn:K; [|exact IH'].
  apply key_eq in K. destruct K; subst a' s'. specialize (H n (or_introl eq_refl)). lia.
Qed.

Lemma grant_of_mono : forall G1 G2 a s x r, incl G1 G2 ->
  within x r (grant_of G1 a s) -> within x r (grant_of G2 a s).
Proof.
  intros G1 G2 a s x r HI W. unfold grant_of in *.
  destruct (existsb (is_unb a) G2) eqn:E2; [exact I|].
  destruct (existsb (is_unb a) G1) eqn:E1.
  - rewrite (existsb_incl _ _ _ _ HI E1) in E2. discriminate.
  - cbn [within] in *.
    assert (L : fold_right (upto_max a s) 0 G1 <= fold_right (upto_max a s) 0 G2).
    { apply upto_fold_le.
      - pose proof (grant_of_nonneg G2 a s) as N. unfold grant_of in N. rewrite E2 in N. exact N.
      - intros n Hn. pose proof (grant_of_upto G2 a s n (HI _ Hn)) as N. unfold grant_of in N.
        rewrite E2 in N. exact N. }
    lia.
Qed.

Lemma floor_ok_mono : forall G1 G2 b0 ps, incl G1 G2 -> floor_ok (grant_of G1) b0 ps -> floor_ok (grant_of G2) b0 ps.
Proof. intros G1 G2 b0 ps HI F l1 p l2 E W. eapply grant_of_mono; [exact HI|]. eapply F; eauto. Qed.

(* floors chain: a group that is fine on the running balances extends a fine prefix *)
Lemma floor_ok_chain : forall g b0 pre new,
  floor_ok g b0 pre -> floor_ok g (running b0 pre) new -> floor_ok g b0 (pre ++ new).
Proof.
  intros g b0 pre new F1 F2. apply floor_ok_app; [exact F1|]. intros l1 p l2 E W.
  specialize (F2 l1 p l2 E W). rewrite running_running in F2. exact F2.
Qed.

Lemma groups_floor_script : forall ve b0 G l gs pre,
  groups_floor ve b0 pre l gs -> incl (flat_map (stmt_grants ve) l) G ->
  floor_ok (grant_of G) b0 pre -> floor_ok (grant_of G) b0 (pre ++ concat gs).
Proof.
  intros ve b0 G l. induction l as [|s l IH]; intros gs pre GF HG F; destruct gs as [|g gs]; cbn [groups_floor] in GF;
    try contradiction.
  - cbn [concat]. rewrite app_nil_r. exact F.
  - destruct GF as [G1 G2]. cbn [flat_map] in HG. apply incl_app_inv in HG. destruct HG as [HG1 HG2].
    cbn [concat]. rewrite app_assoc. apply IH; [exact G2|exact HG2|].
    destruct (is_send s).
    + apply floor_ok_chain; [exact F|]. eapply floor_ok_mono; [exact HG1|exact G1].
    + subst g. rewrite app_nil_r. exact F.
Qed.

Theorem per_send_implies_floor : forall sc ve b ps,
  per_send_floor sc ve b ps -> floor_ok (grant sc ve) (init b) ps.
Proof.
  intros sc ve b ps (gs & _ & EC & GF). subst ps.
  exact (groups_floor_script ve (init b) (script_grants ve sc) _ _ [] GF (incl_refl _) (floor_ok_nil _ _)).
Qed.

(* [C01_floor] re-derived from the per-send theorem *)
Corollary sem_floor_from_per_send : forall sc ve b extra r,
  sem sc ve b extra = SOk r -> floor_ok (grant sc ve) (init b) (res_posts r).
Proof. intros. eapply per_send_implies_floor, sem_floor_per_send; eauto. Qed.

(* a posting list whose non-world sources all have an unbounded grant passes any floor: how the per-script
   statement loses sight of a later send *)
Lemma floor_ok_unbounded : forall g b0 ps,
  Forall (fun p => p_src p = world \/ g (p_src p) (p_asset p) = None) ps -> floor_ok g b0 ps.
Proof.
  intros g b0 ps H l1 p l2 E W. rewrite Forall_forall in H.
  destruct (H p) as [A|A]; [subst ps; apply in_or_app; right; left; reflexivity|contradiction|].
  rewrite A. exact I.
Qed.

(* ---- the semantics with another rule for OP_TAKE_ALWAYS (for the witness of the seeded write-back bug) --------- *)
Section WithdrawAlwaysRule.
  Variable wa : balances -> account -> asset -> Z -> option (funding * balances).

  Definition take_from_w (ve : venv) (fb : option expr) (st : sstate) (f : funding) (s : asset) (amt : Z)
    : sres (funding * sstate) :=
    match fb with
    | None =>
        if negb (N.eqb (f_asset f) s) then SErr EInvalidScript
        else match take f amt with
             | None => SErr EInsufficient
             | Some (res, rem) => sdo st1 <- do_repay st rem; SOk (res, st1)
             end
    | Some fbe =>
        if amt <? 0 then SErr EOtherRun
        else if negb (N.eqb (f_asset f) s) then SErr EInvalidScript
        else
          let tot := total f in
          let missing := if tot <? amt then amt - tot else 0 in
          let '(res, rem) := take_max f amt in
          sdo st1 <- do_repay st rem;
          sdo a <- eval_account ve fbe;
          match wa (s_bals st1) a s missing with
          | None => SErr EInvalidScript
          | Some (extra, b) => sdo r <- assemble [res; extra]; SOk (r, with_bals st1 b)
          end
    end.

  Fixpoint sem_source_w (ve : venv) (zero_asset : asset) (s : source) (st : sstate) : sres (funding * sstate) :=
    match s with
    | SAccount acc ov =>
        sdo a <- eval_account ve acc;
        sdo '(oa, oamt) <- match ov with
                           | OvSpecific e => eval_monetary ve e
                           | _ => SOk (zero_asset, 0)
                           end;
        match withdraw_all (s_bals st) a oa oamt with
        | None => SErr EInvalidScript
        | Some (f, b) => SOk (f, with_bals st b)
        end
    | SMaxed max src =>
        sdo '(f, st1) <- sem_source_w ve zero_asset src st;
        sdo '(ms, mamt) <- eval_monetary ve max;
        if mamt <? 0 then SErr EOtherRun
        else if negb (N.eqb (f_asset f) ms) then SErr EInvalidScript
        else
          let tot := total f in
          let missing := if tot <? mamt then mamt - tot else 0 in
          let '(res, rem) := take_max f mamt in
          sdo st2 <- do_repay st1 rem;
          match fallback_of src with
          | Some fbe =>
              sdo a <- eval_account ve fbe;
              match wa (s_bals st2) a ms missing with
              | None => SErr EInvalidScript
              | Some (extra, b) => sdo r <- assemble [res; extra]; SOk (r, with_bals st2 b)
              end
          | None => SOk (res, st2)
          end
    | SInOrder srcs =>
        sdo '(fs, st1) <-
          (fix go (l : list source) (st : sstate) : sres (list funding * sstate) :=
             match l with
             | [] => SOk ([], st)
             | s1 :: rest =>
                 sdo '(f, st1) <- sem_source_w ve zero_asset s1 st;
                 sdo '(fs, st2) <- go rest st1;
                 SOk (f :: fs, st2)
             end) srcs st;
        sdo r <- assemble fs;
        SOk (r, st1)
    end.

  Definition sem_send_w (ve : venv) (m : send_amount) (src : vasource) (d : dest) (st : sstate) : sres sstate :=
    sdo '(f, st1) <-
      match m, src with
      | SendAll ae, VSrc s => sdo a <- eval_asset ve ae; sem_source_w ve a s st
      | SendAll _, VSrcAllot _ => SErr ECompile
      | SendMon e, VSrc s =>
          sdo za <- lead_asset ve e;
          sdo '(f, st1) <- sem_source_w ve za s st;
          sdo '(ms, mamt) <- eval_monetary ve e;
          take_from_w ve (fallback_of s) st1 f ms mamt
      | SendMon e, VSrcAllot l =>
          sdo za <- lead_asset ve e;
          sdo '(ms, mamt) <- eval_monetary ve e;
          sdo a <- make_allotment ve (map fst l);
          let parts := allocate a mamt in
          sdo '(fs, st1) <-
            (fix go (l : list (aportion * source)) (parts : list Z) (st : sstate) : sres (list funding * sstate) :=
               match l, parts with
               | [], _ => SOk ([], st)
               | (_, s) :: rest, p :: ps =>
                   sdo '(f, st1) <- sem_source_w ve za s st;
                   sdo '(r, st2) <- take_from_w ve (fallback_of s) st1 f ms p;
                   sdo '(rs, st3) <- go rest ps st2;
                   SOk (r :: rs, st3)
               | _ :: _, [] => SErr EInvalidScript
               end) l parts st;
          sdo r <- assemble fs;
          SOk (r, st1)
      end;
    sdo '(lo, st2) <- sem_dest ve d f st1;
    do_repay st2 lo.

  Definition sem_stmt_w : step :=
    fun ve s st => match s with StSend m src d => sem_send_w ve m src d st | _ => sem_stmt ve s st end.
End WithdrawAlwaysRule.

Fixpoint sem_stmts_step (stp : step) (ve : venv) (l : list stmt) (st : sstate) : sres sstate :=
  match l with
  | [] => SOk st
  | s :: r => sdo st1 <- stp ve s st; sem_stmts_step stp ve r st1
  end.
Definition sem_step (stp : step) (sc : script) (ve : venv) (b : balances) (extra_meta : list str) : sres result :=
  sdo st <- sem_stmts_step stp ve (s_stmts sc) (start b);
  sem_finish st extra_meta.

(* the copy is faithful: with the machine's own withdraw_always it IS [sem] *)
Lemma sem_stmt_w_faithful : forall ve s st, sem_stmt_w withdraw_always ve s st = sem_stmt ve s st.
Proof. intros ve s st. destruct s; reflexivity. Qed.

Lemma sem_step_faithful : forall sc ve b extra, sem_step (sem_stmt_w withdraw_always) sc ve b extra = sem sc ve b extra.
Proof.
  intros sc ve b extra. unfold sem_step, sem. fold (start b). f_equal.
  generalize (start b). induction (s_stmts sc) as [|s l IH]; intros st; cbn [sem_stmts_step sem_stmts]; [reflexivity|].
  rewrite sem_stmt_w_faithful. destruct (sem_stmt ve s st); cbn [sbind]; [apply IH|reflexivity].
Qed.

(* the seeded change /verif/seeded/C01-2: withdrawAlways computes the debited balance and does not store it *)
Definition withdraw_always_nowb (b : balances) (a : account) (s : asset) (amt : Z) : option (funding * balances) :=
  match bal_get b a s with
  | None => None
  | Some _ => Some ({| f_asset := s; f_parts := [(a, amt)] |}, b)
  end.
