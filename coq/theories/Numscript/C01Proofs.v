(* C01 — the floor invariant carried through the source semantics [sem] by structural induction:
   sources, take_from, destinations (mutual), send, save, statements, script. *)
From FL Require Import Numscript.C01Spec Numscript.C01Funding Numscript.C01Inv.
From Coq Require Import Lia.
Open Scope Z_scope.

(* ---- induction principles for the nested syntax --------------------------------------------------------- *)
Section SourceInd.
  Variable P : source -> Prop.
  Hypothesis HA : forall acc ov, P (SAccount acc ov).
  Hypothesis HM : forall m s, P s -> P (SMaxed m s).
  Hypothesis HI : forall l, Forall P l -> P (SInOrder l).
  Fixpoint source_ind2 (s : source) : P s :=
    match s with
    | SAccount acc ov => HA acc ov
    | SMaxed m s' => HM m s' (source_ind2 s')
    | SInOrder l =>
        HI l ((fix go (l : list source) : Forall P l :=
                 match l with
                 | [] => Forall_nil P
                 | x :: r => Forall_cons x (source_ind2 x) (go r)
                 end) l)
    end.
End SourceInd.

Section DestInd.
  Variables (P : dest -> Prop) (Q : kod -> Prop).
  Hypothesis HDA : forall e, P (DAccount e).
  Hypothesis HDI : forall l k, Forall (fun p : expr * kod => Q (snd p)) l -> Q k -> P (DInOrder l k).
  Hypothesis HDL : forall l, Forall (fun p : aportion * kod => Q (snd p)) l -> P (DAllot l).
  Hypothesis HK : Q Kept.
  Hypothesis HT : forall d, P d -> Q (KTo d).
  Fixpoint dest_ind2 (d : dest) : P d :=
    match d with
    | DAccount e => HDA e
    | DInOrder l k =>
        HDI l k
          ((fix go (l : list (expr * kod)) : Forall (fun p : expr * kod => Q (snd p)) l :=
              match l with
              | [] => Forall_nil _
              | x :: r => Forall_cons x (match x return Q (snd x) with (_, k') => kod_ind2 k' end) (go r)
              end) l)
          (kod_ind2 k)
    | DAllot l =>
        HDL l
          ((fix go (l : list (aportion * kod)) : Forall (fun p : aportion * kod => Q (snd p)) l :=
              match l with
              | [] => Forall_nil _
              | x :: r => Forall_cons x (match x return Q (snd x) with (_, k') => kod_ind2 k' end) (go r)
              end) l)
    end
  with kod_ind2 (k : kod) : Q k :=
    match k with
    | Kept => HK
    | KTo d => HT d (dest_ind2 d)
    end.
End DestInd.

(* ---- the local loops of Sem.v as named functions -------------------------------------------------------- *)
Definition src_loop (ve : venv) (za : asset) :=
  fix go (l : list source) (st : sstate) : sres (list funding * sstate) :=
  match l with
  | [] => SOk ([], st)
  | s1 :: rest =>
      sdo '(f, st1) <- sem_source ve za s1 st;
      sdo '(fs, st2) <- go rest st1;
      SOk (f :: fs, st2)
  end.
Lemma sem_source_inorder_eq : forall ve za l st,
  sem_source ve za (SInOrder l) st =
  (sdo '(fs, st1) <- src_loop ve za l st; sdo r <- assemble fs; SOk (r, st1)).
Proof. reflexivity. Qed.

Definition inorder_loop (ve : venv) :=
  fix go (l : list (expr * kod)) (f : funding) (acc : Z) (st : sstate) : sres (funding * Z * sstate) :=
  match l with
  | [] => SOk (f, acc, st)
  | (amt_e, k) :: rest =>
      sdo '(ms, mamt) <- eval_monetary ve amt_e;
      if mamt <? 0 then SErr EOtherRun
      else if negb (N.eqb (f_asset f) ms) then SErr EInvalidScript
      else
        let '(res, rem) := take_max f mamt in
        sdo '(x, st1) <- sem_kod ve k res st;
        sdo f' <- assemble [x; rem];
        go rest f' (acc + total x) st1
  end.
Lemma sem_dest_inorder_eq : forall ve l rem_k f st,
  sem_dest ve (DInOrder l rem_k) f st =
  (sdo '(f1, kept_total, st1) <- inorder_loop ve l f 0 st;
   match take (freverse f1) kept_total with
   | None => SErr EInsufficient
   | Some (res, rem) =>
       sdo '(x, st2) <- sem_kod ve rem_k (freverse rem) st1;
       sdo r <- assemble [x; freverse res];
       SOk (r, st2)
   end).
Proof. reflexivity. Qed.

Definition dallot_loop (ve : venv) :=
  fix go (l : list (aportion * kod)) (parts : list Z) (f : funding) (st : sstate) : sres (funding * sstate) :=
  match l, parts with
  | [], _ => SOk (f, st)
  | (_, k) :: rest, p :: ps =>
      match take f p with
      | None => SErr EInsufficient
      | Some (res, rem) =>
          sdo '(x, st1) <- sem_kod ve k res st;
          sdo f' <- assemble [x; rem];
          go rest ps f' st1
      end
  | _ :: _, [] => SErr EInvalidScript
  end.
Lemma sem_dest_allot_eq : forall ve l f st,
  sem_dest ve (DAllot l) f st =
  (sdo a <- make_allotment ve (map fst l); dallot_loop ve l (allocate a (total f)) f st).
Proof. reflexivity. Qed.

Definition sallot_loop (ve : venv) (za ms : asset) :=
  fix go (l : list (aportion * source)) (parts : list Z) (st : sstate) : sres (list funding * sstate) :=
  match l, parts with
  | [], _ => SOk ([], st)
  | (_, s) :: rest, p :: ps =>
      sdo '(f, st1) <- sem_source ve za s st;
      sdo '(r, st2) <- take_from ve (fallback_of s) st1 f ms p;
      sdo '(rs, st3) <- go rest ps st2;
      SOk (r :: rs, st3)
  | _ :: _, [] => SErr EInvalidScript
  end.
Lemma sem_send_allot_eq : forall ve e l d st,
  sem_send ve (SendMon e) (VSrcAllot l) d st =
  (sdo '(f, st1) <-
     (sdo za <- lead_asset ve e;
      sdo '(ms, mamt) <- eval_monetary ve e;
      sdo a <- make_allotment ve (map fst l);
      sdo '(fs, st1) <- sallot_loop ve za ms l (allocate a mamt) st;
      sdo r <- assemble fs;
      SOk (r, st1));
   sdo '(lo, st2) <- sem_dest ve d f st1;
   do_repay st2 lo).
Proof. reflexivity. Qed.

(* ---- the fallback account is world or has an unbounded grant (a syntactic fact) -------------------------- *)
Lemma fallback_of_grant : forall ve s e a,
  fallback_of s = Some e -> eval_account ve e = SOk a -> a = world \/ In (GUnb a) (src_grants ve s).
Proof.
  intros ve s. induction s as [acc ov|m s IH|l IH] using source_ind2; intros e a F E.
  - cbn [fallback_of] in F. destruct ov as [|oe|].
    + destruct (is_world_lit acc) eqn:W; [|discriminate]. inversion F; subst e.
      destruct acc; cbn [is_world_lit] in W; try discriminate. apply N.eqb_eq in W. subst.
      cbn in E. inversion E. left; reflexivity.
    + discriminate.
    + inversion F; subst e. right. cbn [src_grants]. rewrite E. left; reflexivity.
  - discriminate.
  - cbn [src_grants]. induction IH as [|x r Hx Hr IHr]; [discriminate|].
    cbn [flat_map]. destruct r as [|y r'].
    + cbn [fallback_of] in F. destruct (Hx _ _ F E) as [?|?]; [left; auto|right; apply in_or_app; left; auto].
    + assert (F' : fallback_of (SInOrder (y :: r')) = Some e) by exact F.
      destruct (IHr F') as [?|?]; [left; auto|right; apply in_or_app; right; auto].
Qed.

Section Sem.
  Variable G : list gentry.
  Variable b0 : account -> asset -> Z.
  Variable Tr : account -> asset -> Prop.
  Variable ve : venv.
  Local Notation g := (grant_of G).
  Local Notation Inv := (Inv G b0 Tr).
  Local Notation fgood := (fgood Tr).

  Definition InvS (st : sstate) (fs : list funding) : Prop := Inv (s_bals st) (s_posts st) fs.

  Lemma InvS_split : forall st f x y fs, InvS st (f :: fs) ->
    (forall a s, hp a s x + hp a s y = hp a s f) -> fgood x -> fgood y -> InvS st (x :: y :: fs).
  Proof.
    intros st f x y fs HI E Gx Gy. eapply Inv_change; [exact HI| |].
    - repeat constructor; auto. eapply Inv_good_tail; eauto.
    - intros a s. cbn [held]. specialize (E a s). lia.
  Qed.

  Lemma InvS_merge : forall st r x y fs, InvS st (x :: y :: fs) ->
    (forall a s, hp a s r = hp a s x + hp a s y) -> fgood r -> InvS st (r :: fs).
  Proof.
    intros st r x y fs HI E Gr. eapply Inv_change; [exact HI| |].
    - constructor; auto. pose proof (inv_good _ _ _ _ _ _ HI) as Gd. inversion Gd as [|? ? _ Gd']. inversion Gd'; auto.
    - intros a s. cbn [held]. specialize (E a s). lia.
  Qed.

  Lemma InvS_swap : forall st x y fs, InvS st (x :: y :: fs) -> InvS st (y :: x :: fs).
  Proof.
    intros st x y fs HI. eapply Inv_change; [exact HI| |].
    - pose proof (inv_good _ _ _ _ _ _ HI) as Gd. inversion Gd as [|? ? Gx Gd']. inversion Gd' as [|? ? Gy Gd''].
      repeat constructor; auto.
    - intros a s. cbn [held]. lia.
  Qed.

  Lemma InvS_good2 : forall st x y fs, InvS st (x :: y :: fs) -> fgood x /\ fgood y.
  Proof.
    intros st x y fs HI. pose proof (inv_good _ _ _ _ _ _ HI) as Gd. inversion Gd as [|? ? Gx Gd'].
    inversion Gd'; auto.
  Qed.

  Lemma InvS_take : forall st f n res rem fs, InvS st (f :: fs) -> take f n = Some (res, rem) ->
    InvS st (res :: rem :: fs).
  Proof.
    intros st f n res rem fs HI T. pose proof (Inv_good_head _ _ _ _ _ _ _ HI) as Gf.
    destruct (take_good _ _ _ _ _ Gf T). eapply InvS_split; eauto. eapply take_hp; eauto.
  Qed.

  Lemma InvS_take_max : forall st f n res rem fs, InvS st (f :: fs) -> take_max f n = (res, rem) ->
    InvS st (res :: rem :: fs).
  Proof.
    intros st f n res rem fs HI T. pose proof (Inv_good_head _ _ _ _ _ _ _ HI) as Gf.
    destruct (take_max_good _ _ _ _ _ Gf T). eapply InvS_split; eauto. eapply take_max_hp; eauto.
  Qed.

  Lemma InvS_assemble2 : forall st x y r fs, InvS st (x :: y :: fs) -> assemble [x; y] = SOk r ->
    InvS st (r :: fs).
  Proof.
    intros st x y r fs HI A. destruct (InvS_good2 _ _ _ _ HI) as [Gx Gy].
    eapply InvS_merge; [exact HI| |].
    - intros a s. rewrite (assemble_held _ _ A a s). cbn [held]. lia.
    - eapply assemble_good; [exact A|]. repeat constructor; auto.
  Qed.

  Lemma InvS_freverse : forall st f fs, InvS st (f :: fs) -> InvS st (freverse f :: fs).
  Proof.
    intros st f fs HI. eapply Inv_change; [exact HI| |].
    - constructor; [apply freverse_good; eapply Inv_good_head; eauto|eapply Inv_good_tail; eauto].
    - intros a s. cbn [held]. rewrite freverse_hp. reflexivity.
  Qed.

  Lemma do_repay_inv : forall st f fs st', InvS st (f :: fs) -> do_repay st f = SOk st' -> InvS st' fs.
  Proof.
    intros st f fs st' HI R. unfold do_repay in R.
    destruct (repay (s_bals st) (f_asset f) (f_parts f)) as [b|] eqn:E; [|discriminate].
    inversion R; subst. unfold InvS; cbn [with_bals s_bals s_posts]. eapply repay_inv; eauto.
  Qed.

  Lemma do_send_inv : forall st f fs d, InvS st (f :: fs) -> InvS (do_send st d f) fs.
  Proof.
    intros st f fs d HI. unfold InvS, do_send; cbn [s_bals s_posts].
    exact (send_inv G b0 Tr _ _ _ _ d HI).
  Qed.

  Lemma missing_nonneg : forall tot amt : Z, 0 <= (if tot <? amt then amt - tot else 0).
  Proof. intros. destruct (Z.ltb_spec tot amt); lia. Qed.

  (* the tail shared by `max ... from` and take_from with a fallback *)
  Lemma fallback_tail : forall st res fs a s amt extra b r,
    InvS st (res :: fs) -> 0 <= amt -> (a = world \/ forall x, g a x = None) ->
    withdraw_always (s_bals st) a s amt = Some (extra, b) -> assemble [res; extra] = SOk r ->
    InvS (with_bals st b) (r :: fs).
  Proof.
    intros st res fs a s amt extra b r HI NN C W A.
    assert (I1 : InvS (with_bals st b) (extra :: res :: fs)).
    { unfold InvS; cbn [with_bals s_bals s_posts]. eapply withdraw_always_inv; eauto. }
    apply InvS_swap in I1. eapply InvS_assemble2; eauto.
  Qed.

  Definition fb_ok (fb : option expr) : Prop :=
    forall e a, fb = Some e -> eval_account ve e = SOk a -> a = world \/ forall x, g a x = None.

  Lemma fb_ok_of_source : forall s, incl (src_grants ve s) G -> fb_ok (fallback_of s).
  Proof.
    intros s HG e a F E. destruct (fallback_of_grant ve s e a F E) as [?|Hin]; [left; auto|right].
    intros x. apply grant_of_unb. apply HG. exact Hin.
  Qed.

  Lemma take_from_inv : forall fb st f s amt r st' fs,
    fb_ok fb -> InvS st (f :: fs) -> take_from ve fb st f s amt = SOk (r, st') -> InvS st' (r :: fs).
  Proof.
    intros fb st f s amt r st' fs FB HI H. unfold take_from in H. destruct fb as [fbe|].
    - destruct (amt <? 0); [discriminate|]. destruct (negb (N.eqb (f_asset f) s)); [discriminate|].
      destruct (take_max f amt) as [res rem] eqn:ET.
      destruct (do_repay st rem) as [st1|] eqn:ER; cbn [sbind] in H; [|discriminate].
      destruct (eval_account ve fbe) as [a|] eqn:EA; cbn [sbind] in H; [|discriminate].
      match type of H with context [withdraw_always ?bb ?aa ?ss ?mm] =>
        destruct (withdraw_always bb aa ss mm) as [[extra bx]|] eqn:EW; [|discriminate] end.
      destruct (assemble [res; extra]) as [r1|] eqn:EAs; cbn [sbind] in H; [|discriminate].
      inversion H; subst r st'; clear H.
      assert (I1 : InvS st1 (res :: fs)).
      { eapply do_repay_inv; [|exact ER]. apply InvS_swap. eapply InvS_take_max; eauto. }
      exact (fallback_tail st1 res fs a s _ extra bx r1 I1 (missing_nonneg _ _) (FB _ _ eq_refl EA) EW EAs).
    - destruct (negb (N.eqb (f_asset f) s)); [discriminate|].
      destruct (take f amt) as [[res rem]|] eqn:ET; [|discriminate].
      destruct (do_repay st rem) as [st1|] eqn:ER; cbn [sbind] in H; [|discriminate].
      inversion H; subst r st'; clear H.
      eapply do_repay_inv; [|exact ER]. apply InvS_swap. eapply InvS_take; eauto.
  Qed.

  (* ---- sources --------------------------------------------------------------------------------------- *)
  Definition src_P (za : asset) (s : source) : Prop :=
    forall st fs f st', incl (src_grants ve s) G -> InvS st fs ->
      sem_source ve za s st = SOk (f, st') -> InvS st' (f :: fs).

  Lemma src_loop_inv : forall za l, Forall (src_P za) l ->
    forall st fs fl st', incl (flat_map (src_grants ve) l) G -> InvS st fs ->
      src_loop ve za l st = SOk (fl, st') -> InvS st' (fl ++ fs).
  Proof.
    intros za l HP. induction HP as [|s1 rest H1 _ IH]; intros st fs fl st' HG HI H; cbn [src_loop] in H.
    - inversion H; subst. exact HI.
    - cbn [flat_map] in HG. apply incl_app_inv in HG. destruct HG as [HG1 HG2].
      destruct (sem_source ve za s1 st) as [[f st1]|] eqn:E1; cbn [sbind] in H; [|discriminate].
      destruct (src_loop ve za rest st1) as [[fs' st2]|] eqn:E2; cbn [sbind] in H; [|discriminate].
      inversion H; subst fl st'; clear H.
      specialize (H1 _ _ _ _ HG1 HI E1). specialize (IH _ _ _ _ HG2 H1 E2).
      pose proof (inv_good _ _ _ _ _ _ IH) as Gd. apply Forall_app in Gd. destruct Gd as [Ga Gb].
      inversion Gb as [|? ? Gf Gfs]; subst.
      eapply Inv_change; [exact IH| |].
      + cbn [app]. constructor; auto. apply Forall_app; auto.
      + intros a s. cbn [app held]. rewrite !held_app. cbn [held]. lia.
  Qed.

  Lemma sem_source_inv : forall za s, src_P za s.
  Proof.
    intros za s. induction s as [acc ov|m s IH|l IH] using source_ind2; intros st fs f st' HG HI H.
    - cbn [sem_source] in H. cbn [src_grants] in HG.
      destruct (eval_account ve acc) as [a|] eqn:Ea; cbn [sbind] in H; [|discriminate].
      destruct ov as [|oe|]; cbn [sbind] in H.
      + destruct (withdraw_all (s_bals st) a za 0) as [[f1 b1]|] eqn:W; [|discriminate].
        inversion H; subst f st'. unfold InvS; cbn [with_bals s_bals s_posts].
        eapply withdraw_all_inv; eauto. intros _. apply grant_of_nonneg.
      + destruct (eval_monetary ve oe) as [[oa oamt]|] eqn:Eo; cbn [sbind] in H; [|discriminate].
        destruct (withdraw_all (s_bals st) a oa oamt) as [[f1 b1]|] eqn:W; [|discriminate].
        inversion H; subst f st'. unfold InvS; cbn [with_bals s_bals s_posts].
        eapply withdraw_all_inv; eauto. intros _. apply grant_of_upto. apply HG. left; reflexivity.
      + destruct (withdraw_all (s_bals st) a za 0) as [[f1 b1]|] eqn:W; [|discriminate].
        inversion H; subst f st'. unfold InvS; cbn [with_bals s_bals s_posts].
        eapply withdraw_all_inv; eauto. intros _. apply grant_of_nonneg.
    - cbn [sem_source] in H. cbn [src_grants] in HG.
      destruct (sem_source ve za s st) as [[f1 st1]|] eqn:E1; cbn [sbind] in H; [|discriminate].
      destruct (eval_monetary ve m) as [[ms mamt]|] eqn:E2; cbn [sbind] in H; [|discriminate].
      destruct (mamt <? 0); [discriminate|]. destruct (negb (N.eqb (f_asset f1) ms)); [discriminate|].
      destruct (take_max f1 mamt) as [res rem] eqn:ET.
      destruct (do_repay st1 rem) as [st2|] eqn:ER; cbn [sbind] in H; [|discriminate].
      specialize (IH _ _ _ _ HG HI E1).
      assert (I2 : InvS st2 (res :: fs)).
      { eapply do_repay_inv; [|exact ER]. apply InvS_swap. eapply InvS_take_max; eauto. }
      destruct (fallback_of s) as [fbe|] eqn:EF.
      + destruct (eval_account ve fbe) as [a|] eqn:EA; cbn [sbind] in H; [|discriminate].
        match type of H with context [withdraw_always ?bb ?aa ?ss ?mm] =>
          destruct (withdraw_always bb aa ss mm) as [[extra bx]|] eqn:EW; [|discriminate] end.
        destruct (assemble [res; extra]) as [r1|] eqn:EAs; cbn [sbind] in H; [|discriminate].
        inversion H; subst f st'; clear H.
        exact (fallback_tail st2 res fs a ms _ extra bx r1 I2 (missing_nonneg _ _)
                 (fb_ok_of_source s HG _ _ EF EA) EW EAs).
      + inversion H; subst f st'. exact I2.
    - rewrite sem_source_inorder_eq in H. cbn [src_grants] in HG.
      destruct (src_loop ve za l st) as [[fl st1]|] eqn:E1; cbn [sbind] in H; [|discriminate].
      destruct (assemble fl) as [r|] eqn:EA; cbn [sbind] in H; [|discriminate].
      inversion H; subst f st'; clear H.
      pose proof (src_loop_inv za l IH _ _ _ _ HG HI E1) as I1.
      pose proof (inv_good _ _ _ _ _ _ I1) as Gd. apply Forall_app in Gd. destruct Gd as [Ga Gb].
      eapply Inv_change; [exact I1| |].
      + constructor; auto. eapply assemble_good; eauto.
      + intros a s. cbn [held]. rewrite held_app, (assemble_held _ _ EA a s). reflexivity.
  Qed.

  (* ---- destinations ---------------------------------------------------------------------------------- *)
  Definition dest_P (d : dest) : Prop :=
    forall f st fs lo st', InvS st (f :: fs) -> sem_dest ve d f st = SOk (lo, st') -> InvS st' (lo :: fs).
  Definition kod_P (k : kod) : Prop :=
    forall f st fs lo st', InvS st (f :: fs) -> sem_kod ve k f st = SOk (lo, st') -> InvS st' (lo :: fs).

  Lemma inorder_loop_inv : forall l, Forall (fun p : expr * kod => kod_P (snd p)) l ->
    forall f acc st fs f1 kt st1, InvS st (f :: fs) ->
      inorder_loop ve l f acc st = SOk (f1, kt, st1) -> InvS st1 (f1 :: fs).
  Proof.
    intros l HP. induction HP as [|[amt_e k] rest Hk _ IH]; intros f acc st fs f1 kt st1 HI H;
      cbn [inorder_loop] in H.
    - inversion H; subst. exact HI.
    - cbn [snd] in Hk.
      destruct (eval_monetary ve amt_e) as [[ms mamt]|] eqn:E1; cbn [sbind] in H; [|discriminate].
      destruct (mamt <? 0); [discriminate|]. destruct (negb (N.eqb (f_asset f) ms)); [discriminate|].
      destruct (take_max f mamt) as [res rem] eqn:ET.
      destruct (sem_kod ve k res st) as [[x st2]|] eqn:EK; cbn [sbind] in H; [|discriminate].
      destruct (assemble [x; rem]) as [f'|] eqn:EA; cbn [sbind] in H; [|discriminate].
      eapply IH; [|exact H]. eapply InvS_assemble2; [|exact EA].
      eapply Hk; [|exact EK]. eapply InvS_take_max; eauto.
  Qed.

  Lemma dallot_loop_inv : forall l, Forall (fun p : aportion * kod => kod_P (snd p)) l ->
    forall parts f st fs lo st', InvS st (f :: fs) ->
      dallot_loop ve l parts f st = SOk (lo, st') -> InvS st' (lo :: fs).
  Proof.
    intros l HP. induction HP as [|[ap k] rest Hk _ IH]; intros parts f st fs lo st' HI H;
      cbn [dallot_loop] in H.
    - inversion H; subst. exact HI.
    - cbn [snd] in Hk. destruct parts as [|p ps]; [discriminate|].
      destruct (take f p) as [[res rem]|] eqn:ET; [|discriminate].
      destruct (sem_kod ve k res st) as [[x st2]|] eqn:EK; cbn [sbind] in H; [|discriminate].
      destruct (assemble [x; rem]) as [f'|] eqn:EA; cbn [sbind] in H; [|discriminate].
      eapply IH; [|exact H]. eapply InvS_assemble2; [|exact EA].
      eapply Hk; [|exact EK]. eapply InvS_take; eauto.
  Qed.

  Lemma sem_dest_inv : forall d, dest_P d.
  Proof.
    apply (dest_ind2 dest_P kod_P).
    - intros e f st fs lo st' HI H. cbn [sem_dest] in H.
      destruct (take f (total f)) as [[res rem]|] eqn:ET; [|discriminate].
      destruct (eval_account ve e) as [a|] eqn:EA; cbn [sbind] in H; [|discriminate].
      inversion H; subst lo st'; clear H. apply do_send_inv. eapply InvS_take; eauto.
    - intros l k HL HK f st fs lo st' HI H. rewrite sem_dest_inorder_eq in H.
      destruct (inorder_loop ve l f 0 st) as [[[f1 kt] st1]|] eqn:EL; cbn [sbind] in H; [|discriminate].
      destruct (take (freverse f1) kt) as [[res rem]|] eqn:ET; [|discriminate].
      destruct (sem_kod ve k (freverse rem) st1) as [[x st2]|] eqn:EK; cbn [sbind] in H; [|discriminate].
      destruct (assemble [x; freverse res]) as [r|] eqn:EA; cbn [sbind] in H; [|discriminate].
      inversion H; subst lo st'; clear H.
      pose proof (inorder_loop_inv l HL _ _ _ _ _ _ _ HI EL) as I1.
      apply InvS_freverse in I1. pose proof (InvS_take _ _ _ _ _ _ I1 ET) as I2.
      apply InvS_swap in I2. apply InvS_freverse in I2.
      pose proof (HK _ _ _ _ _ I2 EK) as I3.
      eapply InvS_assemble2; [|exact EA].
      apply InvS_swap. apply InvS_freverse. apply InvS_swap. exact I3.
    - intros l HL f st fs lo st' HI H. rewrite sem_dest_allot_eq in H.
      destruct (make_allotment ve (map fst l)) as [al|] eqn:EM; cbn [sbind] in H; [|discriminate].
      eapply dallot_loop_inv; eauto.
    - intros f st fs lo st' HI H. cbn [sem_kod] in H. inversion H; subst. exact HI.
    - intros d HD f st fs lo st' HI H. cbn [sem_kod] in H. eapply HD; eauto.
  Qed.

  (* ---- send ------------------------------------------------------------------------------------------ *)
  Lemma sallot_loop_inv : forall za ms l parts st fs fl st',
    incl (flat_map (fun p : aportion * source => src_grants ve (snd p)) l) G -> InvS st fs ->
    sallot_loop ve za ms l parts st = SOk (fl, st') -> InvS st' (fl ++ fs).
  Proof.
    intros za ms l. induction l as [|[ap s] rest IH]; intros parts st fs fl st' HG HI H;
      cbn [sallot_loop] in H.
    - inversion H; subst. exact HI.
    - destruct parts as [|p ps]; [discriminate|].
      cbn [flat_map snd] in HG. apply incl_app_inv in HG. destruct HG as [HG1 HG2].
      destruct (sem_source ve za s st) as [[f st1]|] eqn:E1; cbn [sbind] in H; [|discriminate].
      destruct (take_from ve (fallback_of s) st1 f ms p) as [[r st2]|] eqn:E2; cbn [sbind] in H; [|discriminate].
      destruct (sallot_loop ve za ms rest ps st2) as [[rs st3]|] eqn:E3; cbn [sbind] in H; [|discriminate].
      inversion H; subst fl st'; clear H.
      pose proof (sem_source_inv za s _ _ _ _ HG1 HI E1) as I1.
      pose proof (take_from_inv _ _ _ _ _ _ _ _ (fb_ok_of_source s HG1) I1 E2) as I2.
      pose proof (IH _ _ _ _ _ HG2 I2 E3) as I3.
      pose proof (inv_good _ _ _ _ _ _ I3) as Gd. apply Forall_app in Gd. destruct Gd as [Ga Gb].
      inversion Gb as [|? ? Gf Gfs]; subst.
      eapply Inv_change; [exact I3| |].
      + cbn [app]. constructor; auto. apply Forall_app; auto.
      + intros a x. cbn [app held]. rewrite !held_app. cbn [held]. lia.
  Qed.

  Lemma send_tail_inv : forall d f st1 st',
    InvS st1 [f] ->
    (sdo '(lo, st2) <- sem_dest ve d f st1; do_repay st2 lo) = SOk st' -> InvS st' [].
  Proof.
    intros d f st1 st' HI H.
    destruct (sem_dest ve d f st1) as [[lo st2]|] eqn:ED; cbn [sbind] in H; [|discriminate].
    eapply do_repay_inv; [|exact H]. eapply sem_dest_inv; eauto.
  Qed.

  Lemma sem_send_inv : forall m src d st st',
    incl (vasrc_grants ve src) G -> InvS st [] -> sem_send ve m src d st = SOk st' -> InvS st' [].
  Proof.
    intros m src d st st' HG HI H. destruct m as [e|ae], src as [s|l].
    - unfold sem_send in H. cbn [vasrc_grants] in HG.
      destruct (lead_asset ve e) as [za|] eqn:EL; cbn [sbind] in H; [|discriminate].
      destruct (sem_source ve za s st) as [[f st1]|] eqn:ES; cbn [sbind] in H; [|discriminate].
      destruct (eval_monetary ve e) as [[ms mamt]|] eqn:EM; cbn [sbind] in H; [|discriminate].
      destruct (take_from ve (fallback_of s) st1 f ms mamt) as [[r st2]|] eqn:ET; cbn [sbind] in H; [|discriminate].
      eapply send_tail_inv; [|exact H].
      eapply take_from_inv; [apply fb_ok_of_source; exact HG| |exact ET].
      eapply sem_source_inv; eauto.
    - rewrite sem_send_allot_eq in H. cbn [vasrc_grants] in HG.
      destruct (lead_asset ve e) as [za|] eqn:EL; cbn [sbind] in H; [|discriminate].
      destruct (eval_monetary ve e) as [[ms mamt]|] eqn:EM; cbn [sbind] in H; [|discriminate].
      destruct (make_allotment ve (map fst l)) as [al|] eqn:EA; cbn [sbind] in H; [|discriminate].
      destruct (sallot_loop ve za ms l (allocate al mamt) st) as [[fl st1]|] eqn:ES; cbn [sbind] in H; [|discriminate].
      destruct (assemble fl) as [r|] eqn:EAs; cbn [sbind] in H; [|discriminate].
      eapply send_tail_inv; [|exact H].
      pose proof (sallot_loop_inv _ _ _ _ _ _ _ _ HG HI ES) as I1. rewrite app_nil_r in I1.
      eapply Inv_change; [exact I1| |].
      + constructor; [|constructor]. eapply assemble_good; eauto. apply (inv_good _ _ _ _ _ _ I1).
      + intros a s. cbn [held]. rewrite (assemble_held _ _ EAs a s). lia.
    - unfold sem_send in H. cbn [vasrc_grants] in HG.
      destruct (eval_asset ve ae) as [za|] eqn:EL; cbn [sbind] in H; [|discriminate].
      destruct (sem_source ve za s st) as [[f st1]|] eqn:ES; cbn [sbind] in H; [|discriminate].
      eapply send_tail_inv; [|exact H]. eapply sem_source_inv; eauto.
    - unfold sem_send in H. cbn [sbind] in H. discriminate.
  Qed.

  (* ---- save, statements ------------------------------------------------------------------------------ *)
  Lemma lower_inv : forall bl ps a s z z', Inv bl ps [] -> bal_get bl a s = Some z -> z' <= z ->
    Inv (bal_set bl a s z') ps [].
  Proof.
    intros bl ps a s z z' HI EB LE. constructor; try apply HI.
    - intros a' s' Hn. rewrite bal_get_set in Hn. destruct (N.eqb a' a && N.eqb s' s) eqn:K.
      + apply key_eq in K. destruct K; subst. apply (inv_dom _ _ _ _ _ _ HI). rewrite EB. discriminate.
      + apply (inv_dom _ _ _ _ _ _ HI); auto.
    - intros a' s' Hw. pose proof (inv_pw _ _ _ _ _ _ HI a' s' Hw) as P. cbn [held] in *.
      rewrite mbz_set. destruct (N.eqb a' a && N.eqb s' s) eqn:K.
      + apply key_eq in K. destruct K; subst a' s'. rewrite (mbz_get _ _ _ _ EB) in P.
        eapply pw_step; [exact P|lia|]. intros Q. lia.
      + eapply pw_step; [exact P|lia|]. intros Q. lia.
  Qed.

  Lemma sem_save_inv : forall m acc st st', InvS st [] -> sem_save ve m acc st = SOk st' -> InvS st' [].
  Proof.
    intros m acc st st' HI H. unfold sem_save in H. destruct m as [e|ae].
    - destruct (eval_monetary ve e) as [[s amt]|] eqn:E1; cbn [sbind] in H; [|discriminate].
      destruct (eval_account ve acc) as [a|] eqn:E2; cbn [sbind] in H; [|discriminate].
      destruct (amt <? 0) eqn:E3; [discriminate|]. apply Z.ltb_ge in E3.
      destruct (bal_get (s_bals st) a s) as [z|] eqn:EB; inversion H; subst st'; [|exact HI].
      unfold InvS; cbn [with_bals s_bals s_posts]. eapply lower_inv; eauto. lia.
    - destruct (eval_asset ve ae) as [s|] eqn:E1; cbn [sbind] in H; [|discriminate].
      destruct (eval_account ve acc) as [a|] eqn:E2; cbn [sbind] in H; [|discriminate].
      destruct (bal_get (s_bals st) a s) as [z|] eqn:EB; [|inversion H; subst; exact HI].
      destruct (0 <? z) eqn:E3; inversion H; subst st'; [|exact HI]. apply Z.ltb_lt in E3.
      unfold InvS; cbn [with_bals s_bals s_posts]. eapply lower_inv; eauto. lia.
  Qed.

  Lemma sem_stmt_inv : forall s st st',
    incl (stmt_grants ve s) G -> InvS st [] -> sem_stmt ve s st = SOk st' -> InvS st' [].
  Proof.
    intros s st st' HG HI H. destruct s; cbn [sem_stmt] in H.
    - destruct (eval ve e); cbn [sbind] in H; [|discriminate]. inversion H; subst. exact HI.
    - eapply sem_save_inv; eauto.
    - destruct (eval ve v); cbn [sbind] in H; [|discriminate]. inversion H; subst. exact HI.
    - destruct (eval ve v); cbn [sbind] in H; [|discriminate].
      destruct (eval_account ve acc); cbn [sbind] in H; [|discriminate]. inversion H; subst. exact HI.
    - discriminate.
    - eapply sem_send_inv; eauto.
  Qed.

  Lemma sem_stmts_inv : forall l st st',
    incl (flat_map (stmt_grants ve) l) G -> InvS st [] -> sem_stmts ve l st = SOk st' -> InvS st' [].
  Proof.
    induction l as [|s l IH]; intros st st' HG HI H; cbn [sem_stmts] in H.
    - inversion H; subst. exact HI.
    - cbn [flat_map] in HG. apply incl_app_inv in HG. destruct HG as [HG1 HG2].
      destruct (sem_stmt ve s st) as [st1|] eqn:E; cbn [sbind] in H; [|discriminate].
      eapply IH; [exact HG2| |exact H]. eapply sem_stmt_inv; eauto.
  Qed.
End Sem.

(* ---- the script ------------------------------------------------------------------------------------------ *)
Definition tracked_in (b : balances) (a : account) (s : asset) : Prop := bal_get b a s <> None.

Lemma sem_finish_posts : forall st extra r, sem_finish st extra = SOk r -> res_posts r = s_posts st.
Proof.
  intros st extra r H. unfold sem_finish in H.
  match type of H with (if ?c then _ else _) = _ => destruct c end; [discriminate|]. inversion H; subst. reflexivity.
Qed.

Theorem sem_floor_and_tracked : forall sc ve b extra r,
  sem sc ve b extra = SOk r ->
  floor_ok (grant sc ve) (init b) (res_posts r) /\
  Forall (fun p => tracked_in b (p_src p) (p_asset p)) (res_posts r).
Proof.
  intros sc ve b extra r H. unfold sem in H.
  match type of H with sbind (sem_stmts ve ?l ?st0) _ = _ =>
    destruct (sem_stmts ve l st0) as [st|] eqn:E; cbn [sbind] in H; [|discriminate] end.
  rewrite (sem_finish_posts _ _ _ H).
  assert (I0 : InvS (script_grants ve sc) (init b) (tracked_in b)
                 {| s_bals := b; s_posts := []; s_txmeta := []; s_accmeta := []; s_printed := [] |} []).
  { unfold InvS; cbn [s_bals s_posts]. constructor.
    - constructor.
    - apply floor_ok_nil.
    - intros a s Hn. exact Hn.
    - constructor.
    - intros a s _. cbn [held]. unfold running, init. cbn [delta]. split; [lia|intros Q; lia]. }
  pose proof (sem_stmts_inv (script_grants ve sc) (init b) (tracked_in b) ve (s_stmts sc) _ _
                (incl_refl _) I0 E) as I1.
  split; [apply (inv_floor _ _ _ _ _ _ I1)|apply (inv_src _ _ _ _ _ _ I1)].
Qed.
