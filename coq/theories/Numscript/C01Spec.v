(* C01 — "script execution never overdraws an account": the specification side (definitions only).
   [floor_ok g b0 ps]: replaying the postings [ps] in order on the balances [b0], no posting takes from a non-world
   account more than max 0 (running balance + overdraft granted by the script). [grant]: the overdraft a script
   grants, computed from its AST and the values of its variables. *)
From FL Require Export Numscript.Sem Numscript.Corr.
Open Scope Z_scope.

(* ---- balances as a function ------------------------------------------------------------------------- *)
(* the machine's view of a balance: an untracked (account, asset) pair reads as 0 *)
Definition mbz (b : balances) (a : account) (s : asset) : Z :=
  match bal_get b a s with Some z => z | None => 0 end.
(* the initial balance table of a run, as the function the postings are replayed on *)
Definition init (b : balances) : account -> asset -> Z := mbz b.

(* ---- replay of postings ----------------------------------------------------------------------------- *)
(* effect of one posting on the balance of (a, s): + as destination, - as source *)
Definition p_delta (p : posting) (a : account) (s : asset) : Z :=
  (if N.eqb (p_dst p) a && N.eqb (p_asset p) s then p_amount p else 0) -
  (if N.eqb (p_src p) a && N.eqb (p_asset p) s then p_amount p else 0).
Fixpoint delta (ps : list posting) (a : account) (s : asset) : Z :=
  match ps with [] => 0 | p :: r => p_delta p a s + delta r a s end.
(* balance of (a, s) after the postings [ps]: initial + credits - debits *)
Definition running (b0 : account -> asset -> Z) (ps : list posting) (a : account) (s : asset) : Z :=
  b0 a s + delta ps a s.

(* x may be taken from a balance r with granted overdraft g (None = unbounded) *)
Definition within (x r : Z) (g : option Z) : Prop :=
  match g with None => True | Some n => x <= Z.max 0 (r + n) end.

Definition floor_ok (g : account -> asset -> option Z) (b0 : account -> asset -> Z) (ps : list posting) : Prop :=
  forall ps1 p ps2, ps = ps1 ++ p :: ps2 -> p_src p <> world ->
    within (p_amount p) (running b0 ps1 (p_src p) (p_asset p)) (g (p_src p) (p_asset p)).

(* ---- the overdraft a script grants ------------------------------------------------------------------- *)
Inductive gentry :=
| GUnb (a : account)                          (* `a allowing unbounded overdraft` *)
| GUpTo (a : account) (s : asset) (n : Z).    (* `a allowing overdraft up to [s n]` *)

Fixpoint src_grants (ve : venv) (s : source) : list gentry :=
  match s with
  | SAccount acc ov =>
      match eval_account ve acc with
      | SOk a =>
          match ov with
          | OvNone => []
          | OvUnbounded => [GUnb a]
          | OvSpecific e => match eval_monetary ve e with SOk (x, n) => [GUpTo a x n] | SErr _ => [] end
          end
      | SErr _ => []
      end
  | SMaxed _ src => src_grants ve src
  | SInOrder l => flat_map (src_grants ve) l
  end.
Definition vasrc_grants (ve : venv) (v : vasource) : list gentry :=
  match v with
  | VSrc s => src_grants ve s
  | VSrcAllot l => flat_map (fun p => src_grants ve (snd p)) l
  end.
Definition stmt_grants (ve : venv) (st : stmt) : list gentry :=
  match st with StSend _ src _ => vasrc_grants ve src | _ => [] end.
Definition script_grants (ve : venv) (sc : script) : list gentry := flat_map (stmt_grants ve) (s_stmts sc).

Definition is_unb (a : account) (e : gentry) : bool := match e with GUnb a' => N.eqb a a' | _ => false end.
Definition upto_max (a : account) (s : asset) (e : gentry) (m : Z) : Z :=
  match e with GUpTo a' s' n => if N.eqb a a' && N.eqb s s' then Z.max n m else m | _ => m end.
(* None = unbounded; otherwise the largest declared bound for (a, s), at least 0 *)
Definition grant_of (G : list gentry) (a : account) (s : asset) : option Z :=
  if existsb (is_unb a) G then None else Some (fold_right (upto_max a s) 0 G).
Definition grant (sc : script) (ve : venv) : account -> asset -> option Z := grant_of (script_grants ve sc).

(* ---- what the machine tracks -------------------------------------------------------------------------- *)
(* [b] is what ResolveBalances read from the store [s] *)
Definition snapshot_of (s : store) (b : balances) : Prop :=
  forall a x z, bal_get b a x = Some z -> z = if N.eqb a world then 0 else store_balance s a x.

(* the (account, asset) pairs the `save` statements of a script name *)
Definition save_pair (ve : venv) (st : stmt) : list (account * asset) :=
  match st with
  | StSave (SendAll ae) acc =>
      match eval_asset ve ae, eval_account ve acc with SOk s, SOk a => [(a, s)] | _, _ => [] end
  | StSave (SendMon e) acc =>
      match eval_monetary ve e, eval_account ve acc with SOk (s, _), SOk a => [(a, s)] | _, _ => [] end
  | _ => []
  end.
Definition save_pairs (ve : venv) (sc : script) : list (account * asset) := flat_map (save_pair ve) (s_stmts sc).
Definition pair_tracked (b : balances) (a : account) (s : asset) : bool :=
  match bal_get b a s with Some _ => true | None => false end.
(* no `save` creates a balance entry: it names a pair the machine already tracks, or an account it does not track *)
Definition save_closed (sc : script) (ve : venv) (b : balances) : bool :=
  forallb (fun p => negb (bal_has_account b (fst p)) || pair_tracked b (fst p) (snd p)) (save_pairs ve sc).

(* ---- the semantics before the repair "fix: numscript: 'save [A *]' ..." (0ffb9a4) ---------------------- *)
(* OP_SAVE with an asset set the balance to 0 whatever its sign *)
Definition sem_save_legacy (ve : venv) (m : send_amount) (acc : expr) (st : sstate) : sres sstate :=
  match m with
  | SendAll ae =>
      sdo s <- eval_asset ve ae;
      sdo a <- eval_account ve acc;
      if bal_has_account (s_bals st) a then SOk (with_bals st (bal_set (s_bals st) a s 0)) else SOk st
  | SendMon _ => sem_save ve m acc st
  end.
Definition sem_stmt_legacy (ve : venv) (s : stmt) (st : sstate) : sres sstate :=
  match s with StSave m acc => sem_save_legacy ve m acc st | _ => sem_stmt ve s st end.
Fixpoint sem_stmts_legacy (ve : venv) (l : list stmt) (st : sstate) : sres sstate :=
  match l with
  | [] => SOk st
  | s :: r => sdo st1 <- sem_stmt_legacy ve s st; sem_stmts_legacy ve r st1
  end.
Definition sem_legacy (sc : script) (ve : venv) (b : balances) (extra_meta : list str) : sres result :=
  sdo st <- sem_stmts_legacy ve (s_stmts sc) {| s_bals := b; s_posts := []; s_txmeta := []; s_accmeta := []; s_printed := [] |};
  sem_finish st extra_meta.
