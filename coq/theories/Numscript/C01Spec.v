(* C01 — "script execution never overdraws an account": the specification side (definitions only).
   [floor_ok g b0 ps]: replaying the postings [ps] in order on the balances [b0], no posting takes from a non-world
   account more than max 0 (running balance + overdraft granted by the script). [grant]: the overdraft a script
   grants, computed from its AST and the values of its variables. *)
From FL Require Export Numscript.Sem Numscript.Corr.
Open Scope Z_scope.

(* ---- balances as a function ------------------------------------------------------------------------- *)
(* the machine's view of a balance: an untracked (account, asset) pair reads as 0 *)
Definition mbz (b : balances) (a : account) (s : asset) : Z :=
  match bal_get b a s with Some z => z | None => 0 end.
(* the initial balance table of a run, as the function the postings are replayed on *)
Definition init (b : balances) : account -> asset -> Z := mbz b.

(* ---- replay of postings ----------------------------------------------------------------------------- *)
(* effect of one posting on the balance of (a, s): + as destination, - as source *)
Definition p_delta (p : posting) (a : account) (s : asset) : Z :=
  (if N.eqb (p_dst p) a && N.eqb (p_asset p) s then p_amount p else 0) -
  (if N.eqb (p_src p) a && N.eqb (p_asset p) s then p_amount p else 0).
Fixpoint delta (ps : list posting) (a : account) (s : asset) : Z :=
  match ps with [] => 0 | p :: r => p_delta p a s + delta r a s end.
(* balance of (a, s) after the postings [ps]: initial + credits - debits *)
Definition running (b0 : account -> asset -> Z) (ps : list posting) (a : account) (s : asset) : Z :=
  b0 a s + delta ps a s.

(* x may be taken from a balance r with granted overdraft g (None = unbounded) *)
Definition within (x r : Z) (g : option Z) : Prop :=
  match g with None => True | Some n => x <= Z.max 0 (r + n) end.

Definition floor_ok (g : account -> asset -> option Z) (b0 : account -> asset -> Z) (ps : list posting) : Prop :=
  forall ps1 p ps2, ps = ps1 ++ p :: ps2 -> p_src p <> world ->
    within (p_amount p) (running b0 ps1 (p_src p) (p_asset p)) (g (p_src p) (p_asset p)).

(* ---- the overdraft a script grants ------------------------------------------------------------------- *)
Inductive gentry :=
| GUnb (a : account)                          (* `a allowing unbounded overdraft` *)
| GUpTo (a : account) (s : asset) (n : Z).    (* `a allowing overdraft up to [s n]` *)

Fixpoint src_grants (ve : venv) (s : source) : list gentry :=
  match s with
  | SAccount acc ov =>
      match eval_account ve acc with
      | SOk a =>
          match ov with
          | OvNone => []
          | OvUnbounded => [GUnb a]
          | OvSpecific e => match eval_monetary ve e with SOk (x, n) => [GUpTo a x n] | SErr _ => [] end
          end
      | SErr _ => []
      end
  | SMaxed _ src => src_grants ve src
  | SInOrder l => flat_map (src_grants ve) l
  end.
Definition vasrc_grants (ve : venv) (v : vasource) : list gentry :=
  match v with
  | VSrc s => src_grants ve s
  | VSrcAllot l => flat_map (fun p => src_grants ve (snd p)) l
  end.
Definition stmt_grants (ve : venv) (st : stmt) : list gentry :=
  match st with StSend _ src _ => vasrc_grants ve src | _ => [] end.
Definition script_grants (ve : venv) (sc : script) : list gentry := flat_map (stmt_grants ve) (s_stmts sc).

Definition is_unb (a : account) (e : gentry) : bool := match e with GUnb a' => N.eqb a a' | _ => false end.
Definition upto_max (a : account) (s : asset) (e : gentry) (m : Z) : Z :=
  match e with GUpTo a' s' n => if N.eqb a a' && N.eqb s s' then Z.max n m else m | _ => m end.
(* None = unbounded; otherwise the largest declared bound for (a, s), at least 0 *)
Definition grant_of (G : list gentry) (a : account) (s : asset) : option Z :=
  if existsb (is_unb a) G then None else Some (fold_right (upto_max a s) 0 G).
Definition grant (sc : script) (ve : venv) : account -> asset -> option Z := grant_of (script_grants ve sc).

(* ---- what the machine tracks -------------------------------------------------------------------------- *)
(* [b] is what ResolveBalances read from the store [s] *)
Definition snapshot_of (s : store) (b : balances) : Prop :=
  forall a x z, bal_get b a x = Some z -> z = if N.eqb a world then 0 else store_balance s a x.

(* ---- the semantics before the two repairs of `save` ---------------------------------------------------- *)
(* [sem_save_v0]: before "fix: numscript: 'save [A *]' ..." (0ffb9a4): OP_SAVE with an asset set the balance to 0
   whatever its sign, and both forms wrote an entry for any asset of an account present in the table.
   [sem_save_v1]: between 0ffb9a4 and 2ef37df ("save must not create a balance entry for an untracked asset"):
   the sign is checked, but an entry is still created for an untracked asset of a tracked account. *)
Definition sem_save_v0 (ve : venv) (m : send_amount) (acc : expr) (st : sstate) : sres sstate :=
  match m with
  | SendAll ae =>
      sdo s <- eval_asset ve ae;
      sdo a <- eval_account ve acc;
      if bal_has_account (s_bals st) a then SOk (with_bals st (bal_set (s_bals st) a s 0)) else SOk st
  | SendMon e =>
      sdo '(s, amt) <- eval_monetary ve e;
      sdo a <- eval_account ve acc;
      if amt <? 0 then SErr EOtherRun
      else if bal_has_account (s_bals st) a then
        SOk (with_bals st (bal_set (s_bals st) a s (mbz (s_bals st) a s - amt)))
      else SOk st
  end.
Definition sem_save_v1 (ve : venv) (m : send_amount) (acc : expr) (st : sstate) : sres sstate :=
  match m with
  | SendAll ae =>
      sdo s <- eval_asset ve ae;
      sdo a <- eval_account ve acc;
      if bal_has_account (s_bals st) a then
        match bal_get (s_bals st) a s with
        | Some z => if 0 <? z then SOk (with_bals st (bal_set (s_bals st) a s 0)) else SOk st
        | None => SOk (with_bals st (bal_set (s_bals st) a s 0))
        end
      else SOk st
  | SendMon _ => sem_save_v0 ve m acc st
  end.

(* [sem] with another rule for `save` *)
Definition save_rule := venv -> send_amount -> expr -> sstate -> sres sstate.
Definition sem_stmt_with (sv : save_rule) (ve : venv) (s : stmt) (st : sstate) : sres sstate :=
  match s with StSave m acc => sv ve m acc st | _ => sem_stmt ve s st end.
Fixpoint sem_stmts_with (sv : save_rule) (ve : venv) (l : list stmt) (st : sstate) : sres sstate :=
  match l with
  | [] => SOk st
  | s :: r => sdo st1 <- sem_stmt_with sv ve s st; sem_stmts_with sv ve r st1
  end.
Definition sem_with (sv : save_rule) (sc : script) (ve : venv) (b : balances) (extra_meta : list str) : sres result :=
  sdo st <- sem_stmts_with sv ve (s_stmts sc)
              {| s_bals := b; s_posts := []; s_txmeta := []; s_accmeta := []; s_printed := [] |};
  sem_finish st extra_meta.
